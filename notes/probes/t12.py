from orquesta.utils import parameters as p
import yaml
cases = ['x=1', 'x=-1', 'x=1.5', 'x=.5', 'x=true', 'x=False', 'x=null', 'x="a b"', "x='a b'", 'x="a=b"', 'x="a in b"', 'x=\'{"k": 1}\'', 'x="{\\"k\\": 1}"', 'x=<% ctx(y) %>', 'x="<% ctx(y) %>"', 'x=[1,2] y=[3]', 'x=abc', 'x="1"', "x='true'", 'x=1e5', 'x=-1.5e3', 'x="say \'hi\'"', 'x=1,y=2;z=3', 'x="a" y="b"', 'x=[1, 2, 3], y="q"', 'x={{ ctx("y") }}', 'x=01', 'x=1_000', 'x=None', 'x=""']
for c in cases:
    print(repr(c), '->', p.parse_inline_params(c))
