import sys, json, copy
from orquesta import conducting, events, statuses, requests
from orquesta.specs import native as native_specs

def mk(wf, inputs=None):
    spec = native_specs.WorkflowSpec(wf)
    ins = spec.inspect()
    c = conducting.WorkflowConductor(spec, inputs=inputs or {})
    return spec, ins, c

def ev(status, result=None):
    return events.ActionExecutionEvent(status, result=result)

def nt(c):
    return [(t['id'], t['route'], [a.get('item_id') for a in t['actions']]) for t in c.get_next_tasks()]

def st(c):
    s = c.workflow_state
    return dict(status=s.status, seq=[(t['id'], t['route'], t.get('status'), t.get('term')) for t in s.sequence], staged=[(t['id'], t['route'], t['ready'], t.get('items'), t.get('completed'), t.get('run_on_fail')) for t in s.staged])
