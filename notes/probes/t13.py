from drv import *
wf = """
version: 1.0
tasks:
  a:
    action: core.noop
    next:
      - when: <% failed() %>
        do: b
  b:
    action: core.noop
"""
for first in ['requested','scheduled','delayed']:
  for fin in ['timeout','abandoned']:
    spec, ins, c = mk(wf)
    c.request_workflow_status('running'); nt(c)
    c.update_task_state('a', 0, ev(first))
    try:
        c.update_task_state('a', 0, ev(fin))
        print(first, fin, st(c))
    except Exception as e:
        print(first, fin, 'ESCAPED', type(e).__name__, e, st(c))
