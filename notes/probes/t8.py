from drv import *
wf = """
version: 1.0
tasks:
  r:
    action: core.noop
    next:
      - publish: x=1
        do: [a, b]
  a:
    action: core.noop
    next:
      - publish: x=2
        do: j
  b:
    action: core.noop
    next:
      - do: j
  j:
    join: all
    action: core.echo message=<% ctx(x) %>
output:
  - x: <% ctx(x) %>
"""
for order in (['a','b'], ['b','a']):
    spec, ins, c = mk(wf)
    c.request_workflow_status('running')
    nt(c)
    c.update_task_state('r', 0, ev('running'))
    c.update_task_state('r', 0, ev('succeeded'))
    nt(c)
    c.update_task_state('a', 0, ev('running'))
    c.update_task_state('b', 0, ev('running'))
    for t in order:
        c.update_task_state(t, 0, ev('succeeded'))
    ts = c.get_next_tasks()
    print(order, ts[0]['actions'], c.workflow_state.staged[0]['ctxs'])
    c.update_task_state('j', 0, ev('running'))
    c.update_task_state('j', 0, ev('succeeded'))
    c.render_workflow_output()
    print(c.get_workflow_status(), c.get_workflow_output())
