from orquesta import machines as m, statuses as st, events as ev
W, T = m.WORKFLOW_STATE_MACHINE_DATA, m.TASK_STATE_MACHINE_DATA
task_events = set(ev.TASK_EXECUTION_EVENTS)
# pause closed
for row in ('pausing','paused','canceling'):
    print(row, 'task events ->', sorted({(e,t) for e,t in W[row].items() if e in task_events and t in st.RUNNING_STATUSES}))
    print(row, 'targets', sorted(set(W[row].values())))
# dormant doors
for tgt in ('paused','canceled','pausing','canceling','succeeded'):
    print(tgt, sorted({e for r in W for e,t in W[r].items() if t==tgt and r != tgt}))
# failure covered
for r in W:
    print(r, {e:W[r].get(e) for e in (ev.TASK_FAILED_WORKFLOW_ACTIVE, ev.TASK_FAILED_WORKFLOW_DORMANT)}, W[r].get(ev.WORKFLOW_FAILED))
# leave-active events in pausing/canceling rows
leave = [e for e in ev.TASK_EXECUTION_EVENTS if e.endswith('_workflow_dormant') or '_workflow_dormant_' in e]
for r in ('pausing','canceling','running','resuming'):
    print(r, 'missing dormant', [e for e in leave if e not in W[r]], 'bad', [(e,W[r][e]) for e in leave if e in W[r] and W[r][e] in ('pausing','canceling')])
# item keys
for r in T:
    for e,t in T[r].items():
        if '_task_' in e and t in st.COMPLETED_STATUSES and '_task_dormant' not in e: print('ITEM completed w/o dormant', r, e, t)
        if '_task_' in e and t=='succeeded' and not e.endswith('action_succeeded_task_dormant_items_completed'): print('ITEM succ other', r,e)
print({r: T[r] for r in ('succeeded','failed','canceled')}, [s for s in st.ALL_STATUSES if s not in T])
