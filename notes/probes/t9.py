from drv import *
wf = """
version: 1.0
tasks:
  a:
    action: core.noop
"""
spec, ins, c = mk(wf)
c.request_workflow_status('running')
nt(c)
c.update_task_state('a', 0, ev('running'))
c.update_task_state('a', 0, ev('succeeded'))
print(st(c))
c.request_workflow_rerun()
print(st(c), nt(c), c.workflow_state.reruns)
try:
    c.request_workflow_status('running'); print(st(c))
except Exception as e: print('EXC', e)
# canceled workflow rerun
spec, ins, c = mk(wf)
c.request_workflow_status('running')
nt(c)
c.update_task_state('a', 0, ev('running'))
c.request_workflow_status('canceling')
c.update_task_state('a', 0, ev('canceled'))
print(st(c))
c.request_workflow_rerun()
print(st(c), nt(c))
# jinja mutate
from orquesta.expressions import base as eb
d = {'d': {'k': 0}, 'l': [1]}
print(eb.evaluate("{{ ctx('d').update({'k': 1}) }}", d), d)
try:
    print(eb.evaluate("{{ ctx('l').append(2) }}", d), d)
except Exception as e: print('EXC', e)
print(eb.evaluate("<% ctx(d).set(k, 2) %>", d), d)
