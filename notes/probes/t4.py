from drv import *
# C04: forbidden status request side effects: workflow failed with active with-items task
wf = """
version: 1.0
vars:
  - xs: [1,2,3]
tasks:
  a:
    action: core.noop
  w:
    with:
      items: <% ctx(xs) %>
      concurrency: 1
    action: core.noop
"""
spec, ins, c = mk(wf)
print(ins)
c.request_workflow_status('running')
print(nt(c))
c.update_task_state('a', 0, ev('running'))
c.update_task_state('w', 0, events.TaskItemActionExecutionEvent(0, 'running'))
c.update_task_state('a', 0, ev('failed'))
print(st(c))
before = json.dumps(c.serialize()['state'], sort_keys=True)
for req in ['pausing','paused','canceling','canceled','running','resuming','succeeded', 'failed']:
    try:
        c.request_workflow_status(req)
        print(req, 'accepted')
    except Exception as e:
        print(req, 'REJECTED', type(e).__name__)
    after = json.dumps(c.serialize()['state'], sort_keys=True)
    if after != before:
        print('  STATE CHANGED', st(c))
        before = after
