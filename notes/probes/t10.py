import json, hashlib
from orquesta.specs import native as native_specs
wf = """
version: 1.0
tasks:
  a:
    action: core.noop
    input:
      p: <% ctx(nope) %>
      q: "{{ ctx('nope') }}"
      r: <% ctx(nope) + 1 %>
      s: <% ctx(nope) + 2 %>
      t: <% ctx(nope) + 3 %>
"""
spec = native_specs.WorkflowSpec(wf)
r = spec.inspect()
print(hashlib.md5(json.dumps(r).encode()).hexdigest(), [e['expression'] for e in r['context']])
