from drv import *
import traceback
# C11: retry when expression error
wf = """
version: 1.0
tasks:
  t1:
    action: core.noop
    retry:
      when: <% ctx(nope) %>
      count: 2
    next:
      - do: t2
  t2:
    action: core.noop
"""
spec, ins, c = mk(wf)
print(ins)
c.request_workflow_status('running')
print(nt(c))
try:
    c.update_task_state('t1', 0, ev('running'))
    c.update_task_state('t1', 0, ev('succeeded'))
except Exception as e:
    print('ESCAPED', type(e).__name__, e)
print(st(c), c.errors)

# retry count expression error
wf = """
version: 1.0
tasks:
  t1:
    action: core.noop
    retry:
      count: <% ctx(nope) %>
    next:
      - do: t2
  t2:
    action: core.noop
"""
spec, ins, c = mk(wf)
print(ins)
c.request_workflow_status('running')
print(nt(c))
try:
    c.update_task_state('t1', 0, ev('running'))
    c.update_task_state('t1', 0, ev('succeeded'))
except Exception as e:
    print('ESCAPED', type(e).__name__, e)
print(st(c), c.errors)
# delay expr error
wf = """
version: 1.0
vars:
  - x: abc
tasks:
  t1:
    delay: <% ctx(x) %>
    action: core.noop
"""
spec, ins, c = mk(wf)
print(ins)
c.request_workflow_status('running')
try:
    print(nt(c))
except Exception as e:
    print('ESCAPED', type(e).__name__, e)
print(st(c), c.errors)
# concurrency expr error
wf = """
version: 1.0
vars:
  - x: abc
  - xs: [1,2]
tasks:
  t1:
    with:
      items: <% ctx(xs) %>
      concurrency: <% ctx(x) %>
    action: core.noop
"""
spec, ins, c = mk(wf)
print(ins)
c.request_workflow_status('running')
try:
    print(nt(c))
except Exception as e:
    print('ESCAPED', type(e).__name__, e)
print(st(c), c.errors)
