from drv import *
# C07: join: 1 with two inbound, late second arrival
wf = """
version: 1.0
tasks:
  a:
    action: core.noop
    next:
      - do: j
  b:
    action: core.noop
    next:
      - do: j
  j:
    join: 1
    action: core.noop
"""
spec, ins, c = mk(wf)
print(ins)
c.request_workflow_status('running')
print(nt(c))
c.update_task_state('a', 0, ev('running'))
c.update_task_state('b', 0, ev('running'))
c.update_task_state('a', 0, ev('succeeded'))
print(nt(c))
c.update_task_state('j', 0, ev('running'))
print(st(c))
c.update_task_state('b', 0, ev('succeeded'))
print(st(c))
print(nt(c))
c.update_task_state('j', 0, ev('succeeded'))
print(st(c))
print(nt(c))
