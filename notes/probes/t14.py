from drv import *
wf = """
version: 1.0
vars:
  - err: none
tasks:
  t1:
    action: core.noop
    next:
      - do: t2
  t2:
    action: core.noop
    next:
      - when: <% succeeded() %>
        do: t3
      - when: <% failed() %>
        publish: err="t2 failed"
        do: t3
  t3:
    action: core.noop
    next:
      - when: <% succeeded() %>
        publish: done=true
output:
  - err: <% ctx(err) %>
"""
def run(outcomes, c=None, reqs=None):
    if c is None:
        spec, ins, c = mk(wf); c.request_workflow_status('running')
    else:
        c.request_workflow_rerun(task_requests=reqs)
    started = []
    for _ in range(20):
        ts = c.get_next_tasks()
        if not ts: break
        for t in ts:
            started.append(t['id'])
            c.update_task_state(t['id'], t['route'], ev('running'))
        for t in ts:
            c.update_task_state(t['id'], t['route'], ev(outcomes.get(t['id'], 'succeeded')))
    if c.get_workflow_status() in ('succeeded','failed','canceled'): c.render_workflow_output()
    return c, started
# clean run
c0,_ = run({})
print('clean', c0.get_workflow_status(), c0.get_workflow_output())
# first run: t2 fails (remediated via t3), t3 fails -> workflow failed
c,_ = run({'t2':'failed','t3':'failed'})
print('first', c.get_workflow_status(), c.get_workflow_output(), [(t['id'],t.get('status'),t.get('term')) for t in c.workflow_state.sequence])
c, started = run({}, c, [requests.TaskRerunRequest.new('t1')])
print('rerun t1', started, c.get_workflow_status(), c.get_workflow_output(), [(t['id'],t.get('status'),t.get('term')) for t in c.workflow_state.sequence])
# collapse: rerun [t1, t3]
c,_ = run({'t2':'failed','t3':'failed'})
c, started = run({}, c, [requests.TaskRerunRequest.new('t1'), requests.TaskRerunRequest.new('t3')])
print('rerun t1,t3', started, c.get_workflow_status(), c.workflow_state.reruns)
