from drv import *
wf = """
version: 1.0
tasks:
  a:
    action: core.noop
    next:
      - when: <% succeeded() %>
        do: j
  b:
    action: core.noop
    next:
      - when: <% succeeded() %>
        do: j
  j:
    join: all
    action: core.noop
"""
for final in ['canceled', 'failed', 'succeeded']:
    spec, ins, c = mk(wf)
    c.request_workflow_status('running')
    nt(c)
    c.update_task_state('a', 0, ev('running'))
    c.update_task_state('b', 0, ev('running'))
    c.update_task_state('a', 0, ev('succeeded'))
    c.request_workflow_status('canceling')
    c.update_task_state('b', 0, ev(final))
    print(final, st(c), c.errors)
# cancel where third branch never reached join
wf = """
version: 1.0
tasks:
  a:
    action: core.noop
    next:
      - when: <% succeeded() %>
        do: j
  b:
    action: core.noop
    next:
      - when: <% succeeded() %>
        do: b2
  b2:
    action: core.noop
    next:
      - do: j
  j:
    join: all
    action: core.noop
"""
spec, ins, c = mk(wf)
c.request_workflow_status('running')
nt(c)
c.update_task_state('a', 0, ev('running'))
c.update_task_state('b', 0, ev('running'))
c.update_task_state('a', 0, ev('succeeded'))
c.request_workflow_status('canceling')
c.update_task_state('b', 0, ev('succeeded'))
print(st(c), c.errors)
