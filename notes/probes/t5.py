from drv import *
wf = """
version: 1.0
vars:
  - xs: [1,2]
tasks:
  a:
    action: core.noop
    next:
      - publish: pa=1
        do: w
  b:
    action: core.noop
    next:
      - publish: pb=1
        do: w
  w:
    join: 1
    with: <% ctx(xs) %>
    action: core.noop
"""
spec, ins, c = mk(wf)
print(ins)
c.request_workflow_status('running')
print(nt(c))
c.update_task_state('a', 0, ev('running'))
c.update_task_state('b', 0, ev('running'))
c.update_task_state('a', 0, ev('succeeded'))
print(nt(c))
c.update_task_state('w', 0, events.TaskItemActionExecutionEvent(0, 'running'))
c2 = conducting.WorkflowConductor.deserialize(c.serialize())
for cc in (c, c2):
    cc.update_task_state('b', 0, ev('succeeded'))
    print(st(cc))
    print(cc.workflow_state.sequence[2])
print(json.dumps(c.serialize()['state'], sort_keys=True) == json.dumps(c2.serialize()['state'], sort_keys=True))
try:
    c.update_task_state('w', 0, events.TaskItemActionExecutionEvent(0, 'succeeded', result=1, accumulated_result=[1]))
except Exception as e:
    print('ESCAPED', type(e).__name__, e)
print(nt(c))
