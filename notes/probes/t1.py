from drv import *
# C02/C09: fail command while pausing
wf = """
version: 1.0
tasks:
  t1:
    action: core.noop
    next:
      - when: <% succeeded() %>
        do: fail
"""
spec, ins, c = mk(wf)
print(ins)
c.request_workflow_status('running')
print(nt(c))
c.update_task_state('t1', 0, ev('running'))
c.request_workflow_status('pausing')
print(c.get_workflow_status())
c.update_task_state('t1', 0, ev('succeeded'))
print(st(c))
c.request_workflow_status('running')
print(st(c), c.errors)
