import itertools, collections
from orquesta import machines as m, statuses as st, events as ev, exceptions as exc
class Stub:
    __slots__ = ('status','_b','log')
    def __init__(self, status, b): self.status=status; self._b=b; self.log=[]
    def has_barrier_next(self, t, r): return self._b['barrier_next']
    def has_next_tasks(self, t=None, r=None): return self._b['next']
    has_active_tasks = property(lambda s: s._b['active'])
    has_canceling_tasks = property(lambda s: s._b['canceling'])
    has_canceled_tasks = property(lambda s: s._b['canceled'])
    has_pausing_tasks = property(lambda s: s._b['pausing'])
    has_paused_tasks = property(lambda s: s._b['paused'])
    has_staged_tasks = property(lambda s: s._b['staged'])
    def get_unreachable_barriers(self): return [{'id':'j','route':0}] if self._b['unreach'] else []
    @property
    def conductor(self):
        class C:
            def log_error(s2, e, task_id=None, route=None): self.log.append(type(e).__name__)
        return C()
names = ['barrier_next','next','active','canceling','canceled','pausing','paused','staged','unreach']
res = {}
n=0
for wf in st.ALL_STATUSES:
    for ts in st.ALL_STATUSES:
        for bits in itertools.product([False,True], repeat=len(names)):
            b = dict(zip(names,bits))
            s = Stub(wf, b)
            try:
                m.WorkflowStateMachine.process_event(s, ev.TaskExecutionEvent('t',0,ts))
                out = (s.status, tuple(s.log))
            except Exception as e:
                out = ('RAISE', type(e).__name__)
            res[(wf,ts,bits)] = out; n+=1
print(n, collections.Counter(v[0] for v in res.values()).most_common(20))
# check factoring: remediated = ts abended and (next or barrier_next); active; outcome in canceled>paused>incomplete>completed
def key(wf, ts, b):
    rem = ts in st.ABENDED_STATUSES and (b['next'] or b['barrier_next'])
    outcome = 'canceled' if (b['canceling'] or b['canceled']) else 'paused' if (b['pausing'] or b['paused']) else 'incomplete' if (b['staged'] or b['next']) else 'completed'
    return (wf, ts, rem, b['active'], outcome, b['unreach'])
groups = collections.defaultdict(set)
for (wf,ts,bits),v in res.items():
    groups[key(wf,ts,dict(zip(names,bits)))].add(v)
print(len(groups), max(len(v) for v in groups.values()))
