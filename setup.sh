#!/bin/sh
# Build the framework from files on disk only (offline).
set -e
cd "$(dirname "$0")"
/venv/bin/python tools/gen_tables.py
/venv/bin/python tools/gen_sites.py
cd lean && lake build OrqModel orqdriver
