#!/venv/bin/python
"""Normalised-AST fingerprints of the source functions the hand-written model transliterates.

`fingerprints.py --record` writes tools/fingerprints.json (done when the model is validated against
the tree, i.e. at commit time).  `fingerprints.py` (no argument) prints, as JSON, the functions whose
fingerprint differs from the recorded one ("drift").  A drift is *not* a violation: the hand model
was validated against a different text, so the check multiplies the exploration budget of the
properties anchored in the drifted functions and records the drift in its evidence.
"""
import ast
import hashlib
import json
import os
import sys

REPO = os.environ.get("ORQ_REPO", "/repo")
HERE = os.path.dirname(os.path.abspath(__file__))
STORE = os.path.join(HERE, "fingerprints.json")

FILES = ["orquesta/conducting.py", "orquesta/machines.py", "orquesta/statuses.py", "orquesta/events.py",
         "orquesta/graphing.py", "orquesta/composers/native.py", "orquesta/specs/native/v1/models.py",
         "orquesta/specs/base.py", "orquesta/expressions/base.py", "orquesta/expressions/yql.py",
         "orquesta/expressions/jinja.py", "orquesta/expressions/functions/common.py",
         "orquesta/expressions/functions/workflow.py", "orquesta/utils/dictionary.py",
         "orquesta/utils/context.py", "orquesta/utils/parameters.py", "orquesta/utils/jsonify.py",
         "orquesta/requests.py", "orquesta/constants.py"]

# which properties are anchored in which file (coarse; a drifted function deepens these checks)
ANCHORS = {
    "orquesta/conducting.py": ["C01", "C02", "C03", "C04", "C05", "C06", "C07", "C08", "C09", "C10", "C11", "C12",
                               "C13", "C15", "C16", "C17", "C18", "C19"],
    "orquesta/machines.py": ["C01", "C02", "C03", "C04", "C07", "C08", "C09", "C10", "C12", "C13", "C15", "C17", "C18"],
    "orquesta/statuses.py": ["C01", "C02", "C03", "C04", "C07", "C08", "C09", "C10", "C12", "C13", "C15", "C17", "C18"],
    "orquesta/events.py": ["C01", "C02", "C03", "C04", "C07", "C08", "C09", "C10", "C12", "C13", "C15", "C17", "C18"],
    "orquesta/graphing.py": ["C01", "C05", "C07", "C13", "C14", "C19"],
    "orquesta/composers/native.py": ["C07", "C13", "C14", "C19", "C20"],
    "orquesta/specs/native/v1/models.py": ["C01", "C06", "C11", "C12", "C14", "C15", "C16", "C19", "C20"],
    "orquesta/specs/base.py": ["C05", "C15", "C19", "C20"],
    "orquesta/expressions/base.py": ["C11", "C15", "C16", "C19"],
    "orquesta/expressions/yql.py": ["C11", "C15", "C16"],
    "orquesta/expressions/jinja.py": ["C11", "C15", "C16"],
    "orquesta/expressions/functions/common.py": ["C06", "C16"],
    "orquesta/expressions/functions/workflow.py": ["C01", "C16"],
    "orquesta/utils/dictionary.py": ["C06", "C16"],
    "orquesta/utils/context.py": ["C06", "C16"],
    "orquesta/utils/parameters.py": ["C20"],
    "orquesta/utils/jsonify.py": ["C05", "C16"],
    "orquesta/requests.py": ["C17"],
    "orquesta/constants.py": ["C01", "C05", "C17"],
}


def norm(node):
    """dump without positions and docstrings"""
    for n in ast.walk(node):
        if isinstance(n, (ast.FunctionDef, ast.ClassDef, ast.Module)) and n.body and \
                isinstance(n.body[0], ast.Expr) and isinstance(getattr(n.body[0], "value", None), ast.Constant) and \
                isinstance(n.body[0].value.value, str):
            n.body = n.body[1:] or [ast.Pass()]
    return ast.dump(node, annotate_fields=False, include_attributes=False)


def compute():
    out = {}
    for rel in FILES:
        path = os.path.join(REPO, rel)
        if not os.path.exists(path):
            out[rel + "::<file>"] = "missing"
            continue
        tree = ast.parse(open(path).read())
        top = []
        for node in tree.body:
            if isinstance(node, ast.ClassDef):
                rest = []
                for sub in node.body:
                    if isinstance(sub, ast.FunctionDef):
                        out["%s::%s.%s" % (rel, node.name, sub.name)] = hashlib.sha256(norm(sub).encode()).hexdigest()[:16]
                    else:
                        rest.append(norm(sub))
                out["%s::%s.<body>" % (rel, node.name)] = hashlib.sha256("".join(rest).encode()).hexdigest()[:16]
            elif isinstance(node, ast.FunctionDef):
                out["%s::%s" % (rel, node.name)] = hashlib.sha256(norm(node).encode()).hexdigest()[:16]
            elif not isinstance(node, (ast.Import, ast.ImportFrom)):
                top.append(norm(node))
        out["%s::<module>" % rel] = hashlib.sha256("".join(top).encode()).hexdigest()[:16]
    return out


def drift():
    cur = compute()
    try:
        old = json.load(open(STORE))
    except Exception:
        return {"error": "no recorded fingerprints", "drift": [], "properties": []}
    changed = sorted(k for k in set(cur) | set(old) if cur.get(k) != old.get(k))
    props = sorted(set(p for k in changed for p in ANCHORS.get(k.split("::")[0], [])))
    return {"drift": changed, "properties": props}


if __name__ == "__main__":
    if "--record" in sys.argv:
        json.dump(compute(), open(STORE, "w"), indent=0, sort_keys=True)
        print("recorded", len(compute()))
    else:
        print(json.dumps(drift()))
