#!/usr/bin/env python3
"""Development aid: step 3 of the checks (scenarios, monitors, correspondence) for many seeds
without rebuilding the Lean side.  usage: soak.py <first seed> <last seed> [props...]
(SOAK_THOROUGH=1: the thorough budget)"""
import os, sys, time
VERIF = os.path.dirname(os.path.dirname(os.path.abspath(__file__)))
os.chdir(VERIF)
sys.path.insert(0, VERIF)
from harness import explore, registry  # noqa: E402


class Res(object):
    def __init__(self):
        self.broken, self.violations, self.known, self.cov, self.notes = [], [], [], {}, []


import subprocess  # noqa: E402
# the model side must be the one the current tree defines
subprocess.run(["/venv/bin/python", "tools/gen_tables.py"], stdout=subprocess.DEVNULL, check=True)
subprocess.run(["/venv/bin/python", "tools/gen_sites.py"], stdout=subprocess.DEVNULL, check=True)
subprocess.run(["lake", "build", "orqdriver"], cwd=os.path.join(VERIF, "lean"), stdout=subprocess.DEVNULL, check=True)
a, b = int(sys.argv[1]), int(sys.argv[2])
props = sys.argv[3:] or sorted(registry.PROPS)
bad = 0
for seed in range(a, b + 1):
    for pid in props:
        t0 = time.time()
        res = Res()
        try:
            explore.run(pid, registry.PROPS[pid], res, True, bool(os.environ.get("SOAK_THOROUGH")), seed)
        except Exception as e:
            print("seed %d %s: EXCEPTION %s: %s" % (seed, pid, type(e).__name__, e), flush=True)
            bad += 1
            continue
        if res.broken or res.violations:
            bad += 1
            print("seed %d %s: broken=%s violations=%s" % (seed, pid, [str(x)[:300] for x in res.broken], res.violations), flush=True)
        else:
            print("seed %d %s ok (%d scenarios, %.0fs)" % (seed, pid, res.cov.get("programs", 0), time.time() - t0), flush=True)
print("SOAK-DONE bad=%d" % bad)
