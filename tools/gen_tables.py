#!/venv/bin/python
"""Translator: statuses.py / events.py / machines.py  ->  lean/OrqModel/Generated/Tables.lean

Regenerated on every check run from /repo's *working tree* (never hand-edited).

The status sets are copied.  The whole state-machine layer is extracted by *executing* the real
`machines.WorkflowStateMachine.process_event` / `machines.TaskStateMachine.process_event` on a stub
workflow state for every point of their finite input space and checking on the spot that the
result factors through the summary the Lean signature uses.  A stub that is asked a question it
does not know raises, so a new dependency of the machines on the state breaks the extraction
loudly (exit 3) instead of silently producing a wrong model.

Exit codes: 0 ok, 3 extraction failed (the message names the first input that does not factor).
"""
import collections
import hashlib
import itertools
import json
import os
import sys

REPO = os.environ.get("ORQ_REPO", "/repo")
sys.path.insert(0, REPO)

from orquesta import events as ev  # noqa: E402
from orquesta import exceptions as exc  # noqa: E402
from orquesta import machines as m  # noqa: E402
from orquesta import statuses as st  # noqa: E402

OUT = os.path.join(os.path.dirname(os.path.abspath(__file__)), "..", "lean", "OrqModel", "Generated")


class ExtractionError(Exception):
    pass


# --------------------------------------------------------------------------------------------
# names

CTOR = {
    "requested": "requested", "scheduled": "scheduled", "delayed": "delayed", "running": "running",
    "pending": "pending", "pausing": "pausing", "paused": "paused", "resuming": "resuming",
    "succeeded": "succeeded", "failed": "failed", "timeout": "expired", "abandoned": "abandoned",
    "retrying": "retrying", "canceling": "canceling", "canceled": "canceled", "null": "unset",
}

ALL = list(st.ALL_STATUSES)
if sorted(ALL) != sorted(CTOR):
    raise ExtractionError("statuses.ALL_STATUSES changed: %r" % (ALL,))

EXN = {
    "InvalidEvent": "invalidEvent",
    "InvalidStatus": "invalidStatus",
    "InvalidWorkflowStatusTransition": "invalidWorkflowStatusTransition",
    "InvalidTaskStatusTransition": "invalidTaskStatusTransition",
    "InvalidEventType": "invalidEventType",
    "TypeError": "typeError",
}


def lst(s):
    return ".%s" % CTOR[s]


def lres(r):
    if r[0] == "ok":
        return ".ok %s" % lst(r[1])
    return ".raise .%s" % EXN.get(r[1], "other")


def lbool(b):
    return "true" if b else "false"


# --------------------------------------------------------------------------------------------
# stub workflow state


class Conductor(object):
    def __init__(self, owner):
        self.owner = owner

    def log_error(self, e, task_id=None, route=None):
        self.owner.log.append((type(e).__name__, task_id, route))


class Stub(object):
    """Answers exactly the queries the machines are known to make; anything else raises."""

    def __init__(self, status, b, items=None):
        object.__setattr__(self, "status", status)
        object.__setattr__(self, "_b", b)
        object.__setattr__(self, "_items", items)
        object.__setattr__(self, "log", [])
        object.__setattr__(self, "conductor", Conductor(self))

    def __getattr__(self, name):
        raise ExtractionError("machines.py asked the workflow state for unknown attribute %r" % name)

    def __setattr__(self, name, value):
        if name != "status":
            raise ExtractionError("machines.py wrote unknown attribute %r" % name)
        object.__setattr__(self, name, value)

    def has_barrier_next(self, task_id, route=None):
        return self._b["barrier_next"]

    def has_next_tasks(self, task_id=None, route=None):
        return self._b["next"]

    has_active_tasks = property(lambda s: s._b["active"])
    has_canceling_tasks = property(lambda s: s._b["canceling"])
    has_canceled_tasks = property(lambda s: s._b["canceled"])
    has_pausing_tasks = property(lambda s: s._b["pausing"])
    has_paused_tasks = property(lambda s: s._b["paused"])
    has_staged_tasks = property(lambda s: s._b["staged"])

    def get_unreachable_barriers(self):
        return [{"id": "j", "route": 0}] if self._b["unreach"] else []

    def get_staged_task(self, task_id, route):
        if self._items is None:
            return None
        if self._items == "noitems":
            return {"id": task_id, "route": route}
        return {"id": task_id, "route": route, "items": [{"status": x} for x in self._items]}


def run(fn):
    try:
        return fn()
    except ExtractionError:
        raise
    except Exception as e:  # noqa
        return ("raise", type(e).__name__)


# --------------------------------------------------------------------------------------------
# 1. workflow machine on task events

TE_NAMES = ["barrier_next", "next", "active", "canceling", "canceled", "pausing", "paused", "staged", "unreach"]
OUTCOMES = ["canceled", "paused", "incomplete", "completed"]


def te_summary(ts, b):
    rem = ts in st.ABENDED_STATUSES and (b["next"] or b["barrier_next"])
    if b["canceling"] or b["canceled"]:
        oc = "canceled"
    elif b["pausing"] or b["paused"]:
        oc = "paused"
    elif b["staged"] or b["next"]:
        oc = "incomplete"
    else:
        oc = "completed"
    return (bool(rem), bool(b["active"]), oc)


def extract_wf_on_task_event():
    raw = {}
    calls = 0
    for wf in ALL:
        for ts in ALL:
            for bits in itertools.product([False, True], repeat=len(TE_NAMES)):
                b = dict(zip(TE_NAMES, bits))
                s = Stub(wf, b)

                def f():
                    m.WorkflowStateMachine.process_event(s, ev.TaskExecutionEvent("t", 0, ts))
                    return ("ok", s.status)

                r = run(f)
                raw[(wf, ts, bits)] = (r, tuple(x[0] for x in s.log))
                calls += 1
    # factoring: result with unreach=False depends only on summary; with unreach=True it is
    #   ok failed + one UnreachableJoinError   iff  base result is ok s', s' != wf, unreachCheck(s')
    table = {}
    for (wf, ts, bits), (r, log) in raw.items():
        b = dict(zip(TE_NAMES, bits))
        if b["unreach"]:
            continue
        k = (wf, ts) + te_summary(ts, b)
        if log:
            raise ExtractionError("error logged without unreachable barrier at %r" % ((wf, ts, b),))
        if k in table and table[k] != r:
            raise ExtractionError("wfOnTaskEvent does not factor at %r: %r vs %r" % (k, table[k], r))
        table[k] = r
    check = {}
    for (wf, ts, bits), (r, log) in raw.items():
        b = dict(zip(TE_NAMES, bits))
        if not b["unreach"]:
            continue
        base = table[(wf, ts) + te_summary(ts, b)]
        if base[0] != "ok":
            if r != base or log:
                raise ExtractionError("unreachable check on a raising input %r" % ((wf, ts, b),))
            continue
        s2 = base[1]
        fired = r == ("ok", "failed") and log == ("UnreachableJoinError",)
        quiet = r == base and log == ()
        if not (fired or quiet):
            raise ExtractionError("unreachable handling does not factor at %r: %r %r" % ((wf, ts, b), r, log))
        if s2 == wf:
            if not quiet:
                raise ExtractionError("unreachable check fired without a status change at %r" % ((wf, ts, b),))
            continue
        # quiet and fired coincide only when s2 == failed and no log; fired requires a log
        if s2 in check and check[s2] != fired:
            raise ExtractionError("unreachable check is not a function of the new status at %r" % ((wf, ts, b),))
        check[s2] = fired
    return table, check, calls


# --------------------------------------------------------------------------------------------
# 2. workflow machine on workflow events (status requests)


def extract_wf_on_workflow_event():
    raw = {}
    calls = 0
    for wf in ALL:
        for req in ALL:
            for active, staged, paused, unreach in itertools.product([False, True], repeat=4):
                b = {"active": active, "staged": staged, "paused": paused, "unreach": unreach}
                s = Stub(wf, collections.defaultdict(lambda: _boom(), b))

                def f():
                    m.WorkflowStateMachine.process_event(s, ev.WorkflowExecutionEvent(req))
                    return ("ok", s.status)

                r = run(f)
                raw[(wf, req, active, staged, paused, unreach)] = (r, tuple(x[0] for x in s.log))
                calls += 1
    table = {}
    check = {}
    for (wf, req, a, st_, p, u), (r, log) in raw.items():
        if not u:
            if log:
                raise ExtractionError("error logged without unreachable barrier at %r" % ((wf, req, a, st_, p),))
            table[(wf, req, a, st_, p)] = r
    for (wf, req, a, st_, p, u), (r, log) in raw.items():
        if not u:
            continue
        base = table[(wf, req, a, st_, p)]
        if base[0] != "ok":
            if r != base or log:
                raise ExtractionError("unreachable check on a raising request %r" % ((wf, req, a, st_, p),))
            continue
        s2 = base[1]
        fired = r == ("ok", "failed") and log == ("UnreachableJoinError",)
        quiet = r == base and log == ()
        if not (fired or quiet):
            raise ExtractionError("unreachable handling of requests does not factor at %r: %r %r" % ((wf, req, a, st_, p), r, log))
        if s2 == wf:
            if not quiet:
                raise ExtractionError("unreachable check fired without a status change at %r" % ((wf, req, a, st_, p),))
            continue
        if s2 in check and check[s2] != fired:
            raise ExtractionError("request unreachable check is not a function of the new status at %r" % ((wf, req, a, st_, p),))
        check[s2] = fired
    return table, check, calls


def _boom():
    raise ExtractionError("process_workflow_event asked for a query outside active/staged/paused")


def extract_wf_transition_valid():
    t = {}
    for a in ALL:
        for b in ALL:
            t[(a, b)] = bool(m.WorkflowStateMachine.is_transition_valid(a, b))
    return t


# --------------------------------------------------------------------------------------------
# 3. task machine


def extract_tk_on_action_event():
    table = {}
    for tk in ALL:
        for es in ALL:
            task = {"id": "t", "route": 0}
            if tk != "null":
                task["status"] = tk
            s = Stub("running", {})

            def f():
                m.TaskStateMachine.process_event(s, task, ev.ActionExecutionEvent(es))
                return ("ok", task.get("status", "null"))

            table[(tk, es)] = run(f)
    return table


ENGINE = sorted(ev.ENGINE_EVENT_MAP.keys())


def extract_tk_on_engine_event():
    table = {}
    estatus = {}
    for tk in ALL:
        for cmd in ENGINE:
            task = {"id": cmd, "route": 0}
            if tk != "null":
                task["status"] = tk
            s = Stub("running", {})
            e = ev.ENGINE_EVENT_MAP[cmd]()
            estatus[cmd] = e.status

            def f():
                m.TaskStateMachine.process_event(s, task, e)
                return ("ok", task.get("status", "null"))

            table[(tk, cmd)] = run(f)
    return table, estatus


def item_summary(others):
    active = any(x in st.ACTIVE_STATUSES for x in others)
    incomplete = any(x not in st.COMPLETED_STATUSES for x in others)
    paused = any(x in [st.PENDING, st.PAUSED] for x in others)
    canceled = any(x == st.CANCELED for x in others)
    failed = any(x in st.ABENDED_STATUSES for x in others)
    return (active, paused, canceled, failed, incomplete)


def extract_tk_on_item_event(maxlen=2):
    table = {}
    calls = 0
    lists = [()]
    for n in range(1, maxlen + 1):
        lists += list(itertools.product(ALL, repeat=n))
    for tk in ALL:
        for es in ALL:
            for others in lists:
                for pos in range(len(others) + 1):
                    items = list(others[:pos]) + [es] + list(others[pos:])
                    task = {"id": "t", "route": 0}
                    if tk != "null":
                        task["status"] = tk
                    s = Stub("running", {}, items=items)

                    def f():
                        m.TaskStateMachine.process_event(
                            s, task, ev.TaskItemActionExecutionEvent(pos, es)
                        )
                        return ("ok", task.get("status", "null"))

                    r = run(f)
                    calls += 1
                    k = (tk, es) + item_summary(others)
                    if k in table and table[k] != r:
                        raise ExtractionError("tkOnItemEvent does not factor at %r" % (k,))
                    table[k] = r
    # the summary space not reachable by <=maxlen other items is filled by representative lists
    reps = {}
    for others in itertools.product(ALL, repeat=3):
        reps.setdefault(item_summary(others), others)
    for n in (4, 5):
        for others in itertools.product(["running", "paused", "canceled", "failed", "succeeded", "null", "pending"], repeat=n):
            reps.setdefault(item_summary(others), others)
    for summ, others in reps.items():
        for tk in ALL:
            for es in ALL:
                k = (tk, es) + summ
                items = [es] + list(others)
                task = {"id": "t", "route": 0}
                if tk != "null":
                    task["status"] = tk
                s = Stub("running", {}, items=items)

                def f():
                    m.TaskStateMachine.process_event(s, task, ev.TaskItemActionExecutionEvent(0, es))
                    return ("ok", task.get("status", "null"))

                r = run(f)
                calls += 1
                if k in table and table[k] != r:
                    raise ExtractionError("tkOnItemEvent does not factor at %r" % (k,))
                table[k] = r
    return table, calls


def extract_tk_on_item_event_nostaged():
    """item event for a task that has no staged entry (get_staged_task returns None)"""
    table = {}
    for tk in ALL:
        for es in ALL:
            task = {"id": "t", "route": 0}
            if tk != "null":
                task["status"] = tk
            s = Stub("running", {}, items=None)

            def f():
                m.TaskStateMachine.process_event(s, task, ev.TaskItemActionExecutionEvent(0, es))
                return ("ok", task.get("status", "null"))

            table[(tk, es)] = run(f)
    return table


def extract_tk_on_workflow_event():
    # summary: items = none (no staged entry or no items) | some (active, incomplete)
    table = {}
    cases = [(None, None), ("noitems", None)]
    lists = [()]
    for n in range(1, 3):
        lists += list(itertools.product(ALL, repeat=n))
    for tk in ALL:
        for req in ALL:
            for items in [None, "noitems"] + lists:
                task = {"id": "t", "route": 0}
                if tk != "null":
                    task["status"] = tk
                s = Stub("running", {}, items=items)

                def f():
                    m.TaskStateMachine.process_event(s, task, ev.WorkflowExecutionEvent(req))
                    return ("ok", task.get("status", "null"))

                r = run(f)
                if items is None or items == "noitems":
                    summ = (False, False, False)
                else:
                    summ = (
                        True,
                        any(x in st.ACTIVE_STATUSES for x in items),
                        any(x not in st.COMPLETED_STATUSES for x in items),
                    )
                k = (tk, req) + summ
                if k in table and table[k] != r:
                    raise ExtractionError("tkOnWorkflowEvent does not factor at %r" % (k,))
                table[k] = r
    del cases
    return table


# --------------------------------------------------------------------------------------------
# emission


def emit_match(fname, sig, argnames, rows, default=None):
    """rows: list of (pattern tuple of strings, result string)."""
    out = ["def %s %s :=" % (fname, sig), "  match %s with" % ", ".join(argnames)]
    for pat, res in rows:
        out.append("  | %s => %s" % (", ".join(pat), res))
    if default is not None:
        out.append("  | %s => %s" % (", ".join("_" for _ in argnames), default))
    return "\n".join(out) + "\n"


def compress(keys_vals, nargs):
    """keys_vals: dict from tuple-of-lean-patterns (len nargs) to result string.
    Emit the most common result as default, all others explicitly."""
    cnt = collections.Counter(keys_vals.values())
    default = cnt.most_common(1)[0][0]
    rows = [(k, v) for k, v in keys_vals.items() if v != default]
    return rows, default


def main():
    os.makedirs(OUT, exist_ok=True)
    L = []
    w = L.append
    w("/- GENERATED by tools/gen_tables.py from orquesta/{statuses,events,machines}.py. Do not edit. -/")
    w("import OrqModel.Enum")
    w("set_option maxRecDepth 4096")
    w("namespace Orq\n")
    w("inductive Status where")
    for s in ALL:
        w("  | %s" % CTOR[s])
    w("  deriving DecidableEq, Repr, Inhabited, BEq\n")
    w("def Status.all : List Status := [%s]" % ", ".join(lst(s) for s in ALL))
    w("instance : Enum Status := ⟨Status.all, by intro a; cases a <;> simp [Status.all]⟩\n")
    w("def Status.toStr : Status → String")
    for s in ALL:
        w('  | %s => "%s"' % (lst(s), s))
    w("")
    w("def Status.ofStr? (s : String) : Option Status :=")
    w("  Status.all.find? (fun x => x.toStr == s)\n")
    for name, members in [
        ("isStarting", st.STARTING_STATUSES), ("isRunning", st.RUNNING_STATUSES),
        ("isActive", st.ACTIVE_STATUSES), ("isPause", st.PAUSE_STATUSES),
        ("isCancel", st.CANCEL_STATUSES), ("isAbended", st.ABENDED_STATUSES),
        ("isCompleted", st.COMPLETED_STATUSES),
    ]:
        w("def Status.%s : Status → Bool" % name)
        for s in ALL:
            if s in members:
                w("  | %s => true" % lst(s))
        if len(set(members)) < len(ALL):
            w("  | _ => false")
        w("")
    w("inductive Outcome where\n  | canceled | paused | incomplete | completed\n  deriving DecidableEq, Repr, Inhabited")
    w("instance : Enum Outcome := ⟨[.canceled, .paused, .incomplete, .completed], by intro a; cases a <;> simp⟩\n")
    w("inductive Exn where\n  | invalidEvent | invalidStatus | invalidWorkflowStatusTransition | invalidTaskStatusTransition | invalidEventType | typeError | other\n  deriving DecidableEq, Repr, Inhabited\n")
    w("inductive StepRes where\n  | ok (s : Status)\n  | raise (e : Exn)\n  deriving DecidableEq, Repr, Inhabited\n")
    w("inductive Cmd where\n%s\n  deriving DecidableEq, Repr, Inhabited" % "\n".join("  | %s_" % c for c in ENGINE))
    w("instance : Enum Cmd := ⟨[%s], by intro a; cases a <;> simp⟩" % ", ".join(".%s_" % c for c in ENGINE))
    w("def Cmd.toStr : Cmd → String")
    for c in ENGINE:
        w('  | .%s_ => "%s"' % (c, c))
    w("def Cmd.ofStr? (s : String) : Option Cmd :=\n  [%s].find? (fun c => c.toStr == s)\n" % ", ".join("Cmd.%s_" % c for c in ENGINE))

    stats = {}

    # ---- wfOnTaskEvent
    te, unreach_check, calls = extract_wf_on_task_event()
    stats["wfOnTaskEvent_calls"] = calls
    stats["wfOnTaskEvent_classes"] = len(te)
    for wf in ALL:
        kv = {}
        for ts in ALL:
            for rem in (False, True):
                for act in (False, True):
                    for oc in OUTCOMES:
                        kv[(lst(ts), lbool(rem), lbool(act), "." + oc)] = lres(te.get((wf, ts, rem, act, oc), te[(wf, ts, False, act, oc)]))
        rows, default = compress(kv, 4)
        w(emit_match("wfOnTaskEvent_%s" % CTOR[wf], "(ev : Status) (rem act : Bool) (oc : Outcome) : StepRes",
                     ["ev", "rem", "act", "oc"], rows, default))
    w("/-- `WorkflowStateMachine.process_task_event` before the unreachable-join handling:\n"
      "    workflow status, reported task status, remediated, has_active_tasks, outcome context. -/")
    w("def wfOnTaskEvent (wf ev : Status) (rem act : Bool) (oc : Outcome) : StepRes :=\n  match wf with")
    for wf in ALL:
        w("  | %s => wfOnTaskEvent_%s ev rem act oc" % (lst(wf), CTOR[wf]))
    w("")
    w("/-- statuses for which a status change to them triggers the unreachable-join check. -/")
    w("def wfUnreachCheck : Status → Bool")
    for s in ALL:
        if unreach_check.get(s, False):
            w("  | %s => true" % lst(s))
    w("  | _ => false\n")
    stats["unreach_check"] = sorted(s for s, v in unreach_check.items() if v)

    w("/-- summary of the state queries `add_context_to_task_event` makes (checked by the translator\n"
      "    against all 2^9 answers for every pair of statuses). -/")
    w("def taskEventSummary (ev : Status) (barrierNext next active canceling canceled pausing paused staged : Bool) :\n"
      "    Bool × Bool × Outcome :=\n"
      "  (ev.isAbended && (next || barrierNext), active,\n"
      "   if canceling || canceled then .canceled else if pausing || paused then .paused\n"
      "   else if staged || next then .incomplete else .completed)\n")

    # ---- wfOnWorkflowEvent
    we, req_unreach_check, calls = extract_wf_on_workflow_event()
    stats["wfOnWorkflowEvent_calls"] = calls
    for wf in ALL:
        kv = {}
        for req in ALL:
            for a, s_, p in itertools.product([False, True], repeat=3):
                kv[(lst(req), lbool(a), lbool(s_), lbool(p))] = lres(we[(wf, req, a, s_, p)])
        rows, default = compress(kv, 4)
        w(emit_match("wfOnWorkflowEvent_%s" % CTOR[wf], "(req : Status) (active staged paused : Bool) : StepRes",
                     ["req", "active", "staged", "paused"], rows, default))
    w("/-- `WorkflowStateMachine.process_workflow_event`: workflow status, requested status,\n"
      "    has_active_tasks, has_staged_tasks, has_paused_tasks. -/")
    w("def wfOnWorkflowEvent (wf req : Status) (active staged paused : Bool) : StepRes :=\n  match wf with")
    for wf in ALL:
        w("  | %s => wfOnWorkflowEvent_%s req active staged paused" % (lst(wf), CTOR[wf]))
    w("")
    w("/-- statuses for which a status change to them *by a status request* triggers the unreachable-join check. -/")
    w("def wfReqUnreachCheck : Status → Bool")
    for s_ in ALL:
        if req_unreach_check.get(s_, False):
            w("  | %s => true" % lst(s_))
    w("  | _ => false\n")
    stats["req_unreach_check"] = sorted(s_ for s_, v in req_unreach_check.items() if v)
    tv = extract_wf_transition_valid()
    kv = {(lst(a), lst(b)): lbool(v) for (a, b), v in tv.items()}
    rows, default = compress(kv, 2)
    w(emit_match("wfTransitionValid", "(old new : Status) : Bool", ["old", "new"], rows, default))

    # ---- task machine
    ta = extract_tk_on_action_event()
    kv = {(lst(a), lst(b)): lres(v) for (a, b), v in ta.items()}
    # default per row differs; emit identity rows explicitly via per-row functions
    for tk in ALL:
        kvr = {(lst(es),): lres(ta[(tk, es)]) for es in ALL}
        rows, default = compress(kvr, 1)
        w(emit_match("tkOnActionEvent_%s" % CTOR[tk], "(ev : Status) : StepRes", ["ev"], rows, default))
    w("/-- `TaskStateMachine.process_action_event` for `ActionExecutionEvent(status)`. -/")
    w("def tkOnActionEvent (tk ev : Status) : StepRes :=\n  match tk with")
    for tk in ALL:
        w("  | %s => tkOnActionEvent_%s ev" % (lst(tk), CTOR[tk]))
    w("")
    tg, estatus = extract_tk_on_engine_event()
    kv = {(lst(tk), ".%s_" % c): lres(v) for (tk, c), v in tg.items()}
    rows, default = compress(kv, 2)
    w(emit_match("tkOnEngineEvent", "(tk : Status) (c : Cmd) : StepRes", ["tk", "c"], rows, default))
    w("def Cmd.eventStatus : Cmd → Status")
    for c in ENGINE:
        w("  | .%s_ => %s" % (c, lst(estatus[c])))
    w("")

    ti, calls = extract_tk_on_item_event()
    stats["tkOnItemEvent_calls"] = calls
    stats["tkOnItemEvent_classes"] = len(ti)
    summaries = sorted(set(k[2:] for k in ti))
    for tk in ALL:
        kvr = {}
        for es in ALL:
            for summ in itertools.product([False, True], repeat=5):
                k = (tk, es) + summ
                if k in ti:
                    kvr[(lst(es),) + tuple(lbool(x) for x in summ)] = lres(ti[k])
        rows, default = compress(kvr, 6)
        # combos of the summary that no list of statuses realises fall under the default arm
        w(emit_match("tkOnItemEvent_%s" % CTOR[tk],
                     "(ev : Status) (active paused canceled failed incomplete : Bool) : StepRes",
                     ["ev", "active", "paused", "canceled", "failed", "incomplete"], rows, default))
    w("/-- `TaskStateMachine.process_task_item_event`; the booleans summarise the *other* items. -/")
    w("def tkOnItemEvent (tk ev : Status) (active paused canceled failed incomplete : Bool) : StepRes :=\n  match tk with")
    for tk in ALL:
        w("  | %s => tkOnItemEvent_%s ev active paused canceled failed incomplete" % (lst(tk), CTOR[tk]))
    w("")
    tn = extract_tk_on_item_event_nostaged()
    kv = {(lst(a), lst(b)): lres(v) for (a, b), v in tn.items()}
    for tk in ALL:
        kvr = {(lst(es),): lres(tn[(tk, es)]) for es in ALL}
        rows, default = compress(kvr, 1)
        w(emit_match("tkOnItemEventNoStaged_%s" % CTOR[tk], "(ev : Status) : StepRes", ["ev"], rows, default))
    w("/-- item event for a task without a staged entry -/")
    w("def tkOnItemEventNoStaged (tk ev : Status) : StepRes :=\n  match tk with")
    for tk in ALL:
        w("  | %s => tkOnItemEventNoStaged_%s ev" % (lst(tk), CTOR[tk]))
    w("")
    w("def itemSummary (others : List Status) : Bool × Bool × Bool × Bool × Bool :=\n"
      "  (others.any Status.isActive, others.any (fun x => x == .pending || x == .paused),\n"
      "   others.any (fun x => x == .canceled), others.any Status.isAbended,\n"
      "   others.any (fun x => !x.isCompleted))\n")
    stats["item_summaries_realised"] = len(summaries)

    tw = extract_tk_on_workflow_event()
    for tk in ALL:
        kvr = {}
        for req in ALL:
            for summ in [(False, False, False)] + [(True, a, i) for a in (False, True) for i in (False, True)]:
                k = (tk, req) + summ
                if k in tw:
                    kvr[(lst(req),) + tuple(lbool(x) for x in summ)] = lres(tw[k])
        rows, default = compress(kvr, 4)
        w(emit_match("tkOnWorkflowEvent_%s" % CTOR[tk],
                     "(req : Status) (hasItems active incomplete : Bool) : StepRes",
                     ["req", "hasItems", "active", "incomplete"], rows, default))
    w("/-- `TaskStateMachine.process_workflow_event`: task status, requested workflow status, whether a\n"
      "    staged entry with an items list exists, and whether any item is active / not completed. -/")
    w("def tkOnWorkflowEvent (tk req : Status) (hasItems active incomplete : Bool) : StepRes :=\n  match tk with")
    for tk in ALL:
        w("  | %s => tkOnWorkflowEvent_%s req hasItems active incomplete" % (lst(tk), CTOR[tk]))
    w("")

    # ---- validity of task_<status> events (for reference) and reserved names
    w("/-- statuses `s` for which `task_<s>` is a task execution event name. -/")
    w("def hasTaskEvent : Status → Bool")
    for s in ALL:
        if ("task_%s" % s) in ev.TASK_EXECUTION_EVENTS:
            w("  | %s => true" % lst(s))
    w("  | _ => false\n")
    w("end Orq")
    text = "\n".join(L) + "\n"
    path = os.path.join(OUT, "Tables.lean")
    old = open(path).read() if os.path.exists(path) else None
    if old != text:
        with open(path, "w") as f:
            f.write(text)
    stats["sha256"] = hashlib.sha256(text.encode()).hexdigest()
    stats["changed"] = old != text
    print(json.dumps(stats))


if __name__ == "__main__":
    try:
        main()
    except ExtractionError as e:
        print(json.dumps({"extraction_error": str(e)}))
        sys.exit(3)
