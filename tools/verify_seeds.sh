#!/bin/bash
# verify every seeded change: applies on a scratch worktree of /repo HEAD, suite passes, demo fails with it and passes without
out=/verif/seeded/VERIFY.txt
: > $out
wt=/tmp/seedverify
git -C /repo worktree remove --force $wt 2>/dev/null
git -C /repo worktree add -q --detach $wt HEAD
for d in /verif/seeded/C*_*/; do
  n=$(basename $d)
  cd $wt && git checkout -q -- . && git clean -fdq
  mkdir -p $wt/seed/$n && cp $d/demo.py $wt/seed/$n/
  /venv/bin/python seed/$n/demo.py >/dev/null 2>&1; clean=$?
  if ! git apply $d/patch.diff 2>/dev/null; then echo "$n apply=FAIL" >> $out; continue; fi
  /venv/bin/python -m pytest -q -p no:cacheprovider -x >/tmp/seedverify_suite.txt 2>&1; suite=$?
  /venv/bin/python seed/$n/demo.py >/dev/null 2>&1; mut=$?
  echo "$n apply=ok suite=$suite demo_clean=$clean demo_mut=$mut" >> $out
done
cd /; git -C /repo worktree remove --force $wt
cat $out
