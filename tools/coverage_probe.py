#!/usr/bin/env python3
"""Branch coverage of orquesta's conductor and state machines under the generators of all
property profiles (a development aid: shows which code no generated scenario reaches).
usage: coverage_probe.py [count per property] [seed]"""
import os, sys
sys.path.insert(0, os.path.dirname(os.path.dirname(os.path.abspath(__file__))))
import coverage
REPO = os.environ.get("ORQ_REPO", "/repo")
cov = coverage.Coverage(branch=True, include=[os.path.join(REPO, "orquesta", "conducting.py"),
                                              os.path.join(REPO, "orquesta", "machines.py"),
                                              os.path.join(REPO, "orquesta", "graphing.py")],
                        data_file=None)
cov.start()
from harness import corr, registry  # noqa: E402
count = int(sys.argv[1]) if len(sys.argv) > 1 else 60
seed = sys.argv[2] if len(sys.argv) > 2 else "0"
for pid in sorted(registry.PROPS):
    spec = registry.PROPS[pid]
    if spec.get("compose_only") or pid == "C20":
        continue
    sc = corr.run_scenarios("%s/%s" % (pid, seed), count, registry.profile(pid), registry.hist_profile(pid), budget_s=60)
    print(pid, len(sc), "scenarios", file=sys.stderr)
cov.stop()
for f in ("conducting.py", "machines.py", "graphing.py"):
    path = os.path.join(REPO, "orquesta", f)
    an = cov.analysis2(path)
    missing = an[3]
    print("==", f, "missing lines:", missing)
    try:
        arcs = cov._analyze(path).arcs_missing()
        print("   missing branches:", sorted(arcs)[:200])
    except Exception as e:
        print("   (no branch data: %s)" % e)
