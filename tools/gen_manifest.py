#!/usr/bin/env python3
"""Regenerate MANIFEST.json from harness/registry.py (run with /venv/bin/python)."""
import json, os, sys
sys.path.insert(0, os.path.join(os.path.dirname(os.path.abspath(__file__)), ".."))
from harness import registry

LEVEL_TEXT = {
 "default": "Machine-checked Lean 4 theorems about a model of the engine, for every definition, evaluator and history the theorem quantifies over; the model is tied to /repo on every run: the state-machine layer and the source inventories are regenerated from the working tree (exhaustive execution of machines.process_event, AST inventories) and the hand-written conductor/composer model is run against the real code on generated operation sequences (correspondence). Clauses not proved are listed in evidence.unproven_clauses and rest on the failing-input search only.",
}
checks = []
for pid in sorted(registry.PROPS):
    sp = registry.PROPS[pid]
    nthm = sum(len(v) for v in sp["theorems"].values())
    checks.append({
        "property_id": pid,
        "quick_cmd": "./check %s --tier quick" % pid,
        "thorough_cmd": "./check %s --tier thorough" % pid,
        "evidence_file": "/verif/evidence/%s.json" % pid,
        "replay_cmd_template": "./check %s --replay {path}" % pid,
        "engine": "lean4-proof+correspondence",
        "level_claimed": {"category": "proof", "text": LEVEL_TEXT["default"] + " This property: %d theorem obligations (%s); unproven: %s" % (
            nthm, ", ".join(t for v in sp["theorems"].values() for t in v), "; ".join(sp.get("unproven", [])) or "none"),
            "design_ref": "DESIGN.md section 5 (%s)" % pid},
        "level_note": "Trusted: Lean kernel; axioms propext/Classical.choice/Quot.sound only; translators tools/gen_tables.py and tools/gen_sites.py; correspondence harness and generators (harness/); expression evaluation is a parameter of the model (the driver evaluates a fragment); provider contract (offer and start atomic).",
        "technique": "Lean 4 theorem proving over a regenerated + correspondence-checked model",
    })
man = {
 "version": 1,
 "setup_cmd": "cd /verif && ./setup.sh",
 "hooks": {"guard": "ORQUESTA_VERIF", "enable": "no source hooks are needed: the checks import /repo's working tree in-process and regenerate the model from it", "baseline_off_cmd": "cd /repo && /venv/bin/python -m pytest -q -p no:cacheprovider", "source_commits": [], "add_only": True},
 "engines": [{"name": "lean4-proof+correspondence", "path": "/verif/check", "serves_properties": sorted(registry.PROPS), "kind_free_text": "Lean 4 theorems over a model (lean/OrqModel) whose state-machine tables and source inventories are regenerated from /repo on every run and whose hand-written conductor model is differential-tested against the real conductor (harness/)"}],
 "checks": checks,
 "notes": "Genuine defects found are repaired by 'fix:' commits in /repo or listed in /verif/known_findings.json (printed as KNOWN-FINDING).",
 "not_applicable": [],
}
json.dump(man, open(os.path.join(os.path.dirname(os.path.abspath(__file__)), "..", "MANIFEST.json"), "w"), indent=1)
print("checks", len(checks))
