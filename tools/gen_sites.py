#!/venv/bin/python
"""Translator: AST inventories of /repo's working tree -> lean/OrqModel/Generated/Sites.lean

Three inventories, each closed by a `decide` theorem in OrqModel/Properties/Sites.lean:

* EvalSites  — every call in conducting.py that can raise an expression-evaluation error, with,
  for every conductor API method that can reach it through the intra-class call graph, whether
  every path to it passes a `try` whose handler catches `Exception` (or the callee returns its
  errors as a list).  Conservative: anything the analysis does not understand is "not guarded".
* SetSites   — every place a set is iterated or converted to a list without a total sort, in the
  engine sources, classified by a table below (membership-only use, sorted by a total key, or
  covered by a named order-independence theorem).  An unclassified site is emitted as `unknown`.
* SpecFacts  — for every Spec class of specs/native/v1/models.py: schema properties, which of them
  can hold expressions, and the `_context_evaluation_sequence`.
"""
import ast
import hashlib
import json
import os
import sys

REPO = os.environ.get("ORQ_REPO", "/repo")
sys.path.insert(0, REPO)
OUT = os.path.join(os.path.dirname(os.path.abspath(__file__)), "..", "lean", "OrqModel", "Generated")

# ---------------------------------------------------------------------------------------------
# EvalSites

RAISING_CALLEES = {  # attribute names whose call can raise an expression error
    "evaluate", "render", "get_task", "_evaluate_task_retry", "setup_retry_in_task_state",
}
LIST_RETURNING = {"render_input", "render_vars", "render_output", "finalize_context"}
API = ["workflow_state", "request_workflow_status", "get_next_tasks", "update_task_state",
       "render_workflow_output", "request_workflow_rerun"]


def catches_exception(handler):
    t = handler.type
    if t is None:
        return True
    names = []
    if isinstance(t, ast.Tuple):
        names = [getattr(x, "id", getattr(x, "attr", None)) for x in t.elts]
    else:
        names = [getattr(t, "id", getattr(t, "attr", None))]
    return "Exception" in names or "BaseException" in names


class FnInfo(object):
    def __init__(self, name):
        self.name = name
        self.sites = []  # (callee, lineno, guarded)


def analyse_conducting():
    src = open(os.path.join(REPO, "orquesta", "conducting.py")).read()
    tree = ast.parse(src)
    fns = {}
    for cls in [n for n in tree.body if isinstance(n, ast.ClassDef) and n.name == "WorkflowConductor"]:
        for fn in [n for n in cls.body if isinstance(n, ast.FunctionDef)]:
            info = FnInfo(fn.name)
            fns[fn.name] = info

            def visit(node, guarded):
                if isinstance(node, ast.Try):
                    g = guarded or any(catches_exception(h) for h in node.handlers)
                    for b in node.body:
                        visit(b, g)
                    for h in node.handlers:
                        for b in h.body:
                            visit(b, guarded)
                    for b in node.orelse + node.finalbody:
                        visit(b, guarded)
                    return
                if isinstance(node, ast.Call):
                    f = node.func
                    name = None
                    if isinstance(f, ast.Attribute):
                        base = f.value
                        if isinstance(base, ast.Name) and base.id == "self":
                            name = f.attr                      # a conductor method
                        elif isinstance(base, ast.Name) and base.id == "expr_base" and f.attr == "evaluate":
                            name = "evaluate"
                        elif f.attr in ("render",) or f.attr in LIST_RETURNING:
                            name = f.attr
                    if name:
                        info.sites.append((name, node.lineno, guarded))
                for ch in ast.iter_child_nodes(node):
                    visit(ch, guarded)

            for b in fn.body:
                visit(b, False)
    # fixpoint: which methods can let an expression error out
    unsafe = set()
    changed = True
    while changed:
        changed = False
        for name, info in fns.items():
            if name in unsafe:
                continue
            for callee, _, guarded in info.sites:
                if guarded:
                    continue
                if callee in LIST_RETURNING:
                    continue
                if (callee in RAISING_CALLEES and callee not in fns) or callee in unsafe or \
                        (callee in RAISING_CALLEES and callee in fns and callee in unsafe):
                    unsafe.add(name)
                    changed = True
                    break
                if callee in ("evaluate", "render"):
                    unsafe.add(name)
                    changed = True
                    break
    facts = []
    for name, info in sorted(fns.items()):
        for callee, line, guarded in info.sites:
            raising = callee in ("evaluate", "render") or callee in unsafe
            if raising and callee not in LIST_RETURNING:
                facts.append((name, callee, line, bool(guarded)))
    for api in API:
        if api not in fns:
            unsafe.add(api)   # an API method the analysis cannot find counts as not contained
    return facts, sorted(unsafe)


# ---------------------------------------------------------------------------------------------
# SetSites

SET_FILES = ["orquesta/conducting.py", "orquesta/composers/native.py", "orquesta/graphing.py",
             "orquesta/specs/base.py", "orquesta/specs/native/v1/models.py", "orquesta/expressions/base.py",
             "orquesta/expressions/yql.py", "orquesta/expressions/jinja.py", "orquesta/machines.py",
             "orquesta/expressions/functions/workflow.py"]

# (file, function, normalised source of the iterating expression) -> justification
SET_TABLE = {
    ("orquesta/conducting.py", "get_inbound_criteria_status", "list(set((t[0] for t in inbound_transitions)))"):
        ("theorem", "C19_inbound_status_perm"),
    ("orquesta/conducting.py", "_collapse_task_rerun_requests", "set(i) - set(j)"): ("membership", ""),
    ("orquesta/expressions/base.py", "extract_vars", "sorted(list(set(variables)), key=lambda var: (var[2], var[0], var[1]))"):
        ("sorted_total", "key is the whole tuple"),
    ("orquesta/expressions/yql.py", "extract_vars", "sorted(list(set(variables)))"): ("sorted_total", ""),
    ("orquesta/expressions/jinja.py", "extract_vars", "sorted(list(set(variables)))"): ("sorted_total", ""),
    ("orquesta/specs/native/v1/models.py", "inspect_context", "list(set(task_ctx + result[1]))"): ("membership", "context variable names are used for membership tests only"),
    ("orquesta/specs/native/v1/models.py", "inspect_context", "list(set(next_task_ctx + branch_ctx))"): ("membership", ""),
    ("orquesta/specs/native/v1/models.py", "inspect_context", "list(set(rolling_ctx + task_ctx))"): ("membership", ""),
    ("orquesta/specs/native/v1/models.py", "inspect_context", "list(set(rolling_ctx + result[1]))"): ("membership", ""),
    ("orquesta/specs/base.py", "inspect_context", "list(set(rolling_ctx + result[1]))"): ("membership", ""),
    ("orquesta/specs/base.py", "inspect_context", "list(set(rolling_ctx + [var_name]))"): ("membership", ""),
    ("orquesta/specs/base.py", "inspect_context", "list(set(rolling_ctx + ctx_vars))"): ("membership", ""),
    ("orquesta/expressions/functions/workflow.py", "task_status_", "set(prev_route_details) - set(current_route_details)"): ("membership", ""),
    ("orquesta/composers/native.py", "_compose_wf_graph", "set(splits)"): ("membership", "subset test and union only"),
    ("orquesta/specs/base.py", "inspect_context", "list(set(parent_ctx))"): ("membership", "variable names, membership tests only"),
    ("orquesta/specs/base.py", "inspect_context", "list(set(rolling_ctx + updated_ctx))"): ("membership", ""),
    ("orquesta/specs/base.py", "inspect_ctx", "list(set(rolling_ctx + updated_ctx))"): ("membership", ""),
    ("orquesta/specs/native/v1/models.py", "detect_unreachable_tasks", "list(set(staging[task_name]['splits']) | set(splits))"): ("membership", "split names, subset tests only"),
    ("orquesta/specs/native/v1/models.py", "detect_unreachable_tasks", "list(set(staging[task_name]['prev']) | set([prev_task_name]))"): ("membership", "only the length and membership are used"),
    ("orquesta/specs/native/v1/models.py", "inspect_context", "list(set(parent_ctx))"): ("membership", ""),
}


def is_set_expr(node):
    if isinstance(node, (ast.Set, ast.SetComp)):
        return True
    if isinstance(node, ast.Call) and isinstance(node.func, ast.Name) and node.func.id in ("set", "frozenset"):
        return True
    if isinstance(node, ast.BinOp) and isinstance(node.op, (ast.Sub, ast.BitOr, ast.BitAnd)):
        return is_set_expr(node.left) or is_set_expr(node.right)
    return False


def set_sites():
    sites = []
    for rel in SET_FILES:
        path = os.path.join(REPO, rel)
        if not os.path.exists(path):
            continue
        tree = ast.parse(open(path).read())
        for fn in [n for n in ast.walk(tree) if isinstance(n, ast.FunctionDef)]:
            setnames = set()
            for node in ast.walk(fn):
                if isinstance(node, ast.Assign) and is_set_expr(node.value):
                    for t in node.targets:
                        if isinstance(t, ast.Name):
                            setnames.add(t.id)

            def setty(n):
                if is_set_expr(n) or (isinstance(n, ast.Name) and n.id in setnames):
                    return True
                # list(set) / tuple(set) is still in set iteration order
                return isinstance(n, ast.Call) and isinstance(n.func, ast.Name) and n.func.id in ("list", "tuple") \
                    and len(n.args) == 1 and setty(n.args[0])

            for node in ast.walk(fn):
                expr = None
                if isinstance(node, (ast.For, ast.comprehension)) and setty(node.iter):
                    expr = node.iter
                elif isinstance(node, ast.Call) and isinstance(node.func, ast.Name) and \
                        node.func.id in ("list", "tuple", "sorted", "enumerate", "iter", "next") and node.args and setty(node.args[0]):
                    expr = node
                elif isinstance(node, ast.BinOp) and isinstance(node.op, ast.Sub) and setty(node.left) and setty(node.right):
                    expr = node
                if expr is None:
                    continue
                # a sorted(list(set(..))) nest is reported once, at the outermost call
                sites.append((rel, fn.name, ast.unparse(expr), expr.lineno))
    # drop inner duplicates: an expression contained in another reported expression of the same function
    out = []
    for s in sites:
        if any(o is not s and o[0] == s[0] and o[1] == s[1] and s[2] in o[2] and s[2] != o[2] for o in sites):
            continue
        if s[:3] not in [x[:3] for x in out]:
            out.append(s)
    return out


# ---------------------------------------------------------------------------------------------
# SpecFacts

NON_EXPR_PROPS = {"join", "version", "description", "tags", "name"}


def spec_facts():
    from orquesta.specs.native.v1 import models
    from orquesta.specs.native.v1 import base as nbase
    facts = []
    for name in dir(models):
        cls = getattr(models, name)
        if not isinstance(cls, type) or not issubclass(cls, nbase.Spec) or cls.__module__ != models.__name__:
            continue
        schema = getattr(cls, "_schema", {}) or {}
        props = schema.get("properties", {}) if isinstance(schema, dict) else {}
        seq = list(getattr(cls, "_context_evaluation_sequence", []) or [])
        for p, v in sorted(props.items()):
            spec_typed = isinstance(v, type)
            expr_bearing = (not spec_typed) and p not in NON_EXPR_PROPS
            facts.append((name, p, spec_typed, expr_bearing, p in seq))
    return facts


def lstr(s):
    return json.dumps(s)


def main():
    os.makedirs(OUT, exist_ok=True)
    L = []
    w = L.append
    w("/- GENERATED by tools/gen_sites.py from orquesta/*.py (AST inventories). Do not edit. -/")
    w("namespace Orq\n")
    facts, unsafe = analyse_conducting()
    w("structure EvalSite where\n  method : String\n  callee : String\n  line : Nat\n  guarded : Bool\n  deriving Repr, DecidableEq\n")
    w("def evalSites : List EvalSite := [")
    w(",\n".join("  ⟨%s, %s, %d, %s⟩" % (lstr(a), lstr(c), ln, "true" if g else "false") for a, c, ln, g in facts))
    w("]\n")
    w("def unsafeMethods : List String := [%s]\n" % ", ".join(lstr(u) for u in unsafe))
    w("def apiMethods : List String := [%s]\n" % ", ".join(lstr(u) for u in API))
    ss = set_sites()
    w("inductive SetUse where\n  | membership | sortedTotal | theorem_ (name : String) | unknown\n  deriving Repr, DecidableEq\n")
    w("structure SetSite where\n  file : String\n  fn : String\n  expr : String\n  use : SetUse\n  deriving Repr, DecidableEq\n")
    rows = []
    for rel, fn, expr, line in ss:
        kind = SET_TABLE.get((rel, fn, expr))
        if kind is None:
            use = ".unknown"
        elif kind[0] == "membership":
            use = ".membership"
        elif kind[0] == "sorted_total":
            use = ".sortedTotal"
        else:
            use = ".theorem_ %s" % lstr(kind[1])
        rows.append("  ⟨%s, %s, %s, %s⟩" % (lstr(rel), lstr(fn), lstr(expr), use))
    w("def setSites : List SetSite := [")
    w(",\n".join(rows))
    w("]\n")
    sf = spec_facts()
    w("structure SpecFact where\n  cls : String\n  prop : String\n  specTyped : Bool\n  exprBearing : Bool\n  inSequence : Bool\n  deriving Repr, DecidableEq\n")
    w("def specFacts : List SpecFact := [")
    w(",\n".join("  ⟨%s, %s, %s, %s, %s⟩" % (lstr(c), lstr(p), "true" if a else "false", "true" if b else "false", "true" if d else "false") for c, p, a, b, d in sf))
    w("]\n")
    w("end Orq")
    text = "\n".join(L) + "\n"
    path = os.path.join(OUT, "Sites.lean")
    old = open(path).read() if os.path.exists(path) else None
    if old != text:
        open(path, "w").write(text)
    print(json.dumps({"eval_sites": len(facts), "unguarded": [f for f in facts if not f[3]], "unsafe_methods": unsafe,
                      "set_sites": len(ss), "unknown_set_sites": [s for s in ss if SET_TABLE.get(s[:3]) is None],
                      "spec_facts": len(sf), "sha256": hashlib.sha256(text.encode()).hexdigest()[:16]}))


if __name__ == "__main__":
    main()
