#!/usr/bin/env python3
"""Apply each seeded change to /repo, run the check of the property it breaks, undo it.
usage: seed_matrix.py [seed ids...] [--props C01,C02]   (default: all seeds, own property)"""
import json, os, subprocess, sys, time
VERIF = os.path.dirname(os.path.dirname(os.path.abspath(__file__)))
REPO = os.environ.get("ORQ_REPO", "/repo")
args = [a for a in sys.argv[1:] if not a.startswith("--")]
extra = [a.split("=", 1)[1].split(",") for a in sys.argv[1:] if a.startswith("--props=")]
seeds = args or sorted(d for d in os.listdir(os.path.join(VERIF, "seeded")) if os.path.isdir(os.path.join(VERIF, "seeded", d)))
results = {}
for sd in seeds:
    patch = os.path.join(VERIF, "seeded", sd, "patch.diff")
    pid = sd.split("_")[0]
    props = extra[0] if extra else [pid]
    subprocess.run(["git", "-C", REPO, "checkout", "--", "."], check=True)
    r = subprocess.run(["git", "-C", REPO, "apply", patch], capture_output=True)
    if r.returncode != 0:
        print(sd, "patch does not apply:", r.stderr.decode()[:200]); continue
    try:
        for p in props:
            t0 = time.time()
            r = subprocess.run([os.path.join(VERIF, "check"), p], capture_output=True, cwd=VERIF, timeout=3000)
            out = r.stdout.decode()
            viol = [l for l in out.splitlines() if l.startswith("VIOLATION")]
            last = out.strip().splitlines()[-1] if out.strip() else ""
            results[(sd, p)] = (r.returncode, viol[:1], last)
            print("%s under %s: exit %d %s | %s (%.0fs)" % (sd, p, r.returncode, viol[:1], last[:160], time.time() - t0), flush=True)
    finally:
        subprocess.run(["git", "-C", REPO, "checkout", "--", "."], check=True)
json.dump({"%s/%s" % k: v for k, v in results.items()}, open(os.path.join(VERIF, "out", "seed_matrix.json"), "w"), indent=1)
# leave the generated model as the clean tree defines it (the last check regenerated it from a seeded tree)
subprocess.run(["/venv/bin/python", os.path.join(VERIF, "tools", "gen_tables.py")], cwd=VERIF, capture_output=True)
subprocess.run(["/venv/bin/python", os.path.join(VERIF, "tools", "gen_sites.py")], cwd=VERIF, capture_output=True)
