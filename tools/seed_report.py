#!/usr/bin/env python3
"""Write seeded/<id>/meta.json and seeded/MATRIX.md from the last seed matrix run and VERIFY.txt."""
import json, os, re
VERIF = os.path.dirname(os.path.dirname(os.path.abspath(__file__)))
mat = json.load(open(os.path.join(VERIF, "out", "seed_matrix.json")))
ver = {}
for l in open(os.path.join(VERIF, "seeded", "VERIFY.txt")):
    m = re.match(r"(\S+) apply=(\S+)(?: suite=(\d+) demo_clean=(\d+) demo_mut=(\d+))?", l)
    if m:
        ver[m.group(1)] = m.groups()[1:]
rows = []
for sd in sorted(d for d in os.listdir(os.path.join(VERIF, "seeded")) if os.path.isdir(os.path.join(VERIF, "seeded", d))):
    pid = sd.split("_")[0]
    notes = open(os.path.join(VERIF, "seeded", sd, "notes.md")).read() if os.path.exists(os.path.join(VERIF, "seeded", sd, "notes.md")) else ""
    r = mat.get("%s/%s" % (sd, pid))
    how = "not run"
    if r:
        code, viol, last = r
        if code == 0:
            how = "MISSED (exit 0)"
        else:
            parts = []
            m = re.search(r"obligations (\d+) discharged (\d+)", last)
            if m and m.group(1) != m.group(2):
                parts.append("proof obligations broke (%s of %s discharged)" % (m.group(2), m.group(1)))
            m = re.search(r"disagreements (\d+)", last)
            if m and int(m.group(1)) > 0:
                parts.append("correspondence (%s scenarios disagree)" % m.group(1))
            m = re.search(r"monitor hits (\d+)", last)
            if m and int(m.group(1)) > 0:
                parts.append("monitor found a failing history")
            if not parts:
                parts.append("translator could not extract the state machines (factoring check failed)")
            how = "; ".join(parts) + (" — no failing input found" if viol and "no-failing-input-found" in viol[0] else "")
    v = ver.get(sd)
    meta = {"property": pid, "what": notes.strip().split("\n\n")[0][:600],
            "verified": None if not v else {"applies_on_head": v[0] == "ok", "suite_passes_with_change": v[1] == "0",
                                            "demo_passes_without": v[2] == "0", "demo_fails_with": v[3] == "1"},
            "ran": "tools/verify_seeds.sh (scratch worktree of /repo HEAD: apply, full suite, demo with and without); tools/seed_matrix.py (git apply in /repo, ./check %s, git checkout)" % pid,
            "detected_by_check": how}
    json.dump(meta, open(os.path.join(VERIF, "seeded", sd, "meta.json"), "w"), indent=1)
    rows.append((sd, pid, how))
with open(os.path.join(VERIF, "seeded", "MATRIX.md"), "w") as f:
    f.write("# Which check catches which seeded change (quick tier, VERIF_SEED=0)\n\n")
    f.write("Each change was written by an independent sub-agent from the property text only, verified\n(`VERIFY.txt`), applied to /repo, checked with `./check <property>` and undone.\n\n| seed | property | how the check caught it |\n|---|---|---|\n")
    for sd, pid, how in rows:
        f.write("| %s | %s | %s |\n" % (sd, pid, how))
print(len(rows), "seeds;", sum(1 for r in rows if "MISSED" in r[2]), "missed")
