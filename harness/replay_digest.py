"""Replay operation lines (JSON, one per line, on stdin) on the real conductor in *this* process
and print one digest of everything observable: every reply, the inspection report and the
composed graph.  Run under different PYTHONHASHSEED values by the C19 monitor."""
import hashlib
import json
import sys

from harness import core
from harness import render


def main():
    ops = [json.loads(l) for l in sys.stdin if l.strip()]
    imp = core.Impl()
    h = hashlib.sha256()
    for o in ops:
        r = imp.play(o)
        h.update(core.dumps(r).encode())
        if o["op"] == "init":
            from orquesta.specs import native as native_specs
            from orquesta.composers import native as native_composer
            spec = native_specs.WorkflowSpec(render.to_spec(o["def"], o.get("lang", "yaql")))
            h.update(json.dumps(spec.inspect(), sort_keys=False).encode())     # order matters
            h.update(json.dumps(native_composer.WorkflowComposer.compose(spec).serialize(), sort_keys=False).encode())
            h.update(json.dumps(imp.c.serialize(), sort_keys=False, default=str).encode())
    print(h.hexdigest())


if __name__ == "__main__":
    main()
