"""Property monitors: the property statements as executable predicates over the implementation's
own observations (canonical replies).  They are the failing-input search; never a theorem.

monitor(scenario) -> list of {"msg":..., "op_index":..., "finding": None|"Dk"}
scenario: {"def","lang","ops","replies"}  (replies[i]["state"] is the state after ops[i])
"""
import json

TERMINAL = ("succeeded", "failed", "canceled", "timeout", "abandoned")
STARTING = ("requested", "scheduled", "delayed", "running")
ACTIVE = ("requested", "scheduled", "delayed", "running", "pausing", "canceling", "resuming", "retrying", "pending", "paused")
CMDS = ("noop", "fail", "continue", "retry")
INTERNAL = ("KeyError", "TypeError", "AttributeError", "IndexError", "ValueError", "InvalidEvent",
            "InvalidStatus", "InvalidEventType", "InvalidTaskStatusTransition", "Exception")


def V(msg, i, finding=None):
    return {"msg": msg, "op_index": i, "finding": finding}


def ledgers(ops):
    """in-flight / parked action sets after each op, from the reports alone"""
    inflight, parked = set(), set()
    out = []
    for op in ops:
        if op["op"] == "report":
            key = (op["task"], op["route"], op.get("item"))
            s = op["status"]
            if s in STARTING or s == "resuming":
                inflight.add(key)
                parked.discard(key)
            elif s in ("pending", "paused"):
                inflight.discard(key)
                parked.add(key)
            elif s in TERMINAL:
                inflight.discard(key)
                parked.discard(key)
                if key[2] is None:
                    # a task-level terminal report (empty with-items) clears nothing else
                    pass
        elif op["op"] == "rerun":
            pass
        out.append((set(inflight), set(parked)))
    return out


def state(s, i):
    r = s["replies"][i]
    return r.get("state")


def ready_staged(st):
    return [x for x in st["staged"] if x["ready"] and not x["completed"]]


def tasks_def(s):
    return {t["name"]: t for t in s["def"]["tasks"]}


def reachable(s):
    tasks = {t["name"]: t for t in s["def"]["tasks"]}
    targets = set(d for t in s["def"]["tasks"] for tr in t["next"] for d in tr["do"])
    todo = [n for n in tasks if n not in targets]
    seen = set()
    while todo:
        n = todo.pop()
        if n in seen or n not in tasks:
            continue
        seen.add(n)
        for tr in tasks[n]["next"]:
            todo.extend(tr["do"])
    return seen


def inbound_sources(s, name):
    """the tasks of the composed graph (reachable from a start task) with a transition to `name`"""
    srcs = set()
    reach = reachable(s)
    for t in s["def"]["tasks"]:
        if t["name"] not in reach:
            continue
        for tr in t["next"]:
            if name in tr["do"]:
                srcs.add(t["name"])
    return srcs


def has_cycle(s):
    tasks = {t["name"]: t for t in s["def"]["tasks"]}

    def reach(a, b):
        seen, todo = set(), [d for tr in tasks[a]["next"] for d in tr["do"]]
        while todo:
            n = todo.pop()
            if n == b:
                return True
            if n in seen or n not in tasks:
                continue
            seen.add(n)
            todo.extend(d for tr in tasks[n]["next"] for d in tr["do"])
        return False

    return any(reach(n, n) for n in tasks)


def has_count_join_below_all(s):
    """region of D2/D5b: a branch can arrive at a join (or with-items task) that has already
    started on the same route: a count join with fewer than all inbound tasks, or a cycle in a
    definition that also has a join or a with-items task"""
    for t in s["def"]["tasks"]:
        if isinstance(t.get("join"), int) and not isinstance(t.get("join"), bool) and t["join"] < len(inbound_sources(s, t["name"])):
            return True
    if has_cycle(s) and any(t.get("join") is not None or t.get("with") is not None for t in s["def"]["tasks"]):
        return True
    return False


def in_cycle(s, name):
    """`name` can reach itself along the definition's transitions"""
    succ = {t["name"]: set(d for tr in t["next"] for d in tr["do"]) for t in s["def"]["tasks"]}
    todo, seen = list(succ.get(name, ())), set()
    while todo:
        n = todo.pop()
        if n == name:
            return True
        if n in seen:
            continue
        seen.add(n)
        todo.extend(succ.get(n, ()))
    return False


def last_occurrence(st):
    return set(st["tasks"].values())


def raised(r):
    return r["res"]["raised"] if isinstance(r.get("res"), dict) and "raised" in r["res"] else None


def d20_region(s, i):
    """a with-items task is between items while another task reports pending/paused (or canceled) on
    its own"""
    if not any(t.get("with") is not None for t in s["def"]["tasks"]):
        return False
    return any(o["op"] == "report" and o["status"] in ("pending", "paused", "canceled", "canceling")
               for o in s["ops"][:i + 1])


def rearrival_region(s, i):
    """D2/D5b: a branch can arrive at a join or with-items task that has already started: count
    join below all, a cycle plus a join/with-items task, or a rerun upstream of a with-items task"""
    if has_count_join_below_all(s):
        return True
    return rerun_upstream_of_items(s, i)


def rerun_upstream_of_items(s, i):
    """an accepted rerun re-executed a task from which a with-items task is reachable (the
    with-items task, already run, is then reached again)"""
    items = set(t["name"] for t in s["def"]["tasks"] if t.get("with") is not None)
    if not items:
        return False
    td = tasks_def(s)

    def downstream(n):
        seen, todo = set(), [n]
        while todo:
            x = todo.pop()
            for tr in td.get(x, {}).get("next", []):
                for d in tr["do"]:
                    if d in td and d not in seen:
                        seen.add(d)
                        todo.append(d)
        return seen
    for j, o in enumerate(s["ops"][:i + 1]):
        if o["op"] != "rerun" or raised(s["replies"][j]):
            continue
        st = s["replies"][j].get("state") or {}
        picked = st.get("reruns", [[]])[-1] if st.get("reruns") else []
        names = set(st["sequence"][k]["id"] for k in picked if k < len(st.get("sequence", [])))
        names |= set(q["task"] for q in o.get("reqs", []))
        # tasks that continue after the rerun (terminal records whose transitions fired) count too
        for n in names:
            if downstream(n) & items:
                return True
    return False


def d23_region(s, i, infl):
    """every action in flight was first reported (requested/scheduled/delayed) when the workflow
    had already come to rest paused, and has not reported running since"""
    st = s["replies"][i].get("state") or {}
    for key in infl:
        first = None
        for j, o in enumerate(s["ops"][:i + 1]):
            if o["op"] == "report" and (o["task"], o["route"], o.get("item")) == key and o["status"] in STARTING:
                first = j
        # the latest start of this action
        if first is None or first == 0:
            return False
        before = (s["replies"][first - 1].get("state") or {}).get("status")
        idx = st.get("tasks", {}).get("%s__r%s" % (key[0], key[1]))
        rec = st["sequence"][idx] if idx is not None and idx < len(st.get("sequence", [])) else None
        if before != "paused" or rec is None or rec["status"] not in ("requested", "scheduled", "delayed"):
            return False
    return True


def d26_region(s, i, infl):
    """every action in flight is an item of a with-items task whose latest report is `resuming`
    (the task machine has no entry for an item's `resuming` report on a paused task)"""
    if not infl:
        return False
    for key in infl:
        if key[2] is None:
            return False
        last = None
        for o in s["ops"][:i + 1]:
            if o["op"] == "report" and (o["task"], o["route"], o.get("item")) == key:
                last = o["status"]
        if last != "resuming":
            return False
    return True


def d29_region(s, i):
    """a with-items task reached a completed status while one of its item actions was parked
    (paused/pending): the item's later report lands on a finished task"""
    led = ledgers(s["ops"][:i + 1])
    for j in range(i + 1):
        st = s["replies"][j].get("state")
        if not st:
            continue
        for key in led[j][1]:
            if key[2] is None:
                continue
            idx = st.get("tasks", {}).get("%s__r%s" % (key[0], key[1]))
            if idx is not None and idx < len(st["sequence"]) and st["sequence"][idx]["status"] in TERMINAL:
                return True
    return False


def d30_region(s, i):
    """a rerun was accepted while some task execution was unfinished (parked paused/pending, or
    still active): a transition arriving at that task stages and offers it again and the reports
    of the new action land on the old record"""
    for j in range(1, i + 1):
        o, r = s["ops"][j], s["replies"][j]
        if o["op"] == "rerun" and not raised(r):
            before = s["replies"][j - 1].get("state") or {}
            seq = before.get("sequence", [])
            for idx in last_occurrence(before) if seq else []:
                if idx < len(seq) and seq[idx].get("status") not in TERMINAL + (None,):
                    return True
    return False


def d31_region(s, i):
    """a rerun picked a task execution whose completion had already fired transitions and whose
    successor is still staged: the successor is offered beside the re-executed task and staged
    again when that task completes, so it runs twice and the reports of the superseded action meet
    a record that is completed"""
    for j in range(1, i + 1):
        o, r = s["ops"][j], s["replies"][j]
        if o["op"] == "rerun" and not raised(r):
            st = r.get("state") or {}
            picked = (st.get("reruns") or [[]])[-1]
            seq = st.get("sequence", [])
            for idx in picked:
                if idx < len(seq) and any(v for v in (seq[idx].get("next") or {}).values()):
                    if any(idx in (x.get("prev") or {}).values() for x in st.get("staged", [])):
                        return True
    return False


def restaged_unfinished(s, i):
    """the mechanism common to D2, D5b, D29 and D30: a task (not one iterating over items) has a
    staged entry again while its latest record is not completed, so the next reports for it land
    on the old record"""
    for j in range(i + 1):
        st = s["replies"][j].get("state")
        if not st:
            continue
        for x in st.get("staged", []):
            if x.get("items") is not None:
                continue
            idx = st.get("tasks", {}).get("%s__r%s" % (x["id"], x["route"]))
            if idx is not None and idx < len(st["sequence"]) and st["sequence"][idx].get("status") not in TERMINAL + (None,):
                return True
    return False


def region_of(s, i):
    if rearrival_region(s, i):
        return "D2"
    if d20_region(s, i):
        return "D20"
    if d29_region(s, i):
        return "D29"
    if d30_region(s, i):
        return "D30"
    if d31_region(s, i):
        return "D31"
    if restaged_unfinished(s, i):
        return "D2"
    return None


def had_rerun(s, i):
    return any(o["op"] == "rerun" for o in s["ops"][:i + 1])


# ---------------------------------------------------------------------------------------------


def mon_C02(s):
    out = []
    led = ledgers(s["ops"])
    prev = None
    for i, (op, r) in enumerate(zip(s["ops"], s["replies"])):
        st = r.get("state")
        if st is None:
            continue
        infl, parked = led[i]
        status = st["status"]
        if status == "succeeded":
            if infl:
                out.append(V("succeeded with actions in flight %s" % sorted(map(str, infl)), i))
            if ready_staged(st):
                out.append(V("succeeded with ready staged tasks", i))
            if not had_rerun(s, i):
                last = last_occurrence(st)
                for j, t in enumerate(st["sequence"]):
                    if j not in last:
                        continue
                    if t["status"] not in ("succeeded", "failed", "canceled", "timeout", "abandoned"):
                        # a record without a status is what an exception escaping update_task_state
                        # leaves behind (D5b, D31): the finding is the exception, met again here
                        fin = None
                        if t["status"] is None:
                            fin = "D5b" if rearrival_region(s, i) else region_of(s, i)
                        out.append(V("succeeded with incomplete record %s:%s" % (t["id"], t["status"]), i, fin))
                    if t["id"] == "fail":
                        out.append(V("succeeded although a fail command ran", i))
                    if t["status"] in ("failed", "timeout", "abandoned") and t["id"] not in CMDS and not any(t["next"].values()):
                        out.append(V("succeeded with unhandled failure of %s" % t["id"], i))
        if status in ("paused", "canceled") and infl:
            out.append(V("%s with actions in flight %s" % (status, sorted(map(str, infl))), i,
                         "D2" if rearrival_region(s, i) else ("D23" if status == "paused" and d23_region(s, i, infl) else
                                                              ("D26" if status == "paused" and d26_region(s, i, infl) else region_of(s, i)))))
        if status in ("pausing", "canceling") and not infl and op["op"] in ("report", "req", "next"):
            out.append(V("%s with nothing in flight" % status, i, region_of(s, i)))
        # failure => failed
        if prev is not None and op["op"] == "report" and not raised(r):
            before = prev["status"]
            cancelish = before in ("canceling", "canceled") or status in ("canceling", "canceled")
            new_errs = [e for e in st["errors"] if e not in prev["errors"]]
            runtime = [e for e in new_errs if e[0] not in ("ExecutionFailed",)]
            new_fail_cmd = sum(1 for t in st["sequence"] if t["id"] == "fail") > sum(1 for t in prev["sequence"] if t["id"] == "fail")
            unhandled = False
            if op["status"] in ("failed", "timeout", "abandoned") and op.get("item") is None:
                key = "%s__r%s" % (op["task"], op["route"])
                idx = st["tasks"].get(key)
                if idx is not None:
                    t = st["sequence"][idx]
                    if t["status"] == "failed" and not any(t["next"].values()) and t["id"] not in CMDS:
                        unhandled = True
            if (runtime or new_fail_cmd or unhandled) and not cancelish and status != "failed" and before not in ("succeeded", "failed"):
                out.append(V("failure (runtime=%s fail_cmd=%s unhandled=%s) left status %s" % (
                    bool(runtime), new_fail_cmd, unhandled, status), i))
        prev = st
    return out


def mon_C03(s):
    out = []
    led = ledgers(s["ops"])
    pause_req = False
    for i, (op, r) in enumerate(zip(s["ops"], s["replies"])):
        st = r.get("state")
        if st is None:
            continue
        if op["op"] == "req" and op["status"] in ("pausing", "paused") and not raised(r):
            pause_req = True
        if op["op"] == "req" and op["status"] in ("running", "resuming"):
            pause_req = False
        infl, parked = led[i]
        if parked or (op["op"] == "report" and op["status"] in ("pending", "paused")):
            pause_req = True     # the workflow may rest paused because a task is (or was) parked
        if op["op"] == "next" and isinstance(r["res"], list) and not r["res"] and not infl:
            status = st["status"]
            if parked and status in ("running", "resuming"):
                # a paused/pending action the provider still has to resume or answer is outstanding work
                continue
            if status in ("succeeded", "failed", "canceled"):
                continue
            if status == "paused" and (pause_req or parked or any(t["status"] in ("paused", "pending") for t in st["sequence"])):
                continue
            finding = None
            if status == "resuming" and had_rerun(s, i):
                # D8: an accepted rerun with nothing to re-execute
                last_rerun = max(j for j, o in enumerate(s["ops"][:i + 1]) if o["op"] == "rerun")
                after = s["replies"][last_rerun].get("state") or {}
                nothing_picked = bool(after.get("reruns")) and after["reruns"][-1] == []
                if nothing_picked and not any(o["op"] == "report" for o in s["ops"][last_rerun:i + 1]):
                    finding = "D8"
            if finding is None:
                finding = region_of(s, i)
            if finding is None and any(o["id"] in CMDS for j in range(i) if isinstance(s["replies"][j].get("res"), list) for o in s["replies"][j]["res"]):
                finding = "D19"
            out.append(V("quiescent (nothing in flight, nothing offered) in status %s" % status, i, finding))
    return out


def mon_C04(s):
    out = []
    term_at = None
    term = None
    for i, (op, r) in enumerate(zip(s["ops"], s["replies"])):
        st = r.get("state")
        if st is None:
            continue
        if op["op"] == "rerun" and not raised(r):
            term_at, term = None, None
            continue
        # rejected request leaves the persisted state untouched
        if op["op"] == "req" and raised(r) and i > 0:
            before = s["replies"][i - 1].get("state")
            if before is not None and json.dumps(before, sort_keys=True) != json.dumps(st, sort_keys=True):
                out.append(V("rejected request %s changed the state" % op["status"], i))
        if term_at is None:
            if st["status"] in ("succeeded", "failed", "canceled"):
                term_at, term = i, st["status"]
            continue
        # after the first terminal status
        if st["status"] != term:
            if term == "succeeded" and st["status"] == "failed" and op["op"] in ("render", "req"):
                term = "failed"
            else:
                out.append(V("status changed %s -> %s after terminal by %s" % (term, st["status"], op["op"]), i))
                term = st["status"]
        if op["op"] == "next" and isinstance(r["res"], list) and r["res"]:
            before = s["replies"][i - 1]["state"]
            rof = set((x["id"], x["route"]) for x in before["staged"] if x["run_on_fail"])
            bad = [(o["id"], o["route"]) for o in r["res"] if (o["id"], o["route"]) not in rof]
            if term != "failed" or bad:
                out.append(V("offer after terminal status %s: %s" % (term, bad or [o["id"] for o in r["res"]]), i))
            else:
                # a task offered by a failed workflow is the clean-up beside a fail command that
                # actually fired: some predecessor's completion selected `fail` together with it
                for o in r["res"]:
                    sx = [x for x in before["staged"] if x["id"] == o["id"] and x["route"] == o["route"]]
                    if not sx or not sx[0]["prev"] or sx[0]["retry"] is not None:
                        continue
                    fired = False
                    for _, idx in sx[0]["prev"].items():
                        if idx < len(before["sequence"]) and any(k.startswith("fail__t") and v for k, v in before["sequence"][idx]["next"].items()):
                            fired = True
                    if not fired:
                        out.append(V("failed workflow offers %s although no fail command fired beside it" % o["id"], i))
        # a late report is one for an execution that exists (a report for a task the workflow never
        # had, or never ran on that route, is malformed input and is rejected by design)
        if op["op"] == "report" and raised(r) and "%s__r%s" % (op["task"], op["route"]) in ((r.get("state") or {}).get("tasks") or {}):
            out.append(V("late report raised %s in terminal status %s" % (raised(r), term), i,
                         "D5b" if raised(r) in ("KeyError", "TypeError", "IndexError") and rearrival_region(s, i) else None))
    return out


def mon_C09(s):
    out = []
    for i, (op, r) in enumerate(zip(s["ops"], s["replies"])):
        if op["op"] == "next" and i > 0 and isinstance(r["res"], list) and r["res"]:
            before = s["replies"][i - 1].get("state")
            if before and before["status"] in ("pausing", "paused"):
                out.append(V("offer while %s: %s" % (before["status"], [o["id"] for o in r["res"]]), i))
    out.extend(x for x in mon_C02(s) if "paus" in x["msg"])
    return out


def mon_C10(s):
    out = []
    led = ledgers(s["ops"])
    canceled_at = None
    errs_at_cancel = None
    for i, (op, r) in enumerate(zip(s["ops"], s["replies"])):
        st = r.get("state")
        if st is None:
            continue
        if op["op"] == "rerun" and not raised(r):
            canceled_at = None
            continue
        if canceled_at is None:
            if op["op"] == "req" and op["status"] in ("canceling", "canceled") and not raised(r):
                canceled_at = i
                prev_st = s["replies"][i - 1].get("state") if i > 0 else None
                errs_at_cancel = list((prev_st or st)["errors"])
            else:
                continue
        infl, parked = led[i]
        status = st["status"]
        if op["op"] == "next" and isinstance(r["res"], list) and r["res"]:
            out.append(V("offer after cancel: %s" % [o["id"] for o in r["res"]], i))
        if status == "succeeded":
            out.append(V("succeeded after cancel", i))
        if status == "canceling" and not infl:
            out.append(V("canceling with nothing in flight", i, region_of(s, i)))
        if status == "canceled" and infl:
            out.append(V("canceled with actions in flight", i, region_of(s, i)))
        if status not in ("canceling", "canceled", "failed"):
            out.append(V("status %s after cancel" % status, i))
        if status == "failed":
            new = [e for e in st["errors"] if e not in errs_at_cancel and e[0] not in ("ExecutionFailed", "UnreachableJoinError")]
            # the status the cancellation request met (not the one it left behind)
            before = s["replies"][canceled_at - 1].get("state") if canceled_at > 0 else None
            was_failed = before is not None and before["status"] == "failed"
            if not new and not was_failed:
                out.append(V("cancel turned into failed without a runtime error", i))
    return out


def mon_C11(s):
    out = []
    prev = None
    for i, (op, r) in enumerate(zip(s["ops"], s["replies"])):
        st = r.get("state")
        x = raised(r)
        if x == "ExpressionEvaluationException":
            out.append(V("expression error escaped %s" % op["op"], i))
        elif x and op["op"] in ("next", "report", "render") and x not in ("InvalidTask", "InvalidTaskStateEntry"):
            fin = None
            if x in ("KeyError", "TypeError", "IndexError") and rearrival_region(s, i):
                fin = "D5b"
            elif x in ("KeyError", "TypeError", "IndexError") and op["op"] == "report" and d31_region(s, i):
                fin = "D31"
            elif x in ("KeyError", "TypeError", "IndexError") and op["op"] == "report" and restaged_unfinished(s, i):
                fin = "D2"      # the report of a superseded action meets the record of the later one
            if x == "AttributeError" and op["op"] == "rerun":
                fin = "D14"
            out.append(V("%s escaped %s" % (x, op["op"]), i, fin))
        # a staged task that is ready is either offered or its rendering failed, and then the
        # workflow fails: a call that does neither has swallowed the failure
        if op["op"] == "next" and isinstance(r.get("res"), list) and prev is not None and st is not None \
                and prev["status"] in ("running", "resuming") and st["status"] in ("running", "resuming"):
            got = set((o["id"], o["route"]) for o in r["res"])
            for sx in prev["staged"]:
                if sx["ready"] and sx.get("items") is None and not sx.get("completed") and sx["id"] not in CMDS \
                        and (sx["id"], sx["route"]) not in got:
                    out.append(V("ready staged task %s is neither offered nor does the workflow fail" % sx["id"], i, region_of(s, i)))
                    break
        if st is not None and prev is not None:
            new = [e for e in st["errors"] if e not in prev["errors"] and e[0] == "ExpressionEvaluationException"]
            if new and st["status"] not in ("failed", "canceled", "canceling"):
                out.append(V("expression error recorded but status is %s" % st["status"], i))
        if st is not None:
            prev = st
    return out


def mon_C12(s):
    out = []
    td = tasks_def(s)
    led = ledgers(s["ops"])
    offered = {}   # (task, route) -> list of item ids offered in the current execution
    for i, (op, r) in enumerate(zip(s["ops"], s["replies"])):
        st = r.get("state")
        if op["op"] == "rerun":
            offered = {}
        if op["op"] == "report" and st is not None:
            key = "%s__r%s" % (op["task"], op["route"])
            idx = st["tasks"].get(key)
            t = td.get(op["task"])
            if idx is not None and t and t.get("with") is not None:
                rec = st["sequence"][idx]
                infl = [k for k in led[i][0] if k[0] == op["task"] and k[1] == op["route"] and k[2] is not None]
                if rec["status"] in ("succeeded", "failed", "canceled") and infl:
                    out.append(V("with-items task %s is %s while items %s are in flight" % (op["task"], rec["status"], sorted(k[2] for k in infl)), i, region_of(s, i)))
                if rec["status"] in ("succeeded", "failed", "canceled", "retrying"):
                    offered.pop((op["task"], op["route"]), None)
                if rec["status"] == "succeeded":
                    sx = [x for x in (s["replies"][i - 1]["state"]["staged"] if i else []) if x["id"] == op["task"] and x["route"] == op["route"]]
                    if sx and sx[0]["items"] is not None:
                        items = list(sx[0]["items"])
                        if op.get("item") is not None and op["item"] < len(items):
                            items[op["item"]] = op["status"]
                        if any(x != "succeeded" for x in items):
                            out.append(V("with-items task succeeded with item statuses %s" % items, i))
        if op["op"] == "next" and isinstance(r["res"], list):
            for o in r["res"]:
                t = td.get(o["id"])
                if not t or t.get("with") is None:
                    continue
                ids = [a["item_id"] for a in o["actions"]]
                pre = s["replies"][i - 1].get("state") if i else None
                if pre:
                    sx = [x for x in pre["staged"] if x["id"] == o["id"] and x["route"] == o["route"]]
                    if sx and sx[0]["items"]:
                        bad = [j for j in ids if j < len(sx[0]["items"]) and sx[0]["items"][j] != "null"]
                        unset = [j for j, v in enumerate(sx[0]["items"]) if v == "null"]
                        if bad:
                            out.append(V("items %s of %s offered although their status is %s" % (
                                bad, o["id"], [sx[0]["items"][j] for j in bad]), i, region_of(s, i)))
                        elif o["concurrency"] is None and sorted(ids) != unset:
                            out.append(V("items offered %s, not run yet %s" % (ids, unset), i, region_of(s, i)))
                k = (o["id"], o["route"])
                seen = offered.setdefault(k, [])
                dup = [x for x in ids if x in seen]
                if dup:
                    out.append(V("items %s of %s offered twice" % (dup, o["id"]), i, region_of(s, i)))
                if ids != sorted(ids) or (seen and ids and min(ids) < max(seen) and not dup):
                    out.append(V("items of %s offered out of order: %s after %s" % (o["id"], ids, seen), i, region_of(s, i)))
                seen.extend(ids)
                conc = o["concurrency"]
                if isinstance(conc, int) and not isinstance(conc, bool):
                    active = [x for x in led[i][0] if x[0] == o["id"] and x[1] == o["route"] and x[2] is not None]
                    if len(active) + len(ids) > max(conc, 1):
                        out.append(V("concurrency %s exceeded for %s: %d active + %d offered" % (conc, o["id"], len(active), len(ids)), i,
                                     region_of(s, i)))
                if o["items_count"] == 0 and o["actions"]:
                    out.append(V("empty items list offered with actions", i))
    return out


def mon_C13(s):
    out = []
    prev = None
    td = tasks_def(s)
    attempts = {}     # record index -> executions started, counted from the reports alone
    for i, (op, r) in enumerate(zip(s["ops"], s["replies"])):
        st = r.get("state")
        if st is None:
            continue
        if op["op"] == "rerun":
            attempts = {}
        if prev is not None and op["op"] == "report" and op["status"] == "running" and op.get("item") is None \
                and not raised(r):
            key = "%s__r%s" % (op["task"], op["route"])
            idx, was = st["tasks"].get(key), prev["tasks"].get(key)
            d = td.get(op["task"])
            if idx is not None and d and d.get("with") is None:
                if idx != was:
                    attempts[idx] = 1
                elif prev["sequence"][idx]["status"] == "retrying" and st["sequence"][idx]["status"] == "running":
                    attempts[idx] = attempts.get(idx, 1) + 1
                if d.get("retry") is not None and "lit" in d["retry"]["count"] and isinstance(d["retry"]["count"]["lit"], int) \
                        and not any("retry" in tr["do"] for tr in d["next"]):
                    want = max(d["retry"]["count"]["lit"], 0)
                    if attempts.get(idx, 1) > want + 1:
                        out.append(V("one visit of task %s was executed %d times, its retry policy allows %d" % (
                            op["task"], attempts[idx], want + 1), i))
        for t in st["sequence"]:
            rt = t.get("retry")
            if rt and isinstance(rt["count"], int) and not isinstance(rt["count"], bool) and rt["tally"] > max(rt["count"], 0):
                out.append(V("task %s retried %d times with count %s" % (t["id"], rt["tally"], rt["count"]), i))
            d = td.get(t["id"])
            if rt and d and d.get("retry") is not None and "lit" in d["retry"]["count"] \
                    and not any("retry" in tr["do"] for tr in d["next"]):
                want = d["retry"]["count"]["lit"]
                if rt["count"] != want:
                    out.append(V("task %s has retry count %s, the definition says %s" % (t["id"], rt["count"], want), i))
                if rt["tally"] > want:
                    out.append(V("task %s retried %d times, the definition allows %s" % (t["id"], rt["tally"], want), i))
        if prev is not None and op["op"] == "report":
            key = "%s__r%s" % (op["task"], op["route"])
            idx = st["tasks"].get(key)
            if idx is not None and idx < len(prev["sequence"]) and st["sequence"][idx]["status"] == "retrying":
                a, b = prev["sequence"][idx], st["sequence"][idx]
                if a["status"] in ("succeeded", "failed") and a["next"]:
                    out.append(V("attempt of %s was retried after its transitions had been decided" % op["task"], i))
                if a["next"] != b["next"] or len(st["contexts"]) != len(prev["contexts"]):
                    out.append(V("retried attempt of %s recorded decisions or published" % op["task"], i))
                extra = [x for x in st["staged"] if x not in prev["staged"] and not (x["id"] == op["task"] and x["route"] == op["route"])]
                if extra:
                    out.append(V("retried attempt of %s staged successors %s" % (op["task"], [x["id"] for x in extra]), i))
        if op["op"] == "next" and isinstance(r["res"], list) and prev is not None:
            for o in r["res"]:
                sx = [x for x in prev["staged"] if x["id"] == o["id"] and x["route"] == o["route"]]
                if sx and sx[0]["retry"] is not None:
                    want = sx[0]["retry"]["delay"] or 0
                    if o["delay"] != want:
                        out.append(V("retry of %s offered with delay %s, policy says %s" % (o["id"], o["delay"], want), i))
        prev = st
    return out


def mon_C07(s):
    out = []
    td = tasks_def(s)
    starts = {}
    for i, (op, r) in enumerate(zip(s["ops"], s["replies"])):
        st = r.get("state")
        if st is None:
            continue
        if op["op"] == "rerun":
            starts = {}
        if op["op"] == "next" and isinstance(r["res"], list) and i > 0:
            before = s["replies"][i - 1]["state"]
            for o in r["res"]:
                t = td.get(o["id"])
                if not t or t.get("join") is None:
                    continue
                srcs = inbound_sources(s, o["id"])
                need = len(srcs) if t["join"] == "all" else t["join"]
                have = 0
                for src in srcs:
                    idx = before["tasks"].get("%s__r%s" % (src, o["route"]))
                    if idx is None:
                        continue
                    rec = before["sequence"][idx]
                    if any(v for k, v in rec["next"].items() if k.rsplit("__t", 1)[0] == o["id"]):
                        have += 1
                if have < need:
                    out.append(V("join %s offered with %d of %d inbound satisfied" % (o["id"], have, need), i))
        if op["op"] == "report" and op["status"] == "running" and op.get("item") is None:
            t = td.get(op["task"])
            if t and t.get("join") is not None:
                k = (op["task"], op["route"])
                starts[k] = starts.get(k, 0) + 1
                in_loop = False  # a join inside a loop is legitimately started once per iteration
                for x in s["def"]["tasks"]:
                    for tr in x["next"]:
                        if any(name_index(s, d) <= name_index(s, x["name"]) for d in tr["do"] if d not in CMDS):
                            in_loop = True
                has_retry = t.get("retry") is not None or any("retry" in tr["do"] for tr in t["next"])
                if starts[k] > 1 and not in_loop and not has_retry:
                    out.append(V("join %s started %d times on route %s" % (op["task"], starts[k], op["route"]), i,
                                 "D2" if has_count_join_below_all(s) else None))
        if st["status"] == "succeeded" and not had_rerun(s, i):
            for x in st["staged"]:
                t = td.get(x["id"])
                if t and t.get("join") is not None and not x["ready"]:
                    out.append(V("succeeded with an unsatisfied staged join %s" % x["id"], i))
    return out


def name_index(s, name):
    for i, t in enumerate(s["def"]["tasks"]):
        if t["name"] == name:
            return i
    return 10 ** 6


def mon_C18(s):
    out = []
    prev = None
    for i, (op, r) in enumerate(zip(s["ops"], s["replies"])):
        st = r.get("state")
        if st is None:
            continue
        if prev is not None:
            if st["contexts"][:len(prev["contexts"])] != prev["contexts"]:
                out.append(V("published context snapshots changed or shrank", i, None))
            if st["routes"][:len(prev["routes"])] != prev["routes"]:
                out.append(V("routes changed or shrank", i))
            if len(st["sequence"]) < len(prev["sequence"]):
                out.append(V("records removed", i))
            for a, b in zip(prev["sequence"], st["sequence"]):
                if (a["id"], a["route"]) != (b["id"], b["route"]):
                    out.append(V("record identity changed", i))
                elif a["ctxs_in"] != b["ctxs_in"] or a["prev"] != b["prev"]:
                    out.append(V("context/predecessors of started record %s changed" % a["id"], i))
                elif any(a["next"].values()) or a["next"]:
                    # decisions were recorded: status and decisions are frozen
                    ak = {k: v for k, v in a["next"].items()}
                    changed = [k for k in ak if k in b["next"] and b["next"][k] != ak[k]]
                    missing = [k for k in ak if k not in b["next"]]
                    if changed or missing:
                        out.append(V("decisions of %s changed after being recorded" % a["id"], i))
                    if a["status"] in TERMINAL and b["status"] != a["status"] and len(a["next"]) >= 1 and op["op"] != "rerun":
                        out.append(V("status of decided record %s changed %s -> %s" % (a["id"], a["status"], b["status"]), i))
        prev = st
    return out


def mon_C19(s):
    out = []
    for i in range(1, len(s["ops"])):
        if s["ops"][i]["op"] == "next" and s["ops"][i - 1]["op"] == "next":
            a, b = s["replies"][i - 1], s["replies"][i]
            if json.dumps(a, sort_keys=True) != json.dumps(b, sort_keys=True):
                out.append(V("second next differs from the first", i))
        if s["ops"][i]["op"] == "next" and isinstance(s["replies"][i]["res"], list):
            ids = [(o["id"], o["route"]) for o in s["replies"][i]["res"]]
            if ids != sorted(ids):
                out.append(V("offers not in stable order", i))
    return out


def mon_C15(s):
    out = []
    for i, (op, r) in enumerate(zip(s["ops"], s["replies"])):
        x = raised(r)
        if x in INTERNAL:
            fin = None
            if x in ("KeyError", "TypeError", "IndexError") and rearrival_region(s, i):
                fin = "D5b"
            if x == "AttributeError" and op["op"] == "rerun":
                fin = "D14"
            if fin is None and op["op"] == "report" and op["task"] in CMDS:
                fin = "D19"
            if fin is None and x in ("KeyError", "TypeError", "IndexError") and op["op"] == "report":
                if d31_region(s, i):
                    fin = "D31"
                elif restaged_unfinished(s, i):
                    fin = "D2"      # the report of a superseded action meets the record of the later one
            out.append(V("internal error %s escaped %s" % (x, op["op"]), i, fin))
    return out


def mon_C01(s):
    out = []
    from harness import refsem
    msg = refsem.check_success(s)
    if msg:
        out.append(V(msg, len(s["ops"]) - 1))
    td = tasks_def(s)
    roots = set(td) - set(d for t in s["def"]["tasks"] for tr in t["next"] for d in tr["do"])
    for i, (op, r) in enumerate(zip(s["ops"], s["replies"])):
        if op["op"] == "next" and isinstance(r["res"], list) and i > 0:
            before = s["replies"][i - 1]["state"]
            for o in r["res"]:
                sx = [x for x in before["staged"] if x["id"] == o["id"] and x["route"] == o["route"]]
                if not sx:
                    out.append(V("task %s offered without a staged entry" % o["id"], i))
                    continue
                x = sx[0]
                if not x["prev"] and o["id"] not in roots and x["retry"] is None and not had_rerun(s, i):
                    out.append(V("non-start task %s offered without a predecessor" % o["id"], i))
                for tid, idx in x["prev"].items():
                    rec = before["sequence"][idx]
                    key = "%s__t%s" % (o["id"], tid.rsplit("__t", 1)[1])
                    if rec["status"] not in TERMINAL or not rec["next"].get(key):
                        out.append(V("task %s offered through an unsatisfied transition from %s" % (o["id"], rec["id"]), i))
    # once per justification, where it can be counted without a reference run: a task without join
    # that several transitions lead to and that lies on no cycle gets a route of its own per
    # traversal, so in a finished, never rerun workflow it has executed once per transition into it
    # that was decided true
    last = s["replies"][-1].get("state") if s["replies"] else None
    if last and last["status"] == "succeeded" and not had_rerun(s, len(s["ops"]) - 1) and not last["staged"]:
        for name, t in td.items():
            if t.get("join") is not None or t.get("retry") is not None or name in CMDS or in_cycle(s, name):
                continue
            if any("retry" in tr["do"] for tr in t["next"]):
                continue
            inbound = sum(1 for x in s["def"]["tasks"] for tr in x["next"] for d in set(tr["do"]) if d == name)
            if inbound < 2:
                continue
            trues = sum(1 for rec in last["sequence"] for k, v in rec["next"].items()
                        if v is True and k.rsplit("__t", 1)[0] == name)
            execs = sum(1 for rec in last["sequence"] if rec["id"] == name)
            if trues != execs:
                out.append(V("task %s executed %d times, %d transitions into it were decided true" % (name, execs, trues),
                             len(s["ops"]) - 1))
    # decisions agree with an independent evaluation of the condition on what the predecessor saw
    for i, (op, r) in enumerate(zip(s["ops"], s["replies"])):
        st = r.get("state")
        if op["op"] != "report" or st is None or op.get("item") is not None or raised(r):
            continue
        idx = st["tasks"].get("%s__r%s" % (op["task"], op["route"]))
        t = td.get(op["task"])
        if idx is None or not t or t.get("with") is not None:
            continue
        rec = st["sequence"][idx]
        if rec["status"] not in ("succeeded", "failed") or op["status"] not in ("succeeded", "failed"):
            continue
        # only the report that completed the record decided its transitions (a late or duplicate
        # report finds them decided, on the result of the earlier completion)
        before = s["replies"][i - 1].get("state") if i > 0 else None
        if before is None or idx >= len(before["sequence"]) or before["sequence"][idx]["status"] in TERMINAL:
            continue
        env = None
        try:
            cx = {}
            for ci in rec["ctxs_in"]:
                cx = _merge(cx, json.loads(json.dumps(st["contexts"][ci])))
            env = {"ctx": cx, "status": rec["status"], "result": op.get("result")}
        except Exception:
            env = None
        # map edges (dst,key) -> transition via the order the composer assigns keys
        keys = {}
        for ref, tr in enumerate(t["next"]):
            for d in tr["do"]:
                if d == "retry":
                    continue
                keys.setdefault(d, []).append(ref)
        for d, refs in keys.items():
            seen = []
            for ref in refs:
                if ref in seen:
                    continue
                seen.append(ref)
            for k, ref in enumerate(seen):
                w = t["next"][ref]["when"]
                exp = True if w is None else None
                if w is not None and env is not None:
                    val = refeval(w, env)
                    if val is not UNKNOWN:
                        exp = bool(val)
                got = rec["next"].get("%s__t%d" % (d, k))
                if exp is not None and got is not None and got is not exp:
                    out.append(V("transition %s -> %s (%s) decided %r, its condition evaluates to %s on what the task saw" % (
                        op["task"], d, k, got, exp), i))
    return out


UNKNOWN = object()


def _scalar(v):
    return v is None or isinstance(v, (bool, int, str))


def refeval(e, env):
    """independent evaluation of the unambiguous part of the expression fragment; UNKNOWN when
    the two expression languages could disagree or the expression would fail"""
    from harness import render
    if "lit" in e:
        return render.undict(e["lit"])
    if "ctx" in e:
        return env["ctx"].get(e["ctx"], UNKNOWN) if not e["ctx"].startswith("__") else UNKNOWN
    if "ctxkey" in e:
        d = env["ctx"].get(e["ctxkey"], UNKNOWN)
        if not isinstance(d, dict) or e["k"] not in d:
            return UNKNOWN
        return d[e["k"]]
    if "fn" in e:
        if e["fn"] == "succeeded":
            return env["status"] == "succeeded"
        if e["fn"] == "failed":
            return env["status"] == "failed"
        if e["fn"] == "completed":
            return True
        if e["fn"] == "result":
            return env["result"]
        return UNKNOWN
    if "not" in e:
        v = refeval(e["not"], env)
        return (not v) if isinstance(v, bool) else UNKNOWN
    if "op" in e:
        a, b = refeval(e["a"], env), refeval(e["b"], env)
        if a is UNKNOWN or b is UNKNOWN:
            return UNKNOWN
        o = e["op"]
        if o in ("and", "or"):
            if not (isinstance(a, bool) and isinstance(b, bool)):
                return UNKNOWN
            return (a and b) if o == "and" else (a or b)
        if o == "lt":
            if isinstance(a, bool) or isinstance(b, bool) or not (isinstance(a, int) and isinstance(b, int)):
                return UNKNOWN
            return a < b
        if o == "eq":
            if not (_scalar(a) and _scalar(b)) or (isinstance(a, bool) != isinstance(b, bool)):
                return UNKNOWN
            return a == b
        if o == "add":
            if isinstance(a, bool) or isinstance(b, bool) or not (isinstance(a, int) and isinstance(b, int)):
                return UNKNOWN
            return a + b
        return UNKNOWN
    return UNKNOWN


def _merge(left, right):
    for k, v in right.items():
        if k in left and isinstance(left[k], dict) and isinstance(v, dict):
            left[k] = _merge(dict(left[k]), v)
        else:
            left[k] = v
    return left


def mon_C06(s):
    """(1) the context a task is offered with is the overlay, in arrival order, of exactly the
    context snapshots its staged entry lists; (2) the snapshot a transition appends contains
    exactly the variables that transition publishes; (3) a value published as a plain reference
    to a never-republished workflow variable is that variable's value, unchanged"""
    out = []
    td = tasks_def(s)
    vars_lit = {n: e["lit"] for n, e in s["def"]["vars"] if "lit" in e}
    republished = set(n for t in s["def"]["tasks"] for tr in t["next"] for n, _ in tr["publish"])
    from harness import render
    for i, (op, r) in enumerate(zip(s["ops"], s["replies"])):
        st = r.get("state")
        if st is None:
            continue
        if op["op"] == "next" and isinstance(r["res"], list) and i > 0:
            pre = s["replies"][i - 1]["state"]
            for o in r["res"]:
                sx = [x for x in pre["staged"] if x["id"] == o["id"] and x["route"] == o["route"]]
                if not sx:
                    continue
                exp = {}
                try:
                    for idx in sx[0]["ctxs_in"]:
                        exp = _merge(exp, json.loads(json.dumps(pre["contexts"][idx])))
                except Exception:
                    continue
                got = {k: v for k, v in o["ctx"].items() if not k.startswith("__")}
                if json.dumps(exp, sort_keys=True) != json.dumps(got, sort_keys=True):
                    out.append(V("task %s is rendered with a context that is not the overlay of its inbound snapshots in arrival order" % o["id"], i,
                                 "D7" if False else None))
                t = td.get(o["id"])
                # the entry lists, for every predecessor it names, the snapshot that predecessor
                # published on the transition into this task ...
                for pk, pidx in sx[0]["prev"].items():
                    key = pk.rsplit("__t", 1)[1]
                    if pidx < len(pre["sequence"]):
                        cidx = (pre["sequence"][pidx].get("ctxs_out") or {}).get("%s__t%s" % (o["id"], key))
                        if cidx is not None and cidx not in sx[0]["ctxs_in"]:
                            out.append(V("task %s is offered without the variables its predecessor %s published on the way" % (
                                o["id"], pk), i))
                # ... and a join names as many distinct predecessor tasks as its barrier requires
                if t and t.get("join") is not None and not has_cycle(s) and not has_count_join_below_all(s):
                    srcs = inbound_sources(s, o["id"])
                    need = len(srcs) if t["join"] == "all" else min(t["join"], len(srcs))
                    have = set(pk.rsplit("__t", 1)[0] for pk in sx[0]["prev"])
                    if len(have) < need:
                        # D27: after a rerun upstream of a join that had already been started, the
                        # join is staged afresh with the rerun branch alone
                        d27 = had_rerun(s, i) and any(rec["id"] == o["id"] for rec in pre["sequence"])
                        out.append(V("join %s is offered although its staged entry names only %d of the %d predecessors its barrier needs (their publishes are lost)" % (
                            o["id"], len(have), need), i, "D27" if d27 else None))
                if t and t.get("with") is None:
                    for a in o["actions"]:
                        for name, e in t["input"]:
                            if e == {"ctx": "y"} and "y" in vars_lit and "y" not in republished and isinstance(a["input"], dict):
                                if json.dumps(a["input"].get(name)) != json.dumps(render.undict(vars_lit["y"])):
                                    out.append(V("input %s of %s is %r, the variable it references is %r" % (
                                        name, o["id"], a["input"].get(name), vars_lit["y"]), i))
        if op["op"] == "report" and not raised(r):
            idx = st["tasks"].get("%s__r%s" % (op["task"], op["route"]))
            t = td.get(op["task"])
            if idx is None or not t:
                continue
            rec = st["sequence"][idx]
            if rec["ctxs_out"] and rec["status"] in TERMINAL:
                for tid, cidx in rec["ctxs_out"].items():
                    dst, key = tid.rsplit("__t", 1)
                    refs = [ri for ri, tr in enumerate(t["next"]) if dst in tr["do"]]
                    # the key-th distinct transition to dst
                    seen = []
                    for ri in refs:
                        if ri not in seen:
                            seen.append(ri)
                    if int(key) < len(seen) and cidx < len(st["contexts"]):
                        tr = t["next"][seen[int(key)]]
                        names = set(n for n, _ in tr["publish"])
                        got = set(st["contexts"][cidx].keys())
                        if got != names:
                            out.append(V("transition %s -> %s appended a snapshot with variables %s, it publishes %s" % (
                                op["task"], dst, sorted(got), sorted(names)), i))
                        # every published value equals an independent evaluation of its expression on
                        # what the task saw, overlaid with the entries published before it in the
                        # same block (only where that evaluation is unambiguous)
                        # (only when this very report completed the record: a late or duplicate report
                        # leaves the snapshots of the earlier completion in place)
                        before = s["replies"][i - 1].get("state") if i > 0 else None
                        fresh = before is not None and idx < len(before["sequence"]) and \
                            before["sequence"][idx]["status"] not in TERMINAL
                        if fresh and t.get("with") is None and op.get("item") is None and op["status"] in ("succeeded", "failed") \
                                and rec["status"] == op["status"]:
                            try:
                                roll = {}
                                for ci in rec["ctxs_in"]:
                                    roll = _merge(roll, json.loads(json.dumps(st["contexts"][ci])))
                            except Exception:
                                roll = None
                            if roll is not None:
                                for n, e in tr["publish"]:
                                    if n not in st["contexts"][cidx]:
                                        break
                                    want = refeval(e, {"ctx": roll, "status": rec["status"], "result": op.get("result")})
                                    got_v = st["contexts"][cidx][n]
                                    if want is not UNKNOWN and json.dumps(want, sort_keys=True) != json.dumps(got_v, sort_keys=True):
                                        out.append(V("transition %s -> %s publishes %s: the snapshot holds %r, the expression evaluates to %r on what the task saw" % (
                                            op["task"], dst, n, got_v, want), i))
                                        break
                                    roll[n] = json.loads(json.dumps(got_v))
                        for n, e in tr["publish"]:
                            if "lit" in e and n in st["contexts"][cidx] and n not in ("d",):
                                want = render.undict(e["lit"])
                                if json.dumps(st["contexts"][cidx][n], sort_keys=True) != json.dumps(want, sort_keys=True):
                                    out.append(V("transition %s -> %s publishes %s = %r, the snapshot it appended holds %r" % (
                                        op["task"], dst, n, want, st["contexts"][cidx][n]), i))
                            if e == {"ctx": "y"} and "y" in vars_lit and "y" not in republished and n in st["contexts"][cidx]:
                                if json.dumps(st["contexts"][cidx][n]) != json.dumps(render.undict(vars_lit["y"])):
                                    out.append(V("published %s is %r, the variable it references is %r" % (
                                        n, st["contexts"][cidx][n], vars_lit["y"]), i))
    return out


def mon_C17(s):
    out = []
    for i, (op, r) in enumerate(zip(s["ops"], s["replies"])):
        if op["op"] == "rerun" and i > 0 and not raised(r):
            before = s["replies"][i - 1].get("state")
            if before and before["status"] not in ("succeeded", "failed", "canceled", "timeout", "abandoned"):
                out.append(V("rerun accepted while the workflow is %s" % before["status"], i))
            st = r.get("state")
            if st and st["status"] != "resuming":
                out.append(V("accepted rerun left the workflow %s" % st["status"], i))
            known = set(before["tasks"].keys()) if before else set()
            for q in op["reqs"]:
                if "%s__r%s" % (q["task"], q["route"]) not in known:
                    out.append(V("rerun accepted for a task execution that does not exist: %s" % q["task"], i))
    # convergence: after a rerun the status is decided by the current execution of each task; a
    # record superseded by the rerun has no say (a canceled execution that was re-executed does
    # not make the workflow canceled again)
    last_rerun = None
    for i, (op, r) in enumerate(zip(s["ops"], s["replies"])):
        st = r.get("state")
        if op["op"] == "rerun" and not raised(r):
            last_rerun = i
            continue
        if last_rerun is None or st is None or st["status"] != "canceled":
            continue
        if any(o["op"] == "req" and o["status"] in ("canceling", "canceled") for o in s["ops"][last_rerun:i + 1]):
            break
        cur = [st["sequence"][k] for k in st["tasks"].values() if k < len(st["sequence"])]
        if not any(q.get("status") in ("canceling", "canceled") for q in cur):
            out.append(V("workflow canceled after the rerun although no current task execution is canceled", i, region_of(s, i)))
        break
    return out


def none(s):
    return []


MON = {
    "C01": mon_C01, "C02": mon_C02, "C03": mon_C03, "C04": mon_C04, "C05": none, "C06": mon_C06,
    "C07": mon_C07, "C08": none, "C09": mon_C09, "C10": mon_C10, "C11": mon_C11, "C12": mon_C12,
    "C13": mon_C13, "C14": none, "C15": mon_C15, "C16": mon_C06, "C17": mon_C17, "C18": mon_C18,
    "C19": mon_C19, "C20": none,
}
