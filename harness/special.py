"""Property-specific scenario kinds and monitors that need more than one run."""
import json
import os
import random
import time

from harness import core
from harness import gen
from harness import monitors
from harness import render

V = monitors.V


# ---------------------------------------------------------------------------------------------
# C14: composition


def compose_scenarios(seed, count, prof, budget):
    out = []
    t0 = time.time()
    for i in range(count * 3):
        if time.time() - t0 > budget:
            break
        rng = random.Random("compose/%s/%d" % (seed, i))
        defn, lang, inputs, feats = gen.gen_def(rng, prof)
        ops = [{"op": "compose", "def": defn, "lang": lang}]
        # a permutation of the declaration order must compose to the same graph
        d2 = json.loads(json.dumps(defn))
        rng.shuffle(d2["tasks"])
        ops.append({"op": "compose", "def": d2, "lang": lang})
        imp = core.Impl()
        try:
            reps = [imp.play(o) for o in ops]
        except Exception as e:
            out.append({"idx": i, "def": defn, "lang": lang, "ops": ops, "replies": [], "feats": sorted(feats),
                        "harness_error": "%s: %s" % (type(e).__name__, e)})
            continue
        out.append({"idx": i, "def": defn, "lang": lang, "ops": ops, "replies": reps, "feats": sorted(feats)})
    return out


def reference_graph(defn):
    """independent construction: reachability closure + one edge per (task, transition, target)"""
    tasks = {t["name"]: t for t in defn["tasks"]}
    targets = set(d for t in defn["tasks"] for tr in t["next"] for d in tr["do"])
    roots = sorted(n for n in tasks if n not in targets)
    seen, todo = set(), list(roots)
    edges = {}
    retry_cmd = set()
    while todo:
        n = todo.pop()
        if n in seen:
            continue
        seen.add(n)
        t = tasks.get(n)
        if not t:
            continue
        for ref, tr in enumerate(t["next"]):
            for d in tr["do"]:
                if d == "retry":
                    retry_cmd.add(n)
                    continue
                edges[(n, ref, d)] = tr["when"] is not None
                todo.append(d)
    nodes = set(seen) | set(d for (_, _, d) in edges)
    return roots, nodes, edges, retry_cmd


def mon_C14(s):
    out = []
    if not s["replies"] or "res" not in s["replies"][0]:
        return out
    defn = s["def"]
    tasks = {t["name"]: t for t in defn["tasks"]}
    g = s["replies"][0]["res"]
    roots, nodes, edges, retry_cmd = reference_graph(defn)
    got_nodes = set(n["id"] for n in g["nodes"])
    if got_nodes != nodes:
        out.append(V("graph nodes %s differ from reachable tasks %s" % (sorted(got_nodes), sorted(nodes)), 0))
    got_edges = sorted((e["src"], e["ref"], e["dst"], bool(e["criteria"])) for e in g["edges"])
    want_edges = sorted((a, b, c, w) for (a, b, c), w in edges.items())
    if got_edges != want_edges:
        out.append(V("graph edges differ: got %s want %s" % (got_edges[:8], want_edges[:8]), 0))
    keys = sorted((e["src"], e["dst"], e["key"]) for e in g["edges"])
    if len(set(keys)) != len(keys):
        out.append(V("duplicate edge identity", 0))
    if g["roots"] != [r for r in roots if r in got_nodes]:
        graph_roots = sorted(n for n in got_nodes if not any(e["dst"] == n for e in g["edges"]))
        if g["roots"] != graph_roots:
            out.append(V("roots %s are not the tasks nothing transitions into %s" % (g["roots"], graph_roots), 0))
    for n in g["nodes"]:
        t = tasks.get(n["id"])
        if t is None:
            continue
        want_b = None if t["join"] is None else ("*" if t["join"] == "all" else t["join"])
        if n["barrier"] != want_b:
            out.append(V("barrier of %s is %r, join says %r" % (n["id"], n["barrier"], want_b), 0))
        has_retry = t["retry"] is not None or n["id"] in retry_cmd
        if (n["retry"] is not None) != has_retry:
            out.append(V("retry attribute of %s is %r but retry declared=%s" % (n["id"], n["retry"], has_retry), 0))
        elif n["id"] in retry_cmd and (not n["retry"]["when"] or n["retry"]["delay"]):
            # a retry command becomes the task's policy (condition of the transition, count 3)
            out.append(V("task %s has a retry command but its policy is %r" % (n["id"], n["retry"]), 0))
    if len(s["replies"]) > 1 and "res" in s["replies"][1]:
        if core.dumps(s["replies"][1]["res"]) != core.dumps(g):
            out.append(V("graph depends on the declaration order", 1))
    return out


# ---------------------------------------------------------------------------------------------
# C05: twin without the persist ops


def mon_C05(s):
    out = []
    fin = "D2" if monitors.has_count_join_below_all(s) else None
    if any(o["op"] == "persist" or o.get("persist_first") for o in s["ops"]):
        imp = core.Impl()
        for i, o in enumerate(s["ops"]):
            if o["op"] == "persist":
                continue
            if o.get("persist_first"):
                o = {k: v for k, v in o.items() if k != "persist_first"}
            r = imp.play(o)
            a = json.loads(core.dumps(r))
            b = json.loads(core.dumps(s["replies"][i]))
            d = core.first_diff(b, a)
            if d:
                out.append(V("persisted run differs from the never-persisted run: %s" % d[:200], i, fin))
                break
    if out:
        return out
    # the other twin: the conductor is persisted and restored after every operation, so nothing
    # two of its structures share in memory survives from one operation to the next
    imp = core.Impl()
    for i, o in enumerate(s["ops"]):
        if o["op"] == "persist":
            continue
        r = imp.play(o)
        a = json.loads(core.dumps(r))
        b = json.loads(core.dumps(s["replies"][i]))
        d = core.first_diff(b, a)
        if d:
            out.append(V("run differs from the run persisted after every operation: %s" % d[:200], i, fin))
            break
        imp.play({"op": "persist"})
    return out


# ---------------------------------------------------------------------------------------------
# C20: shorthand twins


def to_shorthand(spec, rng):
    """rewrite a long-form native spec dict into documented shorthands where possible"""
    spec = json.loads(json.dumps(spec))
    for name, t in spec["tasks"].items():
        if isinstance(t.get("with"), dict) and list(t["with"].keys()) == ["items"]:
            t["with"] = t["with"]["items"]
        inp = t.get("input")
        if isinstance(inp, dict) and inp and all(_inlineable(v) for v in inp.values()) and rng.random() < 0.8:
            t["action"] = t["action"] + " " + " ".join("%s=%s" % (k, _inline(v)) for k, v in inp.items())
            del t["input"]
        for tr in t.get("next", []):
            do = tr.get("do")
            if do == ["continue"] and len(tr) > 1 and rng.random() < 0.7:
                del tr["do"]
            elif isinstance(do, list) and len(set(do)) == len(do):
                tr["do"] = rng.choice([", ", ",", " , "]).join(do)
            pub = tr.get("publish")
            if pub and all(_inlineable(list(p.values())[0]) for p in pub) and rng.random() < 0.8:
                tr["publish"] = rng.choice([" ", ", ", "; "]).join(
                    "%s=%s" % (list(p.keys())[0], _inline(list(p.values())[0])) for p in pub)
    return spec


def _inlineable(v):
    if v is None or isinstance(v, (bool, int)):
        return True
    if isinstance(v, str):
        if v.startswith("<%") or v.startswith("{{"):
            return True
        if v == "" or v != v.strip() or "=" in v or "\n" in v:
            return False          # outside the documented inline forms
        return "'" not in v       # a double quote inside is written between apostrophes
    if isinstance(v, dict):
        return all(isinstance(k, str) for k in v) and "'" not in json.dumps(v)
    return False


def _inline(v):
    if v is None:
        return "null"
    if v is True:
        return "true"
    if v is False:
        return "false"
    if isinstance(v, int):
        return str(v)
    if isinstance(v, dict):
        return "'%s'" % json.dumps(v)
    if v.startswith("<%") or v.startswith("{{"):
        return v
    if '"' in v:
        return "'%s'" % v
    return '"%s"' % v


class ShortImpl(core.Impl):
    def __init__(self, rng_seed):
        core.Impl.__init__(self)
        self.rng_seed = rng_seed

    def play(self, op):
        if op["op"] == "init":
            from orquesta import conducting
            from orquesta.specs import native as native_specs
            long_spec = render.to_spec(op["def"], op.get("lang", "yaql"))
            short = to_shorthand(long_spec, random.Random(self.rng_seed))
            self.short_spec = short
            self.spec = native_specs.WorkflowSpec(short)
            self.c = conducting.WorkflowConductor(self.spec, context={}, inputs=render.undict(op.get("inputs") or {}))
            self.c.get_workflow_status()
            return {"res": None, "state": self.state()}
        return core.Impl.play(self, op)


def shorthand_scenarios(seed, count, prof, budget):
    from harness import corr
    hp = gen.HistProfile(p_fail=0.2)
    return corr.run_scenarios("C20/%s" % seed, count, prof, hp, budget_s=budget)


def mon_C20(s):
    """replay the same ops on the shorthand twin of the definition; everything observable must agree"""
    if not s["ops"] or s["ops"][0]["op"] != "init":
        return []
    imp = ShortImpl(core.dumps(s["def"]))
    out = []
    try:
        for i, o in enumerate(s["ops"]):
            r = imp.play(o)
            d = core.first_diff(json.loads(core.dumps(s["replies"][i])), json.loads(core.dumps(r)))
            if d:
                out.append(V("shorthand twin differs: %s" % d[:240], i, _d11(imp.short_spec)))
                break
    except Exception as e:
        out.append(V("shorthand twin raised %s: %s" % (type(e).__name__, str(e)[:200]), 0))
    if not out:
        from orquesta.composers import native as native_composer
        from orquesta.specs import native as native_specs
        long_spec = native_specs.WorkflowSpec(render.to_spec(s["def"], s["lang"]))
        g1 = core.canon_graph(native_composer.WorkflowComposer.compose(long_spec))
        g2 = core.canon_graph(native_composer.WorkflowComposer.compose(imp.spec))
        if core.dumps(g1) != core.dumps(g2):
            out.append(V("shorthand twin composes to a different graph", 0))
        if core.dumps(long_spec.inspect()) != core.dumps(imp.spec.inspect()) and not (long_spec.inspect() and imp.spec.inspect()):
            out.append(V("shorthand twin differs in inspection verdict", 0))
    return out


class SpecImpl(core.Impl):
    """plays ops on a conductor built from a given native spec dict"""

    def __init__(self, spec_dict):
        core.Impl.__init__(self)
        self.spec_dict = spec_dict

    def play(self, op):
        if op["op"] == "init":
            from orquesta import conducting
            from orquesta.specs import native as native_specs
            self.spec = native_specs.WorkflowSpec(self.spec_dict)
            self.c = conducting.WorkflowConductor(self.spec, context={}, inputs=render.undict(op.get("inputs") or {}))
            self.c.get_workflow_status()
            return {"res": None, "state": self.state()}
        return core.Impl.play(self, op)


def mon_C20_dictexpr(s):
    """an input (and a publish) whose value is a dictionary with an expression inside: the inline
    form `k='{"port": "<% ... %>", "tag": "x"}'` must mean what the long form means"""
    if not s["ops"] or s["ops"][0]["op"] != "init":
        return []
    lang = s.get("lang", "yaql")
    e = "{{ ctx('x') }}" if lang == "jinja" else "<% ctx(x) %>"
    long_spec = render.to_spec(s["def"], lang)
    target = None
    for name, t in long_spec["tasks"].items():
        if "with" not in t and name not in gen.CMDS:
            target = name
            break
    if target is None:
        return []
    # mixed case in keys and values: the inline form must not normalise what it decodes
    val = {"Port": e, "Tag": "X-Prod", "tag": "x"}
    long2 = json.loads(json.dumps(long_spec))
    t = long2["tasks"][target]
    inp = t.get("input")
    if inp is not None and not isinstance(inp, dict):
        return []
    t["input"] = dict(inp or {}, cfgx=val)
    short2 = json.loads(json.dumps(long2))
    ts = short2["tasks"][target]
    if not all(_inlineable(v) for v in ts["input"].values()):
        return []
    ts["action"] = ts["action"] + " " + " ".join("%s=%s" % (k, _inline(v)) for k, v in ts["input"].items())
    del ts["input"]
    a, b = SpecImpl(long2), SpecImpl(short2)
    try:
        for i, o in enumerate(s["ops"]):
            ra, rb = a.play(o), b.play(o)
            d = core.first_diff(json.loads(core.dumps(ra)), json.loads(core.dumps(rb)))
            if d:
                v = V("inline dictionary with an expression inside differs from its long form: %s" % d[:240], i, _d11(short2))
                v["spec_long"], v["spec_short"] = long2, short2
                return [v]
    except Exception as ex:
        return [V("dictionary-with-expression twin raised %s: %s" % (type(ex).__name__, str(ex)[:200]), 0)]
    return []


def _d11(spec):
    return None


# ---------------------------------------------------------------------------------------------


def mon_C15_inspect(s):
    """single-fault mutants of an accepted definition must be reported by inspection"""
    if not s["ops"] or s["ops"][0]["op"] != "init":
        return []
    import copy
    rng = random.Random(core.dumps(s["def"]))
    out = []
    base = s["def"]
    lang = s["lang"]
    try:
        if core.inspect_def(base, lang):
            return []
    except Exception:
        return []
    names = [t["name"] for t in base["tasks"]]
    reach = monitors.reachable(s)
    muts = []
    # (a) a transition to an undefined task, at every (task, transition, position)
    for ti, t in enumerate(base["tasks"]):
        if t["name"] not in reach:
            continue
        for ri, tr in enumerate(t["next"]):
            for di, dname in enumerate(tr["do"]):
                if dname in gen.CMDS:
                    continue
                m = copy.deepcopy(base)
                m["tasks"][ti]["next"][ri]["do"][di] = "zz_undefined"
                muts.append(("semantics", "undefined target in %s.next[%d]" % (t["name"], ri), m))
    # (b) a reference to an unassigned variable in a transition condition / publish / input
    for ti, t in enumerate(base["tasks"]):
        if t["name"] not in reach:
            continue
        m = copy.deepcopy(base)
        m["tasks"][ti]["input"].append(["bad", {"ctx": "never_assigned"}])
        muts.append(("context", "unassigned variable in input of %s" % t["name"], m))
        for ri, tr in enumerate(t["next"]):
            m = copy.deepcopy(base)
            m["tasks"][ti]["next"][ri]["when"] = {"op": "eq", "a": {"ctx": "never_assigned"}, "b": {"lit": 1}}
            muts.append(("context", "unassigned variable in when of %s.next[%d]" % (t["name"], ri), m))
            m = copy.deepcopy(base)
            m["tasks"][ti]["next"][ri]["publish"].append(["pv", {"ctx": "never_assigned"}])
            muts.append(("context", "unassigned variable in publish of %s.next[%d]" % (t["name"], ri), m))
        if t.get("retry") is not None:
            m = copy.deepcopy(base)
            m["tasks"][ti]["retry"]["when"] = {"op": "eq", "a": {"ctx": "never_assigned"}, "b": {"lit": 1}}
            muts.append(("context", "unassigned variable in retry.when of %s" % t["name"], m))
    # (d) the string form of `do` with a comma missing or an empty element: the tokens name no task
    for ti, t in enumerate(base["tasks"]):
        if t["name"] not in reach:
            continue
        for ri, tr in enumerate(t["next"]):
            if len(tr["do"]) >= 2:
                m = copy.deepcopy(base)
                m["tasks"][ti]["next"][ri]["do_raw"] = " ".join(tr["do"])
                muts.append(("semantics", "comma missing in the do string of %s.next[%d]" % (t["name"], ri), m))
            if tr["do"]:
                m = copy.deepcopy(base)
                m["tasks"][ti]["next"][ri]["do_raw"] = ", ".join(tr["do"]) + ","
                muts.append(("semantics", "empty element in the do string of %s.next[%d]" % (t["name"], ri), m))
    # (c) a task named like an engine command
    if names:
        m = copy.deepcopy(base)
        old = m["tasks"][0]["name"]
        m["tasks"][0]["name"] = "noop"
        for t in m["tasks"]:
            for tr in t["next"]:
                tr["do"] = ["noop" if x == old else x for x in tr["do"]]
        muts.append(("semantics", "task named noop", m))
    rng.shuffle(muts)
    for kind, what, m in muts[:12]:
        try:
            ins = core.inspect_def(m, lang)
        except Exception as e:
            out.append(V("inspection raised %s on a mutant (%s)" % (type(e).__name__, what), 0, "D22" if isinstance(e, KeyError) else None))
            continue
        if not ins:
            v = V("inspection accepts a broken definition: %s" % what, 0)
            v["ops"] = [{"op": "inspect", "def": m, "lang": lang}]
            out.append(v)
    return out


def mon_C19_hashseed(s, seeds=("1", "7")):
    """the same history replayed in other processes with other hash seeds gives identical replies,
    inspection report, graph and persisted form (byte for byte, key order included)"""
    import subprocess
    if not s["ops"] or s["ops"][0]["op"] != "init":
        return []
    # also a definition with inspection errors in one property (ties in the report order)
    ops = list(s["ops"])
    lines = "\n".join(json.dumps(o) for o in ops) + "\n"
    digests = []
    for hs in seeds:
        env = dict(os.environ, PYTHONHASHSEED=hs, PYTHONPATH=core.VERIF)
        p = subprocess.run(["/venv/bin/python", "-m", "harness.replay_digest"], input=lines.encode(),
                           stdout=subprocess.PIPE, stderr=subprocess.PIPE, env=env, cwd=core.VERIF, timeout=120)
        if p.returncode != 0:
            return [V("replay under PYTHONHASHSEED=%s failed: %s" % (hs, p.stderr.decode()[-200:]), 0)]
        digests.append(p.stdout.decode().strip())
    if len(set(digests)) > 1:
        return [V("replies / inspection report / graph differ between hash seeds %s" % (list(seeds),), len(ops) - 1)]
    return []


def hashseed_probe_def():
    """a definition whose inspection report has several entries tying on every sort key but the
    expression text (the situation in which set iteration order shows)"""
    return {"input": [], "vars": [["x", {"lit": 0}]], "output": [], "tasks": [
        {"name": "a", "action": "core.noop", "join": None, "with": None, "retry": None, "delay": None,
         "input": [["p", {"ctx": "nope"}], ["q", {"op": "add", "a": {"ctx": "nope"}, "b": {"lit": 1}}],
                   ["r", {"op": "add", "a": {"ctx": "nope"}, "b": {"lit": 2}}],
                   ["s", {"op": "add", "a": {"ctx": "nope"}, "b": {"lit": 3}}]],
         "next": []}]}


def extra_monitor(pid, s):
    from harness import twins
    if pid == "C08":
        return twins.mon_C08(s)
    if pid == "C09":
        return twins.mon_C09_twin(s)
    if pid == "C17":
        return twins.mon_C17_twin(s)
    if pid == "C15":
        return mon_C15_inspect(s)
    if pid == "C19":
        # a sample of the scenarios is replayed under other hash seeds (subprocesses are slow)
        if not isinstance(s.get("idx"), int) or s["idx"] % 12 == 0:
            return mon_C19_hashseed(s)
        return []
    if pid == "C05":
        return mon_C05(s)
    if pid == "C14":
        return mon_C14(s)
    if pid == "C20":
        return mon_C20(s) + mon_C20_dictexpr(s)
    return []
