"""Correspondence check: the model's executable definitions vs the implementation on the same
operation sequences."""
import json
import random
import sys
import time

from harness import core
from harness import gen


def run_scenarios(seed, count, prof, hp, budget_s=None):
    """play `count` generated scenarios on the implementation; returns list of scenario dicts"""
    out = []
    t0 = time.time()
    for i in range(count * 4):
        if budget_s is not None and time.time() - t0 > budget_s:
            break
        if len(out) >= count:
            break
        rng = random.Random("%s/%d" % (seed, i))
        defn, lang, inputs, feats = gen.gen_def(rng, prof)
        # the properties quantify over definitions that inspection accepts structurally
        try:
            ins = core.inspect_def(defn, lang)
        except Exception as e:
            out.append({"idx": i, "def": defn, "lang": lang, "ops": [], "replies": [], "feats": sorted(feats),
                        "harness_error": "inspect: %s: %s" % (type(e).__name__, e)})
            continue
        if "syntax" in ins or "semantics" in ins or ("expressions" in ins) or ("context" in ins and prof.p_badexpr == 0):
            continue
        h = gen.History(rng, hp, core.Impl(), defn, lang, inputs)
        try:
            h.run()
        except Exception as e:  # generator/harness problem or implementation crash in init
            out.append({"idx": i, "def": defn, "lang": lang, "ops": h.ops, "replies": h.replies,
                        "feats": sorted(feats), "harness_error": "%s: %s" % (type(e).__name__, e), "hist": h})
            continue
        out.append({"idx": i, "def": defn, "lang": lang, "ops": h.ops, "replies": h.replies,
                    "feats": sorted(feats), "hist": h})
    return out


def compare(scenarios, keys=None):
    """run the model on every scenario's ops, compare replies; returns list of disagreements"""
    lines = []
    for s in scenarios:
        lines.extend(s["ops"])
    if not lines:
        return []
    replies = core.run_model(lines)
    dis = []
    pos = 0
    for s in scenarios:
        n = len(s["ops"])
        mrep = replies[pos:pos + n]
        pos += n
        for j, (op, ir, mr) in enumerate(zip(s["ops"], s["replies"], mrep)):
            mr = core.canon_model_reply(op, mr)
            a = core.project(ir, keys)
            b = core.project(mr, keys)
            d = core.first_diff(json.loads(core.dumps(a)), json.loads(core.dumps(b)))
            if d:
                dis.append({"scenario": s["idx"], "op_index": j, "op": op, "diff": d,
                            "def": s["def"], "lang": s["lang"], "ops": s["ops"][:j + 1]})
                break
    return dis


if __name__ == "__main__":
    seed = sys.argv[1] if len(sys.argv) > 1 else "0"
    count = int(sys.argv[2]) if len(sys.argv) > 2 else 50
    prof = gen.Profile()
    hp = gen.HistProfile(p_pause=0.1, p_cancel=0.05, p_persist=0.1, p_rerun=0.3)
    t0 = time.time()
    sc = run_scenarios(seed, count, prof, hp)
    t1 = time.time()
    herr = [s for s in sc if "harness_error" in s]
    dis = compare([s for s in sc if "harness_error" not in s])
    t2 = time.time()
    print("scenarios %d, ops %d, harness errors %d, disagreements %d, impl %.1fs model %.1fs" % (
        len(sc), sum(len(s["ops"]) for s in sc), len(herr), len(dis), t1 - t0, t2 - t1))
    for s in herr[:3]:
        print("HARNESS ERROR", s["idx"], s["harness_error"])
        print(json.dumps(s["def"])[:1500])
    for d in dis[:3]:
        print("DISAGREE scenario", d["scenario"], "op", d["op_index"], json.dumps(d["op"]))
        print("   ", d["diff"])
        if "-v" in sys.argv:
            print("   def:", json.dumps(core.render.to_spec(d["def"], d["lang"]))[:3000])
            print("   ops:", json.dumps(d["ops"][1:])[:3000])
