"""In-process driver of the real conductor (/repo working tree), the model subprocess, and the
canonical form both are compared in."""
import json
import os
import subprocess
import sys

REPO = os.environ.get("ORQ_REPO", "/repo")
if REPO not in sys.path:
    sys.path.insert(0, REPO)

from orquesta import conducting  # noqa: E402
from orquesta import events  # noqa: E402
from orquesta import requests as orq_requests  # noqa: E402
from orquesta.composers import native as native_composer  # noqa: E402
from orquesta.specs import native as native_specs  # noqa: E402

from harness import render  # noqa: E402

VERIF = os.path.dirname(os.path.dirname(os.path.abspath(__file__)))
DRIVER = os.path.join(VERIF, "lean", ".lake", "build", "bin", "orqdriver")


def dumps(x):
    return json.dumps(x, sort_keys=True, separators=(",", ":"))


# ---------------------------------------------------------------------------------------------
# canonical forms of the implementation's observations


def _err_kind(msg):
    if msg.startswith("Execution failed"):
        return "ExecutionFailed"
    k = msg.split(":")[0]
    if k in ("YaqlEvaluationException", "JinjaEvaluationException"):
        return "ExpressionEvaluationException"
    return k


def canon_errors(errors):
    out = []
    for e in errors:
        t = [_err_kind(e.get("message", "")), e.get("task_id"), e.get("route"),
             e.get("task_transition_id"), e.get("result")]
        if t not in out:
            out.append(t)
    return out


def _rv(v):
    if isinstance(v, str):
        return "<expr>"
    return v


def canon_retry(r):
    if r is None:
        return None
    return {"when": r.get("when") is not None, "count": _rv(r.get("count")),
            "delay": _rv(r.get("delay")), "tally": r.get("tally", 0)}


def canon_state(ser):
    st = ser["state"]
    seq = []
    for t in st["sequence"]:
        seq.append({
            "id": t["id"], "route": t["route"], "ctxs_in": t["ctxs"]["in"],
            "ctxs_out": t["ctxs"].get("out"), "prev": t["prev"], "next": t["next"],
            "status": t.get("status"), "term": bool(t.get("term", False)),
            "retry": canon_retry(t.get("retry")),
        })
    staged = []
    for s in st["staged"]:
        staged.append({
            "id": s["id"], "route": s["route"], "ctxs_in": s["ctxs"]["in"], "prev": s["prev"],
            "ready": bool(s["ready"]), "retry": canon_retry(s.get("retry")),
            "items": None if "items" not in s else [i["status"] for i in s["items"]],
            "completed": bool(s.get("completed", False)),
            "run_on_fail": bool(s.get("run_on_fail", False)),
        })
    return {
        "status": st["status"],
        "errors": canon_errors(ser["errors"]),
        "output": ser["output"] if ser["output"] else None,
        "contexts": st["contexts"], "routes": st["routes"], "sequence": seq, "staged": staged,
        "tasks": st["tasks"], "reruns": st.get("reruns", []),
    }


def canon_model_state(s):
    """the model prints its own canonical state; only dedupe errors and empty output"""
    s = dict(s)
    errs = []
    for e in s["errors"]:
        if e not in errs:
            errs.append(e)
    s["errors"] = errs
    if not s["output"]:
        s["output"] = None
    return s


def canon_offers(tasks):
    out = []
    for t in tasks:
        out.append({
            "id": t["id"], "route": t["route"],
            "actions": [{"action": a["action"], "input": a["input"], "item_id": a.get("item_id")}
                        for a in t["actions"]],
            # an unevaluated retry delay (its evaluation failed when the record was set up) is offered
            # as the expression's text; the model prints every string delay in the same canonical form
            "delay": _rv(t.get("delay")),
            "items_count": t.get("items_count"),
            "concurrency": t["concurrency"] if "concurrency" in t else "<absent>",
            "ctx": {k: v for k, v in t["ctx"].items() if not k.startswith("__")},
        })
    return out


def canon_graph(g):
    """WorkflowGraph -> the model's graph form (nodes sorted by id, edges sorted)"""
    data = g.serialize()
    nodes = []
    for n in data["nodes"]:
        r = n.get("retry")
        nodes.append({
            "id": n["id"], "barrier": n.get("barrier"), "splits": n.get("splits", []),
            "retry": None if r is None else {
                "when": True if r.get("when") is not None else None,
                "count": True if r.get("count") is not None else None,
                "delay": True if r.get("delay") is not None else None},
        })
    edges = []
    for i, outs in enumerate(data["adjacency"]):
        src = data["nodes"][i]["id"]
        for e in outs:
            edges.append({"src": src, "dst": e["id"], "key": e["key"],
                          "criteria": True if e.get("criteria") else None, "ref": e.get("ref")})
    nodes.sort(key=lambda n: n["id"])
    edges.sort(key=lambda e: (e["src"], e["dst"], e["key"]))
    return {"nodes": nodes, "edges": edges, "roots": [r["id"] for r in g.roots]}


def canon_model_graph(g):
    g = dict(g)
    g["nodes"] = sorted(g["nodes"], key=lambda n: n["id"])
    g["edges"] = sorted(g["edges"], key=lambda e: (e["src"], e["dst"], e["key"]))
    return g


# ---------------------------------------------------------------------------------------------


class Impl(object):
    """plays ops on the real conductor"""

    def __init__(self):
        self.c = None
        self.spec = None

    def state(self):
        return canon_state(self.c.serialize())

    def play(self, op):
        name = op["op"]
        if name == "init":
            self.spec = native_specs.WorkflowSpec(render.to_spec(op["def"], op.get("lang", "yaql")))
            self.c = conducting.WorkflowConductor(
                self.spec, context=render.undict(op.get("ctx") or {}),
                inputs=render.undict(op.get("inputs") or {}))
            if op.get("persist_first"):
                # persisted and restored before anything else has touched the conductor
                data = json.loads(json.dumps(self.c.serialize()))
                self.c = conducting.WorkflowConductor.deserialize(data)
            self.c.get_workflow_status()
            return {"res": None, "state": self.state()}
        if name == "compose":
            spec = native_specs.WorkflowSpec(render.to_spec(op["def"], op.get("lang", "yaql")))
            return {"res": canon_graph(native_composer.WorkflowComposer.compose(spec))}
        res = None
        try:
            if name == "req":
                self.c.request_workflow_status(op["status"])
            elif name == "next":
                res = canon_offers(self.c.get_next_tasks())
            elif name == "report":
                result = render.undict(op.get("result"))
                if op.get("item") is None:
                    ev = events.ActionExecutionEvent(op["status"], result=result)
                else:
                    ev = events.TaskItemActionExecutionEvent(
                        op["item"], op["status"], result=result,
                        accumulated_result=render.undict(op.get("acc")))
                self.c.update_task_state(op["task"], op["route"], ev)
            elif name == "render":
                self.c.render_workflow_output()
            elif name == "rerun":
                reqs = [orq_requests.TaskRerunRequest.new(r["task"], r["route"], r.get("reset_items", False))
                        for r in op["reqs"]]
                self.c.request_workflow_rerun(task_requests=reqs)
            elif name == "persist":
                data = json.loads(json.dumps(self.c.serialize()))
                self.c = conducting.WorkflowConductor.deserialize(data)
            else:
                raise ValueError(name)
        except Exception as e:  # noqa
            res = {"raised": _exc_class(e)}
        return {"res": res, "state": self.state()}


def _exc_class(e):
    n = type(e).__name__
    if n in ("YaqlEvaluationException", "JinjaEvaluationException"):
        return "ExpressionEvaluationException"
    return n


def inspect_def(defn, lang):
    return native_specs.WorkflowSpec(render.to_spec(defn, lang)).inspect()


def run_model(lines):
    """feed op lines (list of dicts) to the model driver; returns list of reply dicts"""
    if not os.path.exists(DRIVER):
        raise RuntimeError("model driver not built: %s" % DRIVER)
    inp = "\n".join(dumps(l) for l in lines) + "\n"
    p = subprocess.run([DRIVER], input=inp.encode(), stdout=subprocess.PIPE, stderr=subprocess.PIPE)
    if p.returncode != 0:
        raise RuntimeError("model driver failed: %s" % p.stderr.decode()[:2000])
    out = [json.loads(l) for l in p.stdout.decode().splitlines() if l.strip()]
    if len(out) != len(lines):
        raise RuntimeError("model driver answered %d lines for %d ops" % (len(out), len(lines)))
    return out


def canon_model_reply(op, r):
    if "bad" in r:
        return r
    if op["op"] == "compose":
        return {"res": canon_model_graph(r["res"])}
    out = {"res": r["res"], "state": canon_model_state(r["state"])}
    return out


def project(reply, keys):
    """restrict a reply to the observables a property's projection names"""
    if keys is None or "state" not in reply:
        return reply
    return {"res": reply["res"], "state": {k: v for k, v in reply["state"].items() if k in keys}}


def first_diff(a, b, path=""):
    if type(a) != type(b):
        return "%s: %r vs %r" % (path, a, b)
    if isinstance(a, dict):
        for k in sorted(set(a) | set(b)):
            if k not in a or k not in b:
                return "%s.%s: %r vs %r" % (path, k, a.get(k, "<absent>"), b.get(k, "<absent>"))
            d = first_diff(a[k], b[k], path + "." + k)
            if d:
                return d
        return None
    if isinstance(a, list):
        if len(a) != len(b):
            return "%s: len %d vs %d: %s vs %s" % (path, len(a), len(b), dumps(a)[:300], dumps(b)[:300])
        for i, (x, y) in enumerate(zip(a, b)):
            d = first_diff(x, y, "%s[%d]" % (path, i))
            if d:
                return d
        return None
    if a != b or (isinstance(a, bool) != isinstance(b, bool)):
        return "%s: %r vs %r" % (path, a, b)
    return None
