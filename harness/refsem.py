"""Independent reference semantics of a class of definitions (C01, C08): which tasks a run that
ends `succeeded` must have executed, exactly once each.

Class: acyclic; every task with more than one inbound transition is `join: all`; no with-items,
no retry, no `retry` command; every condition is absent or one of succeeded()/failed()/completed();
outcomes of actions are those actually reported in the history.
"""

SIMPLE = (None, {"fn": "succeeded"}, {"fn": "failed"}, {"fn": "completed"})
CMDS = ("noop", "fail", "continue", "retry")


def in_class(defn):
    tasks = {t["name"]: t for t in defn["tasks"]}
    inbound = {n: 0 for n in tasks}
    for t in defn["tasks"]:
        if t.get("with") is not None or t.get("retry") is not None:
            return False
        for tr in t["next"]:
            if tr["when"] not in SIMPLE:
                return False
            for d in tr["do"]:
                if d == "retry":
                    return False
                if d in inbound:
                    inbound[d] += 1
    for n, k in inbound.items():
        if k > 1 and tasks[n].get("join") != "all":
            return False
    # acyclic
    seen, stack = set(), set()

    def dfs(n):
        if n in stack:
            return False
        if n in seen:
            return True
        seen.add(n)
        stack.add(n)
        for tr in tasks[n]["next"]:
            for d in tr["do"]:
                if d in tasks and not dfs(d):
                    return False
        stack.discard(n)
        return True

    return all(dfs(n) for n in tasks)


def sat(when, status):
    if when is None or when == {"fn": "completed"}:
        return True
    if when == {"fn": "succeeded"}:
        return status == "succeeded"
    if when == {"fn": "failed"}:
        return status == "failed"
    raise ValueError(when)


def prescribed(defn, outcome):
    """outcome: task name -> 'succeeded' | 'failed' for the tasks that ran.
    Returns (set of tasks that must have run, whether a fail command is prescribed,
    set of tasks whose outcome is needed but unknown)"""
    tasks = {t["name"]: t for t in defn["tasks"]}
    targets = set(d for t in defn["tasks"] for tr in t["next"] for d in tr["do"])
    roots = [n for n in tasks if n not in targets]
    runs = set()
    unknown = set()
    fail_cmd = False
    changed = True
    # inbound edges
    inb = {n: [] for n in tasks}
    for t in defn["tasks"]:
        for tr in t["next"]:
            for d in tr["do"]:
                if d in inb:
                    inb[d].append((t["name"], tr["when"]))
    for r in roots:
        runs.add(r)
    while changed:
        changed = False
        for n in tasks:
            if n in runs or not inb[n]:
                continue
            srcs = set(s for s, _ in inb[n])
            ok_srcs = set()
            for s, w in inb[n]:
                if s in runs:
                    if s not in outcome:
                        unknown.add(s)
                        continue
                    if sat(w, outcome[s]):
                        ok_srcs.add(s)
            need = srcs if tasks[n].get("join") == "all" else None
            if (need is not None and ok_srcs == srcs) or (need is None and ok_srcs):
                runs.add(n)
                changed = True
    for n in runs:
        if n not in outcome:
            continue
        for tr in tasks[n]["next"]:
            if "fail" in tr["do"] and sat(tr["when"], outcome[n]):
                fail_cmd = True
    return runs, fail_cmd, unknown


def check_success(s):
    """for a scenario (implementation trace) that ends succeeded: executed == prescribed"""
    defn = s["def"]
    if not in_class(defn):
        return None
    st = s["replies"][-1].get("state") if s["replies"] else None
    if not st or st["status"] != "succeeded":
        return None
    if any(o["op"] in ("rerun",) for o in s["ops"]):
        return None
    recs = [t for t in st["sequence"] if t["id"] not in CMDS]
    outcome = {}
    for t in recs:
        outcome[t["id"]] = t["status"]
    runs, fail_cmd, unknown = prescribed(defn, outcome)
    executed = sorted(t["id"] for t in recs)
    if fail_cmd:
        return "succeeded although the definition prescribes a fail command for these outcomes"
    if sorted(runs) != executed:
        extra = [x for x in executed if x not in runs]
        lost = [x for x in runs if x not in executed]
        dup = sorted(set(x for x in executed if executed.count(x) > 1))
        return "executed tasks %s differ from the prescribed %s (spurious %s, lost %s, duplicated %s)" % (
            executed, sorted(runs), extra, lost, dup)
    return None
