"""Relational monitors: the same definition run several times on the real conductor under
different schedules / with and without pause / with rerun, compared on what the property says
must agree.  (C08 order independence, C09 transparency of pause, C17 convergence of rerun.)"""
import hashlib
import random

from harness import core
from harness import gen
from harness import monitors

V = monitors.V
TERMINAL = ("succeeded", "failed", "canceled")


def _h(*xs):
    return int(hashlib.sha256(repr(xs).encode()).hexdigest()[:8], 16)


class FixedProvider(object):
    """a provider whose outcomes are a fixed function of (task, visit number) and whose completion
    order is decided by `order_rng`; optional pause insertion and a forced-success mode"""

    def __init__(self, defn, lang, inputs, outcome_seed, order_rng, pause_at=None, all_succeed=False,
                 fifo=False, by_route=False):
        self.by_route = by_route
        self.defn, self.lang, self.inputs = defn, lang, inputs
        self.outcome_seed, self.order, self.pause_at = outcome_seed, order_rng, pause_at
        self.all_succeed = all_succeed
        self.fifo = fifo
        self.imp = core.Impl()
        self.ops, self.replies = [], []
        self.visits = {}
        self.completions = 0
        self.paused = False
        self.delayed = set()
        self.use_delayed = True

    def play(self, op):
        r = self.imp.play(op)
        self.ops.append(op)
        self.replies.append(r)
        return r

    def status(self):
        return self.replies[-1]["state"]["status"]

    def outcome(self, task, visit):
        if self.all_succeed:
            return "succeeded", _h(self.outcome_seed, task, "r") % 3
        failed = _h(self.outcome_seed, task, visit) % 4 == 0
        return ("failed" if failed else "succeeded"), _h(self.outcome_seed, task, "r") % 3

    def run(self, continue_from=None, max_steps=80):
        if continue_from is None:
            self.play({"op": "init", "def": self.defn, "lang": self.lang, "inputs": self.inputs, "ctx": {}})
            self.play({"op": "req", "status": "running"})
        inflight = []
        acc = {}
        for _ in range(max_steps):
            r = self.play({"op": "next"})
            offers = r["res"] if isinstance(r["res"], list) else []
            for o in offers:
                if o["id"] in gen.CMDS:
                    continue
                if o["items_count"] == 0:
                    self.play({"op": "report", "task": o["id"], "route": o["route"], "status": "running", "result": None})
                    self.play({"op": "report", "task": o["id"], "route": o["route"], "status": "succeeded", "result": []})
                    continue
                for a in o["actions"]:
                    key = (o["id"], o["route"], a["item_id"])
                    # an action with a delay is reported `delayed` first and `running` only when
                    # it is about to complete
                    first = "delayed" if (o["delay"] and key[2] is None and self.use_delayed) else "running"
                    opd = {"op": "report", "task": key[0], "route": key[1], "status": first, "result": None}
                    if key[2] is not None:
                        opd["item"] = key[2]
                        opd["acc"] = []
                    self.play(opd)
                    if first == "delayed":
                        self.delayed.add(key)
                    inflight.append(key)
            if self.pause_at is not None and self.completions == self.pause_at and not self.paused \
                    and self.status() in ("running", "resuming"):
                self.play({"op": "req", "status": "pausing"})
                self.paused = True
            if inflight:
                i = 0 if self.fifo else self.order.randrange(len(inflight))
                key = inflight.pop(i)
                if key in self.delayed:
                    self.delayed.discard(key)
                    self.play({"op": "report", "task": key[0], "route": key[1], "status": "running", "result": None})
                v = self.visits.get(key, 0)
                self.visits[key] = v + 1
                vv = v if key[2] is None else (v, key[2])
                st, res = self.outcome(key[0], (key[1], vv) if self.by_route else vv)
                opd = {"op": "report", "task": key[0], "route": key[1], "status": st, "result": res}
                if key[2] is not None:
                    a = acc.setdefault((key[0], key[1]), {})
                    a[key[2]] = res
                    opd["item"] = key[2]
                    opd["acc"] = [a.get(j) for j in range(max(a) + 1)]
                self.play(opd)
                self.completions += 1
                continue
            if offers:
                continue
            if self.status() == "paused" and self.paused:
                self.play({"op": "req", "status": "resuming"})
                self.paused = False
                continue
            break
        if self.status() in TERMINAL:
            self.play({"op": "render"})
        return self

    def summary(self):
        st = self.replies[-1]["state"]
        last = set(st["tasks"].values())
        execs = sorted((t["id"], t["status"]) for t in st["sequence"])
        return {"status": st["status"], "execs": execs,
                "errors": sorted(set((e[0], str(e[1])) for e in st["errors"])), "output": st["output"],
                "contexts": sorted(core.dumps(c) for c in st["contexts"][1:])}


def is_acyclic(s):
    return not monitors.has_cycle(s)


def publish_names(s):
    names = {}
    for t in s["def"]["tasks"]:
        for tr in t["next"]:
            for n, _ in tr["publish"]:
                names[n] = names.get(n, 0) + 1
    return names


def schedule_dependent(e):
    """a condition that reads a context variable or another task's status can legitimately come
    out differently under another completion order"""
    if e is None:
        return False
    if "ctx" in e or "ctxkey" in e or "task_status" in e:
        return True
    if "not" in e:
        return schedule_dependent(e["not"])
    if "op" in e:
        return schedule_dependent(e["a"]) or schedule_dependent(e["b"])
    return False


def simple_for_twins(s):
    """outside the regions of the open findings that make whole runs order- or pause-dependent"""
    if monitors.has_count_join_below_all(s):
        return False
    for t in s["def"]["tasks"]:
        if t.get("retry") is not None and schedule_dependent(t["retry"].get("when")):
            return False
        for tr in t["next"]:
            if schedule_dependent(tr["when"]):
                return False
            if "fail" in tr["do"] and len(set(tr["do"])) > 1:
                return False     # clean-up beside a fail command runs only if staged before the failure
            if "retry" in tr["do"]:
                return False
    return True


def mon_C08(s, k=None):
    if not s["ops"] or s["ops"][0]["op"] != "init" or not is_acyclic(s) or not simple_for_twins(s):
        return []
    defn, lang, inputs = s["def"], s["lang"], s["ops"][0].get("inputs") or {}
    if k is None:
        # more completion orders for larger definitions: a straggling short branch beside a long
        # one is rare among uniformly drawn orders
        k = 4 if len(defn["tasks"]) <= 5 else 12
    seed = core.dumps(defn)
    runs = []
    for j in range(k):
        p = FixedProvider(defn, lang, inputs, seed, random.Random(_h(seed, j)))
        try:
            p.run()
        except Exception as e:
            return [V("order run raised %s: %s" % (type(e).__name__, str(e)[:100]), 0)]
        runs.append(p)
    a = runs[0].summary()
    clash = any(v > 1 for v in publish_names(s).values())

    def d17(run):
        # D17: a completed record whose transitions were all decided false is flagged terminal only if
        # the workflow completed in that very call; its context is then missing from the output
        st = run.replies[-1].get("state") or {}
        return any(r["next"] and not any(r["next"].values()) and not r["term"] and r["status"] in monitors.TERMINAL
                   for r in st.get("sequence", []))
    for p in runs[1:]:
        b = p.summary()
        if a["status"] != b["status"]:
            fin = "D7" if clash else ("D17" if d17(p) or d17(runs[0]) else None)
            return [_viol(s, p, "final status depends on the completion order: %s vs %s" % (a["status"], b["status"]), fin)]
        if a["status"] == "succeeded":
            if a["execs"] != b["execs"]:
                return [_viol(s, p, "executed tasks depend on the completion order: %s vs %s" % (a["execs"], b["execs"]))]
            if not clash and (a["contexts"] != b["contexts"] or a["output"] != b["output"]):
                return [_viol(s, p, "published values / output depend on the completion order",
                              "D17" if d17(p) or d17(runs[0]) else None)]
    return []


def _viol(s, provider, msg, finding=None):
    v = V(msg, len(provider.ops) - 1, finding)
    v["ops"] = provider.ops
    return v


def mon_C09_twin(s):
    if not s["ops"] or s["ops"][0]["op"] != "init" or not simple_for_twins(s):
        return []
    defn, lang, inputs = s["def"], s["lang"], s["ops"][0].get("inputs") or {}
    if any(t.get("with") is not None for t in defn["tasks"]):
        return []   # with-items under pause: order of item offers legitimately differs (concurrency)
    seed = core.dumps(defn)
    base = FixedProvider(defn, lang, inputs, seed, random.Random(1), fifo=True)
    try:
        base.run()
    except Exception as e:
        return [V("twin base run raised %s" % type(e).__name__, 0)]
    a = base.summary()
    clash = any(v > 1 for v in publish_names(s).values())
    out = []
    for pos in range(0, min(base.completions + 1, 6)):
        p = FixedProvider(defn, lang, inputs, seed, random.Random(1), pause_at=pos, fifo=True)
        try:
            p.run()
        except Exception as e:
            return [V("paused twin raised %s" % type(e).__name__, 0)]
        b = p.summary()
        # the paused run completes the same actions in a possibly different order; what the
        # property promises is compared only where C08 makes it order-independent
        diff = None
        if a["status"] != b["status"]:
            diff = "final status %s without pause, %s with pause before completion %d" % (a["status"], b["status"], pos)
        elif a["status"] == "succeeded" and a["execs"] != b["execs"]:
            diff = "executed tasks differ with pause before completion %d" % pos
        elif a["status"] == "succeeded" and not clash and a["output"] != b["output"] and is_acyclic(s):
            diff = "output differs with pause before completion %d: %s vs %s" % (pos, a["output"], b["output"])
        elif a["status"] == "succeeded" and a["errors"] != b["errors"] and is_acyclic(s) and not clash:
            diff = "errors differ with pause before completion %d: %s vs %s" % (pos, a["errors"], b["errors"])
        if diff:
            fin = "D7" if clash else None
            st = p.replies[-1]["state"]
            if any(r["next"] and not any(r["next"].values()) and not r["term"] for r in st["sequence"]):
                fin = "D17"
            out.append(_viol(s, p, diff, fin))
            break
    return out


def mon_C17_twin(s):
    """a failed run, rerun (default request) with everything succeeding, must end like a clean run
    in which everything succeeded"""
    if not s["ops"] or s["ops"][0]["op"] != "init" or not simple_for_twins(s) or not is_acyclic(s):
        return []
    defn, lang, inputs = s["def"], s["lang"], s["ops"][0].get("inputs") or {}
    if any("fail" in tr["do"] for t in defn["tasks"] for tr in t["next"]):
        return []     # D19
    if any(t.get("retry") is not None or t.get("with") is not None for t in defn["tasks"]):
        return []
    names = publish_names(s)
    if any(v > 1 for v in names.values()):
        return []     # D7
    # conditions on failure would legitimately route a clean run differently
    for t in defn["tasks"]:
        for tr in t["next"]:
            if tr["when"] == {"fn": "failed"} and tr["do"] == ["continue"]:
                continue   # a failure path that only publishes: its traces must not survive a successful rerun
            if tr["when"] not in (None, {"fn": "succeeded"}):
                return []
    seed = core.dumps(defn)
    first = FixedProvider(defn, lang, inputs, seed, random.Random(1), fifo=True, by_route=True)
    clean = FixedProvider(defn, lang, inputs, seed, random.Random(1), fifo=True, all_succeed=True)
    try:
        first.run()
        clean.run()
    except Exception as e:
        return [V("rerun twin raised %s" % type(e).__name__, 0)]
    if first.status() != "failed":
        return []
    r = first.play({"op": "rerun", "reqs": []})
    if monitors.raised(r):
        return []
    picked = (r.get("state") or {}).get("reruns") or [None]
    nothing_picked = picked[-1] == []      # D8: an accepted rerun with nothing to re-execute
    # the clean twin lets *every* action succeed; that is the run the property compares with only
    # when every execution that did not succeed the first time is among those the rerun repeats
    # (a failure that was handled by a transition is not repeated, and its traces legitimately stay)
    st0 = r.get("state") or {}
    abended = [j for j, t in enumerate(st0.get("sequence", [])) if t["status"] in ("failed", "timeout", "abandoned", "canceled")
               and t["id"] not in monitors.CMDS]
    if picked[-1] is not None and any(j not in picked[-1] for j in abended):
        return []
    first.all_succeed = True
    try:
        first.run(continue_from=True)
    except Exception as e:
        return [_viol(s, first, "rerun continuation raised %s" % type(e).__name__)]
    a, b = first.summary(), clean.summary()
    if a["status"] != b["status"]:
        return [_viol(s, first, "after a successful rerun the status is %s, a clean run ends %s" % (a["status"], b["status"]),
                      "D8" if nothing_picked and a["status"] == "resuming" else None)]
    if a["status"] == "succeeded" and a["output"] != b["output"]:
        return [_viol(s, first, "after a successful rerun the output is %s, a clean run gives %s" % (a["output"], b["output"]))]
    # nothing that had completed elsewhere is repeated: a task that succeeded before the rerun and
    # is not downstream of a failed one runs once
    return []
