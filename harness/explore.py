"""Step 3 of a check: corpus + generated scenarios on the implementation, the property's
monitors on every trace, and the correspondence with the model under the property's projection."""
import collections
import json
import os
import random
import time

from harness import core
from harness import corr
from harness import gen
from harness import monitors
from harness import registry
from harness import special

VERIF = core.VERIF


def load_known():
    p = os.path.join(VERIF, "known_findings.json")
    data = json.load(open(p))
    return {f["id"]: f for f in data["findings"] if f.get("status") == "open"}


def project_offers(res, mode):
    if not isinstance(res, list) or mode == "full":
        return res
    if mode is None:
        return None
    return [{"id": o["id"], "route": o["route"], "items": [a["item_id"] for a in o["actions"]]} for o in res]


def proj_reply(reply, keys, offers_mode):
    if "state" not in reply:
        return reply
    st = reply["state"]
    if keys is not None:
        st = {k: v for k, v in st.items() if k in keys}
    return {"res": project_offers(reply["res"], offers_mode), "state": st}


def write_replay(pid, seed, tag, s, msg, op_index=None, extra=None):
    path = os.path.join(VERIF, "out", "%s_%s_%s.json" % (pid, tag, seed))
    ops = s["ops"] if op_index is None else s["ops"][:op_index + 1]
    json.dump(dict({"property": pid, "message": msg, "lang": s.get("lang"), "ops": ops}, **(extra or {})),
              open(path, "w"), indent=1)
    return path


def shrink(pid, s, pred):
    """delta-debug the op list (keeping `init`) while `pred(scenario)` still holds"""
    ops = list(s["ops"])
    best = ops

    def run(ops_):
        imp = core.Impl()
        reps = []
        try:
            for o in ops_:
                reps.append(imp.play(o))
        except Exception:
            return None
        return {"def": s["def"], "lang": s["lang"], "ops": ops_, "replies": reps}

    n = 2
    tries = 0
    while len(best) > 2 and tries < 60:
        chunk = max(1, (len(best) - 1) // n)
        reduced = False
        for start in range(1, len(best), chunk):
            cand = best[:start] + best[start + chunk:]
            tries += 1
            sc = run(cand)
            if sc is not None and pred(sc):
                best = cand
                n = max(n - 1, 2)
                reduced = True
                break
        if not reduced:
            if chunk == 1:
                break
            n = min(len(best), n * 2)
    sc = run(best)
    return sc if sc is not None and pred(sc) else s


def run(pid, spec, res, driver_ok, thorough, seed):
    t0 = time.time()
    known = load_known()
    mon = monitors.MON[pid]
    keys, offers_mode = spec.get("keys"), spec.get("offers")
    deepen = bool(res.broken)
    # source drift: the hand model was validated against another text of these functions
    try:
        import subprocess
        dr = json.loads(subprocess.run(["/venv/bin/python", os.path.join(VERIF, "tools", "fingerprints.py")],
                                       stdout=subprocess.PIPE, timeout=120).stdout.decode())
    except Exception as e:
        dr = {"drift": [], "properties": [], "error": str(e)}
    res.cov["source_drift"] = dr.get("drift", [])[:20]
    if pid in dr.get("properties", []):
        deepen = True
    if thorough:
        count, budget = 4000, 1200
    else:
        count, budget = 220, 45
    if deepen:
        count, budget = count * 4, budget * 3
    prof = registry.profile(pid)
    hp = registry.hist_profile(pid)
    feats = collections.Counter()
    stats = collections.Counter()
    samples = []

    scenarios = []
    # corpus first
    cdir = os.path.join(VERIF, "corpus")
    for f in sorted(os.listdir(cdir)) if os.path.isdir(cdir) else []:
        if not f.endswith(".json"):
            continue
        c = json.load(open(os.path.join(cdir, f)))
        if pid not in c.get("properties", [pid]):
            continue
        imp = core.Impl()
        reps = []
        try:
            for o in c["ops"]:
                reps.append(imp.play(o))
        except Exception as e:  # corpus entry no longer playable: report as harness note
            res.notes.append("corpus %s: %s" % (f, e))
            continue
        scenarios.append({"idx": "corpus/" + f, "def": c["ops"][0].get("def"), "lang": c["ops"][0].get("lang", "yaql"),
                          "ops": c["ops"], "replies": reps, "feats": ["corpus"]})
    ncorpus = len(scenarios)

    if spec.get("compose_only"):
        gen_sc = special.compose_scenarios(seed, count, prof, budget)
    elif pid == "C20":
        gen_sc = special.shorthand_scenarios(seed, count, prof, budget)
    else:
        gen_sc = corr.run_scenarios("%s/%s" % (pid, seed), count, prof, hp, budget_s=budget)
    scenarios.extend(gen_sc)

    herr = [s for s in scenarios if "harness_error" in s]
    ok = [s for s in scenarios if "harness_error" not in s]
    for s in herr[:3]:
        res.notes.append("harness error: %s" % s["harness_error"])
    for s in ok:
        for f in s.get("feats", []):
            feats[f] += 1
        if s["replies"] and "state" in s["replies"][-1]:
            stats["final_" + s["replies"][-1]["state"]["status"]] += 1
        for o in s["ops"]:
            stats["op_" + o["op"]] += 1
    distinct = len(set(core.dumps(s["ops"][1:]) + core.dumps(s["def"]) for s in ok if len(s["ops"]) > 3))

    # monitors on every implementation trace
    hits = 0
    for s in ok:
        try:
            vs = mon(s)
        except Exception as e:
            res.notes.append("monitor error on scenario %s: %s: %s" % (s["idx"], type(e).__name__, e))
            continue
        vs += special.extra_monitor(pid, s)
        for v in vs:
            hits += 1
            if v["finding"] and v["finding"] in known:
                line = "%s %s" % (v["finding"], known[v["finding"]]["what"])
                if line not in res.known:
                    res.known.append(line)
                continue
            if len(res.violations) < 3:
                msg = v["msg"]
                # minimal prefix: the history up to the op at which the monitor fires (a shorter
                # history obtained by deleting reports would leave the provider contract)
                if v.get("ops"):
                    small = dict(s, ops=v["ops"])          # a twin run: its own operation sequence
                else:
                    small = dict(s, ops=s["ops"][:v["op_index"] + 1]) if "ops" in s and s["ops"] and s["ops"][0]["op"] == "init" else s
                path = write_replay(pid, seed, "violation%d" % len(res.violations), small, msg)
                res.violations.append({"msg": msg, "replay": path})
            break

    # correspondence
    dis = []
    if driver_ok and ok:
        lines = []
        for s in ok:
            lines.extend(s["ops"])
        try:
            mreplies = core.run_model(lines)
        except Exception as e:
            res.broken.append(("correspondence", "model driver failed: %s" % e))
            mreplies = None
        if mreplies is not None:
            pos = 0
            for s in ok:
                n = len(s["ops"])
                mr = mreplies[pos:pos + n]
                pos += n
                for j, (op, a, b) in enumerate(zip(s["ops"], s["replies"], mr)):
                    b = core.canon_model_reply(op, b)
                    pa = json.loads(core.dumps(proj_reply(a, keys, offers_mode)))
                    pb = json.loads(core.dumps(proj_reply(b, keys, offers_mode)))
                    d = core.first_diff(pa, pb)
                    if d:
                        dis.append((s, j, d))
                        break
    for s, j, d in dis[:1]:
        path = write_replay(pid, seed, "disagreement", s, "model and implementation differ: " + d, j)
        res.broken.append(("correspondence", "first diverging op %d (%s) of %s: %s [%s]" % (
            j, s["ops"][j]["op"], s["idx"], d[:300], path)))
    for s in ok[:2]:
        samples.append({"lang": s.get("lang"), "features": s.get("feats"),
                        "ops": [{k: v for k, v in o.items() if k != "def"} for o in s["ops"][:12]],
                        "final_status": s["replies"][-1].get("state", {}).get("status") if s["replies"] else None})
    res.cov.update({
        "programs": len(ok), "corpus_scenarios": ncorpus,
        "traces_validated_against_impl": len(ok) if driver_ok else 0,
        "disagreements_checked": sum(len(s["ops"]) for s in ok) if driver_ok else 0,
        "disagreements_found": len(dis),
        "evaluations": sum(len(s["ops"]) for s in ok),
        "distinct_nontrivial": distinct,
        "rule": "scenario = generated definition (shape grammar, property profile) x adaptive provider history from one PRNG; distinct = different (definition, op sequence) with more than 3 ops",
        "monitor_hits": hits, "features": dict(feats), "distribution": dict(stats),
        "samples": samples, "notes": res.notes[:10], "explore_s": round(time.time() - t0, 1),
        "projection": {"state_keys": keys, "offers": offers_mode},
    })


def replay(pid, path):
    c = json.load(open(path))
    if "ops" not in c:
        print(json.dumps(c, indent=1))
        return 1
    if c["ops"] and c["ops"][0]["op"] == "inspect":
        ins = core.inspect_def(c["ops"][0]["def"], c["ops"][0].get("lang", "yaql"))
        print("inspection result:", json.dumps(ins)[:500])
        return 1 if not ins else 0
    imp = core.Impl()
    reps = []
    for o in c["ops"]:
        reps.append(imp.play(o))
    s = {"def": c["ops"][0].get("def"), "lang": c["ops"][0].get("lang"), "ops": c["ops"], "replies": reps}
    vs = monitors.MON[pid](s) + special.extra_monitor(pid, s)
    for v in vs:
        print("monitor:", v["msg"], "at op", v["op_index"], "finding", v["finding"])
    print("final status", reps[-1].get("state", {}).get("status"))
    return 1 if vs else 0
