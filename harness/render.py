"""Abstract definition (the JSON both drivers receive) -> orquesta native spec dict.

Expressions are printed as YAQL or Jinja.  The abstract form is the long form of every
notation; `shorthand=True` prints the documented shorthands instead (C20).
"""
import json


def _lit_y(v):
    if v is None:
        return "null"
    if v is True:
        return "true"
    if v is False:
        return "false"
    if isinstance(v, int):
        return str(v)
    if isinstance(v, str):
        return "'%s'" % v
    if isinstance(v, list):
        return "[%s]" % ", ".join(_lit_y(x) for x in v)
    if isinstance(v, dict):
        return "dict(%s)" % ", ".join("%s=>%s" % (_lit_y(k), _lit_y(x)) for k, x in v.items())
    raise ValueError(v)


def _lit_j(v):
    if v is None:
        return "none"
    if v is True:
        return "true"
    if v is False:
        return "false"
    if isinstance(v, int):
        return str(v)
    if isinstance(v, str):
        return "'%s'" % v
    if isinstance(v, list):
        return "[%s]" % ", ".join(_lit_j(x) for x in v)
    if isinstance(v, dict):
        return "{%s}" % ", ".join("%s: %s" % (_lit_j(k), _lit_j(x)) for k, x in v.items())
    raise ValueError(v)


def undict(v):
    """['__dict__', [[k, v]...]] -> dict (insertion ordered)"""
    if isinstance(v, list):
        if len(v) == 2 and v[0] == "__dict__" and isinstance(v[1], list):
            return {k: undict(x) for k, x in v[1]}
        return [undict(x) for x in v]
    if isinstance(v, dict):
        return {k: undict(x) for k, x in v.items()}
    return v


def endict(v):
    if isinstance(v, dict):
        return ["__dict__", [[k, endict(x)] for k, x in v.items()]]
    if isinstance(v, list):
        return [endict(x) for x in v]
    return v


def yaql(e):
    if "lit" in e:
        return _lit_y(undict(e["lit"]))
    if "ctxkey" in e:
        return "ctx(%s).%s" % (e["ctxkey"], e["k"])
    if "ctx" in e:
        return "ctx(%s)" % e["ctx"]
    if "fn" in e:
        return "%s()" % e["fn"]
    if "item" in e:
        return "item(%s)" % e["item"]
    if "task_status" in e:
        return "task_status(%s)" % e["task_status"]
    if "not" in e:
        return "(not %s)" % yaql(e["not"])
    op = {"eq": "=", "lt": "<", "and": "and", "or": "or", "add": "+", "div": "/"}[e["op"]]
    return "(%s %s %s)" % (yaql(e["a"]), op, yaql(e["b"]))


def jinja(e):
    if "lit" in e:
        return _lit_j(undict(e["lit"]))
    if "ctxkey" in e:
        return "ctx('%s').%s" % (e["ctxkey"], e["k"])
    if "ctx" in e:
        return "ctx('%s')" % e["ctx"]
    if "fn" in e:
        return "%s()" % e["fn"]
    if "item" in e:
        return "item('%s')" % e["item"]
    if "task_status" in e:
        return "task_status('%s')" % e["task_status"]
    if "not" in e:
        return "(not %s)" % jinja(e["not"])
    op = {"eq": "==", "lt": "<", "and": "and", "or": "or", "add": "+", "div": "/"}[e["op"]]
    return "(%s %s %s)" % (jinja(e["a"]), op, jinja(e["b"]))


def expr(e, lang="yaql"):
    """a spec position holding an expression: literals are printed as plain YAML values"""
    if e is None:
        return None
    if "lit" in e:
        return undict(e["lit"])
    if "rawbad" in e:
        # a failing expression; in Jinja it sits in a string beside a raw block
        if lang == "jinja":
            return "{%% raw %%}Hello {{ user }}{%% endraw %%} from {{ %s }}" % jinja(e["rawbad"])
        return "<%% %s %%>" % yaql(e["rawbad"])
    if "twobad" in e:
        # two distinct failing expressions in one string
        a, b = e["twobad"]
        if lang == "jinja":
            return "{{ %s }} / {{ %s }}" % (jinja(a), jinja(b))
        return "<%% %s %%> / <%% %s %%>" % (yaql(a), yaql(b))
    if lang == "jinja":
        return "{{ %s }}" % jinja(e)
    return "<%% %s %%>" % yaql(e)


def to_spec(d, lang="yaql"):
    spec = {"version": 1.0}
    if d.get("input"):
        spec["input"] = [n if e is None else {n: expr(e, lang)} for n, e in d["input"]]
    if d.get("vars"):
        spec["vars"] = [{n: expr(e, lang)} for n, e in d["vars"]]
    if d.get("output"):
        spec["output"] = [{n: expr(e, lang)} for n, e in d["output"]]
    tasks = {}
    for t in d["tasks"]:
        ts = {}
        if t.get("action"):
            ts["action"] = t["action"]
        if t.get("input"):
            ts["input"] = {k: expr(e, lang) for k, e in t["input"]}
        if t.get("join") is not None:
            ts["join"] = t["join"]
        if t.get("with") is not None:
            w = t["with"]
            items = expr(w["items"], lang)
            if "lit" in w["items"]:
                # a literal list has to be written as an expression for `items`
                items = ("{{ %s }}" % jinja(w["items"])) if lang == "jinja" else ("<%% %s %%>" % yaql(w["items"]))
            if w.get("key"):
                items = "%s in %s" % (w["key"], items)
            ws = {"items": items}
            if w.get("concurrency") is not None:
                ws["concurrency"] = expr(w["concurrency"], lang)
            ts["with"] = ws
        if t.get("retry") is not None:
            r = t["retry"]
            rs = {"count": expr(r["count"], lang)}
            if r.get("when") is not None:
                rs["when"] = expr(r["when"], lang)
                if not isinstance(rs["when"], str):
                    rs["when"] = ("{{ %s }}" % jinja(r["when"])) if lang == "jinja" else ("<%% %s %%>" % yaql(r["when"]))
            if r.get("delay") is not None:
                rs["delay"] = expr(r["delay"], lang)
            ts["retry"] = rs
        if t.get("delay") is not None:
            ts["delay"] = expr(t["delay"], lang)
        nxt = []
        for tr in t.get("next", []):
            x = {}
            if tr.get("when") is not None:
                w = expr(tr["when"], lang)
                if not isinstance(w, str):
                    w = ("{{ %s }}" % jinja(tr["when"])) if lang == "jinja" else ("<%% %s %%>" % yaql(tr["when"]))
                x["when"] = w
            if tr.get("publish"):
                x["publish"] = [{n: expr(e, lang)} for n, e in tr["publish"]]
            # `do_raw`: a literal string form of `do` (used by the inspection mutants)
            x["do"] = tr["do_raw"] if isinstance(tr.get("do_raw"), str) else list(tr["do"])
            nxt.append(x)
        if nxt:
            ts["next"] = nxt
        tasks[t["name"]] = ts
    spec["tasks"] = tasks
    return spec


if __name__ == "__main__":
    import sys
    print(json.dumps(to_spec(json.load(sys.stdin)), indent=1))
