"""Per-property registry: Lean modules and theorems, projection, generator profiles, monitor."""
from harness import gen

STATE_ALL = None

# theorem name -> module.  A property lists the theorems that are its obligations.
STATUS = "OrqModel.Properties.Status"
HISTORY = "OrqModel.Properties.History"
ITEMS = "OrqModel.Properties.Items"
JOIN = "OrqModel.Properties.Join"
ERRORS = "OrqModel.Properties.Errors"
COMPOSE = "OrqModel.Properties.Compose"
VALUES = "OrqModel.Properties.Values"
SITES = "OrqModel.Properties.Sites"
NEXT = "OrqModel.Properties.Next"
RERUN = "OrqModel.Properties.Rerun"
PARAMS = "OrqModel.Properties.Params"
COMPLETE = "OrqModel.Properties.ComposeComplete"
RETRY = "OrqModel.Properties.Retry"
QUERY = "OrqModel.Properties.Query"
FROZEN = "OrqModel.Properties.Frozen"
JUSTIFIED = "OrqModel.Properties.Justified"
ERRLOG = "OrqModel.Properties.ErrLog"
KEYS = "OrqModel.Properties.Keys"
NEXTTOTAL = "OrqModel.Properties.NextTotal"
TRUTH = "OrqModel.Properties.Truth"
ANCESTRY = "OrqModel.Properties.Ancestry"
FRAME = "OrqModel.Properties.Frame"
EDGES = "OrqModel.Properties.Edges"
REMEDIATION = "OrqModel.Properties.Remediation"
MERGEORDER = "OrqModel.Properties.MergeOrder"
RENDERFAIL = "OrqModel.Properties.RenderFail"
SHORTHAND = "OrqModel.Properties.Shorthand"

TRUSTED = [
    "Lean 4.33 kernel (thorough tier: re-checked by leanchecker)",
    "axioms: propext, Classical.choice, Quot.sound only (audited by #print axioms on every run)",
    "tools/gen_tables.py: exhaustive execution of machines.process_event on a stub state + factoring check",
    "tools/gen_sites.py: conservative AST inventories of conducting.py / specs",
    "hand model lean/OrqModel/Model/*.lean tied to /repo by the line-protocol correspondence check (harness/)",
    "expression evaluation (YAQL/Jinja) is a parameter of the model; the driver evaluates a fragment",
    "provider contract: an offered action is reported started before any other call",
    "the model's ghost publication log (WState.pubLog) is written once and read nowhere: audited textually on every run, not proved",
]

PROPS = {
    "C01": dict(
        title="every task execution justified, exactly once",
        theorems={NEXT: ["C01_offer_from_staged", "C01_no_offer_unless_running_or_remediation"], JOIN: ["C07_ready_iff_satisfied"], HISTORY: ["C18_record_core_fixed"],
                  STATUS: ["tbl_succeeded_doors_task", "C03_fresh_start_statuses"],
                  JUSTIFIED: ["C01_offers_have_completed_predecessors", "C01_predecessors_completed_and_decided"],
                  TRUTH: ["C01_offers_have_true_transitions", "C01_predecessors_decided_true", "C01_task_map_sound"],
                  EDGES: ["C01_offers_justified_by_the_definition", "C01_decisions_follow_graph_edges", "C01_start_tasks_name_no_predecessor", "C01_split_gets_fresh_route"]},
        keys=["status", "sequence", "staged", "tasks"], offers="ids",
        prof=dict(p_items=0.0, p_retry=0.0, p_badexpr=0.0, p_join=0.9, p_join_count=0.1, p_loop=0.05, p_parallel_edge=0.05, p_cond_ctx=0.3, p_template=0.3, templates=[7, 7, 0, 5, 6, 18]), hist=dict(p_fail=0.3, fixed_outcomes=True, p_lazy_start=0.25, p_pause=0.25, p_early_resume=0.6),
        monitor="C01", unproven=["global multiset equality with the prescribed executions (exactly-once per justification, C01_global): search only; proved along every history: every predecessor an offer names is a completed record of a task s that recorded true for an edge s -> offered task of the graph composed from the definition"],
    ),
    "C02": dict(
        title="reported workflow status is truthful",
        theorems={STATUS: ["tbl_dormant_doors_task", "tbl_dormant_doors_wf", "tbl_active_doors_wf",
                           "tbl_succeeded_doors_task", "tbl_failure_covered", "tbl_failure_canceling",
                           "tbl_failed_request_total", "C10_never_succeeds", "tbl_leave_active_total",
                           "C02_success_door", "C02_dormant_door"]},
        keys=["status", "sequence", "staged"], offers="ids",
        prof=dict(p_badexpr=0.4, bad_where=["publish", "when", "publish", "retry_when", "input"], max_tasks=4), hist=dict(p_pause=0.15, p_cancel=0.08, p_task_pause=0.25, p_lifecycle=0.3, p_early_resume=0.3, p_first_pending=0.1, p_item_pause=0.06),
        monitor="C02", unproven=["state invariant paused|canceled => no active record is proved only at the doors (table level), not as a history invariant"],
    ),
    "C03": dict(
        title="no stuck workflow",
        theorems={STATUS: ["tbl_succeeded_doors_task", "tbl_failure_covered", "tbl_task_targets_have_events", "tbl_item_targets_have_events", "tbl_failed_request_total", "tbl_leave_active_total", "tbl_quiescent_resolves", "C03_fresh_start_statuses", "C03_fresh_start_statuses_item", "C03_quiescent_report_rests", "tbl_resume_unpauses_pausing_task"], ERRORS: ["C11_update_never_raises_expr"]},
        keys=["status", "staged", "sequence"], offers="ids",
        prof=dict(p_template=0.35, templates=[9, 9, 9, 9, 2, 0, 1, 3, 4, 5, 6, 7, 8]),
        hist=dict(p_pause=0.1, p_cancel=0.05, p_rerun=0.4, p_task_pause=0.05, p_lifecycle=0.3, p_lazy_start=0.25, p_odd_terminal=0.2, p_first_pending=0.15, p_early_resume=0.3, p_item_pause=0.04),
        monitor="C03", unproven=["C03_quiescent_resting (history invariant) is not proved; search only"],
    ),
    "C04": dict(
        title="terminal statuses are final",
        theorems={STATUS: ["C04_failed_final", "C04_canceled_final", "C04_succeeded_final", "C04_report_keeps_terminal", "tbl_succeeded_wf"], NEXT: ["C04_no_offer_when_succeeded_or_canceled", "C04_failed_offers_only_run_on_fail", "C04_rejected_request_no_effect", "tbl_valid_request_applies"],
                  FRAME: ["C04_history_no_offer_after_terminal"], REMEDIATION: ["C04_remediation_needs_fired_fail"]},
        keys=["status", "staged", "sequence", "tasks", "contexts", "routes"], offers="ids",
        prof=dict(), hist=dict(p_pause=0.05, p_cancel=0.05, p_any_req=0.5, p_dup_report=0.1, p_fail=0.35, p_bogus_report=0.08), monitor="C04", unproven=[],
    ),
    "C05": dict(
        title="persist/restore unobservable",
        theorems={HISTORY: ["C05_persist_identity", "C18_history_extends"]},
        keys=None, offers="full",
        prof=dict(p_template=0.35, templates=[8, 8, 2, 3, 0, 6, 15, 15, 10], p_badexpr=0.2, bad_where=["vars", "wfinput", "vars", "output", "publish"]),
        hist=dict(p_persist=0.35, p_pause=0.05, p_rerun=0.2, p_lazy_start=0.25, p_persist_first=0.3), monitor="C05",
        unproven=["the model has value semantics, so restore is the identity on it by construction; aliasing in the implementation is visible only to the correspondence check with persist ops and to the twin monitor"],
    ),
    "C06": dict(
        title="context = variables published by causal ancestors",
        theorems={JOIN: ["C06_delta_keys"], VALUES: ["C06_merge_later_wins", "C16_merge_preserves_values"], HISTORY: ["C18_context_fixed"],
                  ANCESTRY: ["C06_offer_snapshots_from_ancestors", "C06_snapshots_reach_along_true_transitions", "C06_publications_append_only",
                             "C06_offer_inherits_predecessor_snapshots", "C06_predecessor_snapshots_inherited",
                             "C06_offer_context_is_overlay", "C06_offer_context_from_ancestors",
                             "C06_published_snapshots_listed", "C06_offer_context_exact"]},
        keys=["contexts", "sequence", "staged", "output"], offers="full",
        prof=dict(p_publish=0.8, p_clash=0.4, p_items=0.05, p_retry=0.05, p_template=0.35, templates=[6, 6, 6, 0, 2, 5, 7, 13, 13], p_null_over=0.3), hist=dict(p_fail=0.15, p_rerun=0.3),
        monitor="C06", unproven=["the supersession order of the overlay (which of two independent values wins; violated by D7) and completeness with respect to predecessors the barrier counts but the entry does not name (false: D27) are not proved; proved along every history: the offered context is the overlay of exactly the listed snapshots, which are the initial one, what every named predecessor saw and what it published on the way, and nothing that did not reach the task along a satisfied transition"],
    ),
    "C07": dict(
        title="join runs once and only when satisfied",
        theorems={JOIN: ["C07_ready_iff_satisfied", "C07_barrier_requirement", "C07_unreachable_fails", "C07_check_statuses", "C07_arrival_merges", "C07_report_consumes_entry"], NEXT: ["C01_offer_from_staged"],
                  EDGES: ["C01_offers_justified_by_the_definition"]},
        keys=["status", "staged", "errors", "sequence"], offers="ids",
        prof=dict(p_join=0.7, p_join_count=0.3, max_tasks=7, p_template=0.4, templates=[0, 0, 0, 2, 6]), hist=dict(p_fail=0.3, p_cancel=0.03, p_lazy_start=0.25),
        monitor="C07", unproven=["C07_once (at most one start per satisfaction) along whole histories is not proved; proved per step: the first report consumes the staged entry of the instance (C07_report_consumes_entry, with the uniqueness of staged keys as a hypothesis); count joins: known finding D2"],
    ),
    "C08": dict(
        title="outcome independent of completion order",
        theorems={NEXT: ["C01_offer_from_staged", "C08_offers_sorted"], JOIN: ["C19_inbound_status_perm"], MERGEORDER: ["C08_single_writer_order_free", "C08_context_order_free", "C08_same_writer_order_free", "C08_context_order_free_shared"]},
        keys=["status", "sequence", "contexts", "output"], offers="ids",
        prof=dict(p_loop=0.0, p_retry=0.0, p_items=0.0, p_badexpr=0.0, p_template=0.4, templates=[4, 4, 0, 5, 6, 14, 14, 11, 17, 17], p_delay=0.3), hist=dict(fixed_outcomes=True, p_lifecycle=0.4, p_odd_terminal=0.0),
        monitor="C08", unproven=["order independence of whole runs (C08_routefree, C08_commute) is relational and not proved; search only. Proved for every state and every two orders of the same snapshots: the merged context agrees on each variable written by at most one of them, or by one snapshot listed several times (C08_context_order_free, C08_context_order_free_shared)"],
    ),
    "C09": dict(
        title="pause and resume are transparent",
        theorems={STATUS: ["C09_report_while_pausing", "tbl_paused_doors", "tbl_dormant_doors_task",
                           "tbl_dormant_doors_wf", "tbl_failure_covered", "tbl_resume_unpauses_pausing_task"],
                  NEXT: ["C09_no_offer_while_pausing_or_paused"],
                  FRAME: ["C09_request_touches_only_statuses", "C09_requests_touch_only_statuses", "C09_request_keeps_record_data"]},
        keys=["status", "staged", "sequence", "errors", "output"], offers="ids",
        prof=dict(p_badexpr=0.15, p_join=0.8, p_items=0.12, p_retry=0.06, p_cmd=0.1, p_template=0.3, templates=[0, 0, 6, 7, 2]), hist=dict(p_pause=0.25, p_task_pause=0.05, p_item_pause=0.04), monitor="C09",
        unproven=["C09_transparent (twin-run equality) is relational and not proved; search only"],
    ),
    "C10": dict(
        title="cancellation stops scheduling and ends canceled",
        theorems={STATUS: ["C10_cancel_family_closed", "C10_never_succeeds", "C04_canceled_final",
                           "tbl_dormant_doors_task", "tbl_dormant_doors_wf", "tbl_active_doors_wf",
                           "tbl_cancel_request_never_fails", "tbl_canceling_reports_never_fail",
                           "C10_cancel_request_never_fails", "C10_reports_keep_canceling"],
                  NEXT: ["C10_no_offer_after_cancel"], FRAME: ["C09_request_touches_only_statuses", "C10_history_no_offer_after_cancel"]},
        keys=["status", "staged", "sequence", "errors", "output"], offers="ids",
        prof=dict(p_template=0.45, templates=[1, 1, 1, 0, 0, 2, 4, 6], p_join=0.8), hist=dict(p_cancel=0.3, p_pause=0.08, p_fail=0.35, p_first_pending=0.25, p_task_pause=0.15), monitor="C10", unproven=[],
    ),
    "C11": dict(
        title="expression errors contained",
        theorems={ERRORS: ["C11_next_never_raises_expr", "C11_update_never_raises_expr", "C11_render_never_raises_expr", "C11_request_never_raises_expr"], STATUS: ["tbl_failed_request_total"], SITES: ["evalSites_guarded", "evalSites_nonempty"], ERRLOG: ["C11_errors_persist"],
                  NEXTTOTAL: ["C11_next_never_raises", "C11_next_never_raises_history", "C11_error_handler_total"],
                  RENDERFAIL: ["C11_render_failure_recorded", "C11_render_failure_offers_nothing", "C11_plain_task_offered_or_failed"]},
        keys=["status", "errors", "staged"], offers="ids",
        prof=dict(p_badexpr=0.7, p_badtype=0.25), hist=dict(p_pause=0.05, p_cancel=0.1, p_task_pause=0.15, p_first_pending=0.1, p_rerun=0.35), monitor="C11",
        unproven=["'recorded and failed' is proved for get_next_tasks as: the failing task's entry is in the log and the call offers nothing (C11_render_failure_recorded, C11_render_failure_offers_nothing); that the resulting status is failed is proved only up to the totality of the failed request (tbl_failed_request_total), not as a postcondition of update_task_state"],
    ),
    "C12": dict(
        title="with-items: every item once, in order, within the limit",
        theorems={ITEMS: ["C12_window_bound", "C12_window_total", "C12_window_unset_only", "C12_window_in_order", "C12_no_concurrency_all_unset", "C12_empty_items_offer", "C12_empty_window", "C12_item_success_unique", "C12_completed_needs_dormant"], NEXT: ["C09_no_offer_while_pausing_or_paused", "C10_no_offer_after_cancel"],
                  ANCESTRY: ["C12_completed_entry_not_offered"]},
        keys=["status", "staged", "sequence"], offers="full",
        prof=dict(p_items=0.9, max_tasks=3, p_retry=0.1, p_template=0.12, templates=[16]), hist=dict(p_fail=0.3, p_pause=0.1, p_cancel=0.05, p_rerun=0.5, p_item_pause=0.08),
        monitor="C12", unproven=["C12_all_offered (progress) not proved; result ordering is assembled by the provider"],
    ),
    "C13": dict(
        title="retry: bounded attempts, no transition from a retried attempt",
        theorems={ITEMS: ["C13_retry_iff", "C13_retry_requires_tally_below_count", "C13_completed_rows", "C13_retry_event_reopens", "tbl_retry_dispatch_is_active"],
                  RETRY: ["C13_tally_bounded", "C13_update_keeps_bound", "C13_retrying_only_by_retry_event", "C13_retry_event_licensed", "C13_no_retry_without_status_change",
                          "C13_restage_bumps_once", "C13_no_restage_otherwise"],
                  FROZEN: ["C13_retried_attempt_undecided", "C18_decided_records_completed"],
                  ANCESTRY: ["C13_reoffer_carries_retry_delay"]},
        keys=["status", "staged", "sequence", "contexts"], offers="full",
        prof=dict(p_retry=0.8, max_tasks=4, p_template=0.3, templates=[10, 10, 10, 3, 3], p_badtype=0.08), hist=dict(p_fail=0.5, p_pause=0.05, p_dup_report=0.2), monitor="C13",
        unproven=["that along a whole history the number of re-offers of a visit equals the final tally is monitored, not proved (proved per step: one bump and one staged entry per re-staging, C13_restage_bumps_once, and the delay a re-offer carries, C13_reoffer_carries_retry_delay); proved along every history: the tally never exceeds the count (C13_tally_bounded) and a retried attempt has no recorded decision, hence no transition, publish or handler (C13_retried_attempt_undecided)"],
    ),
    "C14": dict(
        title="composed graph is exactly the definition",
        theorems={COMPOSE: ["C14_edges_sound", "C14_one_edge_per_triple", "C14_next_transitions_exact"], COMPLETE: ["C14_complete"],
                  KEYS: ["C14_keys_distinct", "nextTransitions_nodup"]},
        keys=[], offers=None, prof=dict(p_parallel_edge=0.3, max_tasks=7), hist=dict(), monitor="C14",
        compose_only=True, unproven=["C14_complete is partial correctness (the worklist emptying is a hypothesis); C14_perm (declaration order) not proved; search only"],
    ),
    "C15": dict(
        title="accepted definitions are executable; broken references reported",
        theorems={SITES: ["specFacts_expr_positions_inspected", "specFacts_workflow_inspected"], STATUS: ["tbl_task_targets_have_events", "tbl_item_targets_have_events", "C15_task_events_accepted"], ERRORS: ["C11_update_never_raises_expr", "C11_next_never_raises_expr"],
                  NEXTTOTAL: ["C11_next_never_raises", "C11_error_handler_total"]},
        keys=["status", "errors"], offers="ids", prof=dict(p_badtype=0.15), hist=dict(p_pause=0.05, p_cancel=0.05, p_rerun=0.2, p_bogus_report=0.1),
        monitor="C15", unproven=["C15_no_internal_error (history) not proved; the inspectors are not modelled, only their inventories are generated"],
    ),
    "C16": dict(
        title="values flow unchanged; evaluation pure; internals hidden",
        theorems={VALUES: ["C16_evaluate_plain_identity", "C16_merge_preserves_values", "C16_ctx_hides_internals"], JOIN: ["C06_delta_keys"]},
        keys=["contexts", "output"], offers="full", prof=dict(p_publish=0.8, p_odd_strings=1.0, lang_jinja=0.5, p_use_y=0.6, p_clash=0.5, p_null_over=0.5, p_template=0.15, templates=[13, 13, 13, 7, 6, 5, 2]), hist=dict(p_fail=0.1),
        monitor="C16", unproven=["library behaviour (ujson, YAQL, Jinja) is not modelled; search only"],
    ),
    "C17": dict(
        title="rerun re-executes only what was asked and converges",
        theorems={RERUN: ["C17_reject_active", "C17_reject_unknown", "C17_accepted_resuming", "C17_only_completed_accepted", "C17_only_current_records_counted", "C17_canceled_needs_current_canceled"], HISTORY: ["C18_extends_rerun"],
                  FRAME: ["C17_rerun_keeps_history"]},
        keys=None, offers="ids", prof=dict(p_items=0.15, p_template=0.3, templates=[11, 11, 11, 12, 12, 12, 0, 1, 2, 6, 9]),
        hist=dict(p_fail=0.45, p_rerun=0.9, p_rerun_any=0.1, p_pause=0.1, p_odd_terminal=0.15), monitor="C17",
        unproven=["convergence to the clean twin is relational; search only"],
    ),
    "C18": dict(
        title="history is append-only; finished records never change",
        theorems={HISTORY: ["C18_extends_request", "C18_extends_next", "C18_extends_report", "C18_extends_render", "C18_extends_rerun", "C18_history_extends", "C18_record_core_fixed", "C18_context_fixed"], ITEMS: ["C13_completed_rows"], RETRY: ["C13_retrying_only_by_retry_event", "C13_no_retry_without_status_change"], STATUS: ["C03_fresh_start_statuses"],
                  FROZEN: ["C18_decisions_never_change", "C18_decided_records_frozen", "C18_decided_records_completed"]},
        keys=["contexts", "routes", "sequence"], offers=None,
        prof=dict(p_items=0.25, p_join=0.7, p_loop=0.3, p_template=0.3, templates=[8, 8, 2, 0, 3, 15]),
        hist=dict(p_fail=0.3, p_persist=0.15, p_rerun=0.3, p_dup_report=0.3, p_lazy_start=0.25),
        monitor="C18", unproven=["append-only history, frozen contexts/predecessors, frozen status and decisions of decided records are all proved along every history; what remains search-only is the tie of the model to the code"],
    ),
    "C19": dict(
        title="conducting deterministic; next is a pure query",
        theorems={NEXT: ["C19_next_no_status_change_when_not_running", "C01_no_offer_unless_running_or_remediation", "C08_offers_sorted"], SITES: ["setSites_covered"], JOIN: ["C19_inbound_status_perm"],
                  QUERY: ["C19_next_idempotent", "C19_next_is_query", "C19_render_is_query", "C19_fragment_evaluator_items_blind", "C19_next_idempotent_fragment", "C19_definition_and_graph_fixed"]},
        keys=None, offers="full", prof=dict(p_items=0.35, p_badexpr=0.3), hist=dict(p_next2=0.5, p_pause=0.05, p_fail=0.3), monitor="C19",
        unproven=["repeatability of next is proved for calls that return tasks and evaluators that cannot see the staging area (C19_next_idempotent); hash-seed independence is outside any model, multi-seed replay only"],
    ),
    "C20": dict(
        title="every shorthand means its long form",
        theorems={PARAMS: ["C20_do_split"], SHORTHAND: ["C20_missing_when_always_taken", "C20_retry_command_is_policy"]},
        keys=None, offers="full", prof=dict(p_odd_strings=0.9, p_publish=0.7), hist=dict(), monitor="C20",
        unproven=["inline parameter scanner round trip not proved; search only"],
    ),
}


def profile(pid):
    return gen.Profile(**PROPS[pid]["prof"])


def hist_profile(pid):
    return gen.HistProfile(**PROPS[pid]["hist"])
