"""Generators: abstract definitions (shape grammar) and provider histories, all from one PRNG."""
import random

CMDS = ["noop", "fail", "continue", "retry"]
ALL_STATUSES = ["requested", "scheduled", "delayed", "running", "pending", "pausing", "paused", "resuming",
                "succeeded", "failed", "timeout", "abandoned", "retrying", "canceling", "canceled"]


def lit(v):
    return {"lit": v}


def ctx(x):
    return {"ctx": x}


def fn(n):
    return {"fn": n}


def op(o, a, b):
    return {"op": o, "a": a, "b": b}


class Profile(object):
    """feature probabilities; properties tune these"""

    def __init__(self, **kw):
        self.max_tasks = 6
        self.p_join = 0.6          # a multiply-referenced task becomes a join
        self.p_join_count = 0.25   # ... with a count instead of all
        self.p_cmd = 0.2           # a transition target is an engine command
        self.p_publish = 0.5
        self.p_clash = 0.3         # publish reuses an existing variable name
        self.p_items = 0.2
        self.p_retry = 0.15
        self.p_loop = 0.15
        self.p_badexpr = 0.0       # inject a failing expression somewhere
        self.p_delay = 0.1
        self.p_second_transition = 0.5
        self.p_cond_ctx = 0.2
        self.p_output = 0.7
        self.p_input = 0.3
        self.p_parallel_edge = 0.1
        self.lang_jinja = 0.25
        self.p_template = 0.25     # use a hand-written shape with random details
        self.templates = [0, 1, 2, 3, 4, 5, 6, 7, 8]   # which templates (weights by repetition)
        self.bad_where = None      # restrict the position of the injected failing expression
        self.p_use_y = 0.15        # reference the string variable y in inputs / publishes
        self.p_null_over = 0.1     # publish null over an already published variable
        self.p_odd_strings = 0.3   # string values with newlines, comments, quotes, unicode
        self.p_badtype = 0.0       # a well-defined value of the wrong type where an integer is needed
        for k, v in kw.items():
            setattr(self, k, v)


def template_def(rng, prof):
    """hand-written shapes that random growth rarely produces, with random details"""
    def T(name, nxt=None, **kw):
        t = {"name": name, "action": "core.noop", "input": [["p", ctx("x")]], "join": None, "with": None,
             "retry": None, "delay": None, "next": nxt or []}
        t.update(kw)
        return t

    def tr(do, when=None, publish=None):
        return {"when": when, "publish": publish or [], "do": do}
    k = rng.choice(prof.templates)
    w = rng.choice([None, fn("succeeded"), fn("completed")])
    if k == 0:   # fork/join below a split
        tasks = [T("a", [tr(["s"], w)]), T("b", [tr(["s"], rng.choice([None, fn("completed")]))]),
                 T("s", [tr(["x", "y"])]), T("x", [tr(["j"], fn("succeeded"))]),
                 T("y", [tr(["j"], rng.choice([fn("succeeded"), fn("completed")]))]),
                 T("j", [tr(["z"])], join=rng.choice(["all", 2, "all", 2, 3])), T("z")]
        feat = "tpl_split_join"
    elif k == 1:  # clean-up beside a fail command, with a concurrent branch
        tasks = [T("t", [tr(["cleanup", "fail"], fn("failed"), [["err", lit("boom")]]), tr(["after"], fn("succeeded"))]),
                 T("u", [tr(["v"])]), T("v"), T("cleanup"), T("after")]
        feat = "tpl_cleanup_fail"
    elif k == 2:  # with-items with concurrency, followed by a join with a sibling
        tasks = [T("w", [tr(["j"], fn("succeeded"), [["r", fn("result")]]), tr(["h"], fn("failed"))],
                   input=[["it", fn("item")]],
                   **{"with": {"items": rng.choice([ctx("xs"), lit([1, 2, 3, 4])]), "key": None,
                               "concurrency": rng.choice([None, lit(1), lit(2)])}}),
                 T("s", [tr(["j"])]), T("j", join="all"), T("h")]
        feat = "tpl_items_join"
    elif k == 3:  # retry policy plus retry command, in a loop
        tasks = [T("a", [tr(["b"])]),
                 T("b", [tr(["a"], op("and", fn("succeeded"), op("lt", ctx("n"), lit(1))), [["n", op("add", ctx("n"), lit(1))]]),
                         tr(["retry"], fn("failed")), tr(["c"], fn("succeeded"))],
                   retry={"when": None, "count": lit(rng.randint(0, 2)), "delay": rng.choice([None, lit(2)])}),
                 T("c")]
        feat = "tpl_retry_loop"
    elif k == 4:  # delayed task beside a quick one, decision on result
        tasks = [T("a"), T("b", [tr(["c"], fn("succeeded"), [["vb", lit(1)]]), tr(["d"], fn("failed"))], delay=lit(5)),
                 T("c"), T("d")]
        feat = "tpl_delay"
    elif k == 6:  # two branches of different length publish the same variable into a join
        tasks = [T("start", [tr(["x1", "y1"])]),
                 T("x1", [tr(["x2"], None, [["v", lit("from_x")]])]), T("x2", [tr(["j"])]),
                 T("y1", [tr(["j"], None, [["v", lit("from_y")]])]),
                 T("j", [tr(["continue"], None, [["w", ctx("v")]])], join="all", input=[["p", ctx("v")]])]
        feat = "tpl_publish_race"
    elif k == 7:  # an earlier transition publishes a dict over a dict variable a later condition reads
        tasks = [T("decide", [tr(["apply"], None, [["d", lit({"a": rng.randint(5, 9)})]]),
                             tr(["notify"], op("lt", {"ctxkey": "d", "k": "a"}, lit(3))),
                             tr(["skip"], {"not": op("lt", {"ctxkey": "d", "k": "a"}, lit(3))})]),
                 T("apply"), T("notify"), T("skip")]
        feat = "tpl_dict_publish"
    elif k == 8:  # with-items task that is a count join (region of D2: compared, not monitored)
        tasks = [T("left", [tr(["w"], None, [["l", lit(1)]])]), T("right", [tr(["w"], None, [["r", lit(2)]])]),
                 T("w", [tr(["z"])], join=1, input=[["it", fn("item")]],
                   **{"with": {"items": lit([1, 2, 3]), "key": None, "concurrency": rng.choice([None, lit(2)])}}),
                 T("z")]
        feat = "tpl_items_count_join"
    elif k == 9:  # a with-items task alone in a chain (the only thing that can fail the workflow)
        tasks = [T("a", [tr(["w"])]),
                 T("w", [tr(["z"], fn("succeeded"), [["r", fn("result")]])], input=[["it", fn("item")]],
                   **{"with": {"items": rng.choice([lit([1, 2]), lit([1, 2, 3])]), "key": None,
                               "concurrency": rng.choice([None, None, lit(1), lit(2)])}}),
                 T("z")]
        feat = "tpl_items_chain"
    elif k == 10:  # a task with a retry policy reached on two routes (split, no join)
        tasks = [T("a", [tr(["s"], None, [["va", lit(1)]])]), T("b", [tr(["s"], None, [["vb", lit(2)]])]),
                 T("s", [tr(["z"], fn("succeeded"))],
                   retry={"when": None, "count": lit(rng.randint(1, 2)), "delay": rng.choice([None, lit(1)])}),
                 T("z")]
        feat = "tpl_split_retry"
    elif k == 11:  # a split reached on two routes, each route carrying its own published variable
        tasks = [T("a", [tr(["s"], None, [["pa", lit(rng.randint(1, 50))]])]),
                 T("b", [tr(["s"], None, [["pb", lit(rng.randint(1, 50))]])]),
                 T("s", [tr(["t"], fn("succeeded"))]), T("t")]
        feat = "tpl_split_routes"
    elif k == 12:  # a failure path that only publishes (continue), beside the success path
        tasks = [T("t1", [tr(["continue"], fn("failed"), [["err", lit("w%d" % rng.randint(0, 9))]]), tr(["t2"], fn("succeeded"))]),
                 T("t2", [tr(["continue"], fn("failed"), [["err2", lit("w%d" % rng.randint(0, 9))]]), tr(["t3"], fn("succeeded"))]),
                 T("t3")]
        feat = "tpl_failure_publish"
    elif k == 13:  # the same variable published twice with values that are equal but of different type
        va, vb = rng.choice([(True, 1), (1, True), (False, 0), (0, False)])
        tasks = [T("t1", [tr(["t2"], None, [["flag", lit(va)]])]), T("t2", [tr(["t3"], None, [["flag", lit(vb)]])]),
                 T("t3", input=[["f", ctx("flag")]])]
        feat = "tpl_typed_republish"
    elif k == 14:  # two independent branches of different length, each publishing its own variable
        tasks = [T("a1", [tr(["a2"], None, [["pa", lit(rng.randint(1, 50))]])]), T("a2"),
                 T("b1", [tr(["b2"], None, [["pb", lit(rng.randint(1, 50))]])]), T("b2", [tr(["b3"])]), T("b3")]
        feat = "tpl_two_leaves"
    elif k == 15:  # a count join with a retry policy: a branch can arrive while the retry is staged
        tasks = [T("a", [tr(["j"], None, [["va", lit(1)]])]),
                 T("b", [tr(["b2"])]), T("b2", [tr(["j"], None, [["vb", lit(2)]])]),
                 T("j", [tr(["z"], fn("succeeded"))], join=1, input=[["p", ctx("va")]],
                   retry={"when": None, "count": lit(rng.randint(1, 2)), "delay": rng.choice([None, lit(1)])}),
                 T("z")]
        feat = "tpl_retry_count_join"
    elif k == 16:  # a long item list under a small concurrency: room for an item that straggles
        n = rng.randint(4, 6)
        tasks = [T("w", [tr(["z"], fn("succeeded"), [["r", fn("result")]])], input=[["it", fn("item")]],
                   **{"with": {"items": lit(list(range(1, n + 1))), "key": None,
                               "concurrency": rng.choice([lit(2), lit(2), lit(3)])}}),
                 T("z")]
        feat = "tpl_items_long"
    elif k == 17:  # nested joins with a side branch that leaves one inner branch before the inner join
        tasks = [T("a", [tr(["p1", "q1"], None, [["va", lit(rng.randint(1, 50))]])]),
                 T("p1", [tr(["p2"], None, [["vp1", lit(2)]])]), T("p2", [tr(["j"], None, [["vp2", lit(3)]])]),
                 T("q1", [tr(["q2", "r"], None, [["vq1", lit(4)]])]), T("q2", [tr(["j"], None, [["vq2", lit(5)]])]),
                 T("j", [tr(["d"], None, [["vj", lit(6)]])], join="all"), T("r", [tr(["d"], None, [["vr", lit(7)]])]),
                 T("d", join="all", input=[["a", ctx("vp1")], ["b", ctx("vq2")], ["c", ctx("vr")]])]
        feat = "tpl_nested_joins"
    elif k == 18:  # a fork out of a loop into a task that has another inbound transition (a split)
        m = rng.randint(1, 2)
        tasks = [T("i", [tr(["a"], fn("succeeded"))]),
                 T("a", [tr(["b"], fn("succeeded"), [["n", op("add", ctx("n"), lit(1))]])]),
                 T("b", [tr(["a"], op("and", fn("succeeded"), op("lt", ctx("n"), lit(m + 1)))), tr(["s"], fn("succeeded"))]),
                 T("c", [tr(["s"], fn("succeeded"))]), T("s")]
        feat = "tpl_loop_fork_split"
    else:         # two publish-only transitions and a noop ending
        tasks = [T("a", [tr(["b", "c"])]), T("b", [tr(["noop"], None, [["x", lit(1)]])]),
                 T("c", [tr(["continue"], None, [["v1", fn("result")]]), tr(["continue"], None, [["v2", lit(7)]])])]
        feat = "tpl_publish_only"
    d = {"input": [], "vars": [["x", lit(0)], ["xs", lit([1, 2, 3])], ["n", lit(0)], ["d", lit({"a": 1, "b": "s"})]],
         "output": [["o1", ctx("x")]], "tasks": tasks}
    if feat == "tpl_cleanup_fail":
        d["output"].append(["o2", ctx("n")])
    if feat == "tpl_two_leaves":
        d["vars"] += [["pa", lit(0)], ["pb", lit(0)]]
        d["output"] += [["opa", ctx("pa")], ["opb", ctx("pb")]]
    if feat == "tpl_typed_republish":
        d["output"].append(["oflag", ctx("flag")])
    if feat == "tpl_failure_publish":
        d["vars"] += [["err", lit(None)], ["err2", lit(None)]]
        d["output"] += [["oerr", ctx("err")], ["oerr2", ctx("err2")]]
    if feat == "tpl_nested_joins":
        for v in ("va", "vp1", "vp2", "vq1", "vq2", "vj", "vr"):
            d["vars"].append([v, lit(0)])
            d["output"].append(["o" + v, ctx(v)])
    if feat == "tpl_split_routes":
        d["output"] += [["opa", ctx("pa")], ["opb", ctx("pb")]]
    if feat == "tpl_publish_race":
        d["vars"].append(["v", lit("none")])
        d["output"].append(["ov", ctx("v")])
    lang = "jinja" if rng.random() < prof.lang_jinja else "yaql"
    return d, lang, {}, set([feat, "template"])


ODD = ["line\n", "a\n\n", "x {# note #} y", "12", "true", "null", "1e5", "%s %d", "\u00fc\u00f1\u00ed",
       "say \"hi\"", "\"q\"", "plain words"]


def gen_def(rng, prof):
    if prof.p_template and rng.random() < prof.p_template:
        return template_def(rng, prof)
    n = rng.randint(1, prof.max_tasks)
    names = ["t%d" % i for i in range(1, n + 1)]
    varnames = ["x", "y", "z"]
    d = {"input": [], "vars": [], "output": [], "tasks": []}
    feats = set()
    # vars
    d["vars"].append(["x", lit(rng.randint(0, 3))])
    if rng.random() < 0.5:
        yv = "s%d" % rng.randint(0, 9)
        if rng.random() < prof.p_odd_strings:
            yv = rng.choice(["line\n", "a\n\n", "x {# note #} y", "12", "true", "null", "1e5", "%s %d", "\u00fc\u00f1\u00ed",
                             "say \"hi\"", "\"q\"", " padded ", "a=b", "x in y"])
        d["vars"].append(["y", lit(yv)])
    if rng.random() < 0.3:
        d["vars"].append(["z", op("add", ctx("x"), lit(1))])
    d["vars"].append(["xs", lit([rng.randint(0, 9) for _ in range(rng.choice([0, 1, 2, 3, 4, 4, 5, 6]))])])
    d["vars"].append(["n", lit(0)])
    d["vars"].append(["d", lit({"a": rng.randint(0, 2), "b": "s"})])
    if rng.random() < prof.p_input:
        d["input"].append(["a", lit(rng.randint(0, 5))])
        if rng.random() < 0.5:
            d["input"].append(["b", None])
        feats.add("input")
    published = []
    tasks = []
    for i, name in enumerate(names):
        t = {"name": name, "action": "core.noop", "input": [], "join": None, "with": None,
             "retry": None, "delay": None, "next": []}
        if rng.random() < 0.6:
            t["input"].append(["p", ctx(rng.choice(["x", "n"] + published[:2]))])
        if rng.random() < prof.p_odd_strings * 0.5:
            t["input"].append(["s", lit(rng.choice(ODD))])
        if rng.random() < prof.p_use_y and any(v[0] == "y" for v in d["vars"]):
            t["input"].append(["yy", ctx("y")])
        if rng.random() < 0.2:
            t["input"].append(["q", lit({"k": [1, "v", None, True]})])
        if rng.random() < 0.2:
            t["input"].append(["da", {"ctxkey": "d", "k": "a"}])
        later = names[i + 1:]
        ntrans = 0
        if later or rng.random() < 0.5:
            ntrans = 1 + (1 if rng.random() < prof.p_second_transition else 0) + (1 if rng.random() < 0.15 else 0)
        for _ in range(ntrans):
            tr = {"when": None, "publish": [], "do": []}
            r = rng.random()
            if r < 0.35:
                tr["when"] = fn("succeeded")
            elif r < 0.55:
                tr["when"] = fn("failed")
            elif r < 0.65:
                tr["when"] = fn("completed")
            elif r < 0.65 + prof.p_cond_ctx:
                tr["when"] = rng.choice([
                    fn("result"), op("lt", {"ctxkey": "d", "k": "a"}, lit(2)),
                    op("lt", ctx("x"), lit(2)), op("eq", fn("result"), lit(1)),
                    op("and", fn("succeeded"), op("lt", ctx("n"), lit(3))),
                    {"not": fn("failed")}, op("eq", {"task_status": rng.choice(names)}, lit("succeeded")),
                ])
                feats.add("cond_ctx")
            if rng.random() < prof.p_publish:
                if published and rng.random() < prof.p_clash:
                    v = rng.choice(published + ["x"])
                    feats.add("publish_clash")
                else:
                    v = "v%d" % (len(published) + 1)
                val = rng.choice([lit(rng.randint(0, 99)), fn("result"), ctx("x"), ctx("y") if any(v[0] == "y" for v in d["vars"]) else ctx("x"),
                                  op("add", ctx("x"), lit(1)), lit("w%d" % rng.randint(0, 9)),
                                  lit({"a": rng.randint(3, 9)}), lit(None), lit(rng.choice([True, False, 0, 1])),
                                  lit(rng.choice(ODD)) if rng.random() < prof.p_odd_strings else lit(rng.randint(0, 9))])
                if rng.random() < 0.15:
                    v = "d"   # a dict published over a dict (merge_dicts recurses into it)
                    val = lit({"a": rng.randint(3, 9)})
                if v not in ("x", "n", "d") and v in published and rng.random() < prof.p_null_over:
                    val = lit(None)   # a null published over an existing value must win
                if v == "d":
                    # `d` stays a dictionary: the failing expression `ctx(d).zz` must fail, and YAQL
                    # maps a key over a *list* without raising (the fragment does not model that)
                    val = lit({"a": rng.randint(3, 9)})
                if v in ("x", "n"):
                    # these are compared numerically elsewhere; keep them integers (YAQL orders
                    # null and integers without raising, which the fragment does not model)
                    val = rng.choice([lit(rng.randint(0, 9)), op("add", ctx("x"), lit(1))])
                tr["publish"].append([v, val])
                if v not in published:
                    published.append(v)
                if rng.random() < 0.2:
                    tr["publish"].append(["v%d" % (len(published) + 1), ctx(v)])
                    published.append("v%d" % len(published))
                feats.add("publish")
            k = 1 + (1 if rng.random() < 0.35 else 0)
            for _ in range(k):
                if later and rng.random() > prof.p_cmd:
                    tgt = rng.choice(later)
                else:
                    tgt = rng.choice(["noop", "fail", "continue", "continue"])
                    feats.add("cmd_" + tgt)
                if tgt not in tr["do"] or rng.random() < prof.p_parallel_edge:
                    tr["do"].append(tgt)
            if not tr["do"]:
                tr["do"] = ["continue"]
            t["next"].append(tr)
        tasks.append(t)
    # loop: one back edge guarded by a counter; single entry: either a self-loop, or a two-task
    # loop j -> k -> j where nothing else leads to k (the properties quantify over such loops)
    if rng.random() < prof.p_loop:
        def inb(name):
            return sum(1 for t in tasks for tr in t["next"] for d in tr["do"] if d == name)
        cands = []
        for j in range(n):
            if inb(names[j]) <= 1:
                cands.append((j, j))
                for k in range(j + 1, n):
                    srcs = [t["name"] for t in tasks for tr in t["next"] for d in tr["do"] if d == names[k]]
                    if srcs and all(x == names[j] for x in srcs) and len(srcs) == 1:
                        cands.append((j, k))
        if cands:
            j, k = rng.choice(cands)
            tasks[k]["next"].insert(0, {
                "when": op("and", fn("succeeded"), op("lt", ctx("n"), lit(rng.randint(1, 2)))),
                "publish": [["n", op("add", ctx("n"), lit(1))]], "do": [names[j]]})
            feats.add("loop")
    # inbound counts -> joins
    inbound = {nm: set() for nm in names}
    inbound_cnt = {nm: 0 for nm in names}
    for t in tasks:
        for tr in t["next"]:
            for tgt in tr["do"]:
                if tgt in inbound:
                    inbound[tgt].add(t["name"])
                    inbound_cnt[tgt] += 1
    for t in tasks:
        k = len(inbound[t["name"]])
        if inbound_cnt[t["name"]] >= 2 and rng.random() < prof.p_join:
            if k >= 2 and rng.random() < prof.p_join_count:
                # a count above the number of inbound tasks is accepted by the inspection: the
                # barrier can then never be satisfied
                t["join"] = rng.randint(1, k + 1) if rng.random() < 0.25 else rng.randint(1, k)
                feats.add("join_count" if t["join"] < k else ("join_count_all" if t["join"] == k else "join_count_over"))
            else:
                t["join"] = "all"
                feats.add("join_all")
        elif inbound_cnt[t["name"]] >= 2:
            feats.add("split")
    # with-items
    for t in tasks:
        if rng.random() < prof.p_items:
            w = {"items": rng.choice([ctx("xs"), lit([1, 2, 3]), lit([]), ctx("xs"), lit(["a", "b"]), lit([1, 2, 3, 4, 5])]),
                 "key": rng.choice([None, None, "i"]), "concurrency": None}
            r = rng.random()
            if r < 0.3:
                w["concurrency"] = lit(rng.choice([1, 2, 2, 0, 3]))
            elif r < 0.4:
                w["concurrency"] = op("add", ctx("n"), lit(1))
            if w["key"]:
                t["input"].append(["it", {"item": "i"}])
            else:
                t["input"].append(["it", fn("item")])
            t["with"] = w
            feats.add("items")
            if w["concurrency"] is not None:
                feats.add("items_concurrency")
    # retry
    for t in tasks:
        if rng.random() < prof.p_retry:
            r = {"when": None, "count": lit(rng.randint(0, 2)), "delay": None}
            q = rng.random()
            if q < 0.25:
                r["when"] = fn("failed")
            elif q < 0.4:
                r["when"] = op("eq", fn("result"), lit(1))
            if rng.random() < 0.2:
                r["count"] = op("add", ctx("x"), lit(0))
            if rng.random() < 0.3:
                r["delay"] = lit(rng.randint(1, 5))
            t["retry"] = r
            feats.add("retry")
        if t["next"] and rng.random() < 0.05:
            t["next"].append({"when": fn("failed"), "publish": [], "do": ["retry"]})
            feats.add("cmd_retry")
    for t in tasks:
        if rng.random() < prof.p_delay:
            t["delay"] = rng.choice([lit(rng.randint(1, 9)), op("add", ctx("x"), lit(1))])
            feats.add("delay")
    if rng.random() < prof.p_output:
        d["output"].append(["o1", ctx(rng.choice(["x", "n"] + published))])
        if published and rng.random() < 0.5:
            d["output"].append(["o2", ctx(rng.choice(published))])
        feats.add("output")
    # failing expression
    if rng.random() < prof.p_badexpr:
        bad = rng.choice([ctx("nope"), op("add", ctx("y_undefined"), lit(1)), ctx("__state"), {"ctxkey": "d", "k": "zz"}, op("div", lit(1), lit(0)),
                          {"item": "k"}, op("eq", ctx("nope2"), lit(1))])
        if rng.random() < 0.25:
            bad = rng.choice([{"rawbad": {"ctxkey": "d", "k": "zz"}},
                              {"twobad": [{"ctxkey": "d", "k": "zz"}, {"ctxkey": "d", "k": "yy"}]}])
        t = rng.choice(tasks)
        where = rng.choice(prof.bad_where or ["input", "when", "publish", "items", "concurrency", "delay", "retry_when",
                                             "retry_count", "retry_delay", "output", "vars", "wfinput"])
        if where == "input":
            t["input"].append(["bad", bad])
        elif where == "when" and t["next"]:
            rng.choice(t["next"])["when"] = bad
        elif where == "publish" and t["next"]:
            rng.choice(t["next"])["publish"].append(["bad", bad])
        elif where == "items":
            t["with"] = {"items": bad, "key": None, "concurrency": None}
        elif where == "concurrency":
            t["with"] = {"items": lit([1, 2]), "key": None, "concurrency": bad}
        elif where == "delay":
            t["delay"] = bad
        elif where == "retry_when":
            t["retry"] = {"when": bad, "count": lit(1), "delay": None}
        elif where == "retry_count":
            t["retry"] = {"when": None, "count": bad, "delay": None}
        elif where == "retry_delay":
            t["retry"] = {"when": None, "count": lit(1), "delay": bad}
        elif where == "output":
            d["output"].append(["bad", bad])
        elif where == "vars":
            d["vars"].append(["bad", bad])
        elif where == "wfinput":
            d["input"].append(["bad", bad])
        feats.add("badexpr_" + where)
    # a value of the wrong type (it evaluates without error) where the engine needs an integer
    if rng.random() < prof.p_badtype:
        wrong = rng.choice([ctx("d"), lit("s"), lit([1]), ctx("xs")])
        t = rng.choice(tasks)
        where = rng.choice(["delay", "retry_count", "retry_delay", "concurrency"])
        if where == "delay":
            t["delay"] = wrong
        elif where == "retry_count":
            t["retry"] = {"when": None, "count": wrong, "delay": None}
        elif where == "retry_delay":
            t["retry"] = {"when": None, "count": lit(1), "delay": wrong}
        else:
            t["with"] = {"items": lit([1, 2]), "key": None, "concurrency": wrong}
            if not any(n == "it" for n, _ in t["input"]):
                t["input"].append(["it", fn("item")])
        feats.add("badtype_" + where)
    d["tasks"] = tasks
    lang = "jinja" if rng.random() < prof.lang_jinja else "yaql"
    inputs = {}
    if d["input"] and rng.random() < 0.5:
        inputs = {"a": rng.randint(10, 20)}
    return d, lang, inputs, feats


# ---------------------------------------------------------------------------------------------
# histories


class HistProfile(object):
    def __init__(self, **kw):
        self.p_fail = 0.25
        self.p_pause = 0.0
        self.p_cancel = 0.0
        self.p_persist = 0.0
        self.p_rerun = 0.0
        self.p_next2 = 0.0
        self.p_lifecycle = 0.15     # requested/scheduled before running
        self.p_odd_terminal = 0.05  # timeout / abandoned / canceled as terminal report
        self.p_item_canceling = 0.4  # an item action reports `canceling` before it stops
        self.p_first_pending = 0.0   # `pending` as the first status of an action
        self.p_early_resume = 0.0    # resume requested while the workflow is still pausing
        self.p_persist_first = 0.0   # persist/restore straight after construction
        self.p_task_pause = 0.0     # action reports pending/paused then resumes
        self.p_item_pause = 0.0     # the same for the action of one item of a with-items task
        self.p_bogus_report = 0.0   # a completion report for a task that does not exist or was never staged
        self.max_steps = 60
        self.fixed_outcomes = False
        self.p_any_req = 0.0        # arbitrary status requests (malformed stream), mostly after terminal
        self.p_rerun_any = 0.0      # rerun requested although the workflow has not completed
        self.p_dup_report = 0.0     # a second, conflicting completion report for a finished action
        self.p_late_running = 0.3   # after a pre-running report, `running` arrives later
        self.p_lazy_start = 0.0     # an offered (non-items) task is not started in this round; it is offered again
        for k, v in kw.items():
            setattr(self, k, v)


class History(object):
    """adaptive provider simulation under the provider contract (offer and start are atomic).
    `player` is an object with play(op) -> reply (the implementation driver)."""

    def __init__(self, rng, hp, player, defn, lang, inputs):
        self.rng, self.hp, self.player = rng, hp, player
        self.ops, self.replies = [], []
        self.inflight = []   # (task, route, item or None)
        self.parked = []     # paused/pending actions
        self.ack_cancel = set()
        self.acc = {}        # (task, route) -> accumulated item results
        self.outcome = {}
        self.defn = defn
        self.lang = lang
        self.inputs = inputs
        self.requested_pause = False
        self.requested_cancel = False
        self.started = []    # every started action (task, route, item)
        self.prestart = []   # reported requested/scheduled/delayed, `running` still to come
        self.finished = []   # (key, terminal status) of completed non-item actions
        self.offers_log = []

    def play(self, op):
        r = self.player.play(op)
        self.ops.append(op)
        self.replies.append(r)
        return r

    def status(self):
        return self.replies[-1]["state"]["status"] if self.replies and "state" in self.replies[-1] else None

    def plan(self, task):
        if self.hp.fixed_outcomes:
            if task not in self.outcome:
                self.outcome[task] = self.rng.random() < self.hp.p_fail
            return self.outcome[task]
        return self.rng.random() < self.hp.p_fail

    def start_offers(self, offers):
        empties = []
        for o in offers:
            if o["id"] in CMDS:
                continue   # an engine command offered as a task (finding D19): a provider cannot run it
            if self.hp.p_lazy_start and o["items_count"] is None and self.rng.random() < self.hp.p_lazy_start:
                continue   # not started yet; get_next_tasks offers it again
            for a in o["actions"]:
                key = (o["id"], o["route"], a["item_id"])
                late = False
                # an action offered again (rerun of a task whose inquiry was never answered)
                # supersedes the parked one: the provider starts the new action
                self.parked = [x for x in self.parked if x[0] != key]
                if a["item_id"] is None and self.hp.p_first_pending and self.rng.random() < self.hp.p_first_pending \
                        and not self._retrying(key):
                    # an inquiry parked at once: `pending` is the first status the action reports
                    self.report(key, "pending", None)
                    self.parked.append((key, "pending"))
                    self.started.append(key)
                    continue
                if a["item_id"] is None and self.rng.random() < self.hp.p_lifecycle:
                    for s in self.rng.choice([["requested"], ["scheduled"], ["requested", "scheduled"], ["delayed"]]):
                        self.report(key, s, None)
                    late = self.rng.random() < self.hp.p_late_running and not self._retrying(key)
                if late:
                    self.prestart.append(key)
                else:
                    self.report(key, "running", None)
                self.inflight.append(key)
                self.started.append(key)
            if o["items_count"] == 0:
                # empty with-items: started like the others ...
                self.play({"op": "report", "task": o["id"], "route": o["route"], "status": "running",
                           "result": None})
                empties.append(o)
        for o in empties:
            # ... and completed at once with an empty result, after every offered action was started
            self.play({"op": "report", "task": o["id"], "route": o["route"], "status": "succeeded",
                       "result": []})

    def _retrying(self, key):
        """the retrying row of the task machine ignores pre-running reports, so a retried action is
        started with `running` right away"""
        st = self.replies[-1].get("state") if self.replies else None
        if not st:
            return False
        idx = st["tasks"].get("%s__r%s" % (key[0], key[1]))
        return idx is not None and st["sequence"][idx]["status"] == "retrying"

    def report(self, key, status, result):
        task, route, item = key
        opd = {"op": "report", "task": task, "route": route, "status": status, "result": result}
        if item is not None:
            opd["item"] = item
            acc = self.acc.setdefault((task, route), {})
            if status in ("succeeded", "failed", "timeout", "abandoned", "canceled"):
                acc[item] = result
            n = max(acc) + 1 if acc else 0
            opd["acc"] = [acc.get(i) for i in range(n)]
        return self.play(opd)

    def complete_one(self):
        i = self.rng.randrange(len(self.inflight))
        key = self.inflight[i]
        if key in self.prestart:
            self.prestart.remove(key)
            self.report(key, "running", None)
            if self.rng.random() < 0.7:
                return      # it only started now; it completes at a later step
        self.inflight.pop(i)
        st = self.status()
        r = self.rng.random()
        if (self.hp.p_task_pause and key[2] is None and r < self.hp.p_task_pause) or \
                (self.hp.p_item_pause and key[2] is not None and st not in ("canceling", "canceled") and r < self.hp.p_item_pause):
            s = self.rng.choice(["pending", "paused"])
            self.report(key, s, None)
            self.parked.append((key, s))
            return
        if st == "canceling" and key[2] is not None and key not in self.ack_cancel and self.rng.random() < self.hp.p_item_canceling:
            # the item's action acknowledges the cancellation and stops later
            self.ack_cancel.add(key)
            self.report(key, "canceling", None)
            self.inflight.append(key)
            return
        if st in ("canceling", "canceled") and r < 0.6:
            self.report(key, "canceled", None)
            return
        if r < self.hp.p_odd_terminal:
            self.report(key, self.rng.choice(["timeout", "abandoned", "canceled"]), None)
            return
        failed = self.plan(key[0])
        res = self.rng.choice([1, 1, 2, "r", None, {"k": 1}])
        self.report(key, "failed" if failed else "succeeded", res)
        if key[2] is None:
            self.finished.append((key, "failed" if failed else "succeeded"))

    def run(self):
        rng, hp = self.rng, self.hp
        init = {"op": "init", "def": self.defn, "lang": self.lang, "inputs": self.inputs, "ctx": {}}
        if hp.p_persist_first and rng.random() < hp.p_persist_first:
            init["persist_first"] = True
        self.play(init)
        self.play({"op": "req", "status": "running"})
        steps = 0
        reruns = 0
        while steps < hp.max_steps:
            steps += 1
            r = self.play({"op": "next"})
            offers = r["res"] if isinstance(r["res"], list) else []
            self.offers_log.append(offers)
            if hp.p_next2 and rng.random() < hp.p_next2:
                self.play({"op": "next"})
            self.start_offers(offers)
            if hp.p_persist and rng.random() < hp.p_persist:
                self.play({"op": "persist"})
            st = self.status()
            if hp.p_dup_report and self.finished and rng.random() < hp.p_dup_report:
                key, was = rng.choice(self.finished)
                # a late or duplicate report: the other status, or the same status with another result
                self.report(key, ("failed" if was == "succeeded" else "succeeded") if rng.random() < 0.5 else was,
                            rng.choice([7, "late", 1, 1]))
            if hp.p_bogus_report and rng.random() < hp.p_bogus_report:
                # malformed stream: a report for a task the definition does not have, or for one that
                # has neither a staged entry nor a record on that route (it must be rejected untouched)
                names = [t["name"] for t in self.defn["tasks"]]
                who = rng.choice([("nosuch", 0), ("nosuch", 1), (rng.choice(names), 97)])
                self.play({"op": "report", "task": who[0], "route": who[1],
                           "status": rng.choice(["succeeded", "failed"]), "result": None})
            if hp.p_rerun_any and st not in ("succeeded", "failed", "canceled") and rng.random() < hp.p_rerun_any:
                self.play({"op": "rerun", "reqs": []})
            if hp.p_any_req and rng.random() < hp.p_any_req * (0.15 if st not in ("succeeded", "failed", "canceled") else 1.0):
                self.play({"op": "req", "status": rng.choice(ALL_STATUSES)})
            st = self.status()
            # control requests
            if hp.p_pause and rng.random() < hp.p_pause and st in ("running", "resuming"):
                self.play({"op": "req", "status": rng.choice(["pausing", "paused"])})
                self.requested_pause = True
                if hp.p_early_resume and self.inflight and self.status() == "pausing" and rng.random() < hp.p_early_resume / 2:
                    # the user changes their mind at once, while every action is still running
                    self.play({"op": "req", "status": rng.choice(["resuming", "resuming", "running"])})
                    self.requested_pause = False
            elif hp.p_early_resume and st == "pausing" and self.requested_pause and not self.requested_cancel \
                    and rng.random() < hp.p_early_resume:
                self.play({"op": "req", "status": rng.choice(["resuming", "resuming", "running"])})
                self.requested_pause = False
            elif hp.p_cancel and rng.random() < hp.p_cancel and st in ("running", "resuming", "pausing", "paused"):
                self.play({"op": "req", "status": rng.choice(["canceling", "canceled"])})
                self.requested_cancel = True
            st = self.status()
            if self.inflight:
                for _ in range(rng.randint(1, max(1, len(self.inflight)))):
                    if self.inflight:
                        self.complete_one()
                        if hp.p_persist and rng.random() < hp.p_persist / 2:
                            self.play({"op": "persist"})
                continue
            answerable = [x for x in self.parked if x[1] == "pending" and x[0][2] is None]
            if answerable and st in ("paused", "pausing", "canceled", "canceling") and rng.random() < 0.5:
                # an inquiry is answered while the workflow rests paused (or after it was canceled)
                x = rng.choice(answerable)
                self.parked.remove(x)
                failed = self.plan(x[0][0])
                self.report(x[0], "failed" if failed else "succeeded", rng.choice([1, "r", None]))
                continue
            if self.parked and st in ("running", "resuming"):
                i = rng.randrange(len(self.parked))
                key, how = self.parked.pop(i)
                if how == "pending":
                    # an inquiry is answered: it completes (an item action is reported running
                    # first, as the unit tests of the with-items tasks do)
                    if key[2] is not None:
                        self.report(key, "running", None)
                    failed = self.plan(key[0])
                    self.report(key, "failed" if failed else "succeeded", rng.choice([1, "r", None]))
                else:
                    if rng.random() < 0.5:
                        self.report(key, "resuming", None)
                    self.report(key, "running", None)
                    self.inflight.append(key)
                continue
            if self.parked and st == "paused" and not self.requested_cancel:
                self.play({"op": "req", "status": rng.choice(["resuming", "running"])})
                self.requested_pause = False
                continue
            if offers:
                continue
            if st == "paused" and not self.requested_cancel:
                self.play({"op": "req", "status": rng.choice(["resuming", "running"])})
                self.requested_pause = False
                continue
            if st in ("succeeded", "failed", "canceled"):
                self.play({"op": "render"})
                if hp.p_any_req and rng.random() < hp.p_any_req:
                    for _ in range(rng.randint(1, 3)):
                        self.play({"op": "req", "status": rng.choice(ALL_STATUSES)})
                    self.play({"op": "next"})
                    if self.status() not in ("succeeded", "failed", "canceled"):
                        continue
                if st == "failed" and hp.p_rerun and reruns < 2 and rng.random() < hp.p_rerun:
                    reruns += 1
                    self.do_rerun()
                    continue
            break
        return self

    def do_rerun(self):
        rng = self.rng
        state = self.replies[-1]["state"]
        reqs = []
        how = rng.random()
        if how < 0.45:
            keys = list(state["tasks"].keys())
            rng.shuffle(keys)
            for k in keys[:rng.randint(1, 2)]:
                tid, route = k.rsplit("__r", 1)
                if tid in CMDS:
                    continue
                reqs.append({"task": tid, "route": int(route), "reset_items": rng.random() < 0.3})
        elif how < 0.7:
            # every execution that did not end well (failed, timed out, abandoned, canceled), by name
            for k, idx in sorted(state["tasks"].items()):
                tid, route = k.rsplit("__r", 1)
                if tid not in CMDS and state["sequence"][idx]["status"] in ("failed", "timeout", "abandoned", "canceled"):
                    reqs.append({"task": tid, "route": int(route), "reset_items": rng.random() < 0.3})
        self.outcome = {}
        self.acc = {}
        r = self.play({"op": "rerun", "reqs": reqs})
        st = r.get("state") or {}
        restaged = set((x["id"], x["route"]) for x in st.get("staged", []))
        # an unanswered inquiry of a task the rerun staged again is superseded by the new execution
        self.parked = [x for x in self.parked if (x[0][0], x[0][1]) not in restaged]
