-- Root of the `OrqModel` library.
import OrqModel.Enum
import OrqModel.Generated.Tables
import OrqModel.Model.Val
import OrqModel.Model.Spec
import OrqModel.Model.State
import OrqModel.Model.Conductor
import OrqModel.Model.Eval
