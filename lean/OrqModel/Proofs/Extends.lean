/-
The append-only preorder on conductor states (C18): context snapshots and routes are only
appended; task records are only appended and the identity, route, incoming context list and
predecessors of an existing record never change.  Every API operation (rerun included) is
increasing for it, for every evaluator.
-/
import OrqModel.Proofs.Rel

namespace Orq

/-- the part of a task execution record that is fixed once the execution exists -/
def Rec.core (r : Rec) : String × Nat × List Nat × List (TransId × Nat) :=
  (r.id, r.route, r.ctxsIn, r.prev)

def WState.Ext (a b : WState) : Prop :=
  (∃ l, b.contexts = a.contexts ++ l) ∧ (∃ l, b.routes = a.routes ++ l) ∧
  (∃ l, b.sequence.map Rec.core = a.sequence.map Rec.core ++ l) ∧ (∃ l, b.pubLog = a.pubLog ++ l)

theorem WState.Ext.refl (a : WState) : a.Ext a := ⟨⟨[], by simp⟩, ⟨[], by simp⟩, ⟨[], by simp⟩, ⟨[], by simp⟩⟩

theorem WState.Ext.trans {a b c : WState} (h1 : a.Ext b) (h2 : b.Ext c) : a.Ext c := by
  obtain ⟨⟨l1, e1⟩, ⟨l2, e2⟩, ⟨l3, e3⟩, ⟨l4, e4⟩⟩ := h1
  obtain ⟨⟨m1, f1⟩, ⟨m2, f2⟩, ⟨m3, f3⟩, ⟨m4, f4⟩⟩ := h2
  exact ⟨⟨l1 ++ m1, by rw [f1, e1, List.append_assoc]⟩, ⟨l2 ++ m2, by rw [f2, e2, List.append_assoc]⟩,
         ⟨l3 ++ m3, by rw [f3, e3, List.append_assoc]⟩, ⟨l4 ++ m4, by rw [f4, e4, List.append_assoc]⟩⟩

def extPre : Pre where
  R c c' := c.st.Ext c'.st
  refl c := WState.Ext.refl c.st
  trans := WState.Ext.trans

/-! ### effect of the state mutators on the three components -/

theorem map_core_modify (l : List Rec) (i : Nat) (g : Rec → Rec) (h : ∀ r, (g r).core = r.core) :
    (l.modify i g).map Rec.core = l.map Rec.core := by
  induction l generalizing i with
  | nil => cases i <;> rfl
  | cons x xs ih =>
    cases i with
    | zero => simp [h]
    | succ n => simp [ih]

@[simp] theorem WState.updateRec_contexts (s : WState) (i g) : (s.updateRec i g).contexts = s.contexts := rfl
@[simp] theorem WState.updateRec_routes (s : WState) (i g) : (s.updateRec i g).routes = s.routes := rfl
theorem WState.updateRec_core (s : WState) (i g) (h : ∀ r, (g r).core = r.core) :
    (s.updateRec i g).sequence.map Rec.core = s.sequence.map Rec.core := map_core_modify _ _ _ h
@[simp] theorem WState.updateStaged_contexts (s : WState) (k f) : (s.updateStaged k f).contexts = s.contexts := rfl
@[simp] theorem WState.updateStaged_routes (s : WState) (k f) : (s.updateStaged k f).routes = s.routes := rfl
@[simp] theorem WState.updateStaged_sequence (s : WState) (k f) : (s.updateStaged k f).sequence = s.sequence := rfl
@[simp] theorem WState.eraseStaged_contexts (s : WState) (k) : (s.eraseStaged k).contexts = s.contexts := rfl
@[simp] theorem WState.eraseStaged_routes (s : WState) (k) : (s.eraseStaged k).routes = s.routes := rfl
@[simp] theorem WState.eraseStaged_sequence (s : WState) (k) : (s.eraseStaged k).sequence = s.sequence := rfl
@[simp] theorem WState.addStaged_contexts (s : WState) (x) : (s.addStaged x).contexts = s.contexts := rfl
@[simp] theorem WState.addStaged_routes (s : WState) (x) : (s.addStaged x).routes = s.routes := rfl
@[simp] theorem WState.addStaged_sequence (s : WState) (x) : (s.addStaged x).sequence = s.sequence := rfl
@[simp] theorem WState.removeStaged_contexts (s : WState) (k) : (s.removeStaged k).contexts = s.contexts := by
  unfold WState.removeStaged; split
  · rfl
  · split <;> rfl
@[simp] theorem WState.removeStaged_routes (s : WState) (k) : (s.removeStaged k).routes = s.routes := by
  unfold WState.removeStaged; split
  · rfl
  · split <;> rfl
@[simp] theorem WState.removeStaged_sequence (s : WState) (k) : (s.removeStaged k).sequence = s.sequence := by
  unfold WState.removeStaged; split
  · rfl
  · split <;> rfl
@[simp] theorem WState.setTask_contexts (s : WState) (k i) : (s.setTask k i).contexts = s.contexts := by
  unfold WState.setTask; split <;> rfl
@[simp] theorem WState.setTask_routes (s : WState) (k i) : (s.setTask k i).routes = s.routes := by
  unfold WState.setTask; split <;> rfl
@[simp] theorem WState.setTask_sequence (s : WState) (k i) : (s.setTask k i).sequence = s.sequence := by
  unfold WState.setTask; split <;> rfl

/-- a state update that leaves the three components alone -/
theorem Ext.of_eq {a b : WState} (h1 : b.contexts = a.contexts) (h2 : b.routes = a.routes)
    (h3 : b.sequence.map Rec.core = a.sequence.map Rec.core) (h4 : b.pubLog = a.pubLog) : a.Ext b :=
  ⟨⟨[], by simp [h1]⟩, ⟨[], by simp [h2]⟩, ⟨[], by simp [h3]⟩, ⟨[], by simp [h4]⟩⟩

theorem Rel.modifySt_ext {f : WState → WState} (h : ∀ st : WState, st.Ext (f st)) :
    Rel extPre (M.modifySt f) := ⟨fun s => h s.st⟩

theorem Rel.modify_ext {f : Cond → Cond} (h : ∀ c, (f c).st = c.st) : Rel extPre (M.modify f) := by
  constructor
  intro c
  show c.st.Ext (f c).st
  rw [h]
  exact WState.Ext.refl _

/-- the pattern every record update in the model has: a field other than the core ones -/
theorem Ext.updateRec (s : WState) (i g) (h : ∀ r, (g r).core = r.core) : s.Ext (s.updateRec i g) :=
  Ext.of_eq rfl rfl (WState.updateRec_core s i g h) rfl

@[simp] theorem WState.setTask_pubLog (s : WState) (k i) : (s.setTask k i).pubLog = s.pubLog := by
  unfold WState.setTask; split <;> rfl
@[simp] theorem WState.updateRec_pubLog (s : WState) (i g) : (s.updateRec i g).pubLog = s.pubLog := rfl
@[simp] theorem WState.updateStaged_pubLog (s : WState) (k f) : (s.updateStaged k f).pubLog = s.pubLog := rfl
@[simp] theorem WState.eraseStaged_pubLog (s : WState) (k) : (s.eraseStaged k).pubLog = s.pubLog := rfl
@[simp] theorem WState.addStaged_pubLog (s : WState) (x) : (s.addStaged x).pubLog = s.pubLog := rfl
@[simp] theorem WState.removeStaged_pubLog (s : WState) (k) : (s.removeStaged k).pubLog = s.pubLog := by
  unfold WState.removeStaged; split
  · rfl
  · split <;> rfl

theorem Ext.appendRec (st : WState) (r : Rec) (k i) :
    st.Ext (({ st with sequence := st.sequence ++ [r] } : WState).setTask k i) :=
  ⟨⟨[], by simp⟩, ⟨[], by simp⟩, ⟨[r.core], by simp⟩, ⟨[], by simp⟩⟩

theorem Ext.appendRoute (st : WState) (x) : st.Ext { st with routes := st.routes ++ [x] } :=
  ⟨⟨[], by simp⟩, ⟨[x], by simp⟩, ⟨[], by simp⟩, ⟨[], by simp⟩⟩

theorem Ext.appendCtx (st : WState) (x i g) (pb) (h : ∀ r : Rec, (g r).core = r.core) :
    st.Ext (({ st with contexts := st.contexts ++ [x], pubLog := st.pubLog ++ [pb] } : WState).updateRec i g) :=
  ⟨⟨[x], by simp⟩, ⟨[], by simp⟩, ⟨[], by simp [WState.updateRec_core _ _ _ h]⟩, ⟨[pb], by simp⟩⟩

theorem Ext.appendRerun (st : WState) (x) : st.Ext { st with reruns := st.reruns ++ [x] } :=
  ⟨⟨[], by simp⟩, ⟨[], by simp⟩, ⟨[], by simp⟩, ⟨[], by simp⟩⟩

theorem Ext.setStatus (st : WState) (x) : st.Ext { st with status := x } :=
  ⟨⟨[], by simp⟩, ⟨[], by simp⟩, ⟨[], by simp⟩, ⟨[], by simp⟩⟩

theorem logEntry_ext (e) : Rel extPre (logEntry e) := by
  unfold logEntry
  apply Rel.modify_ext
  intro c
  split <;> rfl

theorem logError_ext (k a b c) : Rel extPre (logError k a b c) := logEntry_ext _

theorem wfProcessTaskEvent_ext (k ev) : Rel extPre (wfProcessTaskEvent k ev) := by
  constructor
  intro c
  show c.st.Ext _
  unfold wfProcessTaskEvent
  dsimp only
  split
  · exact WState.Ext.refl _
  · split
    · split
      · exact Ext.of_eq rfl rfl rfl rfl
      · have hk : ∀ xs : List Staged, Rel extPre (M.forEach xs
            fun x => logError "UnreachableJoinError" (some x.id) (some x.route)) :=
          fun xs => Rel.forEach _ (fun x => logEntry_ext _)
        exact WState.Ext.trans (Ext.of_eq rfl rfl rfl rfl) ((hk _).run _)
    · exact Ext.of_eq rfl rfl rfl rfl

theorem wfProcessWorkflowEvent_ext (req) : Rel extPre (wfProcessWorkflowEvent req) := by
  constructor
  intro c
  show c.st.Ext _
  unfold wfProcessWorkflowEvent
  dsimp only
  split
  · exact WState.Ext.refl _
  · split
    · split
      · exact Ext.of_eq rfl rfl rfl rfl
      · have hk : ∀ xs : List Staged, Rel extPre (M.forEach xs
            fun x => logError "UnreachableJoinError" (some x.id) (some x.route)) :=
          fun xs => Rel.forEach _ (fun x => logEntry_ext _)
        exact WState.Ext.trans (Ext.of_eq rfl rfl rfl rfl) ((hk _).run _)
    · exact Ext.of_eq rfl rfl rfl rfl

theorem tkProcessWorkflowEvent_ext (i req) : Rel extPre (tkProcessWorkflowEvent i req) := by
  constructor
  intro c
  show c.st.Ext _
  unfold tkProcessWorkflowEvent
  repeat' (first | exact WState.Ext.refl _ | exact Ext.updateRec _ _ _ (fun _ => rfl) | split | dsimp only)

theorem tkProcessEvent_ext (i ev) : Rel extPre (tkProcessEvent i ev) := by
  constructor
  intro c
  show c.st.Ext _
  unfold tkProcessEvent
  repeat' (first | exact WState.Ext.refl _ | exact Ext.updateRec _ _ _ (fun _ => rfl) | split | dsimp only)

end Orq
