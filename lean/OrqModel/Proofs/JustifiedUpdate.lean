/-
C01: the functions that add predecessors (staging a target, appending a record, re-staging a retry,
rerun) keep the justification invariant.
-/
import OrqModel.Proofs.Justified

namespace Orq

variable (E : Evaluator)

theorem just_bind {α β} (m : M α) (f : α → M β) (c : Cond)
    (hm : Just (m c).2) (hf : ∀ a c1, m c = (.ok a, c1) → Just (f a c1).2) : Just ((m >>= f) c).2 := by
  rw [M.bind_run]
  cases h : m c with
  | mk res c1 =>
    rw [h] at hm
    cases res with
    | ok a => exact hf a c1 h
    | error e => exact hm

/-- a step by a function that needs no new justification -/
theorem Just.uniform {α} {m : M α} (h1 : Rel decStep m) (h2 : Rel prevPre m) (c : Cond) (hj : Just c) :
    Just (m c).2 := Just.step (h1.run c).weak (h2.run c) hj

theorem newRecord_prev (c : Cond) (k : TaskKey) (a : List Nat) (b : List (TransId × Nat)) :
    (newRecord E c k a b).1.prev = b := by
  unfold newRecord
  dsimp only
  split <;> rfl

/-- appending a record whose predecessors are justified -/
theorem Just.append (c : Cond) (r0 : Rec) (k : TaskKey) (n : Nat) (hj : Just c) (h0 : r0.next = [])
    (hb : PrevOk c r0.prev) :
    Just { c with st := ({ c.st with sequence := c.st.sequence ++ [r0] } : WState).setTask k n } := by
  have hseq : (({ c.st with sequence := c.st.sequence ++ [r0] } : WState).setTask k n).sequence = c.st.sequence ++ [r0] := by
    rw [WState.setTask_sequence]
  have hstg : (({ c.st with sequence := c.st.sequence ++ [r0] } : WState).setTask k n).staged = c.st.staged := by
    unfold WState.setTask; split <;> rfl
  have hw : DecStepW c { c with st := ({ c.st with sequence := c.st.sequence ++ [r0] } : WState).setTask k n } := by
    have := (Rel.modifySt_dec_append (f := fun st => ({ st with sequence := st.sequence ++ [r0] } : WState).setTask k n) r0 h0
      (fun st => by rw [WState.setTask_sequence])).run c
    exact DecStepR.weak this
  refine ⟨?_, ?_⟩
  · intro x hx
    rw [show ({ c with st := ({ c.st with sequence := c.st.sequence ++ [r0] } : WState).setTask k n } : Cond).st.staged = c.st.staged from hstg] at hx
    exact (hj.staged x hx).mono hw
  · intro r hr
    rw [show ({ c with st := ({ c.st with sequence := c.st.sequence ++ [r0] } : WState).setTask k n } : Cond).st.sequence = c.st.sequence ++ [r0] from hseq] at hr
    rcases List.mem_append.mp hr with h | h
    · exact (hj.recs r h).mono hw
    · simp only [List.mem_singleton] at h
      subst h
      exact hb.mono hw

theorem addTaskState_just (k : TaskKey) (a : List Nat) (b : List (TransId × Nat)) (c : Cond)
    (hj : Just c) (hb : PrevOk c b) : Just (addTaskState E k a b c).2 := by
  unfold addTaskState
  rw [M.bind_run]
  simp only [M.get]
  split
  · exact hj
  · generalize (newRecord E c k a b).2 = err
    have htail : ∀ c2, DecStepW c c2 → Just c2 → Just ((do
        let c' ← M.get
        M.modifySt fun st => (({ st with sequence := st.sequence ++ [(newRecord E c k a b).1] } : WState).setTask k
          c'.st.sequence.length)
        pure c'.st.sequence.length : M Nat) c2).2 := by
      intro c2 w hj2
      rw [M.bind_run]
      simp only [M.get]
      rw [M.bind_run]
      simp only [M.modifySt, M.modify, pure, M.pure']
      apply Just.append c2 _ k _ hj2 (newRecord_next E c k a b)
      rw [newRecord_prev]
      exact hb.mono w
    cases err with
    | none =>
      dsimp only
      rw [M.bind_run]
      simp only [pure, M.pure']
      exact htail c (DecStepW.refl c) hj
    | some e =>
      dsimp only
      have hd0 : Rel decStep (do logError e.className (some k.1) (some k.2); failOnError : M Unit) := by
        dec_walk [failOnError_dec]
      have hp0 : Rel prevPre (do logError e.className (some k.1) (some k.2); failOnError : M Unit) := by
        prev_walk [failOnError_prev, logError_prev _ _ _ _]
      apply just_bind
      · exact Just.uniform hd0 hp0 c hj
      intro u c2 h2
      have w := (hd0.run c).weak
      have p := hp0.run c
      rw [h2] at w p
      exact htail c2 w (Just.step w p hj)

/-- the general step: every staged entry and record of the new state either carries the
    predecessor list of an old one or one that is justified in the old state -/
theorem Just.of_parts {c c' : Cond} (hw : DecStepW c c') (hj : Just c)
    (hs : ∀ x' ∈ c'.st.staged, (∃ x ∈ c.st.staged, x'.prev = x.prev) ∨ PrevOk c x'.prev)
    (hr : ∀ (i : Nat) (r' : Rec), c'.st.sequence[i]? = some r' →
      (∃ r, c.st.sequence[i]? = some r ∧ r'.prev = r.prev) ∨ PrevOk c r'.prev) : Just c' := by
  refine ⟨?_, ?_⟩
  · intro x' hx'
    rcases hs x' hx' with ⟨x, hx, e⟩ | h
    · rw [e]; exact (hj.staged x hx).mono hw
    · exact h.mono hw
  · intro r' hr'
    obtain ⟨i, hi⟩ := List.getElem?_of_mem hr'
    rcases hr i r' hi with ⟨r, hr0, e⟩ | h
    · rw [e]; exact (hj.recs r (List.mem_of_getElem? hr0)).mono hw
    · exact h.mono hw

theorem recs_prev_of_map {l l' : List Rec} (h : l'.map (·.prev) = l.map (·.prev)) (i : Nat) (r' : Rec)
    (hr' : l'[i]? = some r') : ∃ r, l[i]? = some r ∧ r'.prev = r.prev := by
  have hmap := congrArg (·[i]?) h
  simp only [List.getElem?_map, hr'] at hmap
  cases hc : l[i]? with
  | none => rw [hc] at hmap; cases hmap
  | some r =>
    rw [hc] at hmap
    simp only [Option.map_some, Option.some.injEq] at hmap
    exact ⟨r, rfl, hmap⟩

theorem restageRetry_just (k : TaskKey) (idx : Nat) (o : Status) (c : Cond) (hj : Just c) :
    Just (restageRetry k idx o c).2 := by
  have hw := ((restageRetry_dec k idx o).run c).weak
  unfold restageRetry at hw ⊢
  rw [M.bind_run] at hw ⊢
  simp only [M.get] at hw ⊢
  rw [M.bind_run] at hw ⊢
  cases hr : c.st.sequence[idx]? with
  | none => exact hj
  | some r =>
    rw [hr] at hw
    simp only [liftOpt, pure, M.pure'] at hw ⊢
    split
    · rename_i hcond
      rw [if_pos hcond] at hw
      rw [M.bind_run] at hw ⊢
      cases hrs : r.retry with
      | none => exact hj
      | some rs =>
        rw [hrs] at hw
        simp only [liftOpt, pure, M.pure'] at hw ⊢
        apply Just.of_parts hw hj
        · intro x' hx'
          have hx'' : x' ∈ ((c.st.updateRec idx fun r => { r with retry := some { rs with tally := rs.tally + 1 } }).removeStaged k).staged ++
              [({ id := k.1, route := k.2, ctxsIn := if r.ctxsIn.isEmpty then [0] else r.ctxsIn,
                  prev := r.prev, ready := true, retry := some { rs with tally := rs.tally + 1 } } : Staged)] := hx'
          rcases List.mem_append.mp hx'' with h | h
          · left
            have hm := mem_removeStaged _ _ _ h
            exact ⟨x', hm, rfl⟩
          · right
            simp only [List.mem_singleton] at h
            subst h
            exact hj.recs r (List.mem_of_getElem? hr)
        · intro i r' hr'
          left
          apply recs_prev_of_map _ i r' hr'
          show (WState.addStaged _ _).sequence.map _ = _
          simp only [WState.addStaged_sequence, WState.removeStaged_sequence]
          apply map_prev_modify
          intro r
          rfl
    · exact hj

theorem mem_setAssoc {β} (l : List (TransId × β)) (k : TransId) (v : β) (p : TransId × β)
    (h : p ∈ setAssoc l k v) : p ∈ l ∨ p.2 = v := by
  unfold setAssoc at h
  split at h
  · obtain ⟨q, hq, e⟩ := List.mem_map.mp h
    split at e
    · right; rw [← e]
    · left; rw [← e]; exact hq
  · rcases List.mem_append.mp h with h | h
    · left; exact h
    · right
      simp only [List.mem_singleton] at h
      rw [h]

/-- the record at `idx` is completed and decided -/
def DoneAt (c : Cond) (idx : Nat) : Prop := ∃ q, c.st.sequence[idx]? = some q ∧ Comp q ∧ q.next ≠ []

theorem DoneAt.mono {c c' : Cond} {idx : Nat} (h : DecStepW c c') (hd : DoneAt c idx) : DoneAt c' idx := by
  obtain ⟨q, hq, hc, hn⟩ := hd
  obtain ⟨q', hq', s⟩ := h.old idx q hq
  exact ⟨q', hq', s.comp hc hn, s.decided hn⟩

theorem stageTarget_just (nk : TaskKey) (backref : TransId) (idx : Nat) (outIdxs : List Nat) (c : Cond)
    (hj : Just c) (hdone : DoneAt c idx) :
    Just (stageTarget nk backref idx outIdxs c).2 ∧ DecStepW c (stageTarget nk backref idx outIdxs c).2 := by
  unfold stageTarget
  rw [M.bind_run]
  simp only [M.get]
  cases hg : c.st.getStaged? nk with
  | some x0 =>
    dsimp only
    rw [M.bind_run]
    cases he : eraseFirst outIdxs 0 with
    | none => exact ⟨hj, DecStepW.refl _⟩
    | some rest =>
      simp only [liftOpt, pure, M.pure', M.modifySt, M.modify]
      have hw : DecStepW c { c with st := c.st.updateStaged nk fun x =>
          { x with ctxsIn := x.ctxsIn ++ rest, prev := setAssoc x.prev backref idx,
                   items := none, completed := false } } :=
        DecStepR.weak ((Rel.modifySt_dec_same (f := fun st => st.updateStaged nk fun x =>
          { x with ctxsIn := x.ctxsIn ++ rest, prev := setAssoc x.prev backref idx,
                   items := none, completed := false }) (fun st => rfl)).run c)
      refine ⟨Just.of_parts hw hj ?_ ?_, hw⟩
      · intro x' hx'
        rcases mem_updateStaged_go _ _ _ _ hx' with h | ⟨x, hx, ex⟩
        · left; exact ⟨x', h, rfl⟩
        · right
          rw [ex]
          intro p hp
          rcases mem_setAssoc _ _ _ _ hp with hp' | hp'
          · exact hj.staged x hx p hp'
          · rw [hp']; exact hdone
      · intro i r' hr'
        left
        exact ⟨r', hr', rfl⟩
  | none =>
    simp only [M.modifySt, M.modify]
    have hw : DecStepW c { c with st := (c.st.addStaged
        ({ id := nk.1, route := nk.2, ctxsIn := if outIdxs.isEmpty then [0] else outIdxs,
           prev := [(backref, idx)], ready := false } : Staged)) } :=
      DecStepR.weak ((Rel.modifySt_dec_same (f := fun st => st.addStaged
        ({ id := nk.1, route := nk.2, ctxsIn := if outIdxs.isEmpty then [0] else outIdxs,
           prev := [(backref, idx)], ready := false } : Staged)) (fun st => rfl)).run c)
    refine ⟨Just.of_parts hw hj ?_ ?_, hw⟩
    · intro x' hx'
      rcases List.mem_append.mp hx' with h | h
      · left; exact ⟨x', h, rfl⟩
      · right
        simp only [List.mem_singleton] at h
        subst h
        intro p hp
        simp only [List.mem_singleton] at hp
        subst hp
        exact hdone
    · intro i r' hr'
      left
      exact ⟨r', hr', rfl⟩

theorem stageNext_just (k : TaskKey) (idx : Nat) (e : Edge) (outIdxs : List Nat) (acc : TransAcc) (c : Cond)
    (hj : Just c) (hdone : DoneAt c idx) : Just (stageNext k idx e outIdxs acc c).2 := by
  unfold stageNext
  have hd1 := (evaluateRoute_dec e k.2).run c
  have hp1 := (evaluateRoute_prev e k.2).run c
  apply just_bind
  · exact Just.step hd1.weak hp1 hj
  intro nextRoute c1 h1
  rw [h1] at hd1 hp1
  have hj1 := Just.step hd1.weak hp1 hj
  have hdone1 := hdone.mono hd1.weak
  obtain ⟨hj2, _⟩ := stageTarget_just (e.dst, nextRoute) (k.1, e.key) idx outIdxs c1 hj1 hdone1
  apply just_bind
  · exact hj2
  intro u c2 h2
  rw [h2] at hj2
  -- the rest only sets the `ready` flag
  have hrestd : Rel decStep (do
      let c ← M.get
      let ready := inboundStatus c e.dst k.2 == .satisfied
      M.modifySt fun st => st.updateStaged (e.dst, nextRoute) fun x => { x with ready := ready }
      if (Cmd.ofStr? e.dst).isSome then
        pure { acc with queue := acc.queue ++ [(e.dst, nextRoute)], manualFail := acc.manualFail || e.dst == "fail" }
      else if ready then pure { acc with readyKeys := acc.readyKeys ++ [(e.dst, nextRoute)] }
      else pure acc : M TransAcc) := by
    dec_walk []
  have hrestp : Rel prevPre (do
      let c ← M.get
      let ready := inboundStatus c e.dst k.2 == .satisfied
      M.modifySt fun st => st.updateStaged (e.dst, nextRoute) fun x => { x with ready := ready }
      if (Cmd.ofStr? e.dst).isSome then
        pure { acc with queue := acc.queue ++ [(e.dst, nextRoute)], manualFail := acc.manualFail || e.dst == "fail" }
      else if ready then pure { acc with readyKeys := acc.readyKeys ++ [(e.dst, nextRoute)] }
      else pure acc : M TransAcc) := by
    prev_walk []
  exact Just.uniform hrestd hrestp c2 hj2

theorem foldM_inv {α β} (I : Cond → Prop) (xs : List α) (b : β) (f : β → α → M β)
    (hstep : ∀ b a c, I c → I (f b a c).2) (c : Cond) (h : I c) : I (M.foldM' xs b f c).2 := by
  induction xs generalizing b c with
  | nil => exact h
  | cons x xs ih =>
    show I (M.bind' (f b x) (fun b' => M.foldM' xs b' f) c).2
    unfold M.bind'
    have h1 := hstep b x c h
    cases hr : f b x c with
    | mk res c1 =>
      rw [hr] at h1
      cases res with
      | ok b' => exact ih b' c1 h1
      | error e => exact h1

theorem forEach_inv {α} (I : Cond → Prop) (xs : List α) (f : α → M Unit)
    (hstep : ∀ a c, I c → I (f a c).2) (c : Cond) (h : I c) : I (M.forEach xs f c).2 := by
  induction xs generalizing c with
  | nil => exact h
  | cons x xs ih =>
    show I (M.bind' (f x) (fun _ => M.forEach xs f) c).2
    unfold M.bind'
    have h1 := hstep x c h
    cases hr : f x c with
    | mk res c1 =>
      rw [hr] at h1
      cases res with
      | ok _ => exact ih c1 h1
      | error e => exact h1

theorem just_bind_uniform {α β} {m : M α} {f : α → M β} {c : Cond} (h1 : Rel decStep m) (h2 : Rel prevPre m)
    (hj : Just c) (hf : ∀ a c1, m c = (.ok a, c1) → DecStepW c c1 → Just c1 → Just (f a c1).2) :
    Just ((m >>= f) c).2 := by
  apply just_bind
  · exact Just.uniform h1 h2 c hj
  intro a c1 hm
  have w := (h1.run c).weak
  have p := h2.run c
  rw [hm] at w p
  exact hf a c1 hm w (Just.step w p hj)

theorem fireTransition_just (k : TaskKey) (idx : Nat) (ec : EvalCtx) (acc : TransAcc) (e : Edge) (c : Cond)
    (hj : Just c) (hdone : DoneAt c idx) : Just (fireTransition E k idx ec acc e c).2 := by
  unfold fireTransition
  rw [M.bind_run]
  simp only [M.get]
  apply just_bind
  · rw [liftOpt_state]; exact hj
  intro ts c1 h1
  obtain ⟨_, e1⟩ := liftOpt_ok h1
  subst e1
  apply just_bind
  · rw [liftOpt_state]; exact hj
  intro tr c2 h2
  obtain ⟨_, e2⟩ := liftOpt_ok h2
  subst e2
  generalize renderSeq E _ _ _ = rs
  obtain ⟨ra, newCtx, nerr⟩ := rs
  dsimp only
  by_cases hn : nerr > 0
  · rw [if_pos hn]
    exact Just.uniform (by dec_walk [failOnError_dec]) (by prev_walk [failOnError_prev, logError_prev _ _ _ _]) c hj
  · rw [if_neg hn]
    apply just_bind
    · rw [liftOpt_state]; exact hj
    intro r c3 h3
    obtain ⟨_, e3⟩ := liftOpt_ok h3
    subst e3
    apply just_bind_uniform (by dec_walk []) (by prev_walk []) hj
    intro u c4 _ w hj4
    exact stageNext_just k idx e _ acc c4 hj4 (hdone.mono w)

theorem processTransition_just (k : TaskKey) (idx : Nat) (ec : EvalCtx) (acc : TransAcc) (e : Edge) (c : Cond)
    (hj : Just c) (hcomp : CompAt c idx) : Just (processTransition E k idx ec acc e c).2 := by
  unfold processTransition
  cases transCriteria E e ec with
  | none =>
    dsimp only
    exact Just.uniform (by dec_walk [failOnError_dec]) (by prev_walk [failOnError_prev, logError_prev _ _ _ _]) c hj
  | some b =>
    dsimp only
    rw [M.bind_run]
    have hat := (recordDecision_at idx (e.dst, e.key) b).run c hcomp
    simp only [M.modifySt, M.modify] at hat ⊢
    obtain ⟨r, hr, hcr⟩ := hcomp
    have hj1 : Just ({ c with st := c.st.updateRec idx fun r => { r with next := setAssoc r.next (e.dst, e.key) b } } : Cond) := by
      apply Just.of_parts hat.2.weak hj
      · intro x' hx'
        left
        exact ⟨x', hx', rfl⟩
      · intro i r' hr'
        left
        apply recs_prev_of_map _ i r' hr'
        apply map_prev_modify
        intro r
        rfl
    have hdone1 : DoneAt ({ c with st := c.st.updateRec idx fun r => { r with next := setAssoc r.next (e.dst, e.key) b } } : Cond) idx := by
      refine ⟨{ r with next := setAssoc r.next (e.dst, e.key) b }, ?_, ?_, setAssoc_ne_nil _ _ _⟩
      · show (c.st.sequence.modify idx _)[idx]? = _
        rw [getElem?_modify_same, hr]
        rfl
      · obtain ⟨s, hs, hcs⟩ := hcr
        exact ⟨s, hs, hcs⟩
    split
    · exact hj1
    · exact fireTransition_just E k idx ec acc e _ hj1 hdone1

theorem evalTransitions_just (k : TaskKey) (idx : Nat) (ts : TaskSpec) (ev : Event) (c : Cond)
    (hj : Just c) (hcomp : CompAt c idx) : Just (evalTransitions E k idx ts ev c).2 := by
  unfold evalTransitions
  apply just_bind_uniform (makeTaskContext_dec _ _ _) (makeTaskContext_prev _ _ _) hj
  intro ec c1 _ w1 hj1
  have hcomp1 : CompAt c1 idx := by
    obtain ⟨r, hr, hcr⟩ := hcomp
    obtain ⟨r', hr', s⟩ := w1.old idx r hr
    -- makeTaskContext does not change the state on return
    exact CompAt.step ((makeTaskContext_dec k idx (taskResult ts ev)).run c |> fun h => by
      have := h; rw [‹makeTaskContext k idx (taskResult ts ev) c = (Except.ok ec, c1)›] at this; exact this) ⟨r, hr, hcr⟩
  rw [M.bind_run]
  simp only [M.get]
  apply just_bind_uniform (m := (if (c1.graph.nextTransitions k.1).isEmpty then
      M.modifySt fun st => st.updateRec idx fun r => { r with term := true } else pure () : M Unit))
    (by dec_walk []) (by prev_walk []) hj1
  intro u c2 h2 w2 hj2
  have hcomp2 : CompAt c2 idx := by
    have hd : Rel decStep (if (c1.graph.nextTransitions k.1).isEmpty then
        M.modifySt fun st => st.updateRec idx fun r => { r with term := true } else pure () : M Unit) := by
      dec_walk []
    have := hd.run c1
    rw [h2] at this
    exact CompAt.step this hcomp1
  -- the loop over the transitions
  have hloop := foldM_inv (fun s => Just s ∧ CompAt s idx) (c1.graph.nextTransitions k.1) ({} : TransAcc)
    (processTransition E k idx ec)
    (fun b a s hs => ⟨processTransition_just E k idx ec b a s hs.1 hs.2,
      ((processTransition_at E k idx ec b a).run s hs.2).1⟩) c2 ⟨hj2, hcomp2⟩
  apply just_bind
  · exact hloop.1
  intro acc c3 h3
  rw [h3] at hloop
  exact Just.uniform (by dec_walk []) (by prev_walk []) c3 hloop.1

/-! ### a Hoare judgement for the pair of invariants -/

def JW {α} (m : M α) : Prop := ∀ c, Dec c → Just c → (DecStepW c (m c).2 ∧ Just (m c).2)

theorem JW.of_rel {α} {m : M α} (h1 : Rel decStep m) (h2 : Rel prevPre m) : JW m :=
  fun c _ hj => ⟨(h1.run c).weak, Just.uniform h1 h2 c hj⟩

theorem JW.pure {α} (a : α) : JW (Pure.pure a : M α) := fun c _ hj => ⟨DecStepW.refl c, hj⟩

theorem JW.bind {α β} {m : M α} {f : α → M β} (hm : JW m) (hf : ∀ a, JW (f a)) : JW (m >>= f) := by
  intro c hd hj
  obtain ⟨w, j⟩ := hm c hd hj
  rw [M.bind_run]
  cases h : m c with
  | mk res c1 =>
    rw [h] at w j
    cases res with
    | ok a =>
      obtain ⟨w2, j2⟩ := hf a c1 (Dec.stepW w hd) j
      exact ⟨w.trans w2, j2⟩
    | error e => exact ⟨w, j⟩

theorem JW.forEach {α} (xs : List α) {f : α → M Unit} (hf : ∀ x, JW (f x)) : JW (M.forEach xs f) := by
  induction xs with
  | nil => exact JW.pure ()
  | cons x xs ih =>
    show JW (M.bind' (f x) fun _ => M.forEach xs f)
    exact JW.bind (hf x) (fun _ => ih)

theorem machineStep_just (k : TaskKey) (idx : Nat) (ev : Event) (c : Cond) (hj : Just c)
    (hpre : ev = .engine .retry_ → ∀ r, c.st.sequence[idx]? = some r →
      (r.status = some .succeeded ∨ r.status = some .failed) → r.next = []) :
    Just (machineStep k idx ev c).2 := by
  unfold machineStep
  rw [M.bind_run]
  simp only [M.get]
  apply just_bind
  · rw [liftOpt_state]; exact hj
  intro r c1 h1
  obtain ⟨_, e1⟩ := liftOpt_ok h1
  subst e1
  have w3 := tkProcessEvent_decw idx ev c hpre
  have p3 := (tkProcessEvent_prev idx ev).run c
  apply just_bind
  · exact Just.step w3 p3 hj
  intro u c3 h3
  rw [h3] at w3 p3
  have hj3 := Just.step w3 p3 hj
  rw [M.bind_run]
  simp only [M.get]
  apply just_bind
  · rw [liftOpt_state]; exact hj3
  intro r' c4 h4
  obtain ⟨_, e4⟩ := liftOpt_ok h4
  subst e4
  apply just_bind
  · exact restageRetry_just k idx _ c3 hj3
  intro u5 c5 h5
  have := restageRetry_just k idx (r.status.getD .unset) c3 hj3
  rw [h5] at this
  exact this

theorem recordFromStaged_just (k : TaskKey) (s0 : Option Staged) (c : Cond) (hj : Just c)
    (hs : ∀ sx, s0 = some sx → PrevOk c sx.prev) :
    Just (recordFromStaged E k s0 c).2 ∧ DecStepW c (recordFromStaged E k s0 c).2 := by
  unfold recordFromStaged
  cases s0 with
  | none => exact ⟨hj, DecStepW.refl c⟩
  | some sx => exact ⟨addTaskState_just E _ _ _ c hj (hs sx rfl), ((addTaskState_dec E _ _ _).run c).weak⟩

theorem firstRecord_just (k : TaskKey) (s0 : Option Staged) (r0 : Option Nat) (c : Cond) (hj : Just c)
    (hs : ∀ sx, s0 = some sx → PrevOk c sx.prev) :
    Just (firstRecord E k s0 r0 c).2 ∧ DecStepW c (firstRecord E k s0 r0 c).2 := by
  unfold firstRecord
  cases r0 with
  | none => exact recordFromStaged_just E k s0 c hj hs
  | some i =>
    cases isCmdName k.1 with
    | false => exact ⟨hj, DecStepW.refl c⟩
    | true => exact recordFromStaged_just E k s0 c hj hs

theorem ensureRecord_just (k : TaskKey) (s0 : Option Staged) (r0 : Option Nat) (ev : Event) (c : Cond)
    (hj : Just c) (hs : ∀ sx, s0 = some sx → PrevOk c sx.prev) : Just (ensureRecord E k s0 r0 ev c).2 := by
  unfold ensureRecord
  obtain ⟨hj1, w1⟩ := firstRecord_just E k s0 r0 c hj hs
  apply just_bind
  · exact hj1
  intro i c1 h1
  rw [h1] at hj1 w1
  rw [M.bind_run]
  simp only [M.get]
  apply just_bind
  · rw [liftOpt_state]; exact hj1
  intro r c2 h2
  obtain ⟨_, e2⟩ := liftOpt_ok h2
  subst e2
  split
  · exact (recordFromStaged_just E k s0 c1 hj1 (fun sx h => (hs sx h).mono w1)).1
  · exact hj1

theorem head_hpre2 (k : TaskKey) (ev : Event) (c c1 c2 : Cond) (idx : Nat) (hpre : Pre18 k ev c)
    (h1 : ensureRecord E k (c.st.getStaged? k) (c.st.taskIdx? k) ev c = (.ok idx, c1))
    (hsq : c2.st.sequence = c1.st.sequence) :
    ev = .engine .retry_ → ∀ r, c2.st.sequence[idx]? = some r →
      (r.status = some .succeeded ∨ r.status = some .failed) → r.next = [] := by
  intro hev r hr _
  rw [hsq] at hr
  cases hcmd : isCmdName k.1 with
  | true =>
    obtain ⟨r1, hr1, hn1⟩ := ensureRecord_cmd_next E k _ _ ev c c1 idx hcmd h1
    rw [hr1] at hr
    cases hr
    exact hn1
  | false =>
    rcases hpre hev with hc | ⟨i0, hi0, hund⟩
    · rw [hcmd] at hc; cases hc
    · rw [hi0] at h1
      have hstart : ev.status.isStarting = false := by subst hev; rfl
      obtain ⟨e4, e5⟩ := ensureRecord_retry_inv E k _ i0 ev c c1 idx hcmd hstart h1
      subst e4 e5
      exact hund r hr

theorem updateHead_just (k : TaskKey) (ev : Event) (c : Cond) (hj : Just c) (hpre : Pre18 k ev c) :
    Just (updateHead E k ev c).2 := by
  unfold updateHead
  rw [M.bind_run]
  simp only [M.get]
  split
  · exact hj
  apply just_bind
  · rw [liftOpt_state]; exact hj
  intro ts c0 h0
  obtain ⟨_, e0⟩ := liftOpt_ok h0
  subst e0
  split
  · exact hj
  have hs : ∀ sx, c.st.getStaged? k = some sx → PrevOk c sx.prev := by
    intro sx hsx
    apply hj.staged sx
    unfold WState.getStaged? at hsx
    exact List.mem_of_find?_eq_some hsx
  have hj1 := ensureRecord_just E k _ (c.st.taskIdx? k) ev c hj hs
  apply just_bind
  · exact hj1
  intro idx c1 h1
  rw [h1] at hj1
  apply just_bind_uniform (noteEvent_dec _ _ _) (noteEvent_prev _ _ _) hj1
  intro u c2 h2 _ hj2
  have hsq := (noteEvent_sq k (c.st.getStaged? k) ev).run c1
  rw [h2] at hsq
  have hpre2 := head_hpre2 E k ev c c1 c2 idx hpre h1 hsq.1
  apply just_bind
  · exact machineStep_just k idx ev c2 hj2 hpre2
  intro p c3 h3
  have := machineStep_just k idx ev c2 hj2 hpre2
  rw [h3] at this
  exact this

theorem updateRest_just (recur : TaskKey → Event → M Unit)
    (hrec : ∀ nk cmd, Cmd.ofStr? nk.1 = some cmd → JW (recur nk (.engine cmd)))
    (k : TaskKey) (ev : Event) (h : Stepped) (c : Cond) (hd : Dec c) (hj : Just c)
    (hcomp : h.newStatus.isCompleted = true → CompAt c h.idx) :
    Just (updateRest E recur k ev h c).2 := by
  unfold updateRest
  have hfirst : ∀ acc c1, (if h.newStatus.isCompleted && h.newStatus != h.oldStatus then evalTransitions E k h.idx h.ts ev
      else pure {} : M TransAcc) c = (acc, c1) → DecStepW c c1 ∧ Just c1 := by
    intro acc c1 h1
    split at h1
    · rename_i hcond
      simp only [Bool.and_eq_true] at hcond
      have w := ((evalTransitions_at E k h.idx h.ts ev).run c (hcomp hcond.1)).2.weak
      have j := evalTransitions_just E k h.idx h.ts ev c hj (hcomp hcond.1)
      rw [h1] at w j
      exact ⟨w, j⟩
    · have : c1 = c := by
        simp only [pure, M.pure', Prod.mk.injEq] at h1
        exact h1.2.symm
      subst this
      exact ⟨DecStepW.refl _, hj⟩
  rw [M.bind_run]
  cases h1 : (if h.newStatus.isCompleted && h.newStatus != h.oldStatus then evalTransitions E k h.idx h.ts ev
      else pure {} : M TransAcc) c with
  | mk res c1 =>
    obtain ⟨w1, j1⟩ := hfirst res c1 h1
    cases res with
    | error e => exact j1
    | ok acc =>
      dsimp only
      have hrest : JW (do
          let c ← M.get
          let r ← liftOpt c.st.sequence[h.idx]? .indexError
          let st ← liftOpt r.status .keyError
          wfProcessTaskEvent k st
          M.forEach acc.queue fun nk =>
            match Cmd.ofStr? nk.1 with
            | some cmd => recur nk (.engine cmd)
            | none => pure ()
          markTermIfCompleted h.idx : M Unit) := by
        apply JW.bind (JW.of_rel Rel.get Rel.get)
        intro c2
        apply JW.bind (JW.of_rel (Rel.liftOpt _ _) (Rel.liftOpt _ _))
        intro r
        apply JW.bind (JW.of_rel (Rel.liftOpt _ _) (Rel.liftOpt _ _))
        intro st
        apply JW.bind (JW.of_rel (wfProcessTaskEvent_dec _ _) (wfProcessTaskEvent_prev _ _))
        intro _
        apply JW.bind
        · apply JW.forEach
          intro nk
          split
          · rename_i cmd hcmd
            exact hrec nk cmd hcmd
          · exact JW.pure ()
        · intro _
          exact JW.of_rel (markTermIfCompleted_dec _) (markTermIfCompleted_prev _)
      exact (hrest c1 (Dec.stepW w1 hd) j1).2

theorem updateTail_just (recur : TaskKey → Event → M Unit)
    (hrecw : ∀ k ev c, Dec c → Pre18 k ev c → DecStepW c (recur k ev c).2)
    (hrecj : ∀ k ev c, Dec c → Just c → Pre18 k ev c → Just (recur k ev c).2)
    (k : TaskKey) (ev : Event) (h : Stepped) (c : Cond) (hd : Dec c) (hj : Just c) (hpost : HeadPost h c)
    (hidx : isCmdName k.1 = false → c.st.taskIdx? k = some h.idx) :
    Just (updateTail E recur k ev h c).2 := by
  unfold updateTail
  have hm1 : Rel decStep (if h.newStatus.isCompleted then completedRetryDecision E k h.idx h.ts h.oldStatus h.newStatus ev
      else pure false : M Bool) := by
    split
    · exact completedRetryDecision_dec E _ _ _ _ _ _
    · exact Rel.pure _
  have hm1p : Rel prevPre (if h.newStatus.isCompleted then completedRetryDecision E k h.idx h.ts h.oldStatus h.newStatus ev
      else pure false : M Bool) := by
    split
    · exact completedRetryDecision_prev E _ _ _ _ _ _
    · exact Rel.pure _
  have hm1k : Rel rkPre (if h.newStatus.isCompleted then completedRetryDecision E k h.idx h.ts h.oldStatus h.newStatus ev
      else pure false : M Bool) := by
    split
    · exact completedRetryDecision_rk E _ _ _ _ _ _
    · exact Rel.pure _
  have hm1n : Rel nxPre (if h.newStatus.isCompleted then completedRetryDecision E k h.idx h.ts h.oldStatus h.newStatus ev
      else pure false : M Bool) := by
    split
    · exact completedRetryDecision_nx E _ _ _ _ _ _
    · exact Rel.pure _
  have hs5 := hm1.run c
  have hk5 := hm1k.run c
  have hn5 := hm1n.run c
  apply just_bind_uniform hm1 hm1p hj
  intro retry c5 h5 w5 hj5
  rw [h5] at hs5 hk5 hn5
  have hd5 : Dec c5 := Dec.stepW w5 hd
  obtain ⟨r, hr, hstat, hund⟩ := hpost
  obtain ⟨r5, hr5, st5⟩ := hs5.old h.idx r hr
  cases retry with
  | false =>
    apply updateRest_just E recur _ k ev h c5 hd5 hj5
    · intro hcomp
      have hcr : Comp r := by
        cases hs : r.status with
        | none => rw [hs] at hstat; simp only [Option.getD_none] at hstat; rw [← hstat] at hcomp; cases hcomp
        | some s =>
          rw [hs] at hstat
          simp only [Option.getD_some] at hstat
          exact ⟨s, hs, by rw [hstat]; exact hcomp⟩
      exact ⟨r5, hr5, Comp.step st5 hcr⟩
    · intro nk cmd hcmd c' hd' hj'
      have hp : Pre18 nk (.engine cmd) c' := by
        intro _
        left
        unfold isCmdName
        rw [hcmd]
        rfl
      exact ⟨hrecw nk _ c' hd' hp, hrecj nk _ c' hd' hj' hp⟩
  | true =>
    apply hrecj k _ c5 hd5 hj5
    intro _
    cases hcmd : isCmdName k.1 with
    | true => left; rfl
    | false =>
      right
      refine ⟨h.idx, ?_, ?_⟩
      · have := hidx hcmd
        unfold WState.taskIdx? at this ⊢
        rw [hk5.2]
        exact this
      · have hne : h.newStatus ≠ h.oldStatus := by
          split at h5
          · exact completedRetryDecision_changed E _ _ _ _ _ _ _ _ h5
          · obtain ⟨e, _⟩ := pure_ok h5
            cases e
        intro r' hr'
        rw [hr5] at hr'
        cases hr'
        rw [nx_getElem hn5 hr hr5]
        exact hund hne

theorem updateTaskStateAux_just (fuel : Nat) (k : TaskKey) (ev : Event) (c : Cond) (hd : Dec c) (hj : Just c)
    (hpre : Pre18 k ev c) : Just (updateTaskStateAux E fuel k ev c).2 := by
  induction fuel generalizing k ev c with
  | zero => unfold updateTaskStateAux; exact hj
  | succ n ih =>
    unfold updateTaskStateAux
    obtain ⟨hw, hpost⟩ := updateHead_decw E k ev c hd hpre
    have hjh := updateHead_just E k ev c hj hpre
    apply just_bind
    · exact hjh
    intro h c4 h4
    rw [h4] at hw hjh
    apply updateTail_just E _ (fun k ev c hd hp => updateTaskStateAux_decw E n k ev c hd hp)
      (fun k ev c hd hj hp => ih k ev c hd hj hp) k ev h c4 (Dec.stepW hw hd) hjh (hpost h c4 h4)
    intro hcmd
    exact updateHead_taskIdx E k ev c c4 h h4 hcmd

/-! ### rerun -/

theorem requestTaskRerun_just (k : TaskKey) (resetItems : Bool) (c : Cond) (hj : Just c) :
    Just (requestTaskRerun E k resetItems c).2 := by
  unfold requestTaskRerun
  rw [M.bind_run]
  simp only [M.get]
  apply just_bind
  · rw [liftOpt_state]; exact hj
  intro idx c0 h0
  obtain ⟨_, e0⟩ := liftOpt_ok h0
  subst e0
  apply just_bind
  · rw [liftOpt_state]; exact hj
  intro task c0 h0
  obtain ⟨htask, e0⟩ := liftOpt_ok h0
  subst e0
  apply just_bind
  · rw [liftOpt_state]; exact hj
  intro ts c0 h0
  obtain ⟨_, e0⟩ := liftOpt_ok h0
  subst e0
  have hprev : PrevOk c task.prev := hj.recs task (List.mem_of_getElem? htask)
  apply just_bind_uniform (by dec_walk []) (by prev_walk []) hj
  intro u c1 _ w1 hj1
  apply just_bind_uniform (by dec_walk []) (by prev_walk []) hj1
  intro u c2 _ w2 hj2
  have hprev2 : PrevOk c2 task.prev := (hprev.mono w1).mono w2
  -- the task is staged again
  have hmid : ∀ (u : Except Err Unit) c3, ((if ts.withItems.isSome then do
        let c ← M.get
        if (c.st.getStaged? k).isNone then M.throw .attributeError
        else M.modifySt fun st => st.updateStaged k fun x =>
          { x with items := x.items.map fun l => l.map fun s => if resetItems || s.isAbended then .unset else s }
      else do
        let _ ← addTaskState E k task.ctxsIn task.prev
        M.modifySt fun st => st.addStaged
          { id := k.1, route := k.2, ctxsIn := if task.ctxsIn.isEmpty then [0] else task.ctxsIn,
            prev := task.prev, ready := true } : M Unit) c2) = (u, c3) → Just c3 := by
    intro u c3 hrun
    split at hrun
    · have hjj := Just.uniform (m := (do
          let c ← M.get
          if (c.st.getStaged? k).isNone then M.throw .attributeError
          else M.modifySt fun st => st.updateStaged k fun x =>
            { x with items := x.items.map fun l => l.map fun s => if resetItems || s.isAbended then .unset else s } : M Unit))
        (by dec_walk []) (by prev_walk []) c2 hj2
      rw [hrun] at hjj
      exact hjj
    · rw [M.bind_run] at hrun
      have ha := addTaskState_just E k task.ctxsIn task.prev c2 hj2 hprev2
      have wa := ((addTaskState_dec E k task.ctxsIn task.prev).run c2).weak
      cases hadd : addTaskState E k task.ctxsIn task.prev c2 with
      | mk res ca =>
        rw [hadd] at hrun ha wa
        cases res with
        | error e =>
          have : c3 = ca := by cases hrun; rfl
          subst this
          exact ha
        | ok i =>
          simp only [M.modifySt, M.modify] at hrun
          have hc3 : c3 = { ca with st := (ca.st.addStaged
              ({ id := k.1, route := k.2, ctxsIn := if task.ctxsIn.isEmpty then [0] else task.ctxsIn,
                 prev := task.prev, ready := true } : Staged)) } := by cases hrun; rfl
          subst hc3
          have hw : DecStepW ca _ := DecStepR.weak ((Rel.modifySt_dec_same (f := fun st => st.addStaged
              ({ id := k.1, route := k.2, ctxsIn := if task.ctxsIn.isEmpty then [0] else task.ctxsIn,
                 prev := task.prev, ready := true } : Staged)) (fun st => rfl)).run ca)
          apply Just.of_parts hw ha
          · intro x' hx'
            rcases List.mem_append.mp hx' with hm | hm
            · left; exact ⟨x', hm, rfl⟩
            · right
              simp only [List.mem_singleton] at hm
              subst hm
              exact hprev2.mono wa
          · intro i r' hr'
            left
            exact ⟨r', hr', rfl⟩
  rw [M.bind_run]
  cases hrun : (if ts.withItems.isSome then do
        let c ← M.get
        if (c.st.getStaged? k).isNone then M.throw .attributeError
        else M.modifySt fun st => st.updateStaged k fun x =>
          { x with items := x.items.map fun l => l.map fun s => if resetItems || s.isAbended then .unset else s }
      else do
        let _ ← addTaskState E k task.ctxsIn task.prev
        M.modifySt fun st => st.addStaged
          { id := k.1, route := k.2, ctxsIn := if task.ctxsIn.isEmpty then [0] else task.ctxsIn,
            prev := task.prev, ready := true } : M Unit) c2 with
  | mk res c3 =>
    have hj3 := hmid res c3 hrun
    cases res with
    | error e => exact hj3
    | ok _ =>
      dsimp only
      exact Just.uniform (by dec_walk []) (by prev_walk []) c3 hj3

structure JJ {α} (m : M α) : Prop where
  run : ∀ c, Just c → Just (m c).2

theorem JJ.of_rel {α} {m : M α} (h1 : Rel decStep m) (h2 : Rel prevPre m) : JJ m :=
  ⟨fun c hj => Just.uniform h1 h2 c hj⟩

theorem JJ.pure {α} (a : α) : JJ (Pure.pure a : M α) := ⟨fun c hj => hj⟩

theorem JJ.throw {α} (e : Err) : JJ (M.throw e : M α) := ⟨fun c hj => hj⟩

theorem JJ.bind {α β} {m : M α} {f : α → M β} (hm : JJ m) (hf : ∀ a, JJ (f a)) : JJ (m >>= f) := by
  constructor
  intro c hj
  apply just_bind
  · exact hm.run c hj
  intro a c1 h1
  have := hm.run c hj
  rw [h1] at this
  exact (hf a).run c1 this

theorem JJ.forEach {α} (xs : List α) {f : α → M Unit} (hf : ∀ x, JJ (f x)) : JJ (M.forEach xs f) :=
  ⟨fun c hj => forEach_inv Just xs f (fun a s hs => (hf a).run s hs) c hj⟩

theorem requestTaskRerun_jj (k : TaskKey) (r : Bool) : JJ (requestTaskRerun E k r) :=
  ⟨fun c hj => requestTaskRerun_just E k r c hj⟩

theorem JJ.mapM' {α β} (xs : List α) {f : α → M β} (hf : ∀ x, JJ (f x)) : JJ (M.mapM' xs f) := by
  induction xs with
  | nil => exact JJ.pure _
  | cons x xs ih =>
    show JJ (M.bind' (f x) fun y => M.bind' (M.mapM' xs f) fun ys => Pure.pure (y :: ys))
    exact JJ.bind (hf x) (fun _ => JJ.bind ih (fun _ => JJ.pure _))

theorem requestRerun_just (reqs : List RerunReq) : JJ (requestRerun E reqs) := by
  unfold requestRerun
  repeat' (first
    | exact JJ.pure _ | exact JJ.throw _
    | exact JJ.of_rel Rel.get Rel.get
    | exact JJ.of_rel (Rel.liftOpt _ _) (Rel.liftOpt _ _)
    | exact JJ.of_rel (Rel.liftExcept _) (Rel.liftExcept _)
    | exact requestTaskRerun_jj E _ _
    | (apply JJ.of_rel
       · dec_leaf
       · (apply Rel.modifySt_prev
          · prev_staged
          · prev_recs))
    | (apply JJ.of_rel
       · (apply Rel.modify_dec; intro c; rfl)
       · (apply Rel.raw_prev_same; intro c; rfl))
    | apply JJ.bind | apply JJ.forEach | apply JJ.mapM'
    | intro _ | split | dsimp only)

end Orq
