/-
The walk for `decStep` over the conductor model.
-/
import OrqModel.Proofs.Frozen

namespace Orq

variable (E : Evaluator)

/-! ### the walk -/

theorem Rel.raw_dec_same {α} {m : M α} (h : ∀ c, (m c).2.st.sequence = c.st.sequence) : Rel decStep m := by
  apply Rel.raw_dec
  intro c
  refine ⟨fun i r hr => ⟨r, by rw [h]; exact hr, RecStep.refl r⟩, fun i r' hr' h0 => ?_⟩
  rw [h, h0] at hr'
  cases hr'

theorem logEntry_dec (e) : Rel decStep (logEntry e) := by
  unfold logEntry
  apply Rel.modify_dec
  intro c
  split <;> rfl

theorem logError_dec (k a b c) : Rel decStep (logError k a b c) := logEntry_dec _

theorem wfProcessTaskEvent_dec (k ev) : Rel decStep (wfProcessTaskEvent k ev) := by
  apply Rel.raw_dec_same
  intro c
  unfold wfProcessTaskEvent
  dsimp only
  split
  · rfl
  · split
    · split
      · rfl
      · rw [forEach_logError_seq]
    · rfl

theorem wfProcessWorkflowEvent_dec (req) : Rel decStep (wfProcessWorkflowEvent req) := by
  apply Rel.raw_dec_same
  intro c
  unfold wfProcessWorkflowEvent
  dsimp only
  split
  · rfl
  · split
    · split
      · rfl
      · rw [forEach_logError_seq]
    · rfl

macro "dec_leaf" : tactic => `(tactic| first
  | (apply Rel.modifySt_dec_same; intro st
     first | rfl | (simp only [WState.removeStaged_sequence, WState.addStaged_sequence, WState.updateStaged_sequence,
       WState.setTask_sequence]; done))
  | (refine Rel.modifySt_dec_rec ?idx ?g ?hg ?h
     case h => (intro st
                first
                  | rfl
                  | (simp only [WState.removeStaged_sequence, WState.addStaged_sequence, WState.updateStaged_sequence,
                       WState.setTask_sequence]; rfl))
     case hg => (intro r; exact RecStep.same rfl rfl)))

syntax "dec_walk" "[" term,* "]" : tactic
macro_rules
  | `(tactic| dec_walk [$ts,*]) => do
    let alts ← ts.getElems.mapM fun t => `(tactic| exact $t)
    `(tactic| repeat' (first
      | exact Rel.pure _ | exact Rel.pure' _ | exact Rel.throw _ | exact Rel.get
      | exact Rel.liftOpt _ _ | exact Rel.liftExcept _
      | exact wfProcessWorkflowEvent_dec _ | exact wfProcessTaskEvent_dec _ _
      | exact tkProcessWorkflowEvent_dec _ _
      | exact logError_dec _ _ _ _ | exact logEntry_dec _
      $[| $alts:tactic]*
      | dec_leaf
      | (apply Rel.modify_dec; intro c; rfl)
      | apply Rel.bind | apply Rel.bind' | apply Rel.tryCatch | apply Rel.forEach | apply Rel.foldM' | apply Rel.mapM'
      | intro _ | split | dsimp only ))

theorem requestStatus_dec (req) : Rel decStep (requestStatus req) := by
  unfold requestStatus
  dec_walk []

theorem failOnError_dec : Rel decStep failOnError := by
  unfold failOnError
  dec_walk [requestStatus_dec _]

theorem getTask_dec (k) : Rel decStep (getTask E k) := by
  unfold getTask
  dec_walk []

theorem evaluateTaskActions_dec (o) : Rel decStep (evaluateTaskActions o) := by
  unfold evaluateTaskActions
  dec_walk []

theorem nextTaskFor_dec (sx) : Rel decStep (nextTaskFor E sx) := by
  unfold nextTaskFor
  dec_walk [getTask_dec E _, evaluateTaskActions_dec _]

theorem nextFrom_dec (todo) : Rel decStep (nextFrom E todo) := by
  unfold nextFrom
  dec_walk [nextTaskFor_dec E _, failOnError_dec]

theorem getNextTasks_dec : Rel decStep (getNextTasks E) :=
  ⟨fun c => (nextFrom_dec E (nextTodo c.st)).run c⟩

theorem evaluateRoute_dec (e r) : Rel decStep (evaluateRoute e r) := by
  unfold evaluateRoute
  dec_walk []

theorem stageNext_dec (k idx e o acc) : Rel decStep (stageNext k idx e o acc) := by
  unfold stageNext stageTarget
  dec_walk [evaluateRoute_dec _ _]

theorem makeTaskContext_dec (k idx r) : Rel decStep (makeTaskContext k idx r) := by
  unfold makeTaskContext
  dec_walk []

theorem noteEvent_dec (k s ev) : Rel decStep (noteEvent k s ev) := by
  unfold noteEvent
  dec_walk []

theorem restageRetry_dec (k idx o) : Rel decStep (restageRetry k idx o) := by
  unfold restageRetry
  dec_walk []

theorem completedRetryDecision_dec (k idx ts os ns ev) : Rel decStep (completedRetryDecision E k idx ts os ns ev) := by
  unfold completedRetryDecision
  dec_walk [makeTaskContext_dec _ _ _, failOnError_dec]

theorem markTermIfCompleted_dec (idx) : Rel decStep (markTermIfCompleted idx) := by
  unfold markTermIfCompleted
  dec_walk []

theorem terminalContext_dec : Rel decStep terminalContext := by
  unfold terminalContext
  dec_walk []

theorem renderOutput_dec : Rel decStep (renderOutput E) := by
  unfold renderOutput
  dec_walk [terminalContext_dec, failOnError_dec]

theorem newRecord_next (c : Cond) (k : TaskKey) (a : List Nat) (b : List (TransId × Nat)) :
    (newRecord E c k a b).1.next = [] := by
  unfold newRecord
  dsimp only
  split <;> rfl

theorem addTaskState_dec (k a b) : Rel decStep (addTaskState E k a b) := by
  unfold addTaskState
  dec_walk [failOnError_dec]
  all_goals (
    apply Rel.modifySt_dec_append _ (newRecord_next E _ k a b)
    intro st
    show (WState.setTask _ _ _).sequence = _
    rw [WState.setTask_sequence])

theorem ensureRecord_dec (k s r ev) : Rel decStep (ensureRecord E k s r ev) := by
  unfold ensureRecord firstRecord recordFromStaged
  dec_walk [addTaskState_dec E _ _ _]

theorem requestTaskRerun_dec (k r) : Rel decStep (requestTaskRerun E k r) := by
  unfold requestTaskRerun
  dec_walk [addTaskState_dec E _ _ _]

theorem requestRerun_dec (reqs) : Rel decStep (requestRerun E reqs) := by
  unfold requestRerun
  dec_walk [requestTaskRerun_dec E _ _]

/-! ### evaluating the transitions of a completed record -/

def CompAt (c : Cond) (idx : Nat) : Prop := ∃ r, c.st.sequence[idx]? = some r ∧ Comp r

theorem CompAt.step {c c' : Cond} {idx : Nat} (h : DecStepR c c') (hc : CompAt c idx) : CompAt c' idx := by
  obtain ⟨r, hr, hcomp⟩ := hc
  obtain ⟨r', hr', s⟩ := h.old idx r hr
  exact ⟨r', hr', Comp.step s hcomp⟩

/-- `decStep`, provided record `idx` is completed (which it then stays) -/
def decStepAt (idx : Nat) : Pre where
  R c c' := CompAt c idx → (CompAt c' idx ∧ DecStepR c c')
  refl c := fun h => ⟨h, DecStepR.refl c⟩
  trans := by
    intro a b c h1 h2 ha
    obtain ⟨hb, s1⟩ := h1 ha
    obtain ⟨hc, s2⟩ := h2 hb
    exact ⟨hc, s1.trans s2⟩

theorem Rel.at_of_dec {α} {m : M α} (idx : Nat) (h : Rel decStep m) : Rel (decStepAt idx) m :=
  ⟨fun c hc => ⟨CompAt.step (h.run c) hc, h.run c⟩⟩

theorem setAssoc_ne_nil {κ} [BEq κ] {β} (l : List (κ × β)) (k : κ) (v : β) : setAssoc l k v ≠ [] := by
  unfold setAssoc
  split
  · rename_i h
    cases l with
    | nil => simp at h
    | cons a as => simp
  · simp

/-- recording a decision on the completed record `idx` -/
theorem recordDecision_at (idx : Nat) (tid : TransId) (b : Bool) :
    Rel (decStepAt idx) (M.modifySt fun st => st.updateRec idx fun r => { r with next := setAssoc r.next tid b }) := by
  constructor
  intro c hc
  have hstep : DecStepR c (M.modifySt (fun st => st.updateRec idx fun r => { r with next := setAssoc r.next tid b }) c).2 := by
    apply decStep_modify c.st.sequence idx (fun r => { r with next := setAssoc r.next tid b }) _ c _ rfl rfl
    intro r hr
    obtain ⟨r0, hr0, hcomp⟩ := hc
    rw [hr] at hr0
    cases hr0
    refine ⟨fun _ => rfl, fun _ => setAssoc_ne_nil _ _ _, fun _ => Or.inr ?_⟩
    obtain ⟨s, hs, hcs⟩ := hcomp
    exact ⟨s, hs, hcs⟩
  exact ⟨CompAt.step hstep hc, hstep⟩

syntax "at_walk" "[" term,* "]" : tactic
macro_rules
  | `(tactic| at_walk [$ts,*]) => do
    let alts ← ts.getElems.mapM fun t => `(tactic| exact $t)
    `(tactic| repeat' (first
      | exact Rel.pure _ | exact Rel.pure' _ | exact Rel.throw _ | exact Rel.get
      | exact Rel.liftOpt _ _ | exact Rel.liftExcept _
      | exact recordDecision_at _ _ _
      | exact Rel.at_of_dec _ (logError_dec _ _ _ _) | exact Rel.at_of_dec _ failOnError_dec
      $[| $alts:tactic]*
      | (apply Rel.at_of_dec; dec_leaf)
      | apply Rel.bind | apply Rel.bind' | apply Rel.tryCatch | apply Rel.forEach | apply Rel.foldM' | apply Rel.mapM'
      | intro _ | split | dsimp only ))

theorem fireTransition_at (k idx ec acc e) : Rel (decStepAt idx) (fireTransition E k idx ec acc e) := by
  unfold fireTransition
  at_walk [Rel.at_of_dec _ (stageNext_dec _ _ _ _ _)]

theorem processTransition_at (k idx ec acc e) : Rel (decStepAt idx) (processTransition E k idx ec acc e) := by
  unfold processTransition
  at_walk [fireTransition_at E _ _ _ _ _]

theorem evalTransitions_at (k idx ts ev) : Rel (decStepAt idx) (evalTransitions E k idx ts ev) := by
  unfold evalTransitions
  at_walk [Rel.at_of_dec _ (makeTaskContext_dec _ _ _), processTransition_at E _ _ _ _ _]

end Orq
