/-
C01: whatever is staged (hence whatever is offered) and whatever has been started lists as its
predecessors only completed records whose transitions have been decided.
-/
import OrqModel.Proofs.FrozenUpdate

namespace Orq

variable (E : Evaluator)

/-- every listed predecessor is a completed, decided record -/
def PrevOk (c : Cond) (l : List (TransId × Nat)) : Prop :=
  ∀ p ∈ l, ∃ q, c.st.sequence[p.2]? = some q ∧ Comp q ∧ q.next ≠ []

/-- the invariant: the predecessor lists of all staged entries and of all records are justified -/
structure Just (c : Cond) : Prop where
  staged : ∀ x ∈ c.st.staged, PrevOk c x.prev
  recs : ∀ r ∈ c.st.sequence, PrevOk c r.prev

theorem PrevOk.mono {c c' : Cond} (h : DecStepW c c') {l : List (TransId × Nat)} (hl : PrevOk c l) : PrevOk c' l := by
  intro p hp
  obtain ⟨q, hq, hc, hn⟩ := hl p hp
  obtain ⟨q', hq', s⟩ := h.old p.2 q hq
  exact ⟨q', hq', s.comp hc hn, s.decided hn⟩

theorem PrevOk.nil (c : Cond) : PrevOk c [] := fun p hp => by cases hp

/-- how staged entries and records may change without new justification being needed -/
structure PrevStep (c c' : Cond) : Prop where
  staged : ∀ x' ∈ c'.st.staged, ∃ x ∈ c.st.staged, x'.prev = x.prev ∧ x'.id = x.id ∧ x'.ctxsIn = x.ctxsIn
  recs : ∀ (i : Nat) (r' : Rec), c'.st.sequence[i]? = some r' → ∃ r, c.st.sequence[i]? = some r ∧ r'.prev = r.prev

theorem PrevStep.refl (c : Cond) : PrevStep c c :=
  ⟨fun x hx => ⟨x, hx, rfl, rfl, rfl⟩, fun i r h => ⟨r, h, rfl⟩⟩

theorem PrevStep.trans {a b c : Cond} (h1 : PrevStep a b) (h2 : PrevStep b c) : PrevStep a c := by
  refine ⟨?_, ?_⟩
  · intro x'' hx''
    obtain ⟨x', hx', e2⟩ := h2.staged x'' hx''
    obtain ⟨x, hx, e1⟩ := h1.staged x' hx'
    exact ⟨x, hx, e2.1.trans e1.1, e2.2.1.trans e1.2.1, e2.2.2.trans e1.2.2⟩
  · intro i r'' hr''
    obtain ⟨r', hr', e2⟩ := h2.recs i r'' hr''
    obtain ⟨r, hr, e1⟩ := h1.recs i r' hr'
    exact ⟨r, hr, e2.trans e1⟩

theorem Just.step {c c' : Cond} (hw : DecStepW c c') (hp : PrevStep c c') (hj : Just c) : Just c' := by
  refine ⟨?_, ?_⟩
  · intro x' hx'
    obtain ⟨x, hx, e, _⟩ := hp.staged x' hx'
    rw [e]
    exact (hj.staged x hx).mono hw
  · intro r' hr'
    obtain ⟨i, hi⟩ := List.getElem?_of_mem hr'
    obtain ⟨r, hr, e⟩ := hp.recs i r' hi
    rw [e]
    exact (hj.recs r (List.mem_of_getElem? hr)).mono hw

/-- the preorder of the functions that need no new justification -/
def jStep : Pre where
  R c c' := DecStepR c c' ∧ PrevStep c c'
  refl c := ⟨DecStepR.refl c, PrevStep.refl c⟩
  trans h1 h2 := ⟨h1.1.trans h2.1, h1.2.trans h2.2⟩

theorem Rel.j_of {α} {m : M α} (h1 : Rel decStep m) (h2 : ∀ c, PrevStep c (m c).2) : Rel jStep m :=
  ⟨fun c => ⟨h1.run c, h2 c⟩⟩

/-! ### the walk for `PrevStep` -/

def prevPre : Pre := ⟨PrevStep, PrevStep.refl, PrevStep.trans⟩

theorem mem_updateStaged_go (k : TaskKey) (g : Staged → Staged) (l : List Staged) (x' : Staged)
    (h : x' ∈ WState.updateStaged.go k g l) : x' ∈ l ∨ ∃ x ∈ l, x' = g x := by
  induction l with
  | nil => unfold WState.updateStaged.go at h; cases h
  | cons a as ih =>
    unfold WState.updateStaged.go at h
    split at h
    · simp only [List.mem_cons] at h
      rcases h with h | h
      · right; exact ⟨a, List.mem_cons_self, h⟩
      · left; exact List.mem_cons_of_mem _ h
    · simp only [List.mem_cons] at h
      rcases h with h | h
      · left; rw [h]; exact List.mem_cons_self
      · rcases ih h with h' | ⟨x, hx, e⟩
        · left; exact List.mem_cons_of_mem _ h'
        · right; exact ⟨x, List.mem_cons_of_mem _ hx, e⟩

theorem mem_eraseStaged_go (k : TaskKey) (l : List Staged) (x' : Staged)
    (h : x' ∈ WState.eraseStaged.go k l) : x' ∈ l := by
  induction l with
  | nil => unfold WState.eraseStaged.go at h; cases h
  | cons a as ih =>
    unfold WState.eraseStaged.go at h
    split at h
    · exact List.mem_cons_of_mem _ h
    · simp only [List.mem_cons] at h
      rcases h with h | h
      · rw [h]; exact List.mem_cons_self
      · exact List.mem_cons_of_mem _ (ih h)

theorem mem_removeStaged (st : WState) (k : TaskKey) (x' : Staged) (h : x' ∈ (st.removeStaged k).staged) :
    x' ∈ st.staged := by
  unfold WState.removeStaged at h
  split at h
  · exact h
  · split at h
    · exact h
    · exact mem_eraseStaged_go k _ x' h

/-- a state update that keeps the records and only drops staged entries or updates fields other than `prev` -/
theorem Rel.modifySt_prev {f : WState → WState}
    (hs : ∀ st : WState, ∀ x' ∈ (f st).staged, ∃ x ∈ st.staged, x'.prev = x.prev ∧ x'.id = x.id ∧ x'.ctxsIn = x.ctxsIn)
    (hr : ∀ st : WState, (f st).sequence.map (·.prev) = st.sequence.map (·.prev)) : Rel prevPre (M.modifySt f) := by
  constructor
  intro c
  refine ⟨hs c.st, ?_⟩
  intro i r' hr'
  have hmap := congrArg (·[i]?) (hr c.st)
  simp only [List.getElem?_map] at hmap
  have hr'' : ({ c with st := f c.st } : Cond).st.sequence[i]? = some r' := hr'
  simp only at hr''
  rw [hr''] at hmap
  cases hc : c.st.sequence[i]? with
  | none => rw [hc] at hmap; cases hmap
  | some r =>
    rw [hc] at hmap
    simp only [Option.map_some, Option.some.injEq] at hmap
    exact ⟨r, rfl, hmap⟩

theorem map_prev_modify (l : List Rec) (i : Nat) (g : Rec → Rec) (h : ∀ r, (g r).prev = r.prev) :
    (l.modify i g).map (·.prev) = l.map (·.prev) := by
  induction l generalizing i with
  | nil => cases i <;> rfl
  | cons x xs ih =>
    cases i with
    | zero => simp [h]
    | succ n => simp [ih]

theorem Rel.raw_prev_same {α} {m : M α} (h : ∀ c, (m c).2.st = c.st) : Rel prevPre m := by
  constructor
  intro c
  show PrevStep c (m c).2
  refine ⟨fun x hx => ⟨x, by rw [h] at hx; exact hx, rfl, rfl, rfl⟩, fun i r hr => ⟨r, by rw [h] at hr; exact hr, rfl⟩⟩

macro "prev_staged" : tactic => `(tactic| first
  | (intro st x' hx'; exact ⟨x', hx', rfl, rfl, rfl⟩)
  | (intro st x' hx'; exact ⟨x', mem_removeStaged _ _ _ hx', rfl, rfl, rfl⟩)
  | (intro st x' hx'
     rcases mem_updateStaged_go _ _ _ _ hx' with h | ⟨x, hx, e⟩
     · exact ⟨x', h, rfl, rfl, rfl⟩
     · exact ⟨x, hx, by rw [e], by rw [e], by rw [e]⟩))

macro "prev_recs" : tactic => `(tactic| (intro st; first
  | rfl
  | (apply map_prev_modify; intro r; rfl)
  | (simp only [WState.removeStaged_sequence, WState.addStaged_sequence, WState.updateStaged_sequence,
       WState.setTask_sequence]; done)
  | (simp only [WState.removeStaged_sequence, WState.addStaged_sequence, WState.updateStaged_sequence,
       WState.setTask_sequence]
     first | rfl | (apply map_prev_modify; intro r; rfl))))

theorem logEntry_prev (e) : Rel prevPre (logEntry e) := by
  apply Rel.raw_prev_same
  intro c
  unfold logEntry M.modify
  dsimp only
  split <;> rfl

theorem wfProcessTaskEvent_prev (k ev) : Rel prevPre (wfProcessTaskEvent k ev) := by
  constructor
  intro c
  show PrevStep c _
  have hst : (wfProcessTaskEvent k ev c).2.st.staged = c.st.staged ∧ (wfProcessTaskEvent k ev c).2.st.sequence = c.st.sequence := by
    unfold wfProcessTaskEvent
    dsimp only
    split
    · exact ⟨rfl, rfl⟩
    · split
      · split
        · exact ⟨rfl, rfl⟩
        · rw [forEach_logError_seq]; exact ⟨rfl, rfl⟩
      · exact ⟨rfl, rfl⟩
  refine ⟨fun x hx => ⟨x, by rw [hst.1] at hx; exact hx, rfl, rfl, rfl⟩, fun i r hr => ⟨r, by rw [hst.2] at hr; exact hr, rfl⟩⟩

theorem wfProcessWorkflowEvent_prev (req) : Rel prevPre (wfProcessWorkflowEvent req) := by
  constructor
  intro c
  show PrevStep c _
  have hst : (wfProcessWorkflowEvent req c).2.st.staged = c.st.staged ∧ (wfProcessWorkflowEvent req c).2.st.sequence = c.st.sequence := by
    unfold wfProcessWorkflowEvent
    dsimp only
    split
    · exact ⟨rfl, rfl⟩
    · split
      · split
        · exact ⟨rfl, rfl⟩
        · rw [forEach_logError_seq]; exact ⟨rfl, rfl⟩
      · exact ⟨rfl, rfl⟩
  refine ⟨fun x hx => ⟨x, by rw [hst.1] at hx; exact hx, rfl, rfl, rfl⟩, fun i r hr => ⟨r, by rw [hst.2] at hr; exact hr, rfl⟩⟩

theorem Rel.raw_prev_rec {α} {m : M α} (hs : ∀ c, (m c).2.st.staged = c.st.staged)
    (hr : ∀ c, (m c).2.st.sequence.map (·.prev) = c.st.sequence.map (·.prev)) : Rel prevPre m := by
  constructor
  intro c
  show PrevStep c _
  refine ⟨fun x hx => ⟨x, by rw [hs] at hx; exact hx, rfl, rfl, rfl⟩, ?_⟩
  intro i r' hr'
  have hmap := congrArg (·[i]?) (hr c)
  simp only [List.getElem?_map, hr'] at hmap
  cases hc : c.st.sequence[i]? with
  | none => rw [hc] at hmap; cases hmap
  | some r =>
    rw [hc] at hmap
    simp only [Option.map_some, Option.some.injEq] at hmap
    exact ⟨r, rfl, hmap⟩

theorem tkProcessWorkflowEvent_prev (i req) : Rel prevPre (tkProcessWorkflowEvent i req) := by
  apply Rel.raw_prev_rec
  · intro c
    unfold tkProcessWorkflowEvent
    repeat' (first | rfl | split | dsimp only)
  · intro c
    unfold tkProcessWorkflowEvent
    repeat' (first | rfl | (apply map_prev_modify; intro r; rfl) | split | dsimp only)

theorem tkProcessEvent_prev (i ev) : Rel prevPre (tkProcessEvent i ev) := by
  apply Rel.raw_prev_rec
  · intro c
    unfold tkProcessEvent
    repeat' (first | rfl | split | dsimp only)
  · intro c
    unfold tkProcessEvent
    repeat' (first | rfl | (apply map_prev_modify; intro r; rfl) | split | dsimp only)

syntax "prev_walk" "[" term,* "]" : tactic
macro_rules
  | `(tactic| prev_walk [$ts,*]) => do
    let alts ← ts.getElems.mapM fun t => `(tactic| exact $t)
    `(tactic| repeat' (first
      | exact Rel.pure _ | exact Rel.pure' _ | exact Rel.throw _ | exact Rel.get
      | exact Rel.liftOpt _ _ | exact Rel.liftExcept _
      | exact wfProcessWorkflowEvent_prev _ | exact wfProcessTaskEvent_prev _ _
      | exact tkProcessWorkflowEvent_prev _ _ | exact tkProcessEvent_prev _ _
      | exact logEntry_prev _
      $[| $alts:tactic]*
      | (apply Rel.modifySt_prev
         · prev_staged
         · prev_recs)
      | (apply Rel.raw_prev_same; intro c; rfl)
      | apply Rel.bind | apply Rel.bind' | apply Rel.tryCatch | apply Rel.forEach | apply Rel.foldM' | apply Rel.mapM'
      | intro _ | split | dsimp only ))

theorem logError_prev (k a b c) : Rel prevPre (logError k a b c) := logEntry_prev _

theorem requestStatus_prev (req) : Rel prevPre (requestStatus req) := by
  unfold requestStatus
  prev_walk []

theorem failOnError_prev : Rel prevPre failOnError := by
  unfold failOnError
  prev_walk [requestStatus_prev _]

theorem getTask_prev (k) : Rel prevPre (getTask E k) := by
  unfold getTask
  prev_walk []

theorem evaluateTaskActions_prev (o) : Rel prevPre (evaluateTaskActions o) := by
  unfold evaluateTaskActions
  prev_walk []

theorem nextTaskFor_prev (sx) : Rel prevPre (nextTaskFor E sx) := by
  unfold nextTaskFor
  prev_walk [getTask_prev E _, evaluateTaskActions_prev _, logError_prev _ _ _ _]

theorem nextFrom_prev (todo) : Rel prevPre (nextFrom E todo) := by
  unfold nextFrom
  prev_walk [nextTaskFor_prev E _, failOnError_prev]

theorem getNextTasks_prev : Rel prevPre (getNextTasks E) :=
  ⟨fun c => (nextFrom_prev E (nextTodo c.st)).run c⟩

theorem evaluateRoute_prev (e r) : Rel prevPre (evaluateRoute e r) := by
  unfold evaluateRoute
  prev_walk []

theorem makeTaskContext_prev (k idx r) : Rel prevPre (makeTaskContext k idx r) := by
  unfold makeTaskContext
  prev_walk []

theorem noteEvent_prev (k s ev) : Rel prevPre (noteEvent k s ev) := by
  unfold noteEvent
  prev_walk []

theorem completedRetryDecision_prev (k idx ts os ns ev) : Rel prevPre (completedRetryDecision E k idx ts os ns ev) := by
  unfold completedRetryDecision
  prev_walk [makeTaskContext_prev _ _ _, failOnError_prev, logError_prev _ _ _ _]

theorem markTermIfCompleted_prev (idx) : Rel prevPre (markTermIfCompleted idx) := by
  unfold markTermIfCompleted
  prev_walk []

theorem terminalContext_prev : Rel prevPre terminalContext := by
  unfold terminalContext
  prev_walk []

theorem renderOutput_prev : Rel prevPre (renderOutput E) := by
  unfold renderOutput
  prev_walk [terminalContext_prev, failOnError_prev, logError_prev _ _ _ _]

end Orq
