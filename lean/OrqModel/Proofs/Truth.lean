/-
C01, the decision half: every predecessor a staged entry or a task record lists is a record that
has *recorded `true`* for the transition leading to that task.  (`Justified.lean` shows the listed
predecessors are completed and decided; this file shows what the decision was.)
-/
import OrqModel.Proofs.JustifiedUpdate
import OrqModel.Proofs.TasksOk
import OrqModel.Proofs.GraphFixed
import OrqModel.Properties.Keys

namespace Orq

variable (E : Evaluator)

/-- record `i` has recorded the decision `m` -/
def Recorded (c : Cond) (i : Nat) (m : TransId × Bool) : Prop :=
  ∃ q, c.st.sequence[i]? = some q ∧ m ∈ q.next

/-- predecessor entry `p = ((source task, key), record index)` of an entry of task `id`: the
    record has recorded `true` for the transition `(id, key)` -/
def TrueAt (c : Cond) (id : String) (p : TransId × Nat) : Prop := Recorded c p.2 ((id, p.1.2), true)

def PrevT (c : Cond) (id : String) (l : List (TransId × Nat)) : Prop := ∀ p ∈ l, TrueAt c id p

structure JT (c : Cond) : Prop where
  staged : ∀ x ∈ c.st.staged, PrevT c x.id x.prev
  recs : ∀ r ∈ c.st.sequence, PrevT c r.id r.prev

/-- recorded decisions stay recorded -/
structure MK (c c' : Cond) : Prop where
  keep : ∀ (i : Nat) (r : Rec) (m : TransId × Bool), c.st.sequence[i]? = some r → m ∈ r.next →
    ∃ r', c'.st.sequence[i]? = some r' ∧ m ∈ r'.next

theorem MK.refl (c : Cond) : MK c c := ⟨fun i r m h hm => ⟨r, h, hm⟩⟩

theorem MK.trans {a b c : Cond} (h1 : MK a b) (h2 : MK b c) : MK a c := by
  constructor
  intro i r m hr hm
  obtain ⟨r', hr', hm'⟩ := h1.keep i r m hr hm
  exact h2.keep i r' m hr' hm'

theorem NK.toMK {c c' : Cond} (h : NK c c') : MK c c' := by
  constructor
  intro i r m hr hm
  obtain ⟨r', hr', e⟩ := h.keep i r hr (List.ne_nil_of_mem hm)
  exact ⟨r', hr', by rw [e]; exact hm⟩

theorem NxAll.toMK {c c' : Cond} (h : NxAll c c') : MK c c' := h.nk.toMK

theorem Recorded.mono {c c' : Cond} (h : MK c c') {i : Nat} {m} (hr : Recorded c i m) : Recorded c' i m := by
  obtain ⟨q, hq, hm⟩ := hr
  obtain ⟨q', hq', hm'⟩ := h.keep i q m hq hm
  exact ⟨q', hq', hm'⟩

theorem PrevT.mono {c c' : Cond} (h : MK c c') {id : String} {l} (hl : PrevT c id l) : PrevT c' id l :=
  fun p hp => (hl p hp).mono h

theorem PrevT.nil (c : Cond) (id : String) : PrevT c id [] := fun p hp => by cases hp

/-- the general step -/
theorem JT.of_parts {c c' : Cond} (hm : MK c c') (he : c.st.Ext c'.st) (hj : JT c)
    (hs : ∀ x' ∈ c'.st.staged, (∃ x ∈ c.st.staged, x'.prev = x.prev ∧ x'.id = x.id) ∨ PrevT c x'.id x'.prev)
    (hr : ∀ (i : Nat) (r' : Rec), c'.st.sequence[i]? = some r' → c.st.sequence.length ≤ i →
      PrevT c r'.id r'.prev) : JT c' := by
  refine ⟨?_, ?_⟩
  · intro x' hx'
    rcases hs x' hx' with ⟨x, hx, e1, e2⟩ | h
    · rw [e1, e2]; exact (hj.staged x hx).mono hm
    · exact h.mono hm
  · intro r' hr'
    obtain ⟨i, hi⟩ := List.getElem?_of_mem hr'
    by_cases hlen : c.st.sequence.length ≤ i
    · exact (hr i r' hi hlen).mono hm
    · have hlt : i < c.st.sequence.length := Nat.lt_of_not_le hlen
      have hr0 : c.st.sequence[i]? = some c.st.sequence[i] := List.getElem?_eq_getElem hlt
      obtain ⟨r'', hr'', hc⟩ := Ext.getElem_core he hr0
      rw [hi] at hr''
      cases hr''
      rw [Rec.core_id hc, Rec.core_prev hc]
      exact (hj.recs _ (List.mem_of_getElem? hr0)).mono hm

/-- no record is appended and no predecessor is added -/
theorem JT.step {c c' : Cond} (hm : MK c c') (he : c.st.Ext c'.st) (hp : PrevStep c c') (hj : JT c) : JT c' := by
  apply JT.of_parts hm he hj
  · intro x' hx'
    exact Or.inl (hp.staged x' hx')
  · intro i r' hi hlen
    obtain ⟨r, hr, _⟩ := hp.recs i r' hi
    have := (List.getElem?_eq_some_iff.mp hr).1
    omega

theorem JT.uniform {α} {m : M α} (h1 : Rel nxaPre m) (h2 : Rel extPre m) (h3 : Rel prevPre m) (c : Cond)
    (hj : JT c) : JT (m c).2 :=
  JT.step (h1.run c).toMK (h2.run c) (h3.run c) hj

theorem jt_bind {α β} (m : M α) (f : α → M β) (c : Cond)
    (hm : JT (m c).2) (hf : ∀ a c1, m c = (.ok a, c1) → JT (f a c1).2) : JT ((m >>= f) c).2 := by
  rw [M.bind_run]
  cases h : m c with
  | mk res c1 =>
    rw [h] at hm
    cases res with
    | ok a => exact hf a c1 h
    | error e => exact hm

theorem jt_bind_uniform {α β} {m : M α} {f : α → M β} {c : Cond}
    (h1 : Rel nxaPre m) (h2 : Rel extPre m) (h3 : Rel prevPre m) (hj : JT c)
    (hf : ∀ a c1, m c = (.ok a, c1) → MK c c1 → JT c1 → JT (f a c1).2) : JT ((m >>= f) c).2 := by
  apply jt_bind
  · exact JT.uniform h1 h2 h3 c hj
  intro a c1 hm
  have w := (h1.run c).toMK
  have j := JT.uniform h1 h2 h3 c hj
  rw [hm] at w j
  exact hf a c1 hm w j

/-! ### staging the target of a transition -/

theorem mem_updateStaged_go_key (k : TaskKey) (g : Staged → Staged) (l : List Staged) (x' : Staged)
    (h : x' ∈ WState.updateStaged.go k g l) :
    x' ∈ l ∨ ∃ x ∈ l, x.id = k.1 ∧ x' = g x := by
  induction l with
  | nil => unfold WState.updateStaged.go at h; cases h
  | cons a as ih =>
    unfold WState.updateStaged.go at h
    split at h
    · rename_i hk
      simp only [List.mem_cons] at h
      rcases h with h | h
      · right
        simp only [Bool.and_eq_true, beq_iff_eq] at hk
        exact ⟨a, List.mem_cons_self, hk.1, h⟩
      · left; exact List.mem_cons_of_mem _ h
    · simp only [List.mem_cons] at h
      rcases h with h | h
      · left; rw [h]; exact List.mem_cons_self
      · rcases ih h with h' | ⟨x, hx, e1, e2⟩
        · left; exact List.mem_cons_of_mem _ h'
        · right; exact ⟨x, List.mem_cons_of_mem _ hx, e1, e2⟩

theorem mem_setAssoc_eq {κ} [BEq κ] [LawfulBEq κ] {β} (l : List (κ × β)) (k : κ) (v : β) (p : κ × β)
    (h : p ∈ setAssoc l k v) : p ∈ l ∨ p = (k, v) := by
  unfold setAssoc at h
  split at h
  · obtain ⟨q, hq, e⟩ := List.mem_map.mp h
    split at e
    · rename_i hk
      right
      have : q.1 = k := eq_of_beq hk
      rw [← e, this]
    · left; rw [← e]; exact hq
  · rcases List.mem_append.mp h with h | h
    · left; exact h
    · right
      simpa using h

theorem stageTarget_jt (nk : TaskKey) (backref : TransId) (idx : Nat) (outIdxs : List Nat) (c : Cond)
    (hj : JT c) (ht : Recorded c idx ((nk.1, backref.2), true)) :
    JT (stageTarget nk backref idx outIdxs c).2 := by
  unfold stageTarget
  rw [M.bind_run]
  simp only [M.get]
  cases hg : c.st.getStaged? nk with
  | some x0 =>
    dsimp only
    rw [M.bind_run]
    cases he : eraseFirst outIdxs 0 with
    | none => exact hj
    | some rest =>
      simp only [liftOpt, pure, M.pure', M.modifySt, M.modify]
      refine JT.of_parts ?hm ?he hj ?_ ?_
      case hm => exact ⟨fun i r m hr hm => ⟨r, hr, hm⟩⟩
      case he => exact Ext.of_eq rfl rfl rfl
      · intro x' hx'
        rcases mem_updateStaged_go_key _ _ _ _ hx' with h | ⟨x, hx, hid, ex⟩
        · left; exact ⟨x', h, rfl, rfl⟩
        · right
          rw [ex]
          intro p hp
          rcases mem_setAssoc_eq _ _ _ _ hp with hp' | hp'
          · exact hj.staged x hx p hp'
          · rw [hp']
            show Recorded c idx ((x.id, backref.2), true)
            rw [hid]
            exact ht
      · intro i r' hr' hlen
        have := (List.getElem?_eq_some_iff.mp hr').1
        exact absurd this (by show ¬ i < c.st.sequence.length; omega)
  | none =>
    simp only [M.modifySt, M.modify]
    refine JT.of_parts ?hm ?he hj ?_ ?_
    case hm => exact ⟨fun i r m hr hm => ⟨r, hr, hm⟩⟩
    case he => exact Ext.of_eq rfl rfl rfl
    · intro x' hx'
      rcases List.mem_append.mp hx' with h | h
      · left; exact ⟨x', h, rfl, rfl⟩
      · right
        simp only [List.mem_singleton] at h
        subst h
        intro p hp
        simp only [List.mem_singleton] at hp
        subst hp
        exact ht
    · intro i r' hr' hlen
      have := (List.getElem?_eq_some_iff.mp hr').1
      exact absurd this (by show ¬ i < c.st.sequence.length; omega)

theorem stageNext_jt (k : TaskKey) (idx : Nat) (e : Edge) (outIdxs : List Nat) (acc : TransAcc) (c : Cond)
    (hj : JT c) (ht : Recorded c idx ((e.dst, e.key), true)) : JT (stageNext k idx e outIdxs acc c).2 := by
  unfold stageNext
  apply jt_bind_uniform (evaluateRoute_nxa e k.2) (evaluateRoute_ext e k.2) (evaluateRoute_prev e k.2) hj
  intro nextRoute c1 _ w1 hj1
  have hj2 := stageTarget_jt (e.dst, nextRoute) (k.1, e.key) idx outIdxs c1 hj1 (ht.mono w1)
  apply jt_bind
  · exact hj2
  intro u c2 h2
  rw [h2] at hj2
  exact JT.uniform (m := (do
      let c ← M.get
      let ready := inboundStatus c e.dst k.2 == .satisfied
      M.modifySt fun st => st.updateStaged (e.dst, nextRoute) fun x => { x with ready := ready }
      if (Cmd.ofStr? e.dst).isSome then
        pure { acc with queue := acc.queue ++ [(e.dst, nextRoute)], manualFail := acc.manualFail || e.dst == "fail" }
      else if ready then pure { acc with readyKeys := acc.readyKeys ++ [(e.dst, nextRoute)] }
      else pure acc : M TransAcc)) (by nxa_walk []) (by ext_walk []) (by prev_walk []) c2 hj2

theorem fireTransition_nxa (k idx ec acc e) : Rel nxaPre (fireTransition E k idx ec acc e) := by
  unfold fireTransition
  nxa_walk [stageNext_nxa _ _ _ _ _, failOnError_nxa, logError_nxa _ _ _ _]

theorem fireTransition_jt (k : TaskKey) (idx : Nat) (ec : EvalCtx) (acc : TransAcc) (e : Edge) (c : Cond)
    (hj : JT c) (ht : Recorded c idx ((e.dst, e.key), true)) : JT (fireTransition E k idx ec acc e c).2 := by
  unfold fireTransition
  rw [M.bind_run]
  simp only [M.get]
  apply jt_bind
  · rw [liftOpt_state]; exact hj
  intro ts c1 h1
  obtain ⟨_, e1⟩ := liftOpt_ok h1
  subst e1
  apply jt_bind
  · rw [liftOpt_state]; exact hj
  intro tr c2 h2
  obtain ⟨_, e2⟩ := liftOpt_ok h2
  subst e2
  generalize renderSeq E _ _ _ = rs
  obtain ⟨ra, newCtx, nerr⟩ := rs
  dsimp only
  by_cases hn : nerr > 0
  · rw [if_pos hn]
    exact JT.uniform (by nxa_walk [failOnError_nxa, logError_nxa _ _ _ _]) (by ext_walk [failOnError_ext])
      (by prev_walk [failOnError_prev, logError_prev _ _ _ _]) c hj
  · rw [if_neg hn]
    apply jt_bind
    · rw [liftOpt_state]; exact hj
    intro r c3 h3
    obtain ⟨_, e3⟩ := liftOpt_ok h3
    subst e3
    apply jt_bind_uniform (by nxa_walk []) (by ext_walk []) (by prev_walk []) hj
    intro u c4 _ w hj4
    exact stageNext_jt k idx e _ acc c4 hj4 (ht.mono w)

/-- the decisions record `idx` holds do not mention `tid` yet -/
def FreshAt (c : Cond) (idx : Nat) (tid : TransId) : Prop :=
  ∀ q, c.st.sequence[idx]? = some q → ∀ m ∈ q.next, m.1 ≠ tid

theorem setAssoc_fresh {β} (l : List (TransId × β)) (k : TransId) (v : β) (h : ∀ m ∈ l, m.1 ≠ k) :
    setAssoc l k v = l ++ [(k, v)] := by
  unfold setAssoc
  rw [if_neg]
  intro hany
  obtain ⟨m, hm, hk⟩ := List.any_eq_true.mp hany
  exact h m hm (eq_of_beq hk)

theorem processTransition_jt (k : TaskKey) (idx : Nat) (ec : EvalCtx) (acc : TransAcc) (e : Edge) (c : Cond)
    (hj : JT c) (hfresh : FreshAt c idx (e.dst, e.key)) : JT (processTransition E k idx ec acc e c).2 := by
  unfold processTransition
  cases transCriteria E e ec with
  | none =>
    dsimp only
    exact JT.uniform (by nxa_walk [failOnError_nxa, logError_nxa _ _ _ _]) (by ext_walk [failOnError_ext])
      (by prev_walk [failOnError_prev, logError_prev _ _ _ _]) c hj
  | some b =>
    dsimp only
    rw [M.bind_run]
    simp only [M.modifySt, M.modify]
    have hmk : MK c ({ c with st := c.st.updateRec idx fun r => { r with next := setAssoc r.next (e.dst, e.key) b } } : Cond) := by
      constructor
      intro i r m hr hm
      by_cases hi : i = idx
      · subst hi
        refine ⟨{ r with next := setAssoc r.next (e.dst, e.key) b }, ?_, ?_⟩
        · show (c.st.sequence.modify i _)[i]? = _
          rw [getElem?_modify_same, hr]
          rfl
        · show m ∈ setAssoc r.next (e.dst, e.key) b
          rw [setAssoc_fresh _ _ _ (hfresh r hr)]
          exact List.mem_append_left _ hm
      · refine ⟨r, ?_, hm⟩
        show (c.st.sequence.modify idx _)[i]? = some r
        rw [getElem?_modify_ne _ _ _ _ hi]
        exact hr
    have hj1 : JT ({ c with st := c.st.updateRec idx fun r => { r with next := setAssoc r.next (e.dst, e.key) b } } : Cond) := by
      apply JT.step hmk (Ext.updateRec _ _ _ (fun _ => rfl)) ?_ hj
      exact (show Rel prevPre (M.modifySt fun st => st.updateRec idx fun r => { r with next := setAssoc r.next (e.dst, e.key) b }) by
        prev_walk []).run c
    cases b with
    | false => exact hj1
    | true =>
      rw [if_neg (by decide)]
      cases hq : c.st.sequence[idx]? with
      | none =>
        -- no such record: `fireTransition` raises before it stages anything
        unfold fireTransition
        rw [M.bind_run]
        simp only [M.get]
        apply jt_bind
        · rw [liftOpt_state]; exact hj1
        intro ts c1 h1
        obtain ⟨_, e1⟩ := liftOpt_ok h1
        subst e1
        apply jt_bind
        · rw [liftOpt_state]; exact hj1
        intro tr c2 h2
        obtain ⟨_, e2⟩ := liftOpt_ok h2
        subst e2
        generalize renderSeq E _ _ _ = rs
        obtain ⟨ra, newCtx, nerr⟩ := rs
        dsimp only
        by_cases hn : nerr > 0
        · rw [if_pos hn]
          exact JT.uniform (by nxa_walk [failOnError_nxa, logError_nxa _ _ _ _]) (by ext_walk [failOnError_ext])
            (by prev_walk [failOnError_prev, logError_prev _ _ _ _]) _ hj1
        · rw [if_neg hn]
          apply jt_bind
          · rw [liftOpt_state]; exact hj1
          intro r c3 h3
          obtain ⟨hr3, _⟩ := liftOpt_ok h3
          exfalso
          have : (c.st.sequence.modify idx fun r => { r with next := setAssoc r.next (e.dst, e.key) true })[idx]? = some r := hr3
          rw [getElem?_modify_same, hq] at this
          cases this
      | some q =>
        apply fireTransition_jt E k idx ec acc e _ hj1
        refine ⟨{ q with next := setAssoc q.next (e.dst, e.key) true }, ?_, ?_⟩
        · show (c.st.sequence.modify idx _)[idx]? = _
          rw [getElem?_modify_same, hq]
          rfl
        · show ((e.dst, e.key), true) ∈ setAssoc q.next (e.dst, e.key) true
          rw [setAssoc_fresh _ _ _ (hfresh q hq)]
          exact List.mem_append_right _ (List.mem_singleton.mpr rfl)

/-! ### the loop over the outbound transitions -/

theorem NxAll.back {c c' : Cond} (h : NxAll c c') {i : Nat} {q q' : Rec} (hq : c.st.sequence[i]? = some q)
    (hq' : c'.st.sequence[i]? = some q') : q'.next = q.next := by
  obtain ⟨r', hr', e⟩ := h.keep i q hq
  rw [hq'] at hr'
  cases hr'
  exact e

theorem processTransition_keys (k : TaskKey) (idx : Nat) (ec : EvalCtx) (acc : TransAcc) (e : Edge) (c : Cond)
    (q : Rec) (hq : c.st.sequence[idx]? = some q) (q1 : Rec)
    (hq1 : (processTransition E k idx ec acc e c).2.st.sequence[idx]? = some q1) :
    ∀ m ∈ q1.next, m ∈ q.next ∨ m.1 = (e.dst, e.key) := by
  unfold processTransition at hq1
  cases htc : transCriteria E e ec with
  | none =>
    rw [htc] at hq1
    dsimp only at hq1
    have hn : Rel nxaPre (do
        logError "ExpressionEvaluationException" (some k.1) (some k.2) (some (e.dst, e.key))
        failOnError
        pure acc : M TransAcc) := by
      nxa_walk [failOnError_nxa, logError_nxa _ _ _ _]
    have := (hn.run c).back hq hq1
    intro m hm
    left
    rw [this] at hm
    exact hm
  | some b =>
    rw [htc] at hq1
    dsimp only at hq1
    rw [M.bind_run] at hq1
    simp only [M.modifySt, M.modify] at hq1
    have hq' : ({ c with st := c.st.updateRec idx fun r => { r with next := setAssoc r.next (e.dst, e.key) b } } : Cond).st.sequence[idx]?
        = some { q with next := setAssoc q.next (e.dst, e.key) b } := by
      show (c.st.sequence.modify idx _)[idx]? = _
      rw [getElem?_modify_same, hq]
      rfl
    have hn : Rel nxaPre (if !b then pure acc else fireTransition E k idx ec acc e : M TransAcc) := by
      split
      · exact Rel.pure _
      · exact fireTransition_nxa E _ _ _ _ _
    have := (hn.run _).back hq' hq1
    intro m hm
    rw [this] at hm
    rcases mem_setAssoc_eq _ _ _ _ hm with h | h
    · left; exact h
    · right; rw [h]

theorem evalFold_jt (k : TaskKey) (idx : Nat) (ec : EvalCtx) :
    ∀ (ts : List Edge) (acc : TransAcc) (c : Cond),
      (ts.map fun e => ((e.dst, e.key) : String × Nat)).Nodup → JT c → CompAt c idx →
      (∀ e ∈ ts, FreshAt c idx (e.dst, e.key)) →
      JT (M.foldM' ts acc (processTransition E k idx ec) c).2 := by
  intro ts
  induction ts with
  | nil => intro acc c _ hj _ _; exact hj
  | cons e rest ih =>
    intro acc c hnd hj hcomp hfresh
    show JT (M.bind' (processTransition E k idx ec acc e) (fun b' => M.foldM' rest b' (processTransition E k idx ec)) c).2
    unfold M.bind'
    have h1 := processTransition_jt E k idx ec acc e c hj (hfresh e List.mem_cons_self)
    have hc1 := ((processTransition_at E k idx ec acc e).run c hcomp).1
    have hkeys := processTransition_keys E k idx ec acc e c
    cases hr : processTransition E k idx ec acc e c with
    | mk res c1 =>
      rw [hr] at h1 hc1 hkeys
      cases res with
      | error err => exact h1
      | ok acc' =>
        simp only [List.map_cons, List.nodup_cons] at hnd
        apply ih acc' c1 hnd.2 h1 hc1
        intro e' he' q1 hq1 m hm
        obtain ⟨q, hq, _⟩ := hcomp
        rcases hkeys q hq q1 hq1 m hm with h | h
        · exact hfresh e' (List.mem_cons_of_mem _ he') q hq m h
        · rw [h]
          intro heq
          apply hnd.1
          rw [heq]
          exact List.mem_map.mpr ⟨e', he', rfl⟩

theorem evalTransitions_jt (k : TaskKey) (idx : Nat) (ts : TaskSpec) (ev : Event) (c : Cond)
    (hj : JT c) (hcomp : CompAt c idx) (hund : Undecided c idx) (hkeys : KeysOk c.graph.edges) :
    JT (evalTransitions E k idx ts ev c).2 := by
  unfold evalTransitions
  have hd1 := (makeTaskContext_dec k idx (taskResult ts ev)).run c
  have hg1 := (makeTaskContext_g k idx (taskResult ts ev)).run c
  have hn1 := (makeTaskContext_nxa k idx (taskResult ts ev)).run c
  apply jt_bind_uniform (makeTaskContext_nxa _ _ _) (makeTaskContext_ext _ _ _) (makeTaskContext_prev _ _ _) hj
  intro ec c1 h1 _ hj1
  rw [h1] at hd1 hg1 hn1
  have hcomp1 : CompAt c1 idx := CompAt.step hd1 hcomp
  have hund1 : Undecided c1 idx := by
    intro q1 hq1
    obtain ⟨q, hq, _⟩ := hcomp
    rw [hn1.back hq hq1]
    exact hund q hq
  rw [M.bind_run]
  simp only [M.get]
  have hm2d : Rel decStep (if (c1.graph.nextTransitions k.1).isEmpty then
      M.modifySt fun st => st.updateRec idx fun r => { r with term := true } else pure () : M Unit) := by
    dec_walk []
  have hm2n : Rel nxaPre (if (c1.graph.nextTransitions k.1).isEmpty then
      M.modifySt fun st => st.updateRec idx fun r => { r with term := true } else pure () : M Unit) := by
    nxa_walk []
  have hd2 := hm2d.run c1
  have hn2 := hm2n.run c1
  apply jt_bind_uniform hm2n (by ext_walk []) (by prev_walk []) hj1
  intro u c2 h2 _ hj2
  rw [h2] at hd2 hn2
  have hcomp2 : CompAt c2 idx := CompAt.step hd2 hcomp1
  have hund2 : Undecided c2 idx := by
    intro q2 hq2
    obtain ⟨q, hq, _⟩ := hcomp1
    rw [hn2.back hq hq2]
    exact hund1 q hq
  have hnd : ((c1.graph.nextTransitions k.1).map fun e => ((e.dst, e.key) : String × Nat)).Nodup := by
    apply nextTransitions_nodup
    rw [hg1.2]
    exact hkeys
  have hloop := evalFold_jt E k idx ec (c1.graph.nextTransitions k.1) ({} : TransAcc) c2 hnd hj2 hcomp2
    (fun e _ q hq m hm => by rw [hund2 q hq] at hm; cases hm)
  apply jt_bind
  · exact hloop
  intro acc c3 h3
  rw [h3] at hloop
  exact JT.uniform (by nxa_walk []) (by ext_walk []) (by prev_walk []) c3 hloop

/-! ### new records, re-staging for a retry -/

theorem JT.append (c : Cond) (r0 : Rec) (k : TaskKey) (n : Nat) (hj : JT c) (hb : PrevT c r0.id r0.prev) :
    JT { c with st := ({ c.st with sequence := c.st.sequence ++ [r0] } : WState).setTask k n } := by
  have hseq : (({ c.st with sequence := c.st.sequence ++ [r0] } : WState).setTask k n).sequence = c.st.sequence ++ [r0] := by
    rw [WState.setTask_sequence]
  have hstg : (({ c.st with sequence := c.st.sequence ++ [r0] } : WState).setTask k n).staged = c.st.staged := by
    unfold WState.setTask; split <;> rfl
  refine JT.of_parts ?hm ?he hj ?_ ?_
  case hm =>
    constructor
    intro i r m hr hm
    refine ⟨r, ?_, hm⟩
    show (WState.setTask _ _ _).sequence[i]? = some r
    rw [hseq, List.getElem?_append_left (List.getElem?_eq_some_iff.mp hr).1]
    exact hr
  case he => exact Ext.appendRec _ _ _ _
  · intro x' hx'
    left
    refine ⟨x', ?_, rfl, rfl⟩
    have : x' ∈ (({ c.st with sequence := c.st.sequence ++ [r0] } : WState).setTask k n).staged := hx'
    rw [hstg] at this
    exact this
  · intro i r' hr' hlen
    have hr'' : (c.st.sequence ++ [r0])[i]? = some r' := by
      have : (({ c.st with sequence := c.st.sequence ++ [r0] } : WState).setTask k n).sequence[i]? = some r' := hr'
      rw [hseq] at this
      exact this
    rw [List.getElem?_append_right hlen] at hr''
    have : r' = r0 := by
      cases hi : i - c.st.sequence.length with
      | zero => rw [hi] at hr''; simpa using hr''.symm
      | succ n => rw [hi] at hr''; simp at hr''
    rw [this]
    exact hb

theorem addTaskState_jt (k : TaskKey) (a : List Nat) (b : List (TransId × Nat)) (c : Cond)
    (hj : JT c) (hb : PrevT c k.1 b) : JT (addTaskState E k a b c).2 := by
  unfold addTaskState
  rw [M.bind_run]
  simp only [M.get]
  split
  · exact hj
  · have hhn : Rel nxaPre (match (newRecord E c k a b).2 with
        | none => pure ()
        | some e => do
          logError e.className (some k.1) (some k.2)
          failOnError : M Unit) := by
      nxa_walk [failOnError_nxa, logError_nxa _ _ _ _]
    have hhe : Rel extPre (match (newRecord E c k a b).2 with
        | none => pure ()
        | some e => do
          logError e.className (some k.1) (some k.2)
          failOnError : M Unit) := by
      ext_walk [failOnError_ext]
    have hhp : Rel prevPre (match (newRecord E c k a b).2 with
        | none => pure ()
        | some e => do
          logError e.className (some k.1) (some k.2)
          failOnError : M Unit) := by
      prev_walk [failOnError_prev, logError_prev _ _ _ _]
    apply jt_bind_uniform hhn hhe hhp hj
    intro u c2 _ w hj2
    rw [M.bind_run]
    simp only [M.get]
    rw [M.bind_run]
    simp only [M.modifySt, M.modify, pure, M.pure']
    apply JT.append c2 _ k _ hj2
    rw [newRecord_prev, newRecord_id]
    exact hb.mono w

/-- the record at `idx`, if there is one, is a record of task `id` -/
def IdAt (c : Cond) (idx : Nat) (id : String) : Prop := ∀ r, c.st.sequence[idx]? = some r → r.id = id

theorem restageRetry_jt (k : TaskKey) (idx : Nat) (o : Status) (c : Cond) (hj : JT c) (hid : IdAt c idx k.1) :
    JT (restageRetry k idx o c).2 := by
  have hm := (NxAll.of_map ((restageRetry_nx k idx o).run c)).toMK
  have he := (restageRetry_ext k idx o).run c
  unfold restageRetry at hm he ⊢
  rw [M.bind_run] at hm he ⊢
  simp only [M.get] at hm he ⊢
  rw [M.bind_run] at hm he ⊢
  cases hr : c.st.sequence[idx]? with
  | none => exact hj
  | some r =>
    rw [hr] at hm he
    simp only [liftOpt, pure, M.pure'] at hm he ⊢
    split
    · rename_i hcond
      rw [if_pos hcond] at hm he
      rw [M.bind_run] at hm he ⊢
      cases hrs : r.retry with
      | none => exact hj
      | some rs =>
        rw [hrs] at hm he
        simp only [liftOpt, pure, M.pure'] at hm he ⊢
        apply JT.of_parts hm he hj
        · intro x' hx'
          have hx'' : x' ∈ ((c.st.updateRec idx fun r => { r with retry := some { rs with tally := rs.tally + 1 } }).removeStaged k).staged ++
              [({ id := k.1, route := k.2, ctxsIn := if r.ctxsIn.isEmpty then [0] else r.ctxsIn,
                  prev := r.prev, ready := true, retry := some { rs with tally := rs.tally + 1 } } : Staged)] := hx'
          rcases List.mem_append.mp hx'' with h | h
          · left
            have hmem := mem_removeStaged _ _ _ h
            exact ⟨x', hmem, rfl, rfl⟩
          · right
            simp only [List.mem_singleton] at h
            subst h
            show PrevT c k.1 r.prev
            rw [← hid r hr]
            exact hj.recs r (List.mem_of_getElem? hr)
        · intro i r' hr' hlen
          exfalso
          have hmap : (WState.addStaged ((c.st.updateRec idx fun r => { r with retry := some { rs with tally := rs.tally + 1 } }).removeStaged k)
              ({ id := k.1, route := k.2, ctxsIn := if r.ctxsIn.isEmpty then [0] else r.ctxsIn,
                 prev := r.prev, ready := true, retry := some { rs with tally := rs.tally + 1 } } : Staged)).sequence.map (·.prev)
              = c.st.sequence.map (·.prev) := by
            simp only [WState.addStaged_sequence, WState.removeStaged_sequence]
            apply map_prev_modify
            intro r
            rfl
          obtain ⟨r0, hr0, _⟩ := recs_prev_of_map hmap i r' hr'
          have := (List.getElem?_eq_some_iff.mp hr0).1
          omega
    · exact hj

theorem IdAt.ext {c c' : Cond} {idx : Nat} {id : String} (he : c.st.Ext c'.st) {r : Rec}
    (hr : c.st.sequence[idx]? = some r) (hid : IdAt c idx id) : IdAt c' idx id := by
  intro r' hr'
  obtain ⟨r'', hr'', hc⟩ := Ext.getElem_core he hr
  rw [hr'] at hr''
  cases hr''
  rw [Rec.core_id hc]
  exact hid r hr

theorem machineStep_jt (k : TaskKey) (idx : Nat) (ev : Event) (c : Cond) (hj : JT c) (hid : IdAt c idx k.1) :
    JT (machineStep k idx ev c).2 := by
  unfold machineStep
  rw [M.bind_run]
  simp only [M.get]
  apply jt_bind
  · rw [liftOpt_state]; exact hj
  intro r c1 h1
  obtain ⟨hr, e1⟩ := liftOpt_ok h1
  subst e1
  have he3 := (tkProcessEvent_ext idx ev).run c
  apply jt_bind_uniform (Rel.nxa_of_nx (tkProcessEvent_nx idx ev)) (tkProcessEvent_ext idx ev) (tkProcessEvent_prev idx ev) hj
  intro u c3 h3 _ hj3
  rw [h3] at he3
  have hid3 : IdAt c3 idx k.1 := hid.ext he3 hr
  rw [M.bind_run]
  simp only [M.get]
  apply jt_bind
  · rw [liftOpt_state]; exact hj3
  intro r' c4 h4
  obtain ⟨_, e4⟩ := liftOpt_ok h4
  subst e4
  apply jt_bind
  · exact restageRetry_jt k idx _ c3 hj3 hid3
  intro u5 c5 h5
  have := restageRetry_jt k idx (r.status.getD .unset) c3 hj3 hid3
  rw [h5] at this
  exact this

theorem recordFromStaged_jt (k : TaskKey) (s0 : Option Staged) (c : Cond) (hj : JT c)
    (hs : ∀ sx, s0 = some sx → PrevT c k.1 sx.prev) : JT (recordFromStaged E k s0 c).2 := by
  unfold recordFromStaged
  cases s0 with
  | none => exact hj
  | some sx => exact addTaskState_jt E _ _ _ c hj (hs sx rfl)

theorem firstRecord_jt (k : TaskKey) (s0 : Option Staged) (r0 : Option Nat) (c : Cond) (hj : JT c)
    (hs : ∀ sx, s0 = some sx → PrevT c k.1 sx.prev) : JT (firstRecord E k s0 r0 c).2 := by
  unfold firstRecord
  cases r0 with
  | none => exact recordFromStaged_jt E k s0 c hj hs
  | some i =>
    cases isCmdName k.1 with
    | false => exact hj
    | true => exact recordFromStaged_jt E k s0 c hj hs

theorem firstRecord_nxa (k s r) : Rel nxaPre (firstRecord E k s r) := by
  unfold firstRecord recordFromStaged
  nxa_walk [addTaskState_nxa E _ _ _]

theorem ensureRecord_jt (k : TaskKey) (s0 : Option Staged) (r0 : Option Nat) (ev : Event) (c : Cond)
    (hj : JT c) (hs : ∀ sx, s0 = some sx → PrevT c k.1 sx.prev) : JT (ensureRecord E k s0 r0 ev c).2 := by
  unfold ensureRecord
  have hj1 := firstRecord_jt E k s0 r0 c hj hs
  have w1 := ((firstRecord_nxa E k s0 r0).run c).toMK
  apply jt_bind
  · exact hj1
  intro i c1 h1
  rw [h1] at hj1 w1
  rw [M.bind_run]
  simp only [M.get]
  apply jt_bind
  · rw [liftOpt_state]; exact hj1
  intro r c2 h2
  obtain ⟨_, e2⟩ := liftOpt_ok h2
  subst e2
  split
  · exact recordFromStaged_jt E k s0 c1 hj1 (fun sx h => (hs sx h).mono w1)
  · exact hj1

theorem ensureRecord_cmd_id (k : TaskKey) (s0 : Option Staged) (r0 : Option Nat) (ev : Event) (c c1 : Cond)
    (idx : Nat) (hcmd : isCmdName k.1 = true) (h : ensureRecord E k s0 r0 ev c = (.ok idx, c1)) :
    ∃ r, c1.st.sequence[idx]? = some r ∧ r.id = k.1 := by
  unfold ensureRecord firstRecord recordFromStaged at h
  obtain ⟨i, c', h1, h2⟩ := M.bind_ok h
  have h1' : ∃ sx : Staged, addTaskState E (k.1, sx.route) sx.ctxsIn sx.prev c = (.ok i, c') := by
    cases r0 <;> simp only [hcmd] at h1 <;> (cases s0 with
      | none => cases h1
      | some sx => exact ⟨sx, h1⟩)
  obtain ⟨sx, h1'⟩ := h1'
  have hpost := addTaskState_post E _ _ _ _ _ _ h1'
  obtain ⟨c2, c3, hget, h3⟩ := M.bind_ok h2
  obtain ⟨e1, e2⟩ := get_ok hget
  subst e1 e2
  obtain ⟨r, c4, hl, h4⟩ := M.bind_ok h3
  obtain ⟨hr, e3⟩ := liftOpt_ok hl
  subst e3
  rw [hpost.1] at hr
  cases hr
  simp only [newRecord_status, Option.any_none, Bool.false_and] at h4
  obtain ⟨e4, e5⟩ := pure_ok h4
  subst e4 e5
  exact ⟨_, hpost.1, newRecord_id E _ _ _ _⟩

/-- phase 1 returns a record of the reported task -/
theorem ensureRecord_id (k : TaskKey) (ev : Event) (c c1 : Cond) (idx : Nat) (hk : TK c)
    (h : ensureRecord E k (c.st.getStaged? k) (c.st.taskIdx? k) ev c = (.ok idx, c1)) :
    ∃ r, c1.st.sequence[idx]? = some r ∧ r.id = k.1 := by
  cases hcmd : isCmdName k.1 with
  | false =>
    have hk1 : TK c1 := by
      have := TK.step ((ensureRecord_tk E k (c.st.getStaged? k) (c.st.taskIdx? k) ev).run c) hk
      rw [h] at this
      exact this
    exact hk1.taskIdx (ensureRecord_taskIdx E k ev c c1 idx hcmd h)
  | true => exact ensureRecord_cmd_id E k _ _ ev c c1 idx hcmd h

theorem updateHead_jt (k : TaskKey) (ev : Event) (c : Cond) (hj : JT c) (hk : TK c) :
    JT (updateHead E k ev c).2 := by
  unfold updateHead
  rw [M.bind_run]
  simp only [M.get]
  split
  · exact hj
  apply jt_bind
  · rw [liftOpt_state]; exact hj
  intro ts c0 h0
  obtain ⟨_, e0⟩ := liftOpt_ok h0
  subst e0
  split
  · exact hj
  have hs : ∀ sx, c.st.getStaged? k = some sx → PrevT c k.1 sx.prev := by
    intro sx hsx
    have hkey := getStaged?_key _ _ _ hsx
    have hid : sx.id = k.1 := by rw [← hkey]
    rw [← hid]
    apply hj.staged sx
    unfold WState.getStaged? at hsx
    exact List.mem_of_find?_eq_some hsx
  have hj1 := ensureRecord_jt E k _ (c.st.taskIdx? k) ev c hj hs
  apply jt_bind
  · exact hj1
  intro idx c1 h1
  rw [h1] at hj1
  obtain ⟨r1, hr1, hid1⟩ := ensureRecord_id E k ev c c1 idx hk h1
  apply jt_bind_uniform (noteEvent_nxa _ _ _) (noteEvent_ext _ _ _) (noteEvent_prev _ _ _) hj1
  intro u c2 h2 _ hj2
  have hsq := (noteEvent_sq k (c.st.getStaged? k) ev).run c1
  rw [h2] at hsq
  have hid2 : IdAt c2 idx k.1 := by
    intro r hr
    rw [hsq.1, hr1] at hr
    cases hr
    exact hid1
  apply jt_bind
  · exact machineStep_jt k idx ev c2 hj2 hid2
  intro p c3 h3
  have := machineStep_jt k idx ev c2 hj2 hid2
  rw [h3] at this
  exact this

/-! ### the invariants together -/

structure Inv (c : Cond) : Prop where
  dec : Dec c
  tk : TK c
  gk : KeysOk c.graph.edges
  jt : JT c

theorem Inv.of {c c' : Cond} (hi : Inv c) (w : DecStepW c c') (t : TKStep c c') (g : gPre.R c c') (j : JT c') :
    Inv c' := ⟨Dec.stepW w hi.dec, TK.step t hi.tk, by rw [g.2]; exact hi.gk, j⟩

/-- a Hoare judgement for the bundle -/
structure JI {α} (m : M α) : Prop where
  run : ∀ c, Inv c → Inv (m c).2

theorem JI.of_rel {α} {m : M α} (h1 : Rel decStep m) (h2 : Rel tkPre m) (h3 : Rel gPre m) (h4 : Rel nxaPre m)
    (h5 : Rel prevPre m) : JI m :=
  ⟨fun c hi => hi.of (h1.run c).weak (h2.run c) (h3.run c) (JT.step (h4.run c).toMK (h2.run c).ext (h5.run c) hi.jt)⟩

theorem JI.pure {α} (a : α) : JI (Pure.pure a : M α) := ⟨fun _ hi => hi⟩

theorem JI.bind {α β} {m : M α} {f : α → M β} (hm : JI m) (hf : ∀ a, JI (f a)) : JI (m >>= f) := by
  constructor
  intro c hi
  have h1 := hm.run c hi
  rw [M.bind_run]
  cases h : m c with
  | mk res c1 =>
    rw [h] at h1
    cases res with
    | ok a => exact (hf a).run c1 h1
    | error e => exact h1

theorem JI.forEach {α} (xs : List α) {f : α → M Unit} (hf : ∀ x, JI (f x)) : JI (M.forEach xs f) := by
  induction xs with
  | nil => exact JI.pure ()
  | cons x xs ih =>
    show JI (M.bind' (f x) fun _ => M.forEach xs f)
    exact JI.bind (hf x) (fun _ => ih)

theorem updateRest_jt (recur : TaskKey → Event → M Unit)
    (hrec : ∀ nk cmd, Cmd.ofStr? nk.1 = some cmd → JI (recur nk (.engine cmd)))
    (k : TaskKey) (ev : Event) (h : Stepped) (c : Cond) (hi : Inv c)
    (hcomp : h.newStatus.isCompleted = true → CompAt c h.idx)
    (hund : h.newStatus ≠ h.oldStatus → Undecided c h.idx) :
    JT (updateRest E recur k ev h c).2 := by
  unfold updateRest
  have hfirst : ∀ acc c1, (if h.newStatus.isCompleted && h.newStatus != h.oldStatus then evalTransitions E k h.idx h.ts ev
      else pure {} : M TransAcc) c = (acc, c1) → Inv c1 := by
    intro acc c1 h1
    split at h1
    · rename_i hcond
      simp only [Bool.and_eq_true] at hcond
      have hne : h.newStatus ≠ h.oldStatus := by
        intro he
        have := hcond.2
        rw [he] at this
        revert this
        cases h.oldStatus <;> decide
      have w := ((evalTransitions_at E k h.idx h.ts ev).run c (hcomp hcond.1)).2.weak
      have t := (evalTransitions_tk E k h.idx h.ts ev).run c
      have g := (evalTransitions_g E k h.idx h.ts ev).run c
      have j := evalTransitions_jt E k h.idx h.ts ev c hi.jt (hcomp hcond.1) (hund hne) hi.gk
      rw [h1] at w t g j
      exact hi.of w t g j
    · have : c1 = c := by
        simp only [pure, M.pure', Prod.mk.injEq] at h1
        exact h1.2.symm
      subst this
      exact hi
  rw [M.bind_run]
  cases h1 : (if h.newStatus.isCompleted && h.newStatus != h.oldStatus then evalTransitions E k h.idx h.ts ev
      else pure {} : M TransAcc) c with
  | mk res c1 =>
    have hi1 := hfirst res c1 h1
    cases res with
    | error e => exact hi1.jt
    | ok acc =>
      dsimp only
      have hrest : JI (do
          let c ← M.get
          let r ← liftOpt c.st.sequence[h.idx]? .indexError
          let st ← liftOpt r.status .keyError
          wfProcessTaskEvent k st
          M.forEach acc.queue fun nk =>
            match Cmd.ofStr? nk.1 with
            | some cmd => recur nk (.engine cmd)
            | none => pure ()
          markTermIfCompleted h.idx : M Unit) := by
        apply JI.bind (JI.of_rel Rel.get Rel.get Rel.get Rel.get Rel.get)
        intro c2
        apply JI.bind (JI.of_rel (Rel.liftOpt _ _) (Rel.liftOpt _ _) (Rel.liftOpt _ _) (Rel.liftOpt _ _) (Rel.liftOpt _ _))
        intro r
        apply JI.bind (JI.of_rel (Rel.liftOpt _ _) (Rel.liftOpt _ _) (Rel.liftOpt _ _) (Rel.liftOpt _ _) (Rel.liftOpt _ _))
        intro st
        apply JI.bind (JI.of_rel (wfProcessTaskEvent_dec _ _) (wfProcessTaskEvent_tk _ _) (wfProcessTaskEvent_g _ _)
          (Rel.nxa_of_nx (wfProcessTaskEvent_nx _ _)) (wfProcessTaskEvent_prev _ _))
        intro _
        apply JI.bind
        · apply JI.forEach
          intro nk
          split
          · rename_i cmd hcmd
            exact hrec nk cmd hcmd
          · exact JI.pure ()
        · intro _
          exact JI.of_rel (markTermIfCompleted_dec _) (markTermIfCompleted_tk _) (markTermIfCompleted_g _)
            (markTermIfCompleted_nxa _) (markTermIfCompleted_prev _)
      exact (hrest.run c1 hi1).jt

theorem updateTail_jt (recur : TaskKey → Event → M Unit)
    (hrec : ∀ k ev c, Inv c → Pre18 k ev c → Inv (recur k ev c).2)
    (k : TaskKey) (ev : Event) (h : Stepped) (c : Cond) (hi : Inv c) (hpost : HeadPost h c)
    (hidx : isCmdName k.1 = false → c.st.taskIdx? k = some h.idx) :
    JT (updateTail E recur k ev h c).2 := by
  unfold updateTail
  have hm1 : Rel decStep (if h.newStatus.isCompleted then completedRetryDecision E k h.idx h.ts h.oldStatus h.newStatus ev
      else pure false : M Bool) := by
    split
    · exact completedRetryDecision_dec E _ _ _ _ _ _
    · exact Rel.pure _
  have hm1p : Rel prevPre (if h.newStatus.isCompleted then completedRetryDecision E k h.idx h.ts h.oldStatus h.newStatus ev
      else pure false : M Bool) := by
    split
    · exact completedRetryDecision_prev E _ _ _ _ _ _
    · exact Rel.pure _
  have hm1k : Rel rkPre (if h.newStatus.isCompleted then completedRetryDecision E k h.idx h.ts h.oldStatus h.newStatus ev
      else pure false : M Bool) := by
    split
    · exact completedRetryDecision_rk E _ _ _ _ _ _
    · exact Rel.pure _
  have hm1n : Rel nxPre (if h.newStatus.isCompleted then completedRetryDecision E k h.idx h.ts h.oldStatus h.newStatus ev
      else pure false : M Bool) := by
    split
    · exact completedRetryDecision_nx E _ _ _ _ _ _
    · exact Rel.pure _
  have hm1t : Rel tkPre (if h.newStatus.isCompleted then completedRetryDecision E k h.idx h.ts h.oldStatus h.newStatus ev
      else pure false : M Bool) := by
    split
    · exact completedRetryDecision_tk E _ _ _ _ _ _
    · exact Rel.pure _
  have hm1g : Rel gPre (if h.newStatus.isCompleted then completedRetryDecision E k h.idx h.ts h.oldStatus h.newStatus ev
      else pure false : M Bool) := by
    split
    · exact completedRetryDecision_g E _ _ _ _ _ _
    · exact Rel.pure _
  have hs5 := hm1.run c
  have hk5 := hm1k.run c
  have hn5 := hm1n.run c
  have hi5 := (JI.of_rel hm1 hm1t hm1g (Rel.nxa_of_nx hm1n) hm1p).run c hi
  apply jt_bind
  · exact hi5.jt
  intro retry c5 h5
  rw [h5] at hs5 hk5 hn5 hi5
  obtain ⟨r, hr, hstat, hund⟩ := hpost
  obtain ⟨r5, hr5, st5⟩ := hs5.old h.idx r hr
  have hund5 : h.newStatus ≠ h.oldStatus → Undecided c5 h.idx := by
    intro hne r' hr'
    rw [hr5] at hr'
    cases hr'
    rw [nx_getElem hn5 hr hr5]
    exact hund hne
  cases retry with
  | false =>
    apply updateRest_jt E recur _ k ev h c5 hi5
    · intro hcomp
      have hcr : Comp r := by
        cases hs : r.status with
        | none => rw [hs] at hstat; simp only [Option.getD_none] at hstat; rw [← hstat] at hcomp; cases hcomp
        | some s =>
          rw [hs] at hstat
          simp only [Option.getD_some] at hstat
          exact ⟨s, hs, by rw [hstat]; exact hcomp⟩
      exact ⟨r5, hr5, Comp.step st5 hcr⟩
    · exact hund5
    · intro nk cmd hcmd
      constructor
      intro c' hi'
      apply hrec nk _ c' hi'
      intro _
      left
      unfold isCmdName
      rw [hcmd]
      rfl
  | true =>
    apply (hrec k _ c5 hi5 _).jt
    intro _
    cases hcmd : isCmdName k.1 with
    | true => left; rfl
    | false =>
      right
      refine ⟨h.idx, ?_, ?_⟩
      · have := hidx hcmd
        unfold WState.taskIdx? at this ⊢
        rw [hk5.2]
        exact this
      · have hne : h.newStatus ≠ h.oldStatus := by
          split at h5
          · exact completedRetryDecision_changed E _ _ _ _ _ _ _ _ h5
          · obtain ⟨e, _⟩ := pure_ok h5
            cases e
        exact hund5 hne

theorem updateTaskStateAux_inv (fuel : Nat) (k : TaskKey) (ev : Event) (c : Cond) (hi : Inv c)
    (hpre : Pre18 k ev c) : Inv (updateTaskStateAux E fuel k ev c).2 := by
  induction fuel generalizing k ev c with
  | zero => unfold updateTaskStateAux; exact hi
  | succ n ih =>
    refine hi.of (updateTaskStateAux_decw E (n + 1) k ev c hi.dec hpre) ((updateTaskStateAux_tk E (n + 1) k ev).run c)
      ((updateTaskStateAux_g E (n + 1) k ev).run c) ?_
    unfold updateTaskStateAux
    obtain ⟨hw, hpost⟩ := updateHead_decw E k ev c hi.dec hpre
    have hjh := updateHead_jt E k ev c hi.jt hi.tk
    have ht := (updateHead_tk E k ev).run c
    have hg := (updateHead_g E k ev).run c
    apply jt_bind
    · exact hjh
    intro h c4 h4
    rw [h4] at hw hjh ht hg
    apply updateTail_jt E _ (fun k ev c hi hp => ih k ev c hi hp) k ev h c4 (hi.of hw ht hg hjh) (hpost h c4 h4)
    intro hcmd
    exact updateHead_taskIdx E k ev c c4 h h4 hcmd

/-! ### rerun -/

theorem requestTaskRerun_jt (k : TaskKey) (resetItems : Bool) (c : Cond) (hj : JT c) (hk : TK c) :
    JT (requestTaskRerun E k resetItems c).2 := by
  unfold requestTaskRerun
  rw [M.bind_run]
  simp only [M.get]
  apply jt_bind
  · rw [liftOpt_state]; exact hj
  intro idx c0 h0
  obtain ⟨hidx, e0⟩ := liftOpt_ok h0
  subst e0
  apply jt_bind
  · rw [liftOpt_state]; exact hj
  intro task c0 h0
  obtain ⟨htask, e0⟩ := liftOpt_ok h0
  subst e0
  apply jt_bind
  · rw [liftOpt_state]; exact hj
  intro ts c0 h0
  obtain ⟨_, e0⟩ := liftOpt_ok h0
  subst e0
  have hprev : PrevT c k.1 task.prev := by
    obtain ⟨r, hr, hid⟩ := hk.taskIdx hidx
    rw [htask] at hr
    cases hr
    rw [← hid]
    exact hj.recs task (List.mem_of_getElem? htask)
  apply jt_bind_uniform (by nxa_walk []) (by ext_walk []) (by prev_walk []) hj
  intro u c1 _ w1 hj1
  apply jt_bind_uniform (by nxa_walk []) (by ext_walk []) (by prev_walk []) hj1
  intro u c2 _ w2 hj2
  have hprev2 : PrevT c2 k.1 task.prev := (hprev.mono w1).mono w2
  have hmid : ∀ (u : Except Err Unit) c3, ((if ts.withItems.isSome then do
        let c ← M.get
        if (c.st.getStaged? k).isNone then M.throw .attributeError
        else M.modifySt fun st => st.updateStaged k fun x =>
          { x with items := x.items.map fun l => l.map fun s => if resetItems || s.isAbended then .unset else s }
      else do
        let _ ← addTaskState E k task.ctxsIn task.prev
        M.modifySt fun st => st.addStaged
          { id := k.1, route := k.2, ctxsIn := if task.ctxsIn.isEmpty then [0] else task.ctxsIn,
            prev := task.prev, ready := true } : M Unit) c2) = (u, c3) → JT c3 := by
    intro u c3 hrun
    split at hrun
    · have hjj := JT.uniform (m := (do
          let c ← M.get
          if (c.st.getStaged? k).isNone then M.throw .attributeError
          else M.modifySt fun st => st.updateStaged k fun x =>
            { x with items := x.items.map fun l => l.map fun s => if resetItems || s.isAbended then .unset else s } : M Unit))
        (by nxa_walk []) (by ext_walk []) (by prev_walk []) c2 hj2
      rw [hrun] at hjj
      exact hjj
    · rw [M.bind_run] at hrun
      have ha := addTaskState_jt E k task.ctxsIn task.prev c2 hj2 hprev2
      have wa := ((addTaskState_nxa E k task.ctxsIn task.prev).run c2).toMK
      cases hadd : addTaskState E k task.ctxsIn task.prev c2 with
      | mk res ca =>
        rw [hadd] at hrun ha wa
        cases res with
        | error e =>
          have : c3 = ca := by cases hrun; rfl
          subst this
          exact ha
        | ok i =>
          simp only [M.modifySt, M.modify] at hrun
          have hc3 : c3 = { ca with st := (ca.st.addStaged
              ({ id := k.1, route := k.2, ctxsIn := if task.ctxsIn.isEmpty then [0] else task.ctxsIn,
                 prev := task.prev, ready := true } : Staged)) } := by cases hrun; rfl
          subst hc3
          refine JT.of_parts ?mk0 ?ext0 ha ?_ ?_
          case mk0 => exact ⟨fun i r m hr hm => ⟨r, hr, hm⟩⟩
          case ext0 => exact Ext.of_eq rfl rfl rfl
          · intro x' hx'
            rcases List.mem_append.mp hx' with hm | hm
            · left; exact ⟨x', hm, rfl, rfl⟩
            · right
              simp only [List.mem_singleton] at hm
              subst hm
              exact hprev2.mono wa
          · intro i r' hr' hlen
            have h2 : i < ca.st.sequence.length := (List.getElem?_eq_some_iff.mp hr').1
            have h3 : ca.st.sequence.length ≤ i := hlen
            omega
  rw [M.bind_run]
  cases hrun : (if ts.withItems.isSome then do
        let c ← M.get
        if (c.st.getStaged? k).isNone then M.throw .attributeError
        else M.modifySt fun st => st.updateStaged k fun x =>
          { x with items := x.items.map fun l => l.map fun s => if resetItems || s.isAbended then .unset else s }
      else do
        let _ ← addTaskState E k task.ctxsIn task.prev
        M.modifySt fun st => st.addStaged
          { id := k.1, route := k.2, ctxsIn := if task.ctxsIn.isEmpty then [0] else task.ctxsIn,
            prev := task.prev, ready := true } : M Unit) c2 with
  | mk res c3 =>
    have hj3 := hmid res c3 hrun
    cases res with
    | error e => exact hj3
    | ok _ =>
      dsimp only
      exact JT.uniform (by nxa_walk []) (by ext_walk []) (by prev_walk []) c3 hj3

theorem requestTaskRerun_ji (k : TaskKey) (r : Bool) : JI (requestTaskRerun E k r) :=
  ⟨fun c hi => hi.of ((requestTaskRerun_dec E k r).run c).weak ((requestTaskRerun_tk E k r).run c)
    ((requestTaskRerun_g E k r).run c) (requestTaskRerun_jt E k r c hi.jt hi.tk)⟩

theorem JI.throw {α} (e : Err) : JI (M.throw e : M α) := ⟨fun _ hi => hi⟩

theorem JI.mapM' {α β} (xs : List α) {f : α → M β} (hf : ∀ x, JI (f x)) : JI (M.mapM' xs f) := by
  induction xs with
  | nil => exact JI.pure _
  | cons x xs ih =>
    show JI (M.bind' (f x) fun y => M.bind' (M.mapM' xs f) fun ys => Pure.pure (y :: ys))
    exact JI.bind (hf x) (fun _ => JI.bind ih (fun _ => JI.pure _))

theorem requestRerun_ji (reqs : List RerunReq) : JI (requestRerun E reqs) := by
  unfold requestRerun
  repeat' (first
    | exact JI.pure _ | exact JI.throw _
    | exact JI.of_rel Rel.get Rel.get Rel.get Rel.get Rel.get
    | exact JI.of_rel (Rel.liftOpt _ _) (Rel.liftOpt _ _) (Rel.liftOpt _ _) (Rel.liftOpt _ _) (Rel.liftOpt _ _)
    | exact JI.of_rel (Rel.liftExcept _) (Rel.liftExcept _) (Rel.liftExcept _) (Rel.liftExcept _) (Rel.liftExcept _)
    | exact requestTaskRerun_ji E _ _
    | apply JI.bind | apply JI.forEach | apply JI.mapM'
    | intro _ | split
    | (apply JI.of_rel
       · dec_walk []
       · tk_walk []
       · g_walk []
       · nxa_walk []
       · prev_walk [])
    | dsimp only)

end Orq
