/-
The remediation flag of the transition loop: `manualFail` is raised only by a `fail` command on a
transition whose condition held (C04: a failed workflow offers clean-up tasks only beside a fail
command that fired).
-/
import OrqModel.Proofs.Post
import OrqModel.Proofs.RetryBound
namespace Orq
variable (E : Evaluator)

theorem stageNext_mf (k : TaskKey) (idx : Nat) (e : Edge) (outIdxs : List Nat) (acc : TransAcc) :
    Post (stageNext k idx e outIdxs acc)
      (fun acc' => acc'.manualFail = true → acc.manualFail = true ∨ e.dst = "fail") := by
  unfold stageNext
  refine Post.bind fun _ => Post.bind fun _ => Post.bind fun _ => Post.bind fun _ => ?_
  split
  · refine Post.pure ?_
    intro h
    simp only [Bool.or_eq_true, beq_iff_eq] at h
    exact h
  · split
    · exact Post.pure fun h => Or.inl h
    · exact Post.pure fun h => Or.inl h

theorem fireTransition_mf (k : TaskKey) (idx : Nat) (ec : EvalCtx) (acc : TransAcc) (e : Edge) :
    Post (fireTransition E k idx ec acc e)
      (fun acc' => acc'.manualFail = true → acc.manualFail = true ∨ e.dst = "fail") := by
  unfold fireTransition
  refine Post.bind fun _ => Post.bind fun _ => Post.bind fun _ => ?_
  dsimp only
  generalize renderSeq E _ _ _ = r
  obtain ⟨x, newCtx, nerr⟩ := r
  dsimp only
  split
  · exact Post.bind fun _ => Post.bind fun _ => Post.pure fun h => Or.inl h
  · exact Post.bind fun _ => Post.bind fun _ => stageNext_mf _ _ _ _ _

theorem processTransition_mf (k : TaskKey) (idx : Nat) (ec : EvalCtx) (acc : TransAcc) (e : Edge) :
    Post (processTransition E k idx ec acc e)
      (fun acc' => acc'.manualFail = true →
        acc.manualFail = true ∨ (e.dst = "fail" ∧ transCriteria E e ec = some true)) := by
  unfold processTransition
  cases htc : transCriteria E e ec with
  | none =>
    exact Post.bind fun _ => Post.bind fun _ => Post.pure fun h => Or.inl h
  | some b =>
    refine Post.bind fun _ => ?_
    cases b with
    | false => exact Post.pure fun h => Or.inl h
    | true =>
      refine (fireTransition_mf E k idx ec acc e).mono fun a h hm => ?_
      rcases h hm with h1 | h1
      · exact Or.inl h1
      · exact Or.inr ⟨h1, rfl⟩

theorem foldTrans_mf (k : TaskKey) (idx : Nat) (ec : EvalCtx) (ts : List Edge) (acc : TransAcc) :
    Post (M.foldM' ts acc (processTransition E k idx ec))
      (fun acc' => acc'.manualFail = true →
        acc.manualFail = true ∨ ∃ e ∈ ts, e.dst = "fail" ∧ transCriteria E e ec = some true) := by
  refine Post.foldM' ts acc _ (fun h => Or.inl h) ?_
  intro b e hb he
  refine (processTransition_mf E k idx ec b e).mono fun a h hm => ?_
  rcases h hm with h1 | h1
  · exact hb h1
  · exact Or.inr ⟨e, he, h1⟩

end Orq
