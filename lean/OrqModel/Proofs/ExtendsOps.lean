/-
Every API operation of the conductor model (rerun included) is increasing for the append-only
preorder, for every evaluator.
-/
import OrqModel.Proofs.Extends

namespace Orq

variable (E : Evaluator)

macro "ext_core" : tactic => `(tactic| first
  | rfl
  | (apply WState.updateRec_core; intro r; rfl)
  | (simp; done)
  | (simp only [WState.removeStaged_sequence, WState.addStaged_sequence, WState.updateStaged_sequence,
       WState.setTask_sequence]
     apply WState.updateRec_core; intro r; rfl))

/-- leaves: a state update that touches no context/route/record core, or appends one -/
macro "ext_leaf" : tactic => `(tactic| (
  apply Rel.modifySt_ext
  intro st
  first
  | exact Ext.appendRec _ _ _ _
  | exact Ext.appendRoute _ _
  | exact Ext.appendCtx _ _ _ _ _ (fun _ => rfl)
  | exact Ext.appendRerun _ _
  | exact Ext.setStatus _ _
  | exact Ext.of_eq (by simp) (by simp) (by ext_core) (by first | rfl | (simp; done))))

syntax "ext_walk" "[" term,* "]" : tactic
macro_rules
  | `(tactic| ext_walk [$ts,*]) => do
    let alts ← ts.getElems.mapM fun t => `(tactic| exact $t)
    `(tactic| repeat' (first
      | exact Rel.pure _ | exact Rel.pure' _ | exact Rel.throw _ | exact Rel.get
      | exact Rel.liftOpt _ _ | exact Rel.liftExcept _
      | exact wfProcessWorkflowEvent_ext _ | exact wfProcessTaskEvent_ext _ _
      | exact tkProcessWorkflowEvent_ext _ _ | exact tkProcessEvent_ext _ _
      | exact logError_ext _ _ _ _ | exact logEntry_ext _
      $[| $alts:tactic]*
      | ext_leaf
      | (apply Rel.modify_ext; intro c; rfl)
      | apply Rel.bind | apply Rel.bind' | apply Rel.tryCatch | apply Rel.forEach | apply Rel.foldM' | apply Rel.mapM'
      | intro _ | split | dsimp only ))

theorem requestStatus_ext (req) : Rel extPre (requestStatus req) := by
  unfold requestStatus
  ext_walk []

theorem failOnError_ext : Rel extPre failOnError := by
  unfold failOnError
  ext_walk [requestStatus_ext _]

theorem getTask_ext (k) : Rel extPre (getTask E k) := by
  unfold getTask
  ext_walk []

theorem evaluateTaskActions_ext (o) : Rel extPre (evaluateTaskActions o) := by
  unfold evaluateTaskActions
  ext_walk []

theorem nextTaskFor_ext (sx) : Rel extPre (nextTaskFor E sx) := by
  unfold nextTaskFor
  ext_walk [getTask_ext E _, evaluateTaskActions_ext _]

theorem nextFrom_ext (todo) : Rel extPre (nextFrom E todo) := by
  unfold nextFrom
  ext_walk [nextTaskFor_ext E _, requestStatus_ext _, failOnError_ext]

theorem getNextTasks_ext : Rel extPre (getNextTasks E) :=
  ⟨fun c => (nextFrom_ext E (nextTodo c.st)).run c⟩

theorem addTaskState_ext (k a b) : Rel extPre (addTaskState E k a b) := by
  unfold addTaskState
  ext_walk [requestStatus_ext _, failOnError_ext]

theorem evaluateRoute_ext (e r) : Rel extPre (evaluateRoute e r) := by
  unfold evaluateRoute
  ext_walk []

theorem stageNext_ext (k idx e o acc) : Rel extPre (stageNext k idx e o acc) := by
  unfold stageNext stageTarget
  ext_walk [evaluateRoute_ext _ _]

theorem fireTransition_ext (k idx ec acc e) : Rel extPre (fireTransition E k idx ec acc e) := by
  unfold fireTransition
  ext_walk [requestStatus_ext _, failOnError_ext, stageNext_ext _ _ _ _ _]

theorem processTransition_ext (k idx ec acc e) : Rel extPre (processTransition E k idx ec acc e) := by
  unfold processTransition
  ext_walk [requestStatus_ext _, failOnError_ext, fireTransition_ext E _ _ _ _ _]

theorem makeTaskContext_ext (k idx r) : Rel extPre (makeTaskContext k idx r) := by
  unfold makeTaskContext
  ext_walk []

theorem ensureRecord_ext (k s r ev) : Rel extPre (ensureRecord E k s r ev) := by
  unfold ensureRecord firstRecord recordFromStaged
  ext_walk [addTaskState_ext E _ _ _]

theorem noteEvent_ext (k s ev) : Rel extPre (noteEvent k s ev) := by
  unfold noteEvent
  ext_walk []

theorem restageRetry_ext (k idx o) : Rel extPre (restageRetry k idx o) := by
  unfold restageRetry
  ext_walk []

theorem completedRetryDecision_ext (k idx ts os ns ev) : Rel extPre (completedRetryDecision E k idx ts os ns ev) := by
  unfold completedRetryDecision
  ext_walk [makeTaskContext_ext _ _ _, requestStatus_ext _, failOnError_ext]

theorem evalTransitions_ext (k idx ts ev) : Rel extPre (evalTransitions E k idx ts ev) := by
  unfold evalTransitions
  ext_walk [makeTaskContext_ext _ _ _, processTransition_ext E _ _ _ _ _]

theorem markTermIfCompleted_ext (idx) : Rel extPre (markTermIfCompleted idx) := by
  unfold markTermIfCompleted
  ext_walk []

theorem machineStep_ext (k idx ev) : Rel extPre (machineStep k idx ev) := by
  unfold machineStep
  ext_walk [restageRetry_ext _ _ _]

theorem updateHead_ext (k ev) : Rel extPre (updateHead E k ev) := by
  unfold updateHead
  ext_walk [ensureRecord_ext E _ _ _ _, noteEvent_ext _ _ _, machineStep_ext _ _ _]

theorem updateTail_ext (recur : TaskKey → Event → M Unit) (hrec : ∀ k ev, Rel extPre (recur k ev))
    (k ev h) : Rel extPre (updateTail E recur k ev h) := by
  unfold updateTail updateRest
  ext_walk [hrec _ _, completedRetryDecision_ext E _ _ _ _ _ _, evalTransitions_ext E _ _ _ _, markTermIfCompleted_ext _]

theorem updateTaskStateAux_ext (fuel k ev) : Rel extPre (updateTaskStateAux E fuel k ev) := by
  induction fuel generalizing k ev with
  | zero => unfold updateTaskStateAux; exact Rel.throw _
  | succ n ih =>
    unfold updateTaskStateAux
    ext_walk [updateHead_ext E _ _, updateTail_ext E _ (fun k ev => ih k ev) _ _ _]

theorem updateTaskState_ext (k ev) : Rel extPre (updateTaskState E k ev) := updateTaskStateAux_ext E 3 k ev

theorem terminalContext_ext : Rel extPre terminalContext := by
  unfold terminalContext
  ext_walk []

theorem renderOutput_ext : Rel extPre (renderOutput E) := by
  unfold renderOutput
  ext_walk [terminalContext_ext, requestStatus_ext _, failOnError_ext]

theorem requestTaskRerun_ext (k r) : Rel extPre (requestTaskRerun E k r) := by
  unfold requestTaskRerun
  ext_walk [addTaskState_ext E _ _ _]

theorem requestRerun_ext (reqs) : Rel extPre (requestRerun E reqs) := by
  unfold requestRerun
  ext_walk [requestTaskRerun_ext E _ _]

end Orq
