/-
C11: the error log only grows.  Outside a rerun (which deliberately clears the entries of the tasks
it reruns) every API call leaves the recorded errors in place, in order, and appends.
-/
import OrqModel.Proofs.FrozenOps

namespace Orq

variable (E : Evaluator)

def errPre : Pre where
  R c c' := c.errors <+: c'.errors
  refl _ := List.prefix_refl _
  trans h1 h2 := List.IsPrefix.trans h1 h2

theorem Rel.modifySt_err {f : WState → WState} : Rel errPre (M.modifySt f) := ⟨fun c => List.prefix_refl _⟩

theorem logEntry_err (e) : Rel errPre (logEntry e) := by
  constructor
  intro c
  unfold logEntry M.modify
  dsimp only
  split
  · exact List.prefix_refl _
  · exact List.prefix_append _ _

theorem Rel.raw_err {α} {m : M α} (h : ∀ c, c.errors <+: (m c).2.errors) : Rel errPre m := ⟨h⟩

theorem forEach_logError_err (xs : List Staged) :
    Rel errPre (M.forEach xs fun x => logError "UnreachableJoinError" (some x.id) (some x.route)) :=
  Rel.forEach xs (fun x => logEntry_err _)

theorem wfProcessTaskEvent_err (k ev) : Rel errPre (wfProcessTaskEvent k ev) := by
  apply Rel.raw_err
  intro c
  unfold wfProcessTaskEvent
  dsimp only
  split
  · exact List.prefix_refl _
  · split
    · split
      · exact List.prefix_refl _
      · show errPre.R ({ c with st := { c.st with status := Status.failed } } : Cond) _
        exact (forEach_logError_err _).run _
    · exact List.prefix_refl _

theorem wfProcessWorkflowEvent_err (req) : Rel errPre (wfProcessWorkflowEvent req) := by
  apply Rel.raw_err
  intro c
  unfold wfProcessWorkflowEvent
  dsimp only
  split
  · exact List.prefix_refl _
  · split
    · split
      · exact List.prefix_refl _
      · show errPre.R ({ c with st := { c.st with status := Status.failed } } : Cond) _
        exact (forEach_logError_err _).run _
    · exact List.prefix_refl _

theorem tkProcessWorkflowEvent_err (i req) : Rel errPre (tkProcessWorkflowEvent i req) := by
  apply Rel.raw_err
  intro c
  unfold tkProcessWorkflowEvent
  repeat' (first | exact List.prefix_refl _ | split | dsimp only)

theorem tkProcessEvent_err (i ev) : Rel errPre (tkProcessEvent i ev) := by
  apply Rel.raw_err
  intro c
  unfold tkProcessEvent
  repeat' (first | exact List.prefix_refl _ | split | dsimp only)

syntax "err_walk" "[" term,* "]" : tactic
macro_rules
  | `(tactic| err_walk [$ts,*]) => do
    let alts ← ts.getElems.mapM fun t => `(tactic| exact $t)
    `(tactic| repeat' (first
      | exact Rel.pure _ | exact Rel.pure' _ | exact Rel.throw _ | exact Rel.get
      | exact Rel.liftOpt _ _ | exact Rel.liftExcept _
      | exact wfProcessWorkflowEvent_err _ | exact wfProcessTaskEvent_err _ _
      | exact tkProcessWorkflowEvent_err _ _ | exact tkProcessEvent_err _ _
      | exact logEntry_err _
      $[| $alts:tactic]*
      | exact Rel.modifySt_err
      | (apply Rel.raw_err; intro c; exact List.prefix_refl _)
      | apply Rel.bind | apply Rel.bind' | apply Rel.tryCatch | apply Rel.forEach | apply Rel.foldM' | apply Rel.mapM'
      | intro _ | split | dsimp only ))

theorem logError_err (k a b c) : Rel errPre (logError k a b c) := logEntry_err _

theorem requestStatus_err (req) : Rel errPre (requestStatus req) := by
  unfold requestStatus
  err_walk []

theorem failOnError_err : Rel errPre failOnError := by
  unfold failOnError
  err_walk [requestStatus_err _]

theorem getTask_err (k) : Rel errPre (getTask E k) := by
  unfold getTask
  err_walk []

theorem evaluateTaskActions_err (o) : Rel errPre (evaluateTaskActions o) := by
  unfold evaluateTaskActions
  err_walk []

theorem nextTaskFor_err (sx) : Rel errPre (nextTaskFor E sx) := by
  unfold nextTaskFor
  err_walk [getTask_err E _, evaluateTaskActions_err _, logError_err _ _ _ _]

theorem nextFrom_err (todo) : Rel errPre (nextFrom E todo) := by
  unfold nextFrom
  err_walk [nextTaskFor_err E _, failOnError_err]

theorem getNextTasks_err : Rel errPre (getNextTasks E) :=
  ⟨fun c => (nextFrom_err E (nextTodo c.st)).run c⟩

theorem evaluateRoute_err (e r) : Rel errPre (evaluateRoute e r) := by
  unfold evaluateRoute
  err_walk []

theorem stageNext_err (k idx e o acc) : Rel errPre (stageNext k idx e o acc) := by
  unfold stageNext stageTarget
  err_walk [evaluateRoute_err _ _]

theorem fireTransition_err (k idx ec acc e) : Rel errPre (fireTransition E k idx ec acc e) := by
  unfold fireTransition
  err_walk [failOnError_err, stageNext_err _ _ _ _ _, logError_err _ _ _ _]

theorem processTransition_err (k idx ec acc e) : Rel errPre (processTransition E k idx ec acc e) := by
  unfold processTransition
  err_walk [failOnError_err, fireTransition_err E _ _ _ _ _, logError_err _ _ _ _]

theorem makeTaskContext_err (k idx r) : Rel errPre (makeTaskContext k idx r) := by
  unfold makeTaskContext
  err_walk []

theorem addTaskState_err (k a b) : Rel errPre (addTaskState E k a b) := by
  unfold addTaskState
  err_walk [failOnError_err, logError_err _ _ _ _]

theorem ensureRecord_err (k s r ev) : Rel errPre (ensureRecord E k s r ev) := by
  unfold ensureRecord firstRecord recordFromStaged
  err_walk [addTaskState_err E _ _ _]

theorem noteEvent_err (k s ev) : Rel errPre (noteEvent k s ev) := by
  unfold noteEvent
  err_walk []

theorem restageRetry_err (k idx o) : Rel errPre (restageRetry k idx o) := by
  unfold restageRetry
  err_walk []

theorem machineStep_err (k idx ev) : Rel errPre (machineStep k idx ev) := by
  unfold machineStep
  err_walk [restageRetry_err _ _ _]

theorem completedRetryDecision_err (k idx ts os ns ev) : Rel errPre (completedRetryDecision E k idx ts os ns ev) := by
  unfold completedRetryDecision
  err_walk [makeTaskContext_err _ _ _, failOnError_err, logError_err _ _ _ _]

theorem evalTransitions_err (k idx ts ev) : Rel errPre (evalTransitions E k idx ts ev) := by
  unfold evalTransitions
  err_walk [makeTaskContext_err _ _ _, processTransition_err E _ _ _ _ _]

theorem markTermIfCompleted_err (idx) : Rel errPre (markTermIfCompleted idx) := by
  unfold markTermIfCompleted
  err_walk []

theorem updateHead_err (k ev) : Rel errPre (updateHead E k ev) := by
  unfold updateHead
  err_walk [ensureRecord_err E _ _ _ _, noteEvent_err _ _ _, machineStep_err _ _ _]

theorem updateTail_err (recur : TaskKey → Event → M Unit) (hrec : ∀ k ev, Rel errPre (recur k ev))
    (k ev h) : Rel errPre (updateTail E recur k ev h) := by
  unfold updateTail updateRest
  err_walk [hrec _ _, completedRetryDecision_err E _ _ _ _ _ _, evalTransitions_err E _ _ _ _, markTermIfCompleted_err _]

theorem updateTaskStateAux_err (fuel k ev) : Rel errPre (updateTaskStateAux E fuel k ev) := by
  induction fuel generalizing k ev with
  | zero => unfold updateTaskStateAux; exact Rel.throw _
  | succ n ih =>
    unfold updateTaskStateAux
    err_walk [updateHead_err E _ _, updateTail_err E _ (fun k ev => ih k ev) _ _ _]

theorem terminalContext_err : Rel errPre terminalContext := by
  unfold terminalContext
  err_walk []

theorem renderOutput_err : Rel errPre (renderOutput E) := by
  unfold renderOutput
  err_walk [terminalContext_err, failOnError_err, logError_err _ _ _ _]

end Orq
