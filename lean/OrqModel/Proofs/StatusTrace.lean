/-
Refinement of the conductor's API operations to the *workflow status automaton*: every operation
changes the workflow status only by a finite sequence of moves, each of which is one application
of the extracted state-machine functions (for *some* answers of the state queries), the
unreachable-join switch to `failed`, or — for `request_workflow_rerun` only — the explicit reset
to `resuming`.  All status-closure properties (C02, C04, C09, C10) are then corollaries of
`decide`d facts about the generated tables.
-/
import OrqModel.Proofs.Rel

namespace Orq

/-- one move of the workflow status automaton (without rerun).  `A` is the set of statuses that
    may be *requested* (explicitly by the provider, or `failed` by the conductor itself). -/
inductive WfMove (A : Status → Bool) : Status → Status → Prop
  | taskEvent {s s'} (ev : Status) (rem act : Bool) (oc : Outcome) :
      wfOnTaskEvent s ev rem act oc = .ok s' → WfMove A s s'
  | taskEventUnreach {s s'} (ev : Status) (rem act : Bool) (oc : Outcome) :
      wfOnTaskEvent s ev rem act oc = .ok s' → s' ≠ s → wfUnreachCheck s' = true → WfMove A s .failed
  | wfEvent {s s'} (req : Status) (a st p : Bool) :
      A req = true → wfOnWorkflowEvent s req a st p = .ok s' → WfMove A s s'
  | wfEventUnreach {s s'} (req : Status) (a st p : Bool) :
      A req = true → wfOnWorkflowEvent s req a st p = .ok s' → s' ≠ s → wfReqUnreachCheck s' = true →
      WfMove A s .failed

inductive WfTrace (A : Status → Bool) : Status → Status → Prop
  | refl (s) : WfTrace A s s
  | step {a b c} : WfMove A a b → WfTrace A b c → WfTrace A a c

theorem WfTrace.trans {A} {a b c} (h1 : WfTrace A a b) (h2 : WfTrace A b c) : WfTrace A a c := by
  induction h1 with
  | refl => exact h2
  | step m _ ih => exact .step m (ih h2)

theorem WfTrace.single {A} {a b} (m : WfMove A a b) : WfTrace A a b := .step m (.refl _)

/-- a set of statuses closed under every move is closed under traces -/
theorem WfTrace.closed {A} {S : Status → Prop} (hS : ∀ a b, S a → WfMove A a b → S b)
    {a b} (h : WfTrace A a b) (ha : S a) : S b := by
  induction h with
  | refl => exact ha
  | step m _ ih => exact ih (hS _ _ ha m)

theorem WfMove.mono {A B : Status → Bool} (hAB : ∀ s, A s = true → B s = true) {a b}
    (h : WfMove A a b) : WfMove B a b := by
  cases h with
  | taskEvent ev rem act oc h => exact .taskEvent ev rem act oc h
  | taskEventUnreach ev rem act oc h h1 h2 => exact .taskEventUnreach ev rem act oc h h1 h2
  | wfEvent req a st p hA h => exact .wfEvent req a st p (hAB _ hA) h
  | wfEventUnreach req a st p hA h h1 h2 => exact .wfEventUnreach req a st p (hAB _ hA) h h1 h2

theorem WfTrace.mono {A B : Status → Bool} (hAB : ∀ s, A s = true → B s = true) {a b}
    (h : WfTrace A a b) : WfTrace B a b := by
  induction h with
  | refl => exact .refl _
  | step m _ ih => exact .step (m.mono hAB) ih

def statusPre (A : Status → Bool) : Pre where
  R c c' := WfTrace A c.st.status c'.st.status
  refl _ := .refl _
  trans := WfTrace.trans

/-! ### frame lemmas: the state mutators that do not touch the status -/

@[simp] theorem WState.updateRec_status (s : WState) (i f) : (s.updateRec i f).status = s.status := rfl
@[simp] theorem WState.updateStaged_status (s : WState) (k f) : (s.updateStaged k f).status = s.status := rfl
@[simp] theorem WState.eraseStaged_status (s : WState) (k) : (s.eraseStaged k).status = s.status := rfl
@[simp] theorem WState.addStaged_status (s : WState) (x) : (s.addStaged x).status = s.status := rfl
@[simp] theorem WState.setTask_status (s : WState) (k i) : (s.setTask k i).status = s.status := by
  unfold WState.setTask; split <;> rfl
@[simp] theorem WState.removeStaged_status (s : WState) (k) : (s.removeStaged k).status = s.status := by
  unfold WState.removeStaged; split
  · rfl
  · split <;> simp

variable {A : Status → Bool}

/-- a state update that keeps the status -/
theorem Rel.modifySt_status {f : WState → WState} (h : ∀ st, (f st).status = st.status) :
    Rel (statusPre A) (M.modifySt f) := by
  apply Rel.modifySt
  intro s
  show WfTrace A _ _
  simp only [h]
  exact .refl _

theorem Rel.modify_status {f : Cond → Cond} (h : ∀ c, (f c).st.status = c.st.status) :
    Rel (statusPre A) (M.modify f) := by
  apply Rel.modify
  intro s
  show WfTrace A _ _
  rw [h]
  exact .refl _

/-- the preorder "status unchanged" -/
def keepPre : Pre where
  R c c' := c'.st.status = c.st.status
  refl _ := rfl
  trans h1 h2 := h2.trans h1

theorem Rel.of_keep {α} {m : M α} (h : Rel keepPre m) : Rel (statusPre A) m := by
  constructor
  intro c
  show WfTrace A _ _
  rw [h.run c]
  exact .refl _

theorem Rel.modifySt_keep {f : WState → WState} (h : ∀ st, (f st).status = st.status) :
    Rel keepPre (M.modifySt f) := by
  constructor; intro c; show _ = _; exact h _

theorem tkProcessWorkflowEvent_keep (i req) : Rel keepPre (tkProcessWorkflowEvent i req) := by
  constructor
  intro c
  show _ = _
  unfold tkProcessWorkflowEvent
  repeat' (first | rfl | split | dsimp only)

theorem tkProcessEvent_keep (i ev) : Rel keepPre (tkProcessEvent i ev) := by
  constructor
  intro c
  show _ = _
  unfold tkProcessEvent
  repeat' (first | rfl | split | dsimp only)

theorem logEntry_keep (e) : Rel keepPre (logEntry e) := by
  constructor; intro c; show _ = _; unfold logEntry M.modify; dsimp only; split <;> rfl

theorem logError_keep (k a b c) : Rel keepPre (logError k a b c) := logEntry_keep _

theorem logEntry_status (e : ErrEntry) : Rel (statusPre A) (logEntry e) := Rel.of_keep (logEntry_keep e)

theorem logError_status (k a b c) : Rel (statusPre A) (logError k a b c) := logEntry_status _

theorem wfProcessWorkflowEvent_status (req : Status) (hA : A req = true) :
    Rel (statusPre A) (wfProcessWorkflowEvent req) := by
  constructor
  intro c
  show WfTrace A _ _
  unfold wfProcessWorkflowEvent
  dsimp only
  split
  · exact .refl _
  · next s' h =>
    split
    · next hc =>
      split
      · exact WfTrace.single (.wfEvent req _ _ _ hA h)
      · have hk : ∀ xs : List Staged, Rel keepPre (M.forEach xs
            fun x => logError "UnreachableJoinError" (some x.id) (some x.route)) :=
          fun xs => Rel.forEach _ (fun x => logEntry_keep _)
        rw [(hk _).run _]
        simp only [Bool.and_eq_true] at hc
        have hne : s' ≠ c.st.status := by
          intro heq
          have h1 := hc.1
          rw [heq] at h1
          generalize c.st.status = t at h1
          cases t <;> exact absurd h1 (by decide)
        exact .single (.wfEventUnreach req _ _ _ hA h hne hc.2)
    · exact WfTrace.single (.wfEvent req _ _ _ hA h)

theorem wfProcessTaskEvent_status (k ev) : Rel (statusPre A) (wfProcessTaskEvent k ev) := by
  constructor
  intro c
  show WfTrace A _ _
  unfold wfProcessTaskEvent
  dsimp only
  split
  · exact .refl _
  · next s' h =>
    split
    · next hc =>
      split
      · exact WfTrace.single (.taskEvent _ _ _ _ h)
      · have hk : Rel keepPre (M.forEach (unreachableBarriers { c with st := { c.st with status := s' } })
            fun x => logError "UnreachableJoinError" (some x.id) (some x.route)) :=
          Rel.forEach _ (fun x => logEntry_keep _)
        rw [hk.run _]
        simp only [Bool.and_eq_true] at hc
        have hne : s' ≠ c.st.status := by
          intro heq
          have h1 := hc.1
          rw [heq] at h1
          generalize c.st.status = t at h1
          cases t <;> exact absurd h1 (by decide)
        exact .single (.taskEventUnreach _ _ _ _ h hne hc.2)
    · exact WfTrace.single (.taskEvent _ _ _ _ h)

end Orq
