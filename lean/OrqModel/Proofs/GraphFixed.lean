/-
The definition and its composed graph are fixed: no API call changes them.
-/
import OrqModel.Proofs.NextKeep

namespace Orq

variable (E : Evaluator)

def gPre : Pre where
  R c c' := c'.spec = c.spec ∧ c'.graph = c.graph
  refl _ := ⟨rfl, rfl⟩
  trans h1 h2 := ⟨h2.1.trans h1.1, h2.2.trans h1.2⟩

theorem Rel.raw_g {α} {m : M α} (h : ∀ c, (m c).2.spec = c.spec ∧ (m c).2.graph = c.graph) : Rel gPre m := ⟨h⟩

theorem logEntry_g (e) : Rel gPre (logEntry e) := by
  apply Rel.raw_g
  intro c
  unfold logEntry M.modify
  dsimp only
  split <;> exact ⟨rfl, rfl⟩

theorem forEach_logError_g (xs : List Staged) :
    Rel gPre (M.forEach xs fun x => logError "UnreachableJoinError" (some x.id) (some x.route)) :=
  Rel.forEach xs (fun x => logEntry_g _)

theorem wfProcessTaskEvent_g (k ev) : Rel gPre (wfProcessTaskEvent k ev) := by
  apply Rel.raw_g
  intro c
  unfold wfProcessTaskEvent
  dsimp only
  split
  · exact ⟨rfl, rfl⟩
  · split
    · split
      · exact ⟨rfl, rfl⟩
      · show gPre.R ({ c with st := { c.st with status := Status.failed } } : Cond) _
        exact (forEach_logError_g _).run _
    · exact ⟨rfl, rfl⟩

theorem wfProcessWorkflowEvent_g (req) : Rel gPre (wfProcessWorkflowEvent req) := by
  apply Rel.raw_g
  intro c
  unfold wfProcessWorkflowEvent
  dsimp only
  split
  · exact ⟨rfl, rfl⟩
  · split
    · split
      · exact ⟨rfl, rfl⟩
      · show gPre.R ({ c with st := { c.st with status := Status.failed } } : Cond) _
        exact (forEach_logError_g _).run _
    · exact ⟨rfl, rfl⟩

theorem tkProcessWorkflowEvent_g (i req) : Rel gPre (tkProcessWorkflowEvent i req) := by
  apply Rel.raw_g
  intro c
  unfold tkProcessWorkflowEvent
  repeat' (first | exact ⟨rfl, rfl⟩ | split | dsimp only)

theorem tkProcessEvent_g (i ev) : Rel gPre (tkProcessEvent i ev) := by
  apply Rel.raw_g
  intro c
  unfold tkProcessEvent
  repeat' (first | exact ⟨rfl, rfl⟩ | split | dsimp only)

syntax "g_walk" "[" term,* "]" : tactic
macro_rules
  | `(tactic| g_walk [$ts,*]) => do
    let alts ← ts.getElems.mapM fun t => `(tactic| exact $t)
    `(tactic| repeat' (first
      | exact Rel.pure _ | exact Rel.pure' _ | exact Rel.throw _ | exact Rel.get
      | exact Rel.liftOpt _ _ | exact Rel.liftExcept _
      | exact wfProcessWorkflowEvent_g _ | exact wfProcessTaskEvent_g _ _
      | exact tkProcessWorkflowEvent_g _ _ | exact tkProcessEvent_g _ _
      | exact logEntry_g _
      $[| $alts:tactic]*
      | (apply Rel.raw_g; intro c; exact ⟨rfl, rfl⟩)
      | apply Rel.bind | apply Rel.bind' | apply Rel.tryCatch | apply Rel.forEach | apply Rel.foldM' | apply Rel.mapM'
      | intro _ | split | dsimp only ))

theorem logError_g (k a b c) : Rel gPre (logError k a b c) := logEntry_g _

theorem requestStatus_g (req) : Rel gPre (requestStatus req) := by
  unfold requestStatus
  g_walk []

theorem failOnError_g : Rel gPre failOnError := by
  unfold failOnError
  g_walk [requestStatus_g _]

theorem getTask_g (k) : Rel gPre (getTask E k) := by
  unfold getTask
  g_walk []

theorem evaluateTaskActions_g (o) : Rel gPre (evaluateTaskActions o) := by
  unfold evaluateTaskActions
  g_walk []

theorem nextTaskFor_g (sx) : Rel gPre (nextTaskFor E sx) := by
  unfold nextTaskFor
  g_walk [getTask_g E _, evaluateTaskActions_g _, logError_g _ _ _ _]

theorem nextFrom_g (todo) : Rel gPre (nextFrom E todo) := by
  unfold nextFrom
  g_walk [nextTaskFor_g E _, failOnError_g]

theorem getNextTasks_g : Rel gPre (getNextTasks E) :=
  ⟨fun c => (nextFrom_g E (nextTodo c.st)).run c⟩

theorem evaluateRoute_g (e r) : Rel gPre (evaluateRoute e r) := by
  unfold evaluateRoute
  g_walk []

theorem stageNext_g (k idx e o acc) : Rel gPre (stageNext k idx e o acc) := by
  unfold stageNext stageTarget
  g_walk [evaluateRoute_g _ _]

theorem fireTransition_g (k idx ec acc e) : Rel gPre (fireTransition E k idx ec acc e) := by
  unfold fireTransition
  g_walk [failOnError_g, stageNext_g _ _ _ _ _, logError_g _ _ _ _]

theorem processTransition_g (k idx ec acc e) : Rel gPre (processTransition E k idx ec acc e) := by
  unfold processTransition
  g_walk [failOnError_g, fireTransition_g E _ _ _ _ _, logError_g _ _ _ _]

theorem makeTaskContext_g (k idx r) : Rel gPre (makeTaskContext k idx r) := by
  unfold makeTaskContext
  g_walk []

theorem addTaskState_g (k a b) : Rel gPre (addTaskState E k a b) := by
  unfold addTaskState
  g_walk [failOnError_g, logError_g _ _ _ _]

theorem ensureRecord_g (k s r ev) : Rel gPre (ensureRecord E k s r ev) := by
  unfold ensureRecord firstRecord recordFromStaged
  g_walk [addTaskState_g E _ _ _]

theorem noteEvent_g (k s ev) : Rel gPre (noteEvent k s ev) := by
  unfold noteEvent
  g_walk []

theorem restageRetry_g (k idx o) : Rel gPre (restageRetry k idx o) := by
  unfold restageRetry
  g_walk []

theorem machineStep_g (k idx ev) : Rel gPre (machineStep k idx ev) := by
  unfold machineStep
  g_walk [restageRetry_g _ _ _]

theorem completedRetryDecision_g (k idx ts os ns ev) : Rel gPre (completedRetryDecision E k idx ts os ns ev) := by
  unfold completedRetryDecision
  g_walk [makeTaskContext_g _ _ _, failOnError_g, logError_g _ _ _ _]

theorem evalTransitions_g (k idx ts ev) : Rel gPre (evalTransitions E k idx ts ev) := by
  unfold evalTransitions
  g_walk [makeTaskContext_g _ _ _, processTransition_g E _ _ _ _ _]

theorem markTermIfCompleted_g (idx) : Rel gPre (markTermIfCompleted idx) := by
  unfold markTermIfCompleted
  g_walk []

theorem updateHead_g (k ev) : Rel gPre (updateHead E k ev) := by
  unfold updateHead
  g_walk [ensureRecord_g E _ _ _ _, noteEvent_g _ _ _, machineStep_g _ _ _]

theorem updateTail_g (recur : TaskKey → Event → M Unit) (hrec : ∀ k ev, Rel gPre (recur k ev))
    (k ev h) : Rel gPre (updateTail E recur k ev h) := by
  unfold updateTail updateRest
  g_walk [hrec _ _, completedRetryDecision_g E _ _ _ _ _ _, evalTransitions_g E _ _ _ _, markTermIfCompleted_g _]

theorem updateTaskStateAux_g (fuel k ev) : Rel gPre (updateTaskStateAux E fuel k ev) := by
  induction fuel generalizing k ev with
  | zero => unfold updateTaskStateAux; exact Rel.throw _
  | succ n ih =>
    unfold updateTaskStateAux
    g_walk [updateHead_g E _ _, updateTail_g E _ (fun k ev => ih k ev) _ _ _]

theorem terminalContext_g : Rel gPre terminalContext := by
  unfold terminalContext
  g_walk []

theorem renderOutput_g : Rel gPre (renderOutput E) := by
  unfold renderOutput
  g_walk [terminalContext_g, failOnError_g, logError_g _ _ _ _]

theorem requestTaskRerun_g (k r) : Rel gPre (requestTaskRerun E k r) := by
  unfold requestTaskRerun
  g_walk [addTaskState_g E _ _ _]

theorem requestRerun_g (reqs) : Rel gPre (requestRerun E reqs) := by
  unfold requestRerun
  g_walk [requestTaskRerun_g E _ _]

end Orq
