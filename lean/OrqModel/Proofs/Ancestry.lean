/-
C06, ancestor-exactness: every context snapshot a staged entry or a task record of task `t` lists
is the initial one (index 0) or reached `t` through a record that *recorded `true` for a
transition into `t`* and either had that snapshot in its own list or published it on that very
transition.  Unfolding the definition along the chain of such records, every variable a task is
rendered with was published on a path of satisfied transitions ending in that task: a variable
published only on a transition that does not lead to the task is never visible to it.

`pubLog` is the model's ghost log of (publishing record, transition, snapshot).
-/
import OrqModel.Proofs.Truth

namespace Orq

variable (E : Evaluator)

/-- snapshot `i` reached task `id` through some record that recorded `true` for a transition into `id` -/
def Via (c : Cond) (id : String) (i : Nat) : Prop :=
  ∃ (idx : Nat) (q : Rec) (key : Nat), c.st.sequence[idx]? = some q ∧ (((id, key) : TransId), true) ∈ q.next ∧
    (i ∈ q.ctxsIn ∨ (idx, ((id, key) : TransId), i) ∈ c.st.pubLog)

def CtxOk (c : Cond) (id : String) (l : List Nat) : Prop := ∀ i ∈ l, i = 0 ∨ Via c id i

structure CA (c : Cond) : Prop where
  staged : ∀ x ∈ c.st.staged, CtxOk c x.id x.ctxsIn
  recs : ∀ r ∈ c.st.sequence, CtxOk c r.id r.ctxsIn

theorem Rec.core_ctxsIn {r r' : Rec} (h : r'.core = r.core) : r'.ctxsIn = r.ctxsIn := by
  unfold Rec.core at h
  exact (Prod.mk.inj (Prod.mk.inj (Prod.mk.inj h).2).2).1

theorem Ext.pubs_mem {a b : WState} (h : a.Ext b) {m} (hm : m ∈ a.pubLog) : m ∈ b.pubLog := by
  obtain ⟨_, _, _, l, hl⟩ := h
  rw [hl]
  exact List.mem_append_left _ hm

theorem Via.mono {c c' : Cond} (hm : MK c c') (he : c.st.Ext c'.st) {id : String} {i : Nat}
    (h : Via c id i) : Via c' id i := by
  obtain ⟨idx, q, key, hq, hmem, hi⟩ := h
  obtain ⟨q', hq', hmem'⟩ := hm.keep idx q _ hq hmem
  obtain ⟨q'', hq'', hc⟩ := Ext.getElem_core he hq
  rw [hq'] at hq''
  cases hq''
  refine ⟨idx, q', key, hq', hmem', ?_⟩
  rcases hi with hi | hi
  · left; rw [Rec.core_ctxsIn hc]; exact hi
  · right; exact Ext.pubs_mem he hi

theorem CtxOk.mono {c c' : Cond} (hm : MK c c') (he : c.st.Ext c'.st) {id : String} {l : List Nat}
    (h : CtxOk c id l) : CtxOk c' id l := by
  intro i hi
  rcases h i hi with h0 | hv
  · exact Or.inl h0
  · exact Or.inr (hv.mono hm he)

theorem CtxOk.zero (c : Cond) (id : String) : CtxOk c id [0] := by
  intro i hi
  left
  simpa using hi

/-- `if l.isEmpty then [0] else l` -/
theorem CtxOk.orZero {c : Cond} {id : String} {l : List Nat} (h : CtxOk c id l) :
    CtxOk c id (if l.isEmpty then [0] else l) := by
  split
  · exact CtxOk.zero c id
  · exact h

/-- the general step: every staged entry / record of the new state carries the list (and task) of
    an old one, or a list that is justified in the new state -/
theorem CA.of_parts {c c' : Cond} (hm : MK c c') (he : c.st.Ext c'.st) (hj : CA c)
    (hs : ∀ x' ∈ c'.st.staged, (∃ x ∈ c.st.staged, x'.ctxsIn = x.ctxsIn ∧ x'.id = x.id) ∨ CtxOk c' x'.id x'.ctxsIn)
    (hr : ∀ (i : Nat) (r' : Rec), c'.st.sequence[i]? = some r' → c.st.sequence.length ≤ i →
      CtxOk c' r'.id r'.ctxsIn) : CA c' := by
  refine ⟨?_, ?_⟩
  · intro x' hx'
    rcases hs x' hx' with ⟨x, hx, e1, e2⟩ | h
    · rw [e1, e2]; exact (hj.staged x hx).mono hm he
    · exact h
  · intro r' hr'
    obtain ⟨i, hi⟩ := List.getElem?_of_mem hr'
    by_cases hlen : c.st.sequence.length ≤ i
    · exact hr i r' hi hlen
    · have hlt : i < c.st.sequence.length := Nat.lt_of_not_le hlen
      have hr0 : c.st.sequence[i]? = some c.st.sequence[i] := List.getElem?_eq_getElem hlt
      obtain ⟨r'', hr'', hc⟩ := Ext.getElem_core he hr0
      rw [hi] at hr''
      cases hr''
      rw [Rec.core_id hc, Rec.core_ctxsIn hc]
      exact (hj.recs _ (List.mem_of_getElem? hr0)).mono hm he

theorem CA.step {c c' : Cond} (hm : MK c c') (he : c.st.Ext c'.st) (hp : PrevStep c c') (hj : CA c) : CA c' := by
  apply CA.of_parts hm he hj
  · intro x' hx'
    obtain ⟨x, hx, _, e2, e3⟩ := hp.staged x' hx'
    exact Or.inl ⟨x, hx, e3, e2⟩
  · intro i r' hi hlen
    obtain ⟨r, hr, _⟩ := hp.recs i r' hi
    have := (List.getElem?_eq_some_iff.mp hr).1
    omega

theorem CA.uniform {α} {m : M α} (h1 : Rel nxaPre m) (h2 : Rel extPre m) (h3 : Rel prevPre m) (c : Cond)
    (hj : CA c) : CA (m c).2 :=
  CA.step (h1.run c).toMK (h2.run c) (h3.run c) hj

theorem ca_bind {α β} (m : M α) (f : α → M β) (c : Cond)
    (hm : CA (m c).2) (hf : ∀ a c1, m c = (.ok a, c1) → CA (f a c1).2) : CA ((m >>= f) c).2 := by
  rw [M.bind_run]
  cases h : m c with
  | mk res c1 =>
    rw [h] at hm
    cases res with
    | ok a => exact hf a c1 h
    | error e => exact hm

theorem ca_bind_uniform {α β} {m : M α} {f : α → M β} {c : Cond}
    (h1 : Rel nxaPre m) (h2 : Rel extPre m) (h3 : Rel prevPre m) (hj : CA c)
    (hf : ∀ a c1, m c = (.ok a, c1) → MK c c1 → c.st.Ext c1.st → CA c1 → CA (f a c1).2) : CA ((m >>= f) c).2 := by
  apply ca_bind
  · exact CA.uniform h1 h2 h3 c hj
  intro a c1 hm
  have w := (h1.run c).toMK
  have e := h2.run c
  have j := CA.uniform h1 h2 h3 c hj
  rw [hm] at w e j
  exact hf a c1 hm w e j

/-! ### staging the target of a transition -/

theorem mem_eraseFirst {xs : List Nat} {x : Nat} {rest : List Nat} (h : eraseFirst xs x = some rest) :
    ∀ i ∈ rest, i ∈ xs := by
  unfold eraseFirst at h
  split at h
  · cases h
    intro i hi
    exact List.mem_of_mem_erase hi
  · cases h

/-- a state with the same records and publication log justifies the same lists -/
theorem CtxOk.same {c c' : Cond} (hs : c'.st.sequence = c.st.sequence) (hp : c'.st.pubLog = c.st.pubLog)
    {id : String} {l : List Nat} (h : CtxOk c id l) : CtxOk c' id l := by
  intro i hi
  rcases h i hi with h0 | ⟨idx, q, key, hq, hm, hv⟩
  · exact Or.inl h0
  · right
    refine ⟨idx, q, key, by rw [hs]; exact hq, hm, ?_⟩
    rcases hv with hv | hv
    · exact Or.inl hv
    · right; rw [hp]; exact hv

theorem stageTarget_ca (nk : TaskKey) (backref : TransId) (idx : Nat) (outIdxs : List Nat) (c : Cond)
    (hj : CA c) (ho : CtxOk c nk.1 outIdxs) : CA (stageTarget nk backref idx outIdxs c).2 := by
  unfold stageTarget
  rw [M.bind_run]
  simp only [M.get]
  cases hg : c.st.getStaged? nk with
  | some x0 =>
    dsimp only
    rw [M.bind_run]
    cases he : eraseFirst outIdxs 0 with
    | none => exact hj
    | some rest =>
      simp only [liftOpt, pure, M.pure', M.modifySt, M.modify]
      refine CA.of_parts ?mk1 ?ext1 hj ?_ ?_
      case mk1 => exact ⟨fun i r m hr hm => ⟨r, hr, hm⟩⟩
      case ext1 => exact Ext.of_eq rfl rfl rfl rfl
      · intro x' hx'
        rcases mem_updateStaged_go_key _ _ _ _ hx' with h | ⟨x, hx, hid, ex⟩
        · left; exact ⟨x', h, rfl, rfl⟩
        · right
          rw [ex]
          apply CtxOk.same (c := c) rfl rfl
          intro i hi
          rcases List.mem_append.mp hi with hi' | hi'
          · exact hj.staged x hx i hi'
          · show i = 0 ∨ Via c x.id i
            rw [hid]
            exact ho i (mem_eraseFirst he i hi')
      · intro i r' hr' hlen
        have h2 : i < c.st.sequence.length := (List.getElem?_eq_some_iff.mp hr').1
        omega
  | none =>
    simp only [M.modifySt, M.modify]
    refine CA.of_parts ?mk1 ?ext1 hj ?_ ?_
    case mk1 => exact ⟨fun i r m hr hm => ⟨r, hr, hm⟩⟩
    case ext1 => exact Ext.of_eq rfl rfl rfl rfl
    · intro x' hx'
      rcases List.mem_append.mp hx' with h | h
      · left; exact ⟨x', h, rfl, rfl⟩
      · right
        simp only [List.mem_singleton] at h
        subst h
        apply CtxOk.same (c := c) rfl rfl
        exact ho.orZero
    · intro i r' hr' hlen
      have h2 : i < c.st.sequence.length := (List.getElem?_eq_some_iff.mp hr').1
      omega

theorem stageNext_ca (k : TaskKey) (idx : Nat) (e : Edge) (outIdxs : List Nat) (acc : TransAcc) (c : Cond)
    (hj : CA c) (ho : CtxOk c e.dst outIdxs) : CA (stageNext k idx e outIdxs acc c).2 := by
  unfold stageNext
  apply ca_bind_uniform (evaluateRoute_nxa e k.2) (evaluateRoute_ext e k.2) (evaluateRoute_prev e k.2) hj
  intro nextRoute c1 _ w1 e1 hj1
  have hj2 := stageTarget_ca (e.dst, nextRoute) (k.1, e.key) idx outIdxs c1 hj1 (ho.mono w1 e1)
  apply ca_bind
  · exact hj2
  intro u c2 h2
  rw [h2] at hj2
  exact CA.uniform (m := (do
      let c ← M.get
      let ready := inboundStatus c e.dst k.2 == .satisfied
      M.modifySt fun st => st.updateStaged (e.dst, nextRoute) fun x => { x with ready := ready }
      if (Cmd.ofStr? e.dst).isSome then
        pure { acc with queue := acc.queue ++ [(e.dst, nextRoute)], manualFail := acc.manualFail || e.dst == "fail" }
      else if ready then pure { acc with readyKeys := acc.readyKeys ++ [(e.dst, nextRoute)] }
      else pure acc : M TransAcc)) (by nxa_walk []) (by ext_walk []) (by prev_walk []) c2 hj2

/-- the state update of a publishing transition -/
def pubStep (st : WState) (newCtx : Val.Dict) (idx : Nat) (tid : TransId) (n : Nat) : WState :=
  WState.updateRec { st with contexts := st.contexts ++ [newCtx], pubLog := st.pubLog ++ [(idx, tid, n)] } idx
    fun r => { r with ctxsOut := some (tid, n) }

theorem pubStep_nxa (newCtx : Val.Dict) (idx : Nat) (tid : TransId) (n : Nat) :
    Rel nxaPre (M.modifySt fun st => pubStep st newCtx idx tid n) := by
  unfold pubStep
  nxa_walk []

theorem pubStep_prev (newCtx : Val.Dict) (idx : Nat) (tid : TransId) (n : Nat) :
    Rel prevPre (M.modifySt fun st => pubStep st newCtx idx tid n) := by
  unfold pubStep
  prev_walk []

theorem fireTransition_ca (k : TaskKey) (idx : Nat) (ec : EvalCtx) (acc : TransAcc) (e : Edge) (c : Cond)
    (hj : CA c) (ht : Recorded c idx ((e.dst, e.key), true)) : CA (fireTransition E k idx ec acc e c).2 := by
  unfold fireTransition
  rw [M.bind_run]
  simp only [M.get]
  apply ca_bind
  · rw [liftOpt_state]; exact hj
  intro ts c1 h1
  obtain ⟨_, e1⟩ := liftOpt_ok h1
  subst e1
  apply ca_bind
  · rw [liftOpt_state]; exact hj
  intro tr c2 h2
  obtain ⟨_, e2⟩ := liftOpt_ok h2
  subst e2
  generalize renderSeq E _ _ _ = rs
  obtain ⟨ra, newCtx, nerr⟩ := rs
  dsimp only
  by_cases hn : nerr > 0
  · rw [if_pos hn]
    exact CA.uniform (by nxa_walk [failOnError_nxa, logError_nxa _ _ _ _]) (by ext_walk [failOnError_ext])
      (by prev_walk [failOnError_prev, logError_prev _ _ _ _]) c hj
  · rw [if_neg hn]
    apply ca_bind
    · rw [liftOpt_state]; exact hj
    intro r c3 h3
    obtain ⟨hr, e3⟩ := liftOpt_ok h3
    subst e3
    -- what the predecessor saw reaches the target through it
    have hsaw : ∀ c' : Cond, MK c c' → c.st.Ext c'.st → ∀ i ∈ r.ctxsIn, Via c' e.dst i := by
      intro c' w ex i hi
      obtain ⟨q, hq, hm⟩ := ht
      rw [hr] at hq
      cases hq
      exact Via.mono w ex ⟨idx, r, e.key, hr, hm, Or.inl hi⟩
    by_cases hempty : newCtx.isEmpty = true
    · rw [if_pos hempty, if_pos hempty]
      rw [M.bind_run]
      simp only [pure, M.pure']
      apply stageNext_ca k idx e _ acc c hj
      intro i hi
      exact Or.inr (hsaw c (MK.refl c) (WState.Ext.refl _) i hi)
    · rw [if_neg hempty, if_neg hempty]
      rw [M.bind_run]
      simp only [M.modifySt, M.modify]
      show CA (stageNext k idx e (r.ctxsIn ++ [c.st.contexts.length]) acc
        { c with st := pubStep c.st newCtx idx (e.dst, e.key) c.st.contexts.length }).2
      have hm4 : MK c { c with st := pubStep c.st newCtx idx (e.dst, e.key) c.st.contexts.length } :=
        ((pubStep_nxa newCtx idx (e.dst, e.key) c.st.contexts.length).run c).toMK
      have he4 : c.st.Ext (pubStep c.st newCtx idx (e.dst, e.key) c.st.contexts.length) :=
        Ext.appendCtx _ _ _ _ _ (fun _ => rfl)
      have hp4 := (pubStep_prev newCtx idx (e.dst, e.key) c.st.contexts.length).run c
      have hj4 := CA.step hm4 he4 hp4 hj
      apply stageNext_ca k idx e _ acc _ hj4
      intro i hi
      right
      rcases List.mem_append.mp hi with hi' | hi'
      · exact hsaw _ hm4 he4 i hi'
      · simp only [List.mem_singleton] at hi'
        subst hi'
        obtain ⟨q, hq, hm⟩ := ht
        obtain ⟨q', hq', hm'⟩ := hm4.keep idx q _ hq hm
        refine ⟨idx, q', e.key, hq', hm', Or.inr ?_⟩
        show _ ∈ c.st.pubLog ++ [_]
        exact List.mem_append_right _ (List.mem_singleton.mpr rfl)

theorem processTransition_ca (k : TaskKey) (idx : Nat) (ec : EvalCtx) (acc : TransAcc) (e : Edge) (c : Cond)
    (hj : CA c) (hfresh : FreshAt c idx (e.dst, e.key)) : CA (processTransition E k idx ec acc e c).2 := by
  unfold processTransition
  cases transCriteria E e ec with
  | none =>
    dsimp only
    exact CA.uniform (by nxa_walk [failOnError_nxa, logError_nxa _ _ _ _]) (by ext_walk [failOnError_ext])
      (by prev_walk [failOnError_prev, logError_prev _ _ _ _]) c hj
  | some b =>
    dsimp only
    rw [M.bind_run]
    simp only [M.modifySt, M.modify]
    have hmk : MK c ({ c with st := c.st.updateRec idx fun r => { r with next := setAssoc r.next (e.dst, e.key) b } } : Cond) := by
      constructor
      intro i r m hr hm
      by_cases hi : i = idx
      · subst hi
        refine ⟨{ r with next := setAssoc r.next (e.dst, e.key) b }, ?_, ?_⟩
        · show (c.st.sequence.modify i _)[i]? = _
          rw [getElem?_modify_same, hr]
          rfl
        · show m ∈ setAssoc r.next (e.dst, e.key) b
          rw [setAssoc_fresh _ _ _ (hfresh r hr)]
          exact List.mem_append_left _ hm
      · refine ⟨r, ?_, hm⟩
        show (c.st.sequence.modify idx _)[i]? = some r
        rw [getElem?_modify_ne _ _ _ _ hi]
        exact hr
    have hj1 : CA ({ c with st := c.st.updateRec idx fun r => { r with next := setAssoc r.next (e.dst, e.key) b } } : Cond) := by
      apply CA.step hmk (Ext.updateRec _ _ _ (fun _ => rfl)) ?_ hj
      exact (show Rel prevPre (M.modifySt fun st => st.updateRec idx fun r => { r with next := setAssoc r.next (e.dst, e.key) b }) by
        prev_walk []).run c
    cases b with
    | false => exact hj1
    | true =>
      rw [if_neg (by decide)]
      cases hq : c.st.sequence[idx]? with
      | none =>
        unfold fireTransition
        rw [M.bind_run]
        simp only [M.get]
        apply ca_bind
        · rw [liftOpt_state]; exact hj1
        intro ts c1 h1
        obtain ⟨_, e1⟩ := liftOpt_ok h1
        subst e1
        apply ca_bind
        · rw [liftOpt_state]; exact hj1
        intro tr c2 h2
        obtain ⟨_, e2⟩ := liftOpt_ok h2
        subst e2
        generalize renderSeq E _ _ _ = rs
        obtain ⟨ra, newCtx, nerr⟩ := rs
        dsimp only
        by_cases hn : nerr > 0
        · rw [if_pos hn]
          exact CA.uniform (by nxa_walk [failOnError_nxa, logError_nxa _ _ _ _]) (by ext_walk [failOnError_ext])
            (by prev_walk [failOnError_prev, logError_prev _ _ _ _]) _ hj1
        · rw [if_neg hn]
          apply ca_bind
          · rw [liftOpt_state]; exact hj1
          intro r c3 h3
          obtain ⟨hr3, _⟩ := liftOpt_ok h3
          exfalso
          have : (c.st.sequence.modify idx fun r => { r with next := setAssoc r.next (e.dst, e.key) true })[idx]? = some r := hr3
          rw [getElem?_modify_same, hq] at this
          cases this
      | some q =>
        apply fireTransition_ca E k idx ec acc e _ hj1
        refine ⟨{ q with next := setAssoc q.next (e.dst, e.key) true }, ?_, ?_⟩
        · show (c.st.sequence.modify idx _)[idx]? = _
          rw [getElem?_modify_same, hq]
          rfl
        · show ((e.dst, e.key), true) ∈ setAssoc q.next (e.dst, e.key) true
          rw [setAssoc_fresh _ _ _ (hfresh q hq)]
          exact List.mem_append_right _ (List.mem_singleton.mpr rfl)

theorem evalFold_ca (k : TaskKey) (idx : Nat) (ec : EvalCtx) :
    ∀ (ts : List Edge) (acc : TransAcc) (c : Cond),
      (ts.map fun e => ((e.dst, e.key) : String × Nat)).Nodup → CA c → CompAt c idx →
      (∀ e ∈ ts, FreshAt c idx (e.dst, e.key)) →
      CA (M.foldM' ts acc (processTransition E k idx ec) c).2 := by
  intro ts
  induction ts with
  | nil => intro acc c _ hj _ _; exact hj
  | cons e rest ih =>
    intro acc c hnd hj hcomp hfresh
    show CA (M.bind' (processTransition E k idx ec acc e) (fun b' => M.foldM' rest b' (processTransition E k idx ec)) c).2
    unfold M.bind'
    have h1 := processTransition_ca E k idx ec acc e c hj (hfresh e List.mem_cons_self)
    have hc1 := ((processTransition_at E k idx ec acc e).run c hcomp).1
    have hkeys := processTransition_keys E k idx ec acc e c
    cases hr : processTransition E k idx ec acc e c with
    | mk res c1 =>
      rw [hr] at h1 hc1 hkeys
      cases res with
      | error err => exact h1
      | ok acc' =>
        simp only [List.map_cons, List.nodup_cons] at hnd
        apply ih acc' c1 hnd.2 h1 hc1
        intro e' he' q1 hq1 m hm
        obtain ⟨q, hq, _⟩ := hcomp
        rcases hkeys q hq q1 hq1 m hm with h | h
        · exact hfresh e' (List.mem_cons_of_mem _ he') q hq m h
        · rw [h]
          intro heq
          apply hnd.1
          rw [heq]
          exact List.mem_map.mpr ⟨e', he', rfl⟩

theorem evalTransitions_ca (k : TaskKey) (idx : Nat) (ts : TaskSpec) (ev : Event) (c : Cond)
    (hj : CA c) (hcomp : CompAt c idx) (hund : Undecided c idx) (hkeys : KeysOk c.graph.edges) :
    CA (evalTransitions E k idx ts ev c).2 := by
  unfold evalTransitions
  have hd1 := (makeTaskContext_dec k idx (taskResult ts ev)).run c
  have hg1 := (makeTaskContext_g k idx (taskResult ts ev)).run c
  have hn1 := (makeTaskContext_nxa k idx (taskResult ts ev)).run c
  apply ca_bind_uniform (makeTaskContext_nxa _ _ _) (makeTaskContext_ext _ _ _) (makeTaskContext_prev _ _ _) hj
  intro ec c1 h1 _ _ hj1
  rw [h1] at hd1 hg1 hn1
  have hcomp1 : CompAt c1 idx := CompAt.step hd1 hcomp
  have hund1 : Undecided c1 idx := by
    intro q1 hq1
    obtain ⟨q, hq, _⟩ := hcomp
    rw [hn1.back hq hq1]
    exact hund q hq
  rw [M.bind_run]
  simp only [M.get]
  have hm2d : Rel decStep (if (c1.graph.nextTransitions k.1).isEmpty then
      M.modifySt fun st => st.updateRec idx fun r => { r with term := true } else pure () : M Unit) := by
    dec_walk []
  have hm2n : Rel nxaPre (if (c1.graph.nextTransitions k.1).isEmpty then
      M.modifySt fun st => st.updateRec idx fun r => { r with term := true } else pure () : M Unit) := by
    nxa_walk []
  have hd2 := hm2d.run c1
  have hn2 := hm2n.run c1
  apply ca_bind_uniform hm2n (by ext_walk []) (by prev_walk []) hj1
  intro u c2 h2 _ _ hj2
  rw [h2] at hd2 hn2
  have hcomp2 : CompAt c2 idx := CompAt.step hd2 hcomp1
  have hund2 : Undecided c2 idx := by
    intro q2 hq2
    obtain ⟨q, hq, _⟩ := hcomp1
    rw [hn2.back hq hq2]
    exact hund1 q hq
  have hnd : ((c1.graph.nextTransitions k.1).map fun e => ((e.dst, e.key) : String × Nat)).Nodup := by
    apply nextTransitions_nodup
    rw [hg1.2]
    exact hkeys
  have hloop := evalFold_ca E k idx ec (c1.graph.nextTransitions k.1) ({} : TransAcc) c2 hnd hj2 hcomp2
    (fun e _ q hq m hm => by rw [hund2 q hq] at hm; cases hm)
  apply ca_bind
  · exact hloop
  intro acc c3 h3
  rw [h3] at hloop
  exact CA.uniform (by nxa_walk []) (by ext_walk []) (by prev_walk []) c3 hloop

/-! ### new records, re-staging for a retry -/

theorem newRecord_ctxsIn (c : Cond) (k : TaskKey) (a : List Nat) (b : List (TransId × Nat)) :
    (newRecord E c k a b).1.ctxsIn = if a.isEmpty then [0] else a := by
  unfold newRecord
  dsimp only
  split <;> rfl

theorem CA.append (c : Cond) (r0 : Rec) (k : TaskKey) (n : Nat) (hj : CA c) (hb : CtxOk c r0.id r0.ctxsIn) :
    CA { c with st := ({ c.st with sequence := c.st.sequence ++ [r0] } : WState).setTask k n } := by
  have hseq : (({ c.st with sequence := c.st.sequence ++ [r0] } : WState).setTask k n).sequence = c.st.sequence ++ [r0] := by
    rw [WState.setTask_sequence]
  have hstg : (({ c.st with sequence := c.st.sequence ++ [r0] } : WState).setTask k n).staged = c.st.staged := by
    unfold WState.setTask; split <;> rfl
  have hmk : MK c { c with st := ({ c.st with sequence := c.st.sequence ++ [r0] } : WState).setTask k n } := by
    constructor
    intro i r m hr hm
    refine ⟨r, ?_, hm⟩
    show (WState.setTask _ _ _).sequence[i]? = some r
    rw [hseq, List.getElem?_append_left (List.getElem?_eq_some_iff.mp hr).1]
    exact hr
  have hext : c.st.Ext (({ c.st with sequence := c.st.sequence ++ [r0] } : WState).setTask k n) := Ext.appendRec _ _ _ _
  refine CA.of_parts hmk hext hj ?_ ?_
  · intro x' hx'
    left
    refine ⟨x', ?_, rfl, rfl⟩
    have : x' ∈ (({ c.st with sequence := c.st.sequence ++ [r0] } : WState).setTask k n).staged := hx'
    rw [hstg] at this
    exact this
  · intro i r' hr' hlen
    have hr'' : (c.st.sequence ++ [r0])[i]? = some r' := by
      have : (({ c.st with sequence := c.st.sequence ++ [r0] } : WState).setTask k n).sequence[i]? = some r' := hr'
      rw [hseq] at this
      exact this
    rw [List.getElem?_append_right hlen] at hr''
    have : r' = r0 := by
      cases hi : i - c.st.sequence.length with
      | zero => rw [hi] at hr''; simpa using hr''.symm
      | succ n => rw [hi] at hr''; simp at hr''
    rw [this]
    exact hb.mono hmk hext

theorem addTaskState_ca (k : TaskKey) (a : List Nat) (b : List (TransId × Nat)) (c : Cond)
    (hj : CA c) (ha : CtxOk c k.1 a) : CA (addTaskState E k a b c).2 := by
  unfold addTaskState
  rw [M.bind_run]
  simp only [M.get]
  split
  · exact hj
  · have hhn : Rel nxaPre (match (newRecord E c k a b).2 with
        | none => pure ()
        | some e => do
          logError e.className (some k.1) (some k.2)
          failOnError : M Unit) := by
      nxa_walk [failOnError_nxa, logError_nxa _ _ _ _]
    have hhe : Rel extPre (match (newRecord E c k a b).2 with
        | none => pure ()
        | some e => do
          logError e.className (some k.1) (some k.2)
          failOnError : M Unit) := by
      ext_walk [failOnError_ext]
    have hhp : Rel prevPre (match (newRecord E c k a b).2 with
        | none => pure ()
        | some e => do
          logError e.className (some k.1) (some k.2)
          failOnError : M Unit) := by
      prev_walk [failOnError_prev, logError_prev _ _ _ _]
    apply ca_bind_uniform hhn hhe hhp hj
    intro u c2 _ w ex hj2
    rw [M.bind_run]
    simp only [M.get]
    rw [M.bind_run]
    simp only [M.modifySt, M.modify, pure, M.pure']
    apply CA.append c2 _ k _ hj2
    rw [newRecord_ctxsIn, newRecord_id]
    exact (ha.mono w ex).orZero

theorem restageRetry_ca (k : TaskKey) (idx : Nat) (o : Status) (c : Cond) (hj : CA c) (hid : IdAt c idx k.1) :
    CA (restageRetry k idx o c).2 := by
  have hm := (NxAll.of_map ((restageRetry_nx k idx o).run c)).toMK
  have he := (restageRetry_ext k idx o).run c
  unfold restageRetry at hm he ⊢
  rw [M.bind_run] at hm he ⊢
  simp only [M.get] at hm he ⊢
  rw [M.bind_run] at hm he ⊢
  cases hr : c.st.sequence[idx]? with
  | none => exact hj
  | some r =>
    rw [hr] at hm he
    simp only [liftOpt, pure, M.pure'] at hm he ⊢
    split
    · rename_i hcond
      rw [if_pos hcond] at hm he
      rw [M.bind_run] at hm he ⊢
      cases hrs : r.retry with
      | none => exact hj
      | some rs =>
        rw [hrs] at hm he
        simp only [liftOpt, pure, M.pure'] at hm he ⊢
        apply CA.of_parts hm he hj
        · intro x' hx'
          have hx'' : x' ∈ ((c.st.updateRec idx fun r => { r with retry := some { rs with tally := rs.tally + 1 } }).removeStaged k).staged ++
              [({ id := k.1, route := k.2, ctxsIn := if r.ctxsIn.isEmpty then [0] else r.ctxsIn,
                  prev := r.prev, ready := true, retry := some { rs with tally := rs.tally + 1 } } : Staged)] := hx'
          rcases List.mem_append.mp hx'' with h | h
          · left
            have hmem := mem_removeStaged _ _ _ h
            exact ⟨x', hmem, rfl, rfl⟩
          · right
            simp only [List.mem_singleton] at h
            subst h
            have hok : CtxOk c k.1 r.ctxsIn := by
              rw [← hid r hr]
              exact hj.recs r (List.mem_of_getElem? hr)
            exact (hok.mono hm he).orZero
        · intro i r' hr' hlen
          exfalso
          have hmap : (WState.addStaged ((c.st.updateRec idx fun r => { r with retry := some { rs with tally := rs.tally + 1 } }).removeStaged k)
              ({ id := k.1, route := k.2, ctxsIn := if r.ctxsIn.isEmpty then [0] else r.ctxsIn,
                 prev := r.prev, ready := true, retry := some { rs with tally := rs.tally + 1 } } : Staged)).sequence.map (·.prev)
              = c.st.sequence.map (·.prev) := by
            simp only [WState.addStaged_sequence, WState.removeStaged_sequence]
            apply map_prev_modify
            intro r
            rfl
          obtain ⟨r0, hr0, _⟩ := recs_prev_of_map hmap i r' hr'
          have := (List.getElem?_eq_some_iff.mp hr0).1
          omega
    · exact hj

theorem machineStep_ca (k : TaskKey) (idx : Nat) (ev : Event) (c : Cond) (hj : CA c) (hid : IdAt c idx k.1) :
    CA (machineStep k idx ev c).2 := by
  unfold machineStep
  rw [M.bind_run]
  simp only [M.get]
  apply ca_bind
  · rw [liftOpt_state]; exact hj
  intro r c1 h1
  obtain ⟨hr, e1⟩ := liftOpt_ok h1
  subst e1
  apply ca_bind_uniform (Rel.nxa_of_nx (tkProcessEvent_nx idx ev)) (tkProcessEvent_ext idx ev) (tkProcessEvent_prev idx ev) hj
  intro u c3 h3 _ he3 hj3
  have hid3 : IdAt c3 idx k.1 := hid.ext he3 hr
  rw [M.bind_run]
  simp only [M.get]
  apply ca_bind
  · rw [liftOpt_state]; exact hj3
  intro r' c4 h4
  obtain ⟨_, e4⟩ := liftOpt_ok h4
  subst e4
  apply ca_bind
  · exact restageRetry_ca k idx _ c3 hj3 hid3
  intro u5 c5 h5
  have := restageRetry_ca k idx (r.status.getD .unset) c3 hj3 hid3
  rw [h5] at this
  exact this

theorem recordFromStaged_ca (k : TaskKey) (s0 : Option Staged) (c : Cond) (hj : CA c)
    (hs : ∀ sx, s0 = some sx → CtxOk c k.1 sx.ctxsIn) : CA (recordFromStaged E k s0 c).2 := by
  unfold recordFromStaged
  cases s0 with
  | none => exact hj
  | some sx => exact addTaskState_ca E _ _ _ c hj (hs sx rfl)

theorem firstRecord_ca (k : TaskKey) (s0 : Option Staged) (r0 : Option Nat) (c : Cond) (hj : CA c)
    (hs : ∀ sx, s0 = some sx → CtxOk c k.1 sx.ctxsIn) : CA (firstRecord E k s0 r0 c).2 := by
  unfold firstRecord
  cases r0 with
  | none => exact recordFromStaged_ca E k s0 c hj hs
  | some i =>
    cases isCmdName k.1 with
    | false => exact hj
    | true => exact recordFromStaged_ca E k s0 c hj hs

theorem firstRecord_ext (k s r) : Rel extPre (firstRecord E k s r) := by
  unfold firstRecord recordFromStaged
  ext_walk [addTaskState_ext E _ _ _]

theorem ensureRecord_ca (k : TaskKey) (s0 : Option Staged) (r0 : Option Nat) (ev : Event) (c : Cond)
    (hj : CA c) (hs : ∀ sx, s0 = some sx → CtxOk c k.1 sx.ctxsIn) : CA (ensureRecord E k s0 r0 ev c).2 := by
  unfold ensureRecord
  have hj1 := firstRecord_ca E k s0 r0 c hj hs
  have w1 := ((firstRecord_nxa E k s0 r0).run c).toMK
  have e1 := (firstRecord_ext E k s0 r0).run c
  apply ca_bind
  · exact hj1
  intro i c1 h1
  rw [h1] at hj1 w1 e1
  rw [M.bind_run]
  simp only [M.get]
  apply ca_bind
  · rw [liftOpt_state]; exact hj1
  intro r c2 h2
  obtain ⟨_, e2⟩ := liftOpt_ok h2
  subst e2
  split
  · exact recordFromStaged_ca E k s0 c1 hj1 (fun sx h => (hs sx h).mono w1 e1)
  · exact hj1

theorem updateHead_ca (k : TaskKey) (ev : Event) (c : Cond) (hj : CA c) (hk : TK c) :
    CA (updateHead E k ev c).2 := by
  unfold updateHead
  rw [M.bind_run]
  simp only [M.get]
  split
  · exact hj
  apply ca_bind
  · rw [liftOpt_state]; exact hj
  intro ts c0 h0
  obtain ⟨_, e0⟩ := liftOpt_ok h0
  subst e0
  split
  · exact hj
  have hs : ∀ sx, c.st.getStaged? k = some sx → CtxOk c k.1 sx.ctxsIn := by
    intro sx hsx
    have hkey := getStaged?_key _ _ _ hsx
    have hid : sx.id = k.1 := by rw [← hkey]
    rw [← hid]
    apply hj.staged sx
    unfold WState.getStaged? at hsx
    exact List.mem_of_find?_eq_some hsx
  have hj1 := ensureRecord_ca E k _ (c.st.taskIdx? k) ev c hj hs
  apply ca_bind
  · exact hj1
  intro idx c1 h1
  rw [h1] at hj1
  obtain ⟨r1, hr1, hid1⟩ := ensureRecord_id E k ev c c1 idx hk h1
  apply ca_bind_uniform (noteEvent_nxa _ _ _) (noteEvent_ext _ _ _) (noteEvent_prev _ _ _) hj1
  intro u c2 h2 _ _ hj2
  have hsq := (noteEvent_sq k (c.st.getStaged? k) ev).run c1
  rw [h2] at hsq
  have hid2 : IdAt c2 idx k.1 := by
    intro r hr
    rw [hsq.1, hr1] at hr
    cases hr
    exact hid1
  apply ca_bind
  · exact machineStep_ca k idx ev c2 hj2 hid2
  intro p c3 h3
  have := machineStep_ca k idx ev c2 hj2 hid2
  rw [h3] at this
  exact this

/-! ### the invariants together -/

structure Inv2 (c : Cond) : Prop where
  inv : Inv c
  ca : CA c

structure JI2 {α} (m : M α) : Prop where
  run : ∀ c, Inv2 c → Inv2 (m c).2

theorem JI2.of_rel {α} {m : M α} (h1 : Rel decStep m) (h2 : Rel tkPre m) (h3 : Rel gPre m) (h4 : Rel nxaPre m)
    (h5 : Rel prevPre m) : JI2 m :=
  ⟨fun c hi => ⟨(JI.of_rel h1 h2 h3 h4 h5).run c hi.inv,
    CA.step (h4.run c).toMK (h2.run c).ext (h5.run c) hi.ca⟩⟩

theorem JI2.pure {α} (a : α) : JI2 (Pure.pure a : M α) := ⟨fun _ hi => hi⟩

theorem JI2.throw {α} (e : Err) : JI2 (M.throw e : M α) := ⟨fun _ hi => hi⟩

theorem JI2.bind {α β} {m : M α} {f : α → M β} (hm : JI2 m) (hf : ∀ a, JI2 (f a)) : JI2 (m >>= f) := by
  constructor
  intro c hi
  have h1 := hm.run c hi
  rw [M.bind_run]
  cases h : m c with
  | mk res c1 =>
    rw [h] at h1
    cases res with
    | ok a => exact (hf a).run c1 h1
    | error e => exact h1

theorem JI2.forEach {α} (xs : List α) {f : α → M Unit} (hf : ∀ x, JI2 (f x)) : JI2 (M.forEach xs f) := by
  induction xs with
  | nil => exact JI2.pure ()
  | cons x xs ih =>
    show JI2 (M.bind' (f x) fun _ => M.forEach xs f)
    exact JI2.bind (hf x) (fun _ => ih)

theorem JI2.mapM' {α β} (xs : List α) {f : α → M β} (hf : ∀ x, JI2 (f x)) : JI2 (M.mapM' xs f) := by
  induction xs with
  | nil => exact JI2.pure _
  | cons x xs ih =>
    show JI2 (M.bind' (f x) fun y => M.bind' (M.mapM' xs f) fun ys => Pure.pure (y :: ys))
    exact JI2.bind (hf x) (fun _ => JI2.bind ih (fun _ => JI2.pure _))

theorem updateRest_inv2 (recur : TaskKey → Event → M Unit)
    (hrec : ∀ nk cmd, Cmd.ofStr? nk.1 = some cmd → JI2 (recur nk (.engine cmd)))
    (k : TaskKey) (ev : Event) (h : Stepped) (c : Cond) (hi : Inv2 c)
    (hcomp : h.newStatus.isCompleted = true → CompAt c h.idx)
    (hund : h.newStatus ≠ h.oldStatus → Undecided c h.idx) :
    Inv2 (updateRest E recur k ev h c).2 := by
  unfold updateRest
  have hfirst : ∀ acc c1, (if h.newStatus.isCompleted && h.newStatus != h.oldStatus then evalTransitions E k h.idx h.ts ev
      else pure {} : M TransAcc) c = (acc, c1) → Inv2 c1 := by
    intro acc c1 h1
    split at h1
    · rename_i hcond
      simp only [Bool.and_eq_true] at hcond
      have hne : h.newStatus ≠ h.oldStatus := by
        intro he
        have := hcond.2
        rw [he] at this
        revert this
        cases h.oldStatus <;> decide
      have w := ((evalTransitions_at E k h.idx h.ts ev).run c (hcomp hcond.1)).2.weak
      have t := (evalTransitions_tk E k h.idx h.ts ev).run c
      have g := (evalTransitions_g E k h.idx h.ts ev).run c
      have j := evalTransitions_jt E k h.idx h.ts ev c hi.inv.jt (hcomp hcond.1) (hund hne) hi.inv.gk
      have a := evalTransitions_ca E k h.idx h.ts ev c hi.ca (hcomp hcond.1) (hund hne) hi.inv.gk
      rw [h1] at w t g j a
      exact ⟨hi.inv.of w t g j, a⟩
    · have : c1 = c := by
        simp only [pure, M.pure', Prod.mk.injEq] at h1
        exact h1.2.symm
      subst this
      exact hi
  rw [M.bind_run]
  cases h1 : (if h.newStatus.isCompleted && h.newStatus != h.oldStatus then evalTransitions E k h.idx h.ts ev
      else pure {} : M TransAcc) c with
  | mk res c1 =>
    have hi1 := hfirst res c1 h1
    cases res with
    | error e => exact hi1
    | ok acc =>
      dsimp only
      have hrest : JI2 (do
          let c ← M.get
          let r ← liftOpt c.st.sequence[h.idx]? .indexError
          let st ← liftOpt r.status .keyError
          wfProcessTaskEvent k st
          M.forEach acc.queue fun nk =>
            match Cmd.ofStr? nk.1 with
            | some cmd => recur nk (.engine cmd)
            | none => pure ()
          markTermIfCompleted h.idx : M Unit) := by
        apply JI2.bind (JI2.of_rel Rel.get Rel.get Rel.get Rel.get Rel.get)
        intro c2
        apply JI2.bind (JI2.of_rel (Rel.liftOpt _ _) (Rel.liftOpt _ _) (Rel.liftOpt _ _) (Rel.liftOpt _ _) (Rel.liftOpt _ _))
        intro r
        apply JI2.bind (JI2.of_rel (Rel.liftOpt _ _) (Rel.liftOpt _ _) (Rel.liftOpt _ _) (Rel.liftOpt _ _) (Rel.liftOpt _ _))
        intro st
        apply JI2.bind (JI2.of_rel (wfProcessTaskEvent_dec _ _) (wfProcessTaskEvent_tk _ _) (wfProcessTaskEvent_g _ _)
          (Rel.nxa_of_nx (wfProcessTaskEvent_nx _ _)) (wfProcessTaskEvent_prev _ _))
        intro _
        apply JI2.bind
        · apply JI2.forEach
          intro nk
          split
          · rename_i cmd hcmd
            exact hrec nk cmd hcmd
          · exact JI2.pure ()
        · intro _
          exact JI2.of_rel (markTermIfCompleted_dec _) (markTermIfCompleted_tk _) (markTermIfCompleted_g _)
            (markTermIfCompleted_nxa _) (markTermIfCompleted_prev _)
      exact hrest.run c1 hi1

theorem inv2_bind {α β} (m : M α) (f : α → M β) (c : Cond)
    (hm : Inv2 (m c).2) (hf : ∀ a c1, m c = (.ok a, c1) → Inv2 (f a c1).2) : Inv2 ((m >>= f) c).2 := by
  rw [M.bind_run]
  cases h : m c with
  | mk res c1 =>
    rw [h] at hm
    cases res with
    | ok a => exact hf a c1 h
    | error e => exact hm

theorem updateTail_inv2 (recur : TaskKey → Event → M Unit)
    (hrec : ∀ k ev c, Inv2 c → Pre18 k ev c → Inv2 (recur k ev c).2)
    (k : TaskKey) (ev : Event) (h : Stepped) (c : Cond) (hi : Inv2 c) (hpost : HeadPost h c)
    (hidx : isCmdName k.1 = false → c.st.taskIdx? k = some h.idx) :
    Inv2 (updateTail E recur k ev h c).2 := by
  unfold updateTail
  have hm1 : Rel decStep (if h.newStatus.isCompleted then completedRetryDecision E k h.idx h.ts h.oldStatus h.newStatus ev
      else pure false : M Bool) := by
    split
    · exact completedRetryDecision_dec E _ _ _ _ _ _
    · exact Rel.pure _
  have hm1p : Rel prevPre (if h.newStatus.isCompleted then completedRetryDecision E k h.idx h.ts h.oldStatus h.newStatus ev
      else pure false : M Bool) := by
    split
    · exact completedRetryDecision_prev E _ _ _ _ _ _
    · exact Rel.pure _
  have hm1k : Rel rkPre (if h.newStatus.isCompleted then completedRetryDecision E k h.idx h.ts h.oldStatus h.newStatus ev
      else pure false : M Bool) := by
    split
    · exact completedRetryDecision_rk E _ _ _ _ _ _
    · exact Rel.pure _
  have hm1n : Rel nxPre (if h.newStatus.isCompleted then completedRetryDecision E k h.idx h.ts h.oldStatus h.newStatus ev
      else pure false : M Bool) := by
    split
    · exact completedRetryDecision_nx E _ _ _ _ _ _
    · exact Rel.pure _
  have hm1t : Rel tkPre (if h.newStatus.isCompleted then completedRetryDecision E k h.idx h.ts h.oldStatus h.newStatus ev
      else pure false : M Bool) := by
    split
    · exact completedRetryDecision_tk E _ _ _ _ _ _
    · exact Rel.pure _
  have hm1g : Rel gPre (if h.newStatus.isCompleted then completedRetryDecision E k h.idx h.ts h.oldStatus h.newStatus ev
      else pure false : M Bool) := by
    split
    · exact completedRetryDecision_g E _ _ _ _ _ _
    · exact Rel.pure _
  have hs5 := hm1.run c
  have hk5 := hm1k.run c
  have hn5 := hm1n.run c
  have hi5 := (JI2.of_rel hm1 hm1t hm1g (Rel.nxa_of_nx hm1n) hm1p).run c hi
  apply inv2_bind
  · exact hi5
  intro retry c5 h5
  rw [h5] at hs5 hk5 hn5 hi5
  obtain ⟨r, hr, hstat, hund⟩ := hpost
  obtain ⟨r5, hr5, st5⟩ := hs5.old h.idx r hr
  have hund5 : h.newStatus ≠ h.oldStatus → Undecided c5 h.idx := by
    intro hne r' hr'
    rw [hr5] at hr'
    cases hr'
    rw [nx_getElem hn5 hr hr5]
    exact hund hne
  cases retry with
  | false =>
    apply updateRest_inv2 E recur _ k ev h c5 hi5
    · intro hcomp
      have hcr : Comp r := by
        cases hs : r.status with
        | none => rw [hs] at hstat; simp only [Option.getD_none] at hstat; rw [← hstat] at hcomp; cases hcomp
        | some s =>
          rw [hs] at hstat
          simp only [Option.getD_some] at hstat
          exact ⟨s, hs, by rw [hstat]; exact hcomp⟩
      exact ⟨r5, hr5, Comp.step st5 hcr⟩
    · exact hund5
    · intro nk cmd hcmd
      constructor
      intro c' hi'
      apply hrec nk _ c' hi'
      intro _
      left
      unfold isCmdName
      rw [hcmd]
      rfl
  | true =>
    apply hrec k _ c5 hi5
    intro _
    cases hcmd : isCmdName k.1 with
    | true => left; rfl
    | false =>
      right
      refine ⟨h.idx, ?_, ?_⟩
      · have := hidx hcmd
        unfold WState.taskIdx? at this ⊢
        rw [hk5.2]
        exact this
      · have hne : h.newStatus ≠ h.oldStatus := by
          split at h5
          · exact completedRetryDecision_changed E _ _ _ _ _ _ _ _ h5
          · obtain ⟨e, _⟩ := pure_ok h5
            cases e
        exact hund5 hne

theorem updateTaskStateAux_inv2 (fuel : Nat) (k : TaskKey) (ev : Event) (c : Cond) (hi : Inv2 c)
    (hpre : Pre18 k ev c) : Inv2 (updateTaskStateAux E fuel k ev c).2 := by
  induction fuel generalizing k ev c with
  | zero => unfold updateTaskStateAux; exact hi
  | succ n ih =>
    unfold updateTaskStateAux
    obtain ⟨hw, hpost⟩ := updateHead_decw E k ev c hi.inv.dec hpre
    have hjh := updateHead_jt E k ev c hi.inv.jt hi.inv.tk
    have hah := updateHead_ca E k ev c hi.ca hi.inv.tk
    have ht := (updateHead_tk E k ev).run c
    have hg := (updateHead_g E k ev).run c
    apply inv2_bind
    · exact ⟨hi.inv.of hw ht hg hjh, hah⟩
    intro h c4 h4
    rw [h4] at hw hjh hah ht hg
    apply updateTail_inv2 E _ (fun k ev c hi hp => ih k ev c hi hp) k ev h c4 ⟨hi.inv.of hw ht hg hjh, hah⟩ (hpost h c4 h4)
    intro hcmd
    exact updateHead_taskIdx E k ev c c4 h h4 hcmd

/-! ### rerun -/

theorem requestTaskRerun_ca (k : TaskKey) (resetItems : Bool) (c : Cond) (hj : CA c) (hk : TK c) :
    CA (requestTaskRerun E k resetItems c).2 := by
  unfold requestTaskRerun
  rw [M.bind_run]
  simp only [M.get]
  apply ca_bind
  · rw [liftOpt_state]; exact hj
  intro idx c0 h0
  obtain ⟨hidx, e0⟩ := liftOpt_ok h0
  subst e0
  apply ca_bind
  · rw [liftOpt_state]; exact hj
  intro task c0 h0
  obtain ⟨htask, e0⟩ := liftOpt_ok h0
  subst e0
  apply ca_bind
  · rw [liftOpt_state]; exact hj
  intro ts c0 h0
  obtain ⟨_, e0⟩ := liftOpt_ok h0
  subst e0
  have hctx : CtxOk c k.1 task.ctxsIn := by
    obtain ⟨r, hr, hid⟩ := hk.taskIdx hidx
    rw [htask] at hr
    cases hr
    rw [← hid]
    exact hj.recs task (List.mem_of_getElem? htask)
  apply ca_bind_uniform (by nxa_walk []) (by ext_walk []) (by prev_walk []) hj
  intro u c1 _ w1 e1 hj1
  apply ca_bind_uniform (by nxa_walk []) (by ext_walk []) (by prev_walk []) hj1
  intro u c2 _ w2 e2 hj2
  have hctx2 : CtxOk c2 k.1 task.ctxsIn := (hctx.mono w1 e1).mono w2 e2
  have hmid : ∀ (u : Except Err Unit) c3, ((if ts.withItems.isSome then do
        let c ← M.get
        if (c.st.getStaged? k).isNone then M.throw .attributeError
        else M.modifySt fun st => st.updateStaged k fun x =>
          { x with items := x.items.map fun l => l.map fun s => if resetItems || s.isAbended then .unset else s }
      else do
        let _ ← addTaskState E k task.ctxsIn task.prev
        M.modifySt fun st => st.addStaged
          { id := k.1, route := k.2, ctxsIn := if task.ctxsIn.isEmpty then [0] else task.ctxsIn,
            prev := task.prev, ready := true } : M Unit) c2) = (u, c3) → CA c3 := by
    intro u c3 hrun
    split at hrun
    · have hjj := CA.uniform (m := (do
          let c ← M.get
          if (c.st.getStaged? k).isNone then M.throw .attributeError
          else M.modifySt fun st => st.updateStaged k fun x =>
            { x with items := x.items.map fun l => l.map fun s => if resetItems || s.isAbended then .unset else s } : M Unit))
        (by nxa_walk []) (by ext_walk []) (by prev_walk []) c2 hj2
      rw [hrun] at hjj
      exact hjj
    · rw [M.bind_run] at hrun
      have ha := addTaskState_ca E k task.ctxsIn task.prev c2 hj2 hctx2
      have wa := ((addTaskState_nxa E k task.ctxsIn task.prev).run c2).toMK
      have ea := (addTaskState_ext E k task.ctxsIn task.prev).run c2
      cases hadd : addTaskState E k task.ctxsIn task.prev c2 with
      | mk res ca =>
        rw [hadd] at hrun ha wa ea
        cases res with
        | error e =>
          have : c3 = ca := by cases hrun; rfl
          subst this
          exact ha
        | ok i =>
          simp only [M.modifySt, M.modify] at hrun
          have hc3 : c3 = { ca with st := (ca.st.addStaged
              ({ id := k.1, route := k.2, ctxsIn := if task.ctxsIn.isEmpty then [0] else task.ctxsIn,
                 prev := task.prev, ready := true } : Staged)) } := by cases hrun; rfl
          subst hc3
          refine CA.of_parts ?mk0 ?ext0 ha ?_ ?_
          case mk0 => exact ⟨fun i r m hr hm => ⟨r, hr, hm⟩⟩
          case ext0 => exact Ext.of_eq rfl rfl rfl rfl
          · intro x' hx'
            rcases List.mem_append.mp hx' with hm | hm
            · left; exact ⟨x', hm, rfl, rfl⟩
            · right
              simp only [List.mem_singleton] at hm
              subst hm
              apply CtxOk.same (c := ca) rfl rfl
              exact (hctx2.mono wa ea).orZero
          · intro i r' hr' hlen
            have h2 : i < ca.st.sequence.length := (List.getElem?_eq_some_iff.mp hr').1
            have h3 : ca.st.sequence.length ≤ i := hlen
            omega
  rw [M.bind_run]
  cases hrun : (if ts.withItems.isSome then do
        let c ← M.get
        if (c.st.getStaged? k).isNone then M.throw .attributeError
        else M.modifySt fun st => st.updateStaged k fun x =>
          { x with items := x.items.map fun l => l.map fun s => if resetItems || s.isAbended then .unset else s }
      else do
        let _ ← addTaskState E k task.ctxsIn task.prev
        M.modifySt fun st => st.addStaged
          { id := k.1, route := k.2, ctxsIn := if task.ctxsIn.isEmpty then [0] else task.ctxsIn,
            prev := task.prev, ready := true } : M Unit) c2 with
  | mk res c3 =>
    have hj3 := hmid res c3 hrun
    cases res with
    | error e => exact hj3
    | ok _ =>
      dsimp only
      exact CA.uniform (by nxa_walk []) (by ext_walk []) (by prev_walk []) c3 hj3

theorem requestTaskRerun_ji2 (k : TaskKey) (r : Bool) : JI2 (requestTaskRerun E k r) :=
  ⟨fun c hi => ⟨(requestTaskRerun_ji E k r).run c hi.inv, requestTaskRerun_ca E k r c hi.ca hi.inv.tk⟩⟩

theorem requestRerun_ji2 (reqs : List RerunReq) : JI2 (requestRerun E reqs) := by
  unfold requestRerun
  repeat' (first
    | exact JI2.pure _ | exact JI2.throw _
    | exact JI2.of_rel Rel.get Rel.get Rel.get Rel.get Rel.get
    | exact JI2.of_rel (Rel.liftOpt _ _) (Rel.liftOpt _ _) (Rel.liftOpt _ _) (Rel.liftOpt _ _) (Rel.liftOpt _ _)
    | exact JI2.of_rel (Rel.liftExcept _) (Rel.liftExcept _) (Rel.liftExcept _) (Rel.liftExcept _) (Rel.liftExcept _)
    | exact requestTaskRerun_ji2 E _ _
    | apply JI2.bind | apply JI2.forEach | apply JI2.mapM'
    | intro _ | split
    | (apply JI2.of_rel
       · dec_walk []
       · tk_walk []
       · g_walk []
       · nxa_walk []
       · prev_walk [])
    | dsimp only)

end Orq
