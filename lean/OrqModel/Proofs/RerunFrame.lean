/-
C17: an accepted or rejected rerun request publishes nothing and routes nothing: the context
snapshots, the routes and the publication log are exactly what they were.  (That the decisions
and the identity, context list and predecessors of every existing record survive is C18; that
only statuses change under a status request is `RequestFrame.lean`.)
-/
import OrqModel.Proofs.LogKeep

namespace Orq

variable (E : Evaluator)

def crPre : Pre where
  R c c' := c'.st.contexts = c.st.contexts ∧ c'.st.routes = c.st.routes
  refl _ := ⟨rfl, rfl⟩
  trans h1 h2 := ⟨h2.1.trans h1.1, h2.2.trans h1.2⟩

theorem Rel.raw_cr {α} {m : M α} (h : ∀ c, (m c).2.st.contexts = c.st.contexts ∧ (m c).2.st.routes = c.st.routes) :
    Rel crPre m := ⟨h⟩

theorem Rel.cr_of_fr {α} {m : M α} (h : Rel frPre m) : Rel crPre m := ⟨fun c => ⟨(h.run c).contexts, (h.run c).routes⟩⟩

theorem logEntry_cr (e) : Rel crPre (logEntry e) := by
  apply Rel.raw_cr
  intro c
  unfold logEntry M.modify
  dsimp only
  split <;> exact ⟨rfl, rfl⟩

syntax "cr_walk" "[" term,* "]" : tactic
macro_rules
  | `(tactic| cr_walk [$ts,*]) => do
    let alts ← ts.getElems.mapM fun t => `(tactic| exact $t)
    `(tactic| repeat' (first
      | exact Rel.pure _ | exact Rel.pure' _ | exact Rel.throw _ | exact Rel.get
      | exact Rel.liftOpt _ _ | exact Rel.liftExcept _
      | exact logEntry_cr _
      $[| $alts:tactic]*
      | (apply Rel.raw_cr; intro c; first | exact ⟨rfl, rfl⟩ | (constructor <;> simp [M.modifySt, M.modify]; done))
      | apply Rel.bind | apply Rel.bind' | apply Rel.tryCatch | apply Rel.forEach | apply Rel.foldM' | apply Rel.mapM'
      | intro _ | split | dsimp only ))

theorem logError_cr (k a b c) : Rel crPre (logError k a b c) := logEntry_cr _

theorem requestStatus_cr (req) : Rel crPre (requestStatus req) := Rel.cr_of_fr (requestStatus_fr req)

theorem failOnError_cr : Rel crPre failOnError := by
  unfold failOnError
  cr_walk [requestStatus_cr _]

theorem addTaskState_cr (k a b) : Rel crPre (addTaskState E k a b) := by
  unfold addTaskState
  cr_walk [failOnError_cr, logError_cr _ _ _ _]

theorem requestTaskRerun_cr (k r) : Rel crPre (requestTaskRerun E k r) := by
  unfold requestTaskRerun
  cr_walk [addTaskState_cr E _ _ _]

theorem requestRerun_cr (reqs) : Rel crPre (requestRerun E reqs) := by
  unfold requestRerun
  cr_walk [requestTaskRerun_cr E _ _]

end Orq
