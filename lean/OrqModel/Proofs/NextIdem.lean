/-
C19: asking for the next tasks twice gives the same answer and leaves the state as the first call
left it (when the first call returned tasks, i.e. did not fail the workflow on a rendering error),
for every evaluator that cannot see the `items` bookkeeping of the staging area.
-/
import OrqModel.Proofs.Query
import OrqModel.Properties.Next

namespace Orq

variable (E : Evaluator)

/-! ### the staging list: lookup and update by key -/

def keyOf (x : Staged) : TaskKey := (x.id, x.route)

def matchesKey (k : TaskKey) (x : Staged) : Bool := x.id == k.1 && x.route == k.2

theorem getStaged?_eq (st : WState) (k : TaskKey) : st.getStaged? k = st.staged.find? (matchesKey k) := rfl

theorem matchesKey_dropItems (k : TaskKey) (x : Staged) : matchesKey k x.dropItems = matchesKey k x := rfl

/-- lookup commutes with forgetting the items -/
theorem find?_dropItems (k : TaskKey) (l l' : List Staged)
    (h : l'.map Staged.dropItems = l.map Staged.dropItems) :
    (l'.find? (matchesKey k)).map Staged.dropItems = (l.find? (matchesKey k)).map Staged.dropItems := by
  induction l generalizing l' with
  | nil =>
    cases l' with
    | nil => rfl
    | cons a as => simp at h
  | cons x xs ih =>
    cases l' with
    | nil => simp at h
    | cons a as =>
      simp only [List.map_cons, List.cons.injEq] at h
      have hm : matchesKey k a = matchesKey k x := by
        rw [← matchesKey_dropItems k a, ← matchesKey_dropItems k x, h.1]
      simp only [List.find?_cons, hm]
      cases hx : matchesKey k x with
      | true => simp only [Option.map_some, h.1]
      | false => exact ih as h.2

/-- the entry's `items` as seen by key -/
def itemsAt (st : WState) (k : TaskKey) : Option (List Status) := (st.getStaged? k).bind (·.items)

def setItems (st : WState) (k : TaskKey) (items : List Status) : WState :=
  st.updateStaged k fun x => { x with items := some items }

theorem go_dropItems (k : TaskKey) (items : List Status) (l : List Staged) :
    (WState.updateStaged.go k (fun x => { x with items := some items }) l).map Staged.dropItems =
      l.map Staged.dropItems :=
  updateStaged_go_dropItems k (fun x => { x with items := some items }) (fun _ => rfl) l

theorem find?_go_same (k : TaskKey) (items : List Status) (l : List Staged) :
    (WState.updateStaged.go k (fun x => { x with items := some items }) l).find? (matchesKey k) =
      (l.find? (matchesKey k)).map fun x => { x with items := some items } := by
  induction l with
  | nil => rfl
  | cons x xs ih =>
    unfold WState.updateStaged.go
    by_cases hx : (x.id == k.1 && x.route == k.2) = true
    · rw [if_pos hx]
      simp only [List.find?_cons]
      have h1 : matchesKey k { x with items := some items } = true := hx
      have h2 : matchesKey k x = true := hx
      simp only [h1, h2, Option.map_some]
    · rw [if_neg hx]
      simp only [List.find?_cons]
      have h2 : matchesKey k x = false := by
        unfold matchesKey; exact Bool.eq_false_iff.mpr hx
      simp only [h2]
      exact ih

theorem find?_go_other (k k' : TaskKey) (hk : k' ≠ k) (items : List Status) (l : List Staged) :
    (WState.updateStaged.go k (fun x => { x with items := some items }) l).find? (matchesKey k') =
      l.find? (matchesKey k') := by
  induction l with
  | nil => rfl
  | cons x xs ih =>
    unfold WState.updateStaged.go
    by_cases hx : (x.id == k.1 && x.route == k.2) = true
    · rw [if_pos hx]
      simp only [List.find?_cons]
      have h1 : matchesKey k' { x with items := some items } = matchesKey k' x := rfl
      have h2 : matchesKey k' x = false := by
        unfold matchesKey
        simp only [Bool.and_eq_true, beq_iff_eq] at hx
        cases hm : (x.id == k'.1 && x.route == k'.2) with
        | false => rfl
        | true =>
          simp only [Bool.and_eq_true, beq_iff_eq] at hm
          exact absurd (Prod.ext (hm.1.symm.trans hx.1) (hm.2.symm.trans hx.2)) hk
      simp only [h1, h2]
    · rw [if_neg hx]
      simp only [List.find?_cons]
      cases hm : matchesKey k' x with
      | true => rfl
      | false => exact ih

theorem go_noop (k : TaskKey) (items : List Status) (l : List Staged)
    (h : ∀ x, l.find? (matchesKey k) = some x → x.items = some items) :
    WState.updateStaged.go k (fun x => { x with items := some items }) l = l := by
  induction l with
  | nil => rfl
  | cons x xs ih =>
    unfold WState.updateStaged.go
    by_cases hx : (x.id == k.1 && x.route == k.2) = true
    · rw [if_pos hx]
      have h2 : matchesKey k x = true := hx
      have := h x (by simp only [List.find?_cons, h2])
      cases x
      simp only at this
      subst this
      rfl
    · rw [if_neg hx]
      have h2 : matchesKey k x = false := by
        unfold matchesKey; exact Bool.eq_false_iff.mpr hx
      rw [ih]
      intro y hy
      apply h y
      simp only [List.find?_cons, h2]
      exact hy

theorem itemsAt_setItems_same (st : WState) (k : TaskKey) (items : List Status) (x : Staged)
    (hx : st.getStaged? k = some x) : itemsAt (setItems st k items) k = some items := by
  unfold itemsAt setItems WState.updateStaged
  rw [getStaged?_eq] at hx ⊢
  show (List.find? (matchesKey k) (WState.updateStaged.go k _ st.staged)).bind _ = _
  rw [find?_go_same, hx]
  rfl

theorem getStaged?_setItems_other (st : WState) (k k' : TaskKey) (hk : k' ≠ k) (items : List Status) :
    (setItems st k items).getStaged? k' = st.getStaged? k' := by
  unfold setItems WState.updateStaged
  rw [getStaged?_eq, getStaged?_eq]
  show List.find? (matchesKey k') (WState.updateStaged.go k _ st.staged) = _
  exact find?_go_other k k' hk items st.staged

theorem itemsAt_setItems_other (st : WState) (k k' : TaskKey) (hk : k' ≠ k) (items : List Status) :
    itemsAt (setItems st k items) k' = itemsAt st k' := by
  unfold itemsAt
  rw [getStaged?_setItems_other st k k' hk]

theorem setItems_noop (st : WState) (k : TaskKey) (items : List Status)
    (h : ∀ x, st.getStaged? k = some x → x.items = some items) : setItems st k items = st := by
  unfold setItems WState.updateStaged
  have := go_noop k items st.staged h
  show { st with staged := WState.updateStaged.go k _ st.staged } = st
  rw [this]

/-! ### what a query reads -/

def SameButItems (st st' : WState) : Prop :=
  st'.contexts = st.contexts ∧ st'.routes = st.routes ∧ st'.sequence = st.sequence ∧ st'.tasks = st.tasks ∧
  st'.reruns = st.reruns ∧ st'.status = st.status ∧
  st'.staged.map Staged.dropItems = st.staged.map Staged.dropItems

theorem SameButItems.refl (st : WState) : SameButItems st st := ⟨rfl, rfl, rfl, rfl, rfl, rfl, rfl⟩

theorem SameButItems.trans {a b c : WState} (h1 : SameButItems a b) (h2 : SameButItems b c) : SameButItems a c :=
  ⟨h2.1.trans h1.1, h2.2.1.trans h1.2.1, h2.2.2.1.trans h1.2.2.1, h2.2.2.2.1.trans h1.2.2.2.1,
   h2.2.2.2.2.1.trans h1.2.2.2.2.1, h2.2.2.2.2.2.1.trans h1.2.2.2.2.2.1, h2.2.2.2.2.2.2.trans h1.2.2.2.2.2.2⟩

theorem SameButItems.setItems (st : WState) (k : TaskKey) (items : List Status) :
    SameButItems st (setItems st k items) :=
  ⟨rfl, rfl, rfl, rfl, rfl, rfl, go_dropItems k items st.staged⟩

/-- the evaluator cannot see the `items` bookkeeping of the staging area (the functions of the
    expression languages read task records, the current task and item, never the staging area) -/
def Evaluator.ItemsBlind (E : Evaluator) : Prop :=
  ∀ st st', SameButItems st st' → ∀ e (ec : EvalCtx),
    E.eval e { ec with st := some st' } = E.eval e { ec with st := some st }

def evAt (st : WState) : Expr → EvalCtx → Option Val := fun e ec => E.eval e { ec with st := some st }

theorem evAt_congr (hE : E.ItemsBlind) {st st' : WState} (h : SameButItems st st') : evAt E st' = evAt E st := by
  funext e ec
  exact hE st st' h e ec

/-- the pure content of `get_task` -/
def renderOf (c : Cond) (k : TaskKey) : Except Err Offer :=
  match c.st.taskContext (taskCtxIdxs c.st k) with
  | .error e => .error e
  | .ok vars =>
    match c.spec.getTask? k.1 with
    | none => .error .keyError
    | some ts => renderTask (evAt E c.st) ts vars k

theorem getTask_run (k : TaskKey) (c : Cond) :
    getTask E k c = (match renderOf E c k with
      | .ok o => (.ok o, c)
      | .error e => (.error e, c)) := by
  unfold getTask renderOf
  rw [M.bind_run]
  simp only [M.get]
  rw [M.bind_run]
  cases h1 : c.st.taskContext (taskCtxIdxs c.st k) with
  | error e => rfl
  | ok vars =>
    simp only [M.liftExcept, pure, M.pure']
    rw [M.bind_run]
    cases h2 : c.spec.getTask? k.1 with
    | none => rfl
    | some ts =>
      simp only [liftOpt, pure, M.pure']
      show M.liftExcept (renderTask (evAt E c.st) ts vars k) c = _
      cases renderTask (evAt E c.st) ts vars k <;> rfl

theorem getRec?_congr {st st' : WState} (h : SameButItems st st') (k : TaskKey) : st'.getRec? k = st.getRec? k := by
  unfold WState.getRec? WState.taskIdx?
  rw [h.2.2.2.1, h.2.2.1]

theorem taskContext_congr {st st' : WState} (h : SameButItems st st') (idxs : List Nat) :
    st'.taskContext idxs = st.taskContext idxs := by
  unfold WState.taskContext
  rw [h.1]

theorem getStaged?_dropItems {st st' : WState} (h : SameButItems st st') (k : TaskKey) :
    (st'.getStaged? k).map Staged.dropItems = (st.getStaged? k).map Staged.dropItems := by
  rw [getStaged?_eq, getStaged?_eq]
  exact find?_dropItems k st.staged st'.staged h.2.2.2.2.2.2

theorem taskCtxIdxs_congr {st st' : WState} (h : SameButItems st st') (k : TaskKey) :
    taskCtxIdxs st' k = taskCtxIdxs st k := by
  unfold taskCtxIdxs
  have hs := getStaged?_dropItems h k
  rw [getRec?_congr h k]
  cases h1 : st.getStaged? k with
  | none =>
    rw [h1] at hs
    cases h2 : st'.getStaged? k with
    | none => rfl
    | some y => rw [h2] at hs; cases hs
  | some x =>
    rw [h1] at hs
    cases h2 : st'.getStaged? k with
    | none => rw [h2] at hs; cases hs
    | some y =>
      rw [h2] at hs
      simp only [Option.map_some, Option.some.injEq] at hs
      have : y.dropItems.ctxsIn = x.dropItems.ctxsIn := congrArg Staged.ctxsIn hs
      have : y.ctxsIn = x.ctxsIn := this
      simp only [this]

theorem renderOf_congr (hE : E.ItemsBlind) {c c' : Cond} (hs : c'.spec = c.spec)
    (h : SameButItems c.st c'.st) (k : TaskKey) : renderOf E c' k = renderOf E c k := by
  unfold renderOf
  rw [taskCtxIdxs_congr h k, taskContext_congr h, hs, evAt_congr E hE h]

/-! ### one staged entry of the query, when nothing fails -/

def pickOffer (o : Offer) : Option Offer :=
  if !o.actions.isEmpty then some o else if o.itemsCount == some 0 then some o else none

/-- the outcome of `nextTaskFor` when nothing raises: the offer (if any) and the item statuses it
    records in the staged entry -/
def entryOk (c : Cond) (sx : Staged) : Option (Option Offer × Option (List Status)) :=
  match renderOf E c (sx.id, sx.route) with
  | .error _ => none
  | .ok o =>
    match o.itemsCount with
    | none => some (pickOffer (withRetryDelay sx o), none)
    | some n =>
      match c.st.getStaged? (o.id, o.route) with
      | none => none
      | some x =>
        match windowOf o (normItems x.items n) with
        | .error _ => none
        | .ok o' => some (pickOffer (withRetryDelay sx o'), some (normItems x.items n))

def applyItems (c : Cond) (k : TaskKey) : Option (List Status) → Cond
  | none => c
  | some items => { c with st := setItems c.st k items }

theorem renderOf_key (c : Cond) (k : TaskKey) (o : Offer) (h : renderOf E c k = .ok o) :
    o.id = k.1 ∧ o.route = k.2 := by
  unfold renderOf at h
  split at h
  · cases h
  · split at h
    · cases h
    · exact renderTask_key _ _ _ _ o h

theorem evaluateTaskActions_run (o : Offer) (c : Cond) :
    evaluateTaskActions o c = (match o.itemsCount with
      | none => (.ok o, c)
      | some n => match c.st.getStaged? (o.id, o.route) with
        | none => (.error .typeError, c)
        | some x => match windowOf o (normItems x.items n) with
          | .ok o' => (.ok o', { c with st := setItems c.st (o.id, o.route) (normItems x.items n) })
          | .error e => (.error e, { c with st := setItems c.st (o.id, o.route) (normItems x.items n) })) := by
  unfold evaluateTaskActions
  cases hn : o.itemsCount with
  | none => rfl
  | some n =>
    dsimp only
    rw [M.bind_run]
    simp only [M.get]
    cases hx : c.st.getStaged? (o.id, o.route) with
    | none => rfl
    | some x =>
      dsimp only
      rw [M.bind_run]
      simp only [M.modifySt, M.modify]
      cases hw : windowOf o (normItems x.items n) <;> rfl

theorem pick_run (o : Offer) (c : Cond) :
    (if !o.actions.isEmpty then (pure (some o, false) : M (Option Offer × Bool))
      else if o.itemsCount == some 0 then pure (some o, false) else pure (none, false)) c =
      (.ok (pickOffer o, false), c) := by
  unfold pickOffer
  split
  · rfl
  · split <;> rfl

theorem nextTaskFor_ok (c : Cond) (sx : Staged) (r : Option Offer) (it : Option (List Status))
    (h : entryOk E c sx = some (r, it)) :
    nextTaskFor E sx c = (.ok (r, false), applyItems c (sx.id, sx.route) it) := by
  unfold entryOk at h
  unfold nextTaskFor M.tryCatch
  rw [M.bind_run, getTask_run]
  cases hr : renderOf E c (sx.id, sx.route) with
  | error e => rw [hr] at h; cases h
  | ok o =>
    rw [hr] at h
    have hk := renderOf_key E c _ o hr
    dsimp only at h ⊢
    rw [M.bind_run, evaluateTaskActions_run]
    cases hn : o.itemsCount with
    | none =>
      rw [hn] at h
      simp only [Option.some.injEq, Prod.mk.injEq] at h
      obtain ⟨h1, h2⟩ := h
      subst h1 h2
      dsimp only
      rw [pick_run]
      rfl
    | some n =>
      rw [hn] at h
      dsimp only at h ⊢
      cases hx : c.st.getStaged? (o.id, o.route) with
      | none => rw [hx] at h; cases h
      | some x =>
        rw [hx] at h
        dsimp only at h ⊢
        cases hw : windowOf o (normItems x.items n) with
        | error e => rw [hw] at h; cases h
        | ok o' =>
          rw [hw] at h
          simp only [Option.some.injEq, Prod.mk.injEq] at h
          obtain ⟨h1, h2⟩ := h
          subst h1 h2
          dsimp only
          rw [pick_run]
          have hkk : (o.id, o.route) = (sx.id, sx.route) := Prod.ext hk.1 hk.2
          rw [hkk]
          rfl

theorem handler_run (kind : String) (a b : Option _) (s : Cond) :
    ((logError kind a b >>= fun _ => (pure (none, true) : M (Option Offer × Bool))) s).1 = .ok (none, true) := by
  rw [M.bind_run]
  unfold logError logEntry M.modify
  dsimp only
  split <;> rfl

theorem nextTaskFor_fail (c : Cond) (sx : Staged) (h : entryOk E c sx = none) :
    (nextTaskFor E sx c).1 = .ok (none, true) := by
  unfold entryOk at h
  unfold nextTaskFor M.tryCatch
  rw [M.bind_run, getTask_run]
  cases hr : renderOf E c (sx.id, sx.route) with
  | error e => exact handler_run _ _ _ _
  | ok o =>
    rw [hr] at h
    dsimp only at h ⊢
    rw [M.bind_run, evaluateTaskActions_run]
    cases hn : o.itemsCount with
    | none => rw [hn] at h; cases h
    | some n =>
      rw [hn] at h
      dsimp only at h ⊢
      cases hx : c.st.getStaged? (o.id, o.route) with
      | none => exact handler_run _ _ _ _
      | some x =>
        rw [hx] at h
        dsimp only at h ⊢
        cases hw : windowOf o (normItems x.items n) with
        | error e => exact handler_run _ _ _ _
        | ok o' => rw [hw] at h; cases h

/-! ### "more entries normalised" -/

def countOf (c : Cond) (k : TaskKey) : Option Nat :=
  match renderOf E c k with
  | .ok o => o.itemsCount
  | .error _ => none

theorem normItems_idem (I : Option (List Status)) (n : Nat) : normItems (some (normItems I n)) n = normItems I n := by
  unfold normItems
  cases I with
  | none =>
    dsimp only
    split
    · rfl
    · rfl
  | some its =>
    dsimp only
    by_cases h : its.isEmpty = true
    · simp only [h, if_true]
      split <;> rfl
    · simp only [h]
      simp only [Bool.false_eq_true, if_false]
      rw [if_neg h]

/-- `t` is `s` with the items of some staged entries initialised the way a query initialises them -/
structure Le (s t : Cond) : Prop where
  spec : t.spec = s.spec
  same : SameButItems s.st t.st
  items : ∀ k, itemsAt t.st k = itemsAt s.st k ∨
    ∃ n, countOf E s k = some n ∧ itemsAt t.st k = some (normItems (itemsAt s.st k) n)

theorem Le.refl (s : Cond) : Le E s s := ⟨rfl, SameButItems.refl _, fun _ => Or.inl rfl⟩

theorem countOf_congr (hE : E.ItemsBlind) {s t : Cond} (h : Le E s t) (k : TaskKey) :
    countOf E t k = countOf E s k := by
  unfold countOf
  rw [renderOf_congr E hE h.spec h.same k]

theorem Le.trans (hE : E.ItemsBlind) {a b c : Cond} (h1 : Le E a b) (h2 : Le E b c) : Le E a c := by
  refine ⟨h2.spec.trans h1.spec, h1.same.trans h2.same, ?_⟩
  intro k
  rcases h2.items k with h | ⟨n, hn, h⟩
  · rw [h]; exact h1.items k
  · rw [countOf_congr E hE h1 k] at hn
    rcases h1.items k with h' | ⟨n', hn', h'⟩
    · right; exact ⟨n, hn, by rw [h, h']⟩
    · right
      rw [hn] at hn'
      cases hn'
      refine ⟨n, hn, ?_⟩
      rw [h, h', normItems_idem]

theorem itemsAt_of_getStaged {st : WState} {k : TaskKey} {x : Staged} (h : st.getStaged? k = some x) :
    itemsAt st k = x.items := by
  unfold itemsAt
  rw [h]
  rfl

theorem getStaged?_exists {st st' : WState} (h : SameButItems st st') (k : TaskKey) (x : Staged)
    (hx : st.getStaged? k = some x) : ∃ y, st'.getStaged? k = some y := by
  have := getStaged?_dropItems h k
  rw [hx] at this
  cases hy : st'.getStaged? k with
  | none => rw [hy] at this; cases this
  | some y => exact ⟨y, rfl⟩

theorem applyItems_same (c : Cond) (k : TaskKey) (it : Option (List Status)) :
    SameButItems c.st (applyItems c k it).st := by
  cases it with
  | none => exact SameButItems.refl _
  | some items => exact SameButItems.setItems _ _ _

theorem applyItems_spec (c : Cond) (k : TaskKey) (it : Option (List Status)) : (applyItems c k it).spec = c.spec := by
  cases it <;> rfl

/-- the step is monotone: on a state with more entries normalised it gives the same offer and
    records the same items -/
theorem entryOk_mono (hE : E.ItemsBlind) {s t : Cond} (h : Le E s t) (sx : Staged) (r : Option Offer)
    (it : Option (List Status)) (hs : entryOk E s sx = some (r, it)) : entryOk E t sx = some (r, it) := by
  unfold entryOk at hs ⊢
  rw [renderOf_congr E hE h.spec h.same]
  cases hr : renderOf E s (sx.id, sx.route) with
  | error e => rw [hr] at hs; cases hs
  | ok o =>
    rw [hr] at hs
    dsimp only at hs ⊢
    cases hn : o.itemsCount with
    | none => rw [hn] at hs; exact hs
    | some n =>
      rw [hn] at hs
      dsimp only at hs ⊢
      cases hx : s.st.getStaged? (o.id, o.route) with
      | none => rw [hx] at hs; cases hs
      | some x =>
        rw [hx] at hs
        obtain ⟨y, hy⟩ := getStaged?_exists h.same _ x hx
        rw [hy]
        dsimp only at hs ⊢
        have hk := renderOf_key E s _ o hr
        have hkk : (o.id, o.route) = (sx.id, sx.route) := Prod.ext hk.1 hk.2
        have hcount : countOf E s (o.id, o.route) = some n := by
          unfold countOf
          rw [hkk, hr]
          exact hn
        have hitems : normItems y.items n = normItems x.items n := by
          have hy' := itemsAt_of_getStaged hy
          have hx' := itemsAt_of_getStaged hx
          rcases h.items (o.id, o.route) with hi | ⟨n', hn', hi⟩
          · rw [← hy', hi, hx']
          · rw [hcount] at hn'
            cases hn'
            rw [← hy', hi, hx', normItems_idem]
        rw [hitems]
        exact hs

theorem SameButItems.symm {a b : WState} (h : SameButItems a b) : SameButItems b a :=
  ⟨h.1.symm, h.2.1.symm, h.2.2.1.symm, h.2.2.2.1.symm, h.2.2.2.2.1.symm, h.2.2.2.2.2.1.symm, h.2.2.2.2.2.2.symm⟩

/-- when the step records items, the entry exists and the items are the normalised ones -/
theorem entryOk_items (s : Cond) (sx : Staged) (r : Option Offer) (items : List Status)
    (hs : entryOk E s sx = some (r, some items)) :
    ∃ x n, s.st.getStaged? (sx.id, sx.route) = some x ∧ countOf E s (sx.id, sx.route) = some n ∧
      items = normItems x.items n := by
  unfold entryOk at hs
  cases hr : renderOf E s (sx.id, sx.route) with
  | error e => rw [hr] at hs; cases hs
  | ok o =>
    rw [hr] at hs
    have hk := renderOf_key E s _ o hr
    have hkk : (o.id, o.route) = (sx.id, sx.route) := Prod.ext hk.1 hk.2
    dsimp only at hs
    cases hn : o.itemsCount with
    | none => rw [hn] at hs; simp at hs
    | some n =>
      rw [hn] at hs
      dsimp only at hs
      rw [hkk] at hs
      cases hx : s.st.getStaged? (sx.id, sx.route) with
      | none => rw [hx] at hs; cases hs
      | some x =>
        rw [hx] at hs
        dsimp only at hs
        cases hw : windowOf o (normItems x.items n) with
        | error e => rw [hw] at hs; cases hs
        | ok o' =>
          rw [hw] at hs
          simp only [Option.some.injEq, Prod.mk.injEq] at hs
          refine ⟨x, n, rfl, ?_, hs.2.symm⟩
          unfold countOf
          rw [hr]
          exact hn

theorem countOf_applyItems (hE : E.ItemsBlind) (s : Cond) (k k' : TaskKey) (it : Option (List Status)) :
    countOf E (applyItems s k it) k' = countOf E s k' := by
  unfold countOf
  rw [renderOf_congr E hE (applyItems_spec s k it) (applyItems_same s k it) k']

theorem Le.step (hE : E.ItemsBlind) (s : Cond) (sx : Staged) (r : Option Offer) (it : Option (List Status))
    (hs : entryOk E s sx = some (r, it)) : Le E s (applyItems s (sx.id, sx.route) it) := by
  refine ⟨applyItems_spec _ _ _, applyItems_same _ _ _, ?_⟩
  intro k'
  cases it with
  | none => exact Or.inl rfl
  | some items =>
    obtain ⟨x, n, hx, hn, hi⟩ := entryOk_items E s sx r items hs
    by_cases hk : k' = (sx.id, sx.route)
    · subst hk
      right
      refine ⟨n, hn, ?_⟩
      show itemsAt (setItems s.st _ items) _ = _
      rw [itemsAt_setItems_same _ _ _ x hx, itemsAt_of_getStaged hx, hi]
    · left
      exact itemsAt_setItems_other _ _ _ hk _

theorem Le.apply (hE : E.ItemsBlind) {s t : Cond} (h : Le E s t) (sx : Staged) (r : Option Offer)
    (it : Option (List Status)) (hs : entryOk E s sx = some (r, it)) :
    Le E (applyItems s (sx.id, sx.route) it) (applyItems t (sx.id, sx.route) it) := by
  refine ⟨?_, ?_, ?_⟩
  · rw [applyItems_spec, applyItems_spec]; exact h.spec
  · exact ((applyItems_same s _ it).symm.trans h.same).trans (applyItems_same t _ it)
  · intro k'
    cases it with
    | none => exact h.items k'
    | some items =>
      obtain ⟨x, n, hx, hn, hi⟩ := entryOk_items E s sx r items hs
      obtain ⟨y, hy⟩ := getStaged?_exists h.same _ x hx
      by_cases hk : k' = (sx.id, sx.route)
      · subst hk
        left
        show itemsAt (setItems t.st _ items) _ = itemsAt (setItems s.st _ items) _
        rw [itemsAt_setItems_same _ _ _ x hx, itemsAt_setItems_same _ _ _ y hy]
      · have e1 : itemsAt (applyItems t (sx.id, sx.route) (some items)).st k' = itemsAt t.st k' :=
          itemsAt_setItems_other _ _ _ hk _
        have e2 : itemsAt (applyItems s (sx.id, sx.route) (some items)).st k' = itemsAt s.st k' :=
          itemsAt_setItems_other _ _ _ hk _
        rw [e1, e2, countOf_applyItems E hE s _ k' (some items)]
        exact h.items k'

/-- saturation: on a state that already contains what the step records, the step changes nothing -/
theorem applyItems_saturated (hE : E.ItemsBlind) (s t : Cond) (sx : Staged) (r : Option Offer)
    (it : Option (List Status)) (hs : entryOk E s sx = some (r, it))
    (h : Le E (applyItems s (sx.id, sx.route) it) t) : applyItems t (sx.id, sx.route) it = t := by
  cases it with
  | none => rfl
  | some items =>
    obtain ⟨x, n, hx, hn, hi⟩ := entryOk_items E s sx r items hs
    have hs' : itemsAt (applyItems s (sx.id, sx.route) (some items)).st (sx.id, sx.route) = some items :=
      itemsAt_setItems_same _ _ _ x hx
    have ht : itemsAt t.st (sx.id, sx.route) = some items := by
      rcases h.items (sx.id, sx.route) with hi' | ⟨n', hn', hi'⟩
      · rw [hi', hs']
      · rw [countOf_applyItems E hE, hn] at hn'
        cases hn'
        rw [hi', hs', hi, normItems_idem]
    show ({ t with st := setItems t.st (sx.id, sx.route) items } : Cond) = t
    rw [setItems_noop]
    intro y hy
    rw [← itemsAt_of_getStaged hy, ht]

/-! ### the loop of `get_next_tasks` -/

def pushOffer (acc : List Offer) (r : Option Offer) : List Offer :=
  match r with
  | some o => acc ++ [o]
  | none => acc

def loopBody (acc : List Offer × Bool) (sx : Staged) : M (List Offer × Bool) := do
  let (o, f) ← nextTaskFor E sx
  pure (match o with | some o => acc.1 ++ [o] | none => acc.1, acc.2 || f)

def nextLoop (l : List Staged) (acc : List Offer × Bool) : M (List Offer × Bool) := M.foldM' l acc (loopBody E)

theorem nextFrom_eq (todo : List Staged) :
    nextFrom E todo = (nextLoop E todo ([], false) >>= fun p =>
      if p.2 then do failOnError; pure [] else pure (sortOffers p.1)) := rfl

theorem loopBody_ok (acc : List Offer × Bool) (sx : Staged) (c : Cond) (r : Option Offer)
    (it : Option (List Status)) (h : entryOk E c sx = some (r, it)) :
    loopBody E acc sx c = (.ok (pushOffer acc.1 r, acc.2), applyItems c (sx.id, sx.route) it) := by
  unfold loopBody
  rw [M.bind_run, nextTaskFor_ok E c sx r it h]
  dsimp only
  cases r <;> simp [pushOffer, pure, M.pure']

theorem loopBody_fail (acc : List Offer × Bool) (sx : Staged) (c : Cond) (h : entryOk E c sx = none) :
    ∃ c', loopBody E acc sx c = (.ok (acc.1, true), c') := by
  have h1 := nextTaskFor_fail E c sx h
  unfold loopBody
  rw [M.bind_run]
  cases h2 : nextTaskFor E sx c with
  | mk res c' =>
    rw [h2] at h1
    dsimp only at h1
    subst h1
    exact ⟨c', by simp [pure, M.pure']⟩

theorem nextLoop_flag (l : List Staged) (acc : List Offer × Bool) (c c1 : Cond) (p : List Offer × Bool)
    (h : nextLoop E l acc c = (.ok p, c1)) (ha : acc.2 = true) : p.2 = true := by
  induction l generalizing acc c with
  | nil =>
    have : (Except.ok acc, c) = (Except.ok p, c1) := h
    cases this
    exact ha
  | cons x xs ih =>
    unfold nextLoop M.foldM' at h
    obtain ⟨b, c2, hb, h2⟩ := M.bind_ok (m := loopBody E acc x) h
    apply ih b c2 h2
    cases he : entryOk E c x with
    | none =>
      obtain ⟨c', hc'⟩ := loopBody_fail E acc x c he
      rw [hc'] at hb
      cases hb
      rfl
    | some q =>
      obtain ⟨r, it⟩ := q
      rw [loopBody_ok E acc x c r it he] at hb
      cases hb
      exact ha

/-- the first pass determines the second -/
theorem nextLoop_idem (hE : E.ItemsBlind) (l : List Staged) (acc : List Offer × Bool) (s c1 : Cond)
    (offers : List Offer) (ha : acc.2 = false) (h : nextLoop E l acc s = (.ok (offers, false), c1)) :
    Le E s c1 ∧ ∃ new, offers = acc.1 ++ new ∧
      ∀ t (acc' : List Offer × Bool), Le E c1 t → acc'.2 = false →
        nextLoop E l acc' t = (.ok (acc'.1 ++ new, false), t) := by
  induction l generalizing acc s with
  | nil =>
    have : (Except.ok acc, s) = (Except.ok (offers, false), c1) := h
    cases this
    refine ⟨Le.refl E _, [], by simp, ?_⟩
    intro t acc' _ ha'
    show (Except.ok acc', t) = _
    obtain ⟨a1, a2⟩ := acc'
    simp only at ha'
    subst ha'
    simp
  | cons x xs ih =>
    unfold nextLoop M.foldM' at h
    obtain ⟨b, c2, hb, h2⟩ := M.bind_ok (m := loopBody E acc x) h
    cases he : entryOk E s x with
    | none =>
      obtain ⟨c', hc'⟩ := loopBody_fail E acc x s he
      rw [hc'] at hb
      cases hb
      have := nextLoop_flag E xs _ _ _ _ h2 rfl
      cases this
    | some q =>
      obtain ⟨r, it⟩ := q
      rw [loopBody_ok E acc x s r it he] at hb
      cases hb
      obtain ⟨hle, new', hoff, hrest⟩ := ih (pushOffer acc.1 r, acc.2) _ ha h2
      have hstep := Le.step E hE s x r it he
      refine ⟨Le.trans E hE hstep hle, (pushOffer [] r) ++ new', ?_, ?_⟩
      · rw [hoff]
        cases r <;> simp [pushOffer]
      · intro t acc' hct ha'
        have hst : Le E s t := Le.trans E hE (Le.trans E hE hstep hle) hct
        have het := entryOk_mono E hE hst x r it he
        have hsat := applyItems_saturated E hE s t x r it he (Le.trans E hE hle hct)
        show M.bind' (loopBody E acc' x) (fun b => nextLoop E xs b) t = _
        unfold M.bind'
        rw [loopBody_ok E acc' x t r it het, hsat]
        dsimp only
        rw [hrest t (pushOffer acc'.1 r, acc'.2) hct ha']
        cases r <;> simp [pushOffer]

/-! ### the list of entries looked at does not depend on their items -/

theorem nextTaskFor_dropItems (sx : Staged) : nextTaskFor E sx.dropItems = nextTaskFor E sx := rfl

theorem loopBody_dropItems (acc : List Offer × Bool) (sx : Staged) :
    loopBody E acc sx.dropItems = loopBody E acc sx := rfl

theorem nextLoop_congr (l l' : List Staged) (h : l'.map Staged.dropItems = l.map Staged.dropItems)
    (acc : List Offer × Bool) : nextLoop E l' acc = nextLoop E l acc := by
  induction l generalizing l' acc with
  | nil =>
    cases l' with
    | nil => rfl
    | cons a as => simp at h
  | cons x xs ih =>
    cases l' with
    | nil => simp at h
    | cons a as =>
      simp only [List.map_cons, List.cons.injEq] at h
      unfold nextLoop M.foldM'
      have hb : loopBody E acc a = loopBody E acc x := by
        rw [← loopBody_dropItems E acc a, ← loopBody_dropItems E acc x, h.1]
      rw [hb]
      have := fun b => ih as h.2 b
      unfold nextLoop at this
      simp only [this]

theorem filter_dropItems (p : Staged → Bool) (hp : ∀ x, p x.dropItems = p x) (l l' : List Staged)
    (h : l'.map Staged.dropItems = l.map Staged.dropItems) :
    (l'.filter p).map Staged.dropItems = (l.filter p).map Staged.dropItems := by
  induction l generalizing l' with
  | nil =>
    cases l' with
    | nil => rfl
    | cons a as => simp at h
  | cons x xs ih =>
    cases l' with
    | nil => simp at h
    | cons a as =>
      simp only [List.map_cons, List.cons.injEq] at h
      have hpa : p a = p x := by rw [← hp a, ← hp x, h.1]
      simp only [List.filter_cons, hpa]
      cases p x with
      | true => simp only [if_true, List.map_cons, h.1, ih as h.2]
      | false => exact ih as h.2

theorem nextTodo_congr {st st' : WState} (h : SameButItems st st') :
    (nextTodo st').map Staged.dropItems = (nextTodo st).map Staged.dropItems := by
  have hready : st'.readyStaged.map Staged.dropItems = st.readyStaged.map Staged.dropItems :=
    filter_dropItems _ (fun _ => rfl) _ _ h.2.2.2.2.2.2
  have hrem : (st'.readyStaged.filter (·.runOnFail)).map Staged.dropItems =
      (st.readyStaged.filter (·.runOnFail)).map Staged.dropItems :=
    filter_dropItems _ (fun _ => rfl) _ _ hready
  have hemp : ∀ {l l' : List Staged}, l'.map Staged.dropItems = l.map Staged.dropItems → l'.isEmpty = l.isEmpty := by
    intro l l' hl
    cases l <;> cases l' <;> simp at hl ⊢
  unfold nextTodo
  rw [h.2.2.2.2.2.1]
  dsimp only
  by_cases hf : (st.status == Status.failed) = true
  · simp only [hf, if_true]
    rw [hemp hrem]
    split
    · rfl
    · split
      · exact hready
      · exact hrem
  · simp only [hf]
    simp only [Bool.false_eq_true, if_false, List.isEmpty_nil, Bool.and_true]
    split
    · rfl
    · exact hready

/-- **C19**: for an evaluator that cannot see the `items` bookkeeping of the staging area, a call
    of `get_next_tasks` that returned tasks is repeatable: asked again at once, the conductor
    gives the same answer and its state stays exactly as the first call left it -/
theorem getNextTasks_idem (hE : E.ItemsBlind) (c c1 : Cond) (r : List Offer)
    (h : getNextTasks E c = (.ok r, c1)) (hr : r ≠ []) : getNextTasks E c1 = (.ok r, c1) := by
  unfold getNextTasks at h ⊢
  rw [nextFrom_eq] at h ⊢
  obtain ⟨p, c2, hloop, h2⟩ := M.bind_ok h
  obtain ⟨offers, failed⟩ := p
  cases failed with
  | true =>
    simp only [if_true] at h2
    obtain ⟨_, c3, _, h3⟩ := M.bind_ok h2
    obtain ⟨e, _⟩ := pure_ok h3
    exact absurd e.symm hr
  | false =>
    simp only [Bool.false_eq_true, if_false] at h2
    obtain ⟨e1, e2⟩ := pure_ok h2
    subst e1 e2
    obtain ⟨hle, new, hoff, hrest⟩ := nextLoop_idem E hE _ ([], false) c c2 offers rfl hloop
    have h2nd := hrest c2 ([], false) (Le.refl E c2) rfl
    rw [nextLoop_congr E _ _ (nextTodo_congr hle.same)]
    rw [M.bind_run, h2nd]
    simp only [List.nil_append] at hoff ⊢
    subst hoff
    simp [pure, M.pure']

end Orq
