/-
C18/C13: `update_task_state` keeps "decided records are completed" and freezes decided records.
The engine's retry event travels with its licence: the record it reopens is undecided.
-/
import OrqModel.Proofs.FrozenOps

namespace Orq

variable (E : Evaluator)

/-! ### the weak step: completed *and decided* records keep their status -/

structure RecStepW (r r' : Rec) : Prop where
  status : Comp r → r.next ≠ [] → r'.status = r.status
  decided : r.next ≠ [] → r'.next ≠ []
  fresh : r'.next ≠ [] → r.next ≠ [] ∨ Comp r'

theorem RecStep.weak {r r' : Rec} (h : RecStep r r') : RecStepW r r' :=
  ⟨fun hc _ => h.status hc, h.decided, h.fresh⟩

theorem RecStepW.refl (r : Rec) : RecStepW r r := (RecStep.refl r).weak

theorem RecStepW.comp {r r' : Rec} (h : RecStepW r r') (hc : Comp r) (hn : r.next ≠ []) : Comp r' := by
  obtain ⟨s, hs, hcs⟩ := hc
  exact ⟨s, by rw [h.status ⟨s, hs, hcs⟩ hn, hs], hcs⟩

theorem RecStepW.trans {a b c : Rec} (h1 : RecStepW a b) (h2 : RecStepW b c) : RecStepW a c := by
  refine ⟨?_, fun h => h2.decided (h1.decided h), ?_⟩
  · intro hc hn
    rw [h2.status (h1.comp hc hn) (h1.decided hn), h1.status hc hn]
  · intro h
    rcases h2.fresh h with hb | hc
    · rcases h1.fresh hb with ha | hcb
      · exact Or.inl ha
      · exact Or.inr (h2.comp hcb hb)
    · exact Or.inr hc

structure DecStepW (c c' : Cond) : Prop where
  old : ∀ (i : Nat) (r : Rec), c.st.sequence[i]? = some r → ∃ r', c'.st.sequence[i]? = some r' ∧ RecStepW r r'
  new : ∀ (i : Nat) (r' : Rec), c'.st.sequence[i]? = some r' → c.st.sequence[i]? = none → r'.next ≠ [] → Comp r'

theorem DecStepR.weak {c c' : Cond} (h : DecStepR c c') : DecStepW c c' :=
  ⟨fun i r hr => by obtain ⟨r', hr', s⟩ := h.old i r hr; exact ⟨r', hr', s.weak⟩, h.new⟩

theorem DecStepW.refl (c : Cond) : DecStepW c c := (DecStepR.refl c).weak

theorem DecStepW.trans {a b c : Cond} (h1 : DecStepW a b) (h2 : DecStepW b c) : DecStepW a c := by
  refine ⟨?_, ?_⟩
  · intro i r hr
    obtain ⟨r', hr', s1⟩ := h1.old i r hr
    obtain ⟨r'', hr'', s2⟩ := h2.old i r' hr'
    exact ⟨r'', hr'', s1.trans s2⟩
  · intro i r'' hr'' hnone hn
    cases hb : b.st.sequence[i]? with
    | none => exact h2.new i r'' hr'' hb hn
    | some r' =>
      obtain ⟨r2, hr2, s2⟩ := h2.old i r' hb
      rw [hr''] at hr2
      cases hr2
      rcases s2.fresh hn with h' | hc
      · exact s2.comp (h1.new i r' hb hnone h') h'
      · exact hc

theorem Dec.stepW {c c' : Cond} (h : DecStepW c c') (hd : Dec c) : Dec c' := by
  intro i r' hr' hn
  cases hc : c.st.sequence[i]? with
  | none => exact h.new i r' hr' hc hn
  | some r =>
    obtain ⟨r2, hr2, s⟩ := h.old i r hc
    rw [hr'] at hr2
    cases hr2
    rcases s.fresh hn with h' | hcomp
    · exact s.comp (hd i r hc h') h'
    · exact hcomp

/-- decided records are frozen -/
theorem DecStepW.frozen {c c' : Cond} (h : DecStepW c c') (hd : Dec c) (i : Nat) (r : Rec)
    (hr : c.st.sequence[i]? = some r) (hn : r.next ≠ []) :
    ∃ r', c'.st.sequence[i]? = some r' ∧ r'.status = r.status ∧ r'.next ≠ [] := by
  obtain ⟨r', hr', s⟩ := h.old i r hr
  exact ⟨r', hr', s.status (hd i r hr hn) hn, s.decided hn⟩

theorem decw_bind {α β} (m : M α) (f : α → M β) (c : Cond) (hm : DecStepW c (m c).2)
    (hf : ∀ a c1, m c = (.ok a, c1) → DecStepW c1 (f a c1).2) : DecStepW c ((m >>= f) c).2 := by
  rw [M.bind_run]
  cases h : m c with
  | mk res c1 =>
    rw [h] at hm
    cases res with
    | ok a => exact hm.trans (hf a c1 h)
    | error e => exact hm

/-! ### a frame: the decisions of all records are untouched -/

def nxPre : Pre where
  R c c' := c'.st.sequence.map (·.next) = c.st.sequence.map (·.next)
  refl _ := rfl
  trans h1 h2 := h2.trans h1

theorem map_next_modify (l : List Rec) (i : Nat) (g : Rec → Rec) (h : ∀ r, (g r).next = r.next) :
    (l.modify i g).map (·.next) = l.map (·.next) := by
  induction l generalizing i with
  | nil => cases i <;> rfl
  | cons x xs ih =>
    cases i with
    | zero => simp [h]
    | succ n => simp [ih]

theorem Rel.modifySt_nx {f : WState → WState}
    (h : ∀ st : WState, (f st).sequence.map (·.next) = st.sequence.map (·.next)) : Rel nxPre (M.modifySt f) :=
  ⟨fun c => h c.st⟩

theorem Rel.raw_nx {α} {m : M α} (h : ∀ c, (m c).2.st.sequence.map (·.next) = c.st.sequence.map (·.next)) :
    Rel nxPre m := ⟨h⟩

macro "nx_seq" : tactic => `(tactic| first
  | rfl
  | (apply map_next_modify; intro r; rfl)
  | (simp only [WState.removeStaged_sequence, WState.addStaged_sequence, WState.updateStaged_sequence,
       WState.setTask_sequence]; done)
  | (simp only [WState.removeStaged_sequence, WState.addStaged_sequence, WState.updateStaged_sequence,
       WState.setTask_sequence]
     first | rfl | (apply map_next_modify; intro r; rfl)))

theorem logEntry_nx (e) : Rel nxPre (logEntry e) := by
  apply Rel.raw_nx
  intro c
  unfold logEntry M.modify
  dsimp only
  split <;> rfl

theorem wfProcessWorkflowEvent_nx (req) : Rel nxPre (wfProcessWorkflowEvent req) := by
  apply Rel.raw_nx
  intro c
  unfold wfProcessWorkflowEvent
  dsimp only
  split
  · rfl
  · split
    · split
      · rfl
      · rw [forEach_logError_seq]
    · rfl

theorem tkProcessWorkflowEvent_nx (i req) : Rel nxPre (tkProcessWorkflowEvent i req) := by
  apply Rel.raw_nx
  intro c
  unfold tkProcessWorkflowEvent
  repeat' (first | rfl | (apply map_next_modify; intro r; rfl) | split | dsimp only)

theorem tkProcessEvent_nx (i ev) : Rel nxPre (tkProcessEvent i ev) := by
  apply Rel.raw_nx
  intro c
  unfold tkProcessEvent
  repeat' (first | rfl | (apply map_next_modify; intro r; rfl) | split | dsimp only)

syntax "nx_walk" "[" term,* "]" : tactic
macro_rules
  | `(tactic| nx_walk [$ts,*]) => do
    let alts ← ts.getElems.mapM fun t => `(tactic| exact $t)
    `(tactic| repeat' (first
      | exact Rel.pure _ | exact Rel.pure' _ | exact Rel.throw _ | exact Rel.get
      | exact Rel.liftOpt _ _ | exact Rel.liftExcept _
      | exact wfProcessWorkflowEvent_nx _ | exact tkProcessWorkflowEvent_nx _ _ | exact tkProcessEvent_nx _ _
      | exact logEntry_nx _
      $[| $alts:tactic]*
      | (apply Rel.modifySt_nx; intro st; nx_seq)
      | (apply Rel.raw_nx; intro c; rfl)
      | apply Rel.bind | apply Rel.bind' | apply Rel.tryCatch | apply Rel.forEach | apply Rel.foldM' | apply Rel.mapM'
      | intro _ | split | dsimp only ))

theorem logError_nx (k a b c) : Rel nxPre (logError k a b c) := logEntry_nx _

theorem requestStatus_nx (req) : Rel nxPre (requestStatus req) := by
  unfold requestStatus
  nx_walk []

theorem failOnError_nx : Rel nxPre failOnError := by
  unfold failOnError
  nx_walk [requestStatus_nx _]

theorem makeTaskContext_nx (k idx r) : Rel nxPre (makeTaskContext k idx r) := by
  unfold makeTaskContext
  nx_walk []

theorem completedRetryDecision_nx (k idx ts os ns ev) : Rel nxPre (completedRetryDecision E k idx ts os ns ev) := by
  unfold completedRetryDecision
  nx_walk [makeTaskContext_nx _ _ _, failOnError_nx, logError_nx _ _ _ _]

theorem restageRetry_nx (k idx o) : Rel nxPre (restageRetry k idx o) := by
  unfold restageRetry
  nx_walk []

theorem nx_getElem {l l' : List Rec} (h : l'.map (·.next) = l.map (·.next)) {i : Nat} {r r' : Rec}
    (h1 : l[i]? = some r) (h2 : l'[i]? = some r') : r'.next = r.next := by
  have := congrArg (·[i]?) h
  simp only [List.getElem?_map, h1, h2, Option.map_some, Option.some.injEq] at this
  exact this

theorem map_status_modify (l : List Rec) (i : Nat) (g : Rec → Rec) (h : ∀ r, (g r).status = r.status) :
    (l.modify i g).map (·.status) = l.map (·.status) := by
  induction l generalizing i with
  | nil => cases i <;> rfl
  | cons x xs ih =>
    cases i with
    | zero => simp [h]
    | succ n => simp [ih]

/-- re-staging a retried task touches no status -/
theorem restageRetry_status_keep (k : TaskKey) (idx : Nat) (o : Status) (c : Cond) :
    (restageRetry k idx o c).2.st.sequence.map (·.status) = c.st.sequence.map (·.status) := by
  unfold restageRetry
  rw [M.bind_run]
  simp only [M.get]
  rw [M.bind_run]
  cases hr : c.st.sequence[idx]? with
  | none => rfl
  | some r =>
    simp only [liftOpt, pure, M.pure']
    split
    · rw [M.bind_run]
      cases hrs : r.retry with
      | none => rfl
      | some rs =>
        simp only [liftOpt, pure, M.pure']
        show (WState.addStaged _ _).sequence.map _ = _
        simp only [WState.addStaged_sequence, WState.removeStaged_sequence]
        apply map_status_modify
        intro r
        rfl
    · rfl

theorem st_getElem {l l' : List Rec} (h : l'.map (·.status) = l.map (·.status)) {i : Nat} {r r' : Rec}
    (h1 : l[i]? = some r) (h2 : l'[i]? = some r') : r'.status = r.status := by
  have := congrArg (·[i]?) h
  simp only [List.getElem?_map, h1, h2, Option.map_some, Option.some.injEq] at this
  exact this

/-! ### the task machine step -/

theorem decStepW_modify (l : List Rec) (idx : Nat) (g : Rec → Rec) (hg : ∀ r, l[idx]? = some r → RecStepW r (g r))
    (c c' : Cond) (hc : c.st.sequence = l) (hc' : c'.st.sequence = l.modify idx g) : DecStepW c c' := by
  refine ⟨?_, ?_⟩
  · intro i r hr
    rw [hc] at hr
    by_cases hi : i = idx
    · subst hi
      exact ⟨g r, by rw [hc', getElem?_modify_same, hr]; rfl, hg r hr⟩
    · exact ⟨r, by rw [hc', getElem?_modify_ne _ _ _ _ hi]; exact hr, RecStepW.refl r⟩
  · intro i r' hr' h0 _
    rw [hc] at h0
    rw [hc'] at hr'
    by_cases hi : i = idx
    · subst hi
      rw [getElem?_modify_same, h0] at hr'
      cases hr'
    · rw [getElem?_modify_ne _ _ _ _ hi, h0] at hr'
      cases hr'

theorem tbl_retry_comp : ∀ (tk : Status), tk.isCompleted = true →
    (tkOnEngineEvent tk .retry_).all? (fun s' => s' == tk ||
      (s' == .retrying && (tk == .succeeded || tk == .failed))) = true := by decide +kernel

/-- the task machine step keeps the weak relation, provided the retry event meets an undecided record -/
theorem tkProcessEvent_decw (i : Nat) (ev : Event) (c : Cond)
    (hpre : ev = .engine .retry_ → ∀ r, c.st.sequence[i]? = some r →
      (r.status = some .succeeded ∨ r.status = some .failed) → r.next = []) :
    DecStepW c (tkProcessEvent i ev c).2 := by
  by_cases hev : ev = .engine .retry_
  · subst hev
    unfold tkProcessEvent
    cases hr : c.st.sequence[i]? with
    | none => exact DecStepW.refl c
    | some r =>
      dsimp only
      cases hstep : tkEventStep c r (.engine .retry_) with
      | error e => exact DecStepW.refl c
      | ok sr =>
        cases sr with
        | raise e => exact DecStepW.refl c
        | ok s' =>
          dsimp only
          split
          · exact DecStepW.refl c
          · apply decStepW_modify c.st.sequence i (fun r => { r with status := some s' }) _ c _ rfl rfl
            intro r0 hr0
            rw [hr] at hr0
            cases hr0
            refine ⟨?_, id, fun hn => Or.inl hn⟩
            rintro ⟨tk, hs, hc⟩ hn
            show some s' = r.status
            unfold tkEventStep at hstep
            rw [hs] at hstep
            simp only [Option.getD_some, Except.ok.injEq] at hstep
            have ht := StepRes.all?_ok (tbl_retry_comp tk hc) hstep
            simp only [Bool.or_eq_true, Bool.and_eq_true] at ht
            rcases ht with ht | ⟨_, ht⟩
            · rw [hs, status_eq_of_beq ht]
            · have hst : r.status = some .succeeded ∨ r.status = some .failed := by
                rcases ht with ht | ht
                · left; rw [hs, status_eq_of_beq ht]
                · right; rw [hs, status_eq_of_beq ht]
              exact absurd (hpre rfl r hr hst) hn
  · exact ((tkProcessEvent_dec i ev hev).run c).weak

/-- `machineStep`: the weak relation holds, and on return the record carries the reported new status
    and is undecided if that status differs from the old one -/
theorem machineStep_decw (k : TaskKey) (idx : Nat) (ev : Event) (c : Cond) (hd : Dec c)
    (hpre : ev = .engine .retry_ → ∀ r, c.st.sequence[idx]? = some r →
      (r.status = some .succeeded ∨ r.status = some .failed) → r.next = []) :
    DecStepW c (machineStep k idx ev c).2 ∧
    ∀ p c4, machineStep k idx ev c = (.ok p, c4) →
      ∃ r4, c4.st.sequence[idx]? = some r4 ∧ r4.status.getD .unset = p.2 ∧ (p.2 ≠ p.1 → r4.next = []) := by
  unfold machineStep
  rw [M.bind_run]
  simp only [M.get]
  rw [M.bind_run]
  cases hr : c.st.sequence[idx]? with
  | none => exact ⟨DecStepW.refl c, fun p c4 h => by cases h⟩
  | some r =>
    simp only [liftOpt, pure, M.pure']
    rw [M.bind_run]
    have hw3 := tkProcessEvent_decw idx ev c hpre
    have hn3 := (tkProcessEvent_nx idx ev).run c
    cases h3 : tkProcessEvent idx ev c with
    | mk res c3 =>
      rw [h3] at hw3 hn3
      cases res with
      | error e => exact ⟨hw3, fun p c4 h => by cases h⟩
      | ok u =>
        dsimp only
        rw [M.bind_run]
        simp only [M.get]
        rw [M.bind_run]
        cases hr' : c3.st.sequence[idx]? with
        | none => exact ⟨hw3, fun p c4 h => by cases h⟩
        | some r' =>
          simp only [liftOpt, pure, M.pure']
          rw [M.bind_run]
          have hw4 := ((restageRetry_dec k idx (r.status.getD .unset)).run c3).weak
          have hn4 := (restageRetry_nx k idx (r.status.getD .unset)).run c3
          have hk4 := (restageRetry_dec k idx (r.status.getD .unset)).run c3
          cases h5 : restageRetry k idx (r.status.getD .unset) c3 with
          | mk res5 c5 =>
            rw [h5] at hw4 hn4 hk4
            refine ⟨by cases res5 <;> exact hw3.trans hw4, ?_⟩
            intro p c4 hp
            cases res5 with
            | error e => cases hp
            | ok u5 =>
              dsimp only at hp
              have : ((r.status.getD .unset, r'.status.getD .unset), c5) = (p, c4) := by
                have := hp
                simp only [pure, M.pure', Prod.mk.injEq, Except.ok.injEq] at this
                exact Prod.ext this.1 this.2
              cases this
              -- record idx in c5: status and decisions as in c3 (only the retry bookkeeping changed)
              obtain ⟨r5, hr5, s5⟩ := hk4.old idx r' hr'
              have hnext5 : r5.next = r'.next := nx_getElem hn4 hr' hr5
              have hnext3 : r'.next = r.next := nx_getElem hn3 hr hr'
              have hst := restageRetry_status_keep k idx (r.status.getD .unset) c3
              rw [h5] at hst
              have hstat5 : r5.status = r'.status := st_getElem hst hr' hr5
              refine ⟨r5, hr5, by rw [hstat5], ?_⟩
              intro hne
              rw [hnext5, hnext3]
              -- a decided record would have kept its status
              by_cases hn : r.next = []
              · exact hn
              · exfalso
                obtain ⟨tk, hs, hc⟩ := hd idx r hr hn
                obtain ⟨r3, hr3, s3⟩ := hw3.old idx r hr
                rw [hr'] at hr3
                cases hr3
                have := s3.status ⟨tk, hs, hc⟩ hn
                exact hne (by rw [this])

/-! ### `update_task_state` -/

/-- phase 1 for an engine-command pseudo task: the record is fresh, hence undecided -/
theorem ensureRecord_cmd_next (k : TaskKey) (s0 : Option Staged) (r0 : Option Nat) (ev : Event) (c c1 : Cond)
    (idx : Nat) (hcmd : isCmdName k.1 = true) (h : ensureRecord E k s0 r0 ev c = (.ok idx, c1)) :
    ∃ r, c1.st.sequence[idx]? = some r ∧ r.next = [] := by
  unfold ensureRecord firstRecord recordFromStaged at h
  obtain ⟨i, c', h1, h2⟩ := M.bind_ok h
  have h1' : ∃ sx : Staged, addTaskState E (k.1, sx.route) sx.ctxsIn sx.prev c = (.ok i, c') := by
    cases r0 <;> simp only [hcmd] at h1 <;> (cases s0 with
      | none => cases h1
      | some sx => exact ⟨sx, h1⟩)
  obtain ⟨sx, h1'⟩ := h1'
  have hpost := addTaskState_post E _ _ _ _ _ _ h1'
  obtain ⟨c2, c3, hget, h3⟩ := M.bind_ok h2
  obtain ⟨e1, e2⟩ := get_ok hget
  subst e1 e2
  obtain ⟨r, c4, hl, h4⟩ := M.bind_ok h3
  obtain ⟨hr, e3⟩ := liftOpt_ok hl
  subst e3
  rw [hpost.1] at hr
  cases hr
  simp only [newRecord_status, Option.any_none, Bool.false_and] at h4
  obtain ⟨e4, e5⟩ := pure_ok h4
  subst e4 e5
  exact ⟨_, hpost.1, newRecord_next E _ _ _ _⟩

def Undecided (c : Cond) (i : Nat) : Prop := ∀ r, c.st.sequence[i]? = some r → r.next = []

/-- what must hold when `update_task_state` is entered: the engine's retry event meets an
    undecided record -/
def Pre18 (k : TaskKey) (ev : Event) (c : Cond) : Prop :=
  ev = .engine .retry_ → (isCmdName k.1 = true ∨ ∃ i, c.st.taskIdx? k = some i ∧ Undecided c i)

/-- what the first half hands to the second -/
def HeadPost (h : Stepped) (c : Cond) : Prop :=
  ∃ r, c.st.sequence[h.idx]? = some r ∧ r.status.getD .unset = h.newStatus ∧
    (h.newStatus ≠ h.oldStatus → r.next = [])

theorem updateHead_decw (k : TaskKey) (ev : Event) (c : Cond) (hd : Dec c) (hpre : Pre18 k ev c) :
    DecStepW c (updateHead E k ev c).2 ∧
    ∀ h c4, updateHead E k ev c = (.ok h, c4) → HeadPost h c4 := by
  unfold updateHead
  rw [M.bind_run]
  simp only [M.get]
  split
  · exact ⟨DecStepW.refl c, fun h c4 hh => by cases hh⟩
  rw [M.bind_run]
  cases hts : c.spec.getTask? k.1 with
  | none => exact ⟨DecStepW.refl c, fun h c4 hh => by cases hh⟩
  | some ts =>
    simp only [liftOpt, pure, M.pure']
    split
    · exact ⟨DecStepW.refl c, fun h c4 hh => by cases hh⟩
    rw [M.bind_run]
    have hw1 := ((ensureRecord_dec E k (c.st.getStaged? k) (c.st.taskIdx? k) ev).run c).weak
    cases h1 : ensureRecord E k (c.st.getStaged? k) (c.st.taskIdx? k) ev c with
    | mk res1 c1 =>
      rw [h1] at hw1
      cases res1 with
      | error e => exact ⟨hw1, fun h c4 hh => by cases hh⟩
      | ok idx =>
        dsimp only
        rw [M.bind_run]
        have hw2 := ((noteEvent_dec k (c.st.getStaged? k) ev).run c1).weak
        have hsq := (noteEvent_sq k (c.st.getStaged? k) ev).run c1
        cases h2 : noteEvent k (c.st.getStaged? k) ev c1 with
        | mk res2 c2 =>
          rw [h2] at hw2 hsq
          cases res2 with
          | error e => exact ⟨hw1.trans hw2, fun h c4 hh => by cases hh⟩
          | ok u =>
            dsimp only
            have hd2 : Dec c2 := Dec.stepW (hw1.trans hw2) hd
            have hpre2 : ev = .engine .retry_ → ∀ r, c2.st.sequence[idx]? = some r →
                (r.status = some .succeeded ∨ r.status = some .failed) → r.next = [] := by
              intro hev r hr _
              rw [hsq.1] at hr
              cases hcmd : isCmdName k.1 with
              | true =>
                obtain ⟨r1, hr1, hn1⟩ := ensureRecord_cmd_next E k _ _ ev c c1 idx hcmd h1
                rw [hr1] at hr
                cases hr
                exact hn1
              | false =>
                rcases hpre hev with hc | ⟨i0, hi0, hund⟩
                · rw [hcmd] at hc; cases hc
                · rw [hi0] at h1
                  have hstart : ev.status.isStarting = false := by subst hev; rfl
                  obtain ⟨e4, e5⟩ := ensureRecord_retry_inv E k _ i0 ev c c1 idx hcmd hstart h1
                  subst e4 e5
                  exact hund r hr
            obtain ⟨hw3, hpost3⟩ := machineStep_decw k idx ev c2 hd2 hpre2
            rw [M.bind_run]
            cases h3 : machineStep k idx ev c2 with
            | mk res3 c3 =>
              rw [h3] at hw3
              cases res3 with
              | error e => exact ⟨(hw1.trans hw2).trans hw3, fun h c4 hh => by cases hh⟩
              | ok p =>
                refine ⟨(hw1.trans hw2).trans hw3, ?_⟩
                intro h c4 hh
                obtain ⟨r4, hr4, hs4, hn4⟩ := hpost3 p c3 h3
                obtain ⟨p1, p2⟩ := p
                have : (({ idx := idx, ts := ts, oldStatus := p1, newStatus := p2 } : Stepped), c3) = (h, c4) := by
                  have := hh
                  simp only [pure, M.pure', Prod.mk.injEq, Except.ok.injEq] at this
                  exact Prod.ext this.1 this.2
                cases this
                exact ⟨r4, hr4, hs4, hn4⟩

/-- a small Hoare judgement: from a state where decided records are completed, `m` makes a weak step -/
def DW {α} (m : M α) : Prop := ∀ c, Dec c → DecStepW c (m c).2

theorem DW.of_rel {α} {m : M α} (h : Rel decStep m) : DW m := fun c _ => (h.run c).weak

theorem DW.pure {α} (a : α) : DW (Pure.pure a : M α) := fun c _ => DecStepW.refl c

theorem DW.bind {α β} {m : M α} {f : α → M β} (hm : DW m) (hf : ∀ a, DW (f a)) : DW (m >>= f) := by
  intro c hd
  apply decw_bind m f c (hm c hd)
  intro a c1 h1
  have := hm c hd
  rw [h1] at this
  exact hf a c1 (Dec.stepW this hd)

theorem DW.forEach {α} (xs : List α) {f : α → M Unit} (hf : ∀ x, DW (f x)) : DW (M.forEach xs f) := by
  induction xs with
  | nil => exact DW.pure ()
  | cons x xs ih =>
    show DW (M.bind' (f x) fun _ => M.forEach xs f)
    exact DW.bind (hf x) (fun _ => ih)

theorem updateRest_decw (recur : TaskKey → Event → M Unit)
    (hrec : ∀ nk cmd, Cmd.ofStr? nk.1 = some cmd → DW (recur nk (.engine cmd)))
    (k : TaskKey) (ev : Event) (h : Stepped) (c : Cond) (hd : Dec c)
    (hcomp : h.newStatus.isCompleted = true → CompAt c h.idx) :
    DecStepW c (updateRest E recur k ev h c).2 := by
  unfold updateRest
  apply decw_bind
  · split
    · rename_i hcond
      simp only [Bool.and_eq_true] at hcond
      exact ((evalTransitions_at E k h.idx h.ts ev).run c (hcomp hcond.1)).2.weak
    · exact DecStepW.refl c
  intro acc c1 h1
  have hd1 : Dec c1 := by
    have hw : DecStepW c c1 := by
      split at h1
      · rename_i hcond
        simp only [Bool.and_eq_true] at hcond
        have := ((evalTransitions_at E k h.idx h.ts ev).run c (hcomp hcond.1)).2.weak
        rw [h1] at this
        exact this
      · obtain ⟨_, e⟩ := pure_ok h1
        subst e
        exact DecStepW.refl c
    exact Dec.stepW hw hd
  have hrest : DW (do
      let c ← M.get
      let r ← liftOpt c.st.sequence[h.idx]? .indexError
      let st ← liftOpt r.status .keyError
      wfProcessTaskEvent k st
      M.forEach acc.queue fun nk =>
        match Cmd.ofStr? nk.1 with
        | some cmd => recur nk (.engine cmd)
        | none => pure ()
      markTermIfCompleted h.idx : M Unit) := by
    apply DW.bind (DW.of_rel Rel.get)
    intro c2
    apply DW.bind (DW.of_rel (Rel.liftOpt _ _))
    intro r
    apply DW.bind (DW.of_rel (Rel.liftOpt _ _))
    intro st
    apply DW.bind (DW.of_rel (wfProcessTaskEvent_dec _ _))
    intro _
    apply DW.bind
    · apply DW.forEach
      intro nk
      split
      · rename_i cmd hcmd
        exact hrec nk cmd hcmd
      · exact DW.pure ()
    · intro _
      exact DW.of_rel (markTermIfCompleted_dec _)
  exact hrest c1 hd1

theorem updateTail_decw (recur : TaskKey → Event → M Unit)
    (hrec : ∀ k ev c, Dec c → Pre18 k ev c → DecStepW c (recur k ev c).2)
    (k : TaskKey) (ev : Event) (h : Stepped) (c : Cond) (hd : Dec c) (hpost : HeadPost h c)
    (hidx : isCmdName k.1 = false → c.st.taskIdx? k = some h.idx) :
    DecStepW c (updateTail E recur k ev h c).2 := by
  unfold updateTail
  have hm1 : Rel decStep (if h.newStatus.isCompleted then completedRetryDecision E k h.idx h.ts h.oldStatus h.newStatus ev
      else pure false : M Bool) := by
    split
    · exact completedRetryDecision_dec E _ _ _ _ _ _
    · exact Rel.pure _
  have hm1k : Rel rkPre (if h.newStatus.isCompleted then completedRetryDecision E k h.idx h.ts h.oldStatus h.newStatus ev
      else pure false : M Bool) := by
    split
    · exact completedRetryDecision_rk E _ _ _ _ _ _
    · exact Rel.pure _
  have hm1n : Rel nxPre (if h.newStatus.isCompleted then completedRetryDecision E k h.idx h.ts h.oldStatus h.newStatus ev
      else pure false : M Bool) := by
    split
    · exact completedRetryDecision_nx E _ _ _ _ _ _
    · exact Rel.pure _
  have hs5 := hm1.run c
  have hk5 := hm1k.run c
  have hn5 := hm1n.run c
  apply decw_bind
  · exact hs5.weak
  intro retry c5 h5
  rw [h5] at hs5 hk5 hn5
  have hd5 : Dec c5 := Dec.stepW hs5.weak hd
  obtain ⟨r, hr, hstat, hund⟩ := hpost
  obtain ⟨r5, hr5, st5⟩ := hs5.old h.idx r hr
  cases retry with
  | false =>
    apply updateRest_decw E recur _ k ev h c5 hd5
    · intro hcomp
      have hcr : Comp r := by
        cases hs : r.status with
        | none => rw [hs] at hstat; simp only [Option.getD_none] at hstat; rw [← hstat] at hcomp; cases hcomp
        | some s =>
          rw [hs] at hstat
          simp only [Option.getD_some] at hstat
          exact ⟨s, hs, by rw [hstat]; exact hcomp⟩
      exact ⟨r5, hr5, Comp.step st5 hcr⟩
    · intro nk cmd hcmd c' hd'
      apply hrec nk _ c' hd'
      intro _
      left
      unfold isCmdName
      rw [hcmd]
      rfl
  | true =>
    apply hrec k _ c5 hd5
    intro _
    cases hcmd : isCmdName k.1 with
    | true => left; rfl
    | false =>
      right
      refine ⟨h.idx, ?_, ?_⟩
      · have := hidx hcmd
        unfold WState.taskIdx? at this ⊢
        rw [hk5.2]
        exact this
      · have hne : h.newStatus ≠ h.oldStatus := by
          split at h5
          · exact completedRetryDecision_changed E _ _ _ _ _ _ _ _ h5
          · obtain ⟨e, _⟩ := pure_ok h5
            cases e
        intro r' hr'
        rw [hr5] at hr'
        cases hr'
        rw [nx_getElem hn5 hr hr5]
        exact hund hne

theorem updateTaskStateAux_decw (fuel : Nat) (k : TaskKey) (ev : Event) (c : Cond) (hd : Dec c)
    (hpre : Pre18 k ev c) : DecStepW c (updateTaskStateAux E fuel k ev c).2 := by
  induction fuel generalizing k ev c with
  | zero => unfold updateTaskStateAux; exact DecStepW.refl c
  | succ n ih =>
    unfold updateTaskStateAux
    obtain ⟨hw, hpost⟩ := updateHead_decw E k ev c hd hpre
    apply decw_bind
    · exact hw
    intro h c4 h4
    rw [h4] at hw
    apply updateTail_decw E _ (fun k ev c hd hp => ih k ev c hd hp) k ev h c4 (Dec.stepW hw hd) (hpost h c4 h4)
    intro hcmd
    exact updateHead_taskIdx E k ev c c4 h h4 hcmd

end Orq
