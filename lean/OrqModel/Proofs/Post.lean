/-
Result postconditions for the model's monad: `Post m Q` says that whenever `m` returns normally,
its result satisfies `Q`.  (State-independent; enough for "offers come from staging".)
-/
import OrqModel.Model.Conductor

namespace Orq

structure Post {α} (m : M α) (Q : α → Prop) : Prop where
  run : ∀ s a s', m s = (.ok a, s') → Q a

namespace Post

theorem pure {α} {Q : α → Prop} {a : α} (h : Q a) : Post (Pure.pure a : M α) Q :=
  ⟨fun s a' s' heq => by
    have : (Except.ok a, s) = (Except.ok a', s') := heq
    cases this; exact h⟩

theorem throw {α} {Q : α → Prop} (e : Err) : Post (M.throw e : M α) Q :=
  ⟨fun s a s' heq => by
    have : ((Except.error e : Except Err α), s) = (Except.ok a, s') := heq
    cases this⟩

theorem bind {α β} {m : M α} {f : α → M β} {Q : β → Prop} (hf : ∀ a, Post (f a) Q) :
    Post (m >>= f) Q := by
  constructor
  intro s b s' heq
  have heq' : M.bind' m f s = (.ok b, s') := heq
  unfold M.bind' at heq'
  cases hm : m s with
  | mk r s1 =>
    rw [hm] at heq'
    cases r with
    | ok a => exact (hf a).run s1 b s' heq'
    | error e => cases heq'

theorem bind' {α β} {m : M α} {f : α → M β} {Q : β → Prop} (hf : ∀ a, Post (f a) Q) :
    Post (M.bind' m f) Q := bind hf

/-- bind where the first computation's postcondition is needed -/
theorem bindP {α β} {m : M α} {f : α → M β} {P : α → Prop} {Q : β → Prop}
    (hm : Post m P) (hf : ∀ a, P a → Post (f a) Q) : Post (m >>= f) Q := by
  constructor
  intro s b s' heq
  have heq' : M.bind' m f s = (.ok b, s') := heq
  unfold M.bind' at heq'
  cases hms : m s with
  | mk r s1 =>
    rw [hms] at heq'
    cases r with
    | ok a => exact (hf a (hm.run s a s1 hms)).run s1 b s' heq'
    | error e => cases heq'

theorem tryCatch {α} {m : M α} {h : Err → M α} {Q : α → Prop} (hm : Post m Q) (hh : ∀ e, Post (h e) Q) :
    Post (M.tryCatch m h) Q := by
  constructor
  intro s a s' heq
  unfold M.tryCatch at heq
  cases hms : m s with
  | mk r s1 =>
    rw [hms] at heq
    cases r with
    | ok a' =>
      have h2 : (Except.ok a', s1) = (Except.ok a, s') := heq
      have ha : a' = a := by injection h2 with h3 _; injection h3
      subst ha
      exact hm.run s a' s1 hms
    | error e => exact (hh e).run s1 a s' heq

theorem mono {α} {m : M α} {Q Q' : α → Prop} (h : Post m Q) (hq : ∀ a, Q a → Q' a) : Post m Q' :=
  ⟨fun s a s' heq => hq a (h.run s a s' heq)⟩

theorem foldM' {α β} (xs : List α) (b : β) {f : β → α → M β} (I : β → Prop) (hb : I b)
    (hf : ∀ b a, I b → a ∈ xs → Post (f b a) I) : Post (M.foldM' xs b f) I := by
  induction xs generalizing b with
  | nil => exact pure hb
  | cons x xs ih =>
    unfold M.foldM'
    apply bindP (hf b x hb List.mem_cons_self)
    intro b' hb'
    exact ih b' hb' (fun b a hI ha => hf b a hI (List.mem_cons_of_mem _ ha))

end Post

end Orq

namespace Orq

/-- final-state postcondition on normal return -/
structure PostS {α} (m : M α) (Q : Cond → Prop) : Prop where
  run : ∀ s a s', m s = (.ok a, s') → Q s'

namespace PostS

theorem throw {α} {Q : Cond → Prop} (e : Err) : PostS (M.throw e : M α) Q :=
  ⟨fun s a s' heq => by
    have : ((Except.error e : Except Err α), s) = (Except.ok a, s') := heq
    cases this⟩

theorem bind {α β} {m : M α} {f : α → M β} {Q : Cond → Prop} (hf : ∀ a, PostS (f a) Q) :
    PostS (m >>= f) Q := by
  constructor
  intro s b s' heq
  have heq' : M.bind' m f s = (.ok b, s') := heq
  unfold M.bind' at heq'
  cases hm : m s with
  | mk r s1 =>
    rw [hm] at heq'
    cases r with
    | ok a => exact (hf a).run s1 b s' heq'
    | error e => cases heq'

theorem modifySt {Q : Cond → Prop} {f : WState → WState} (h : ∀ c : Cond, Q { c with st := f c.st }) :
    PostS (M.modifySt f) Q :=
  ⟨fun s a s' heq => by
    have : ((Except.ok () : Except Err Unit), ({ s with st := f s.st } : Cond)) = (Except.ok a, s') := heq
    injection this with _ h2
    rw [← h2]; exact h s⟩

end PostS

end Orq
