/-
C06, the inheritance half: whatever context snapshot a listed predecessor was rendered from, the
staged entry (and later the record) that lists it is rendered from too; and every list starts
from the initial context (index 0 is always present).
-/
import OrqModel.Proofs.Ancestry

namespace Orq

variable (E : Evaluator)

/-- the lists of one staged entry or record: index 0 is there, and so is everything each listed
    predecessor saw -/
def Inh (c : Cond) (prev : List (TransId × Nat)) (ctxs : List Nat) : Prop :=
  0 ∈ ctxs ∧ ∀ p ∈ prev, ∃ q, c.st.sequence[p.2]? = some q ∧ ∀ i ∈ q.ctxsIn, i ∈ ctxs

structure IN (c : Cond) : Prop where
  staged : ∀ x ∈ c.st.staged, Inh c x.prev x.ctxsIn
  recs : ∀ r ∈ c.st.sequence, Inh c r.prev r.ctxsIn

theorem Inh.mono {c c' : Cond} (he : c.st.Ext c'.st) {prev : List (TransId × Nat)} {ctxs : List Nat}
    (h : Inh c prev ctxs) : Inh c' prev ctxs := by
  refine ⟨h.1, ?_⟩
  intro p hp
  obtain ⟨q, hq, hsub⟩ := h.2 p hp
  obtain ⟨q', hq', hc⟩ := Ext.getElem_core he hq
  exact ⟨q', hq', by rw [Rec.core_ctxsIn hc]; exact hsub⟩

theorem IN.of_parts {c c' : Cond} (he : c.st.Ext c'.st) (hj : IN c)
    (hs : ∀ x' ∈ c'.st.staged, (∃ x ∈ c.st.staged, x'.prev = x.prev ∧ x'.ctxsIn = x.ctxsIn) ∨ Inh c' x'.prev x'.ctxsIn)
    (hr : ∀ (i : Nat) (r' : Rec), c'.st.sequence[i]? = some r' → c.st.sequence.length ≤ i →
      Inh c' r'.prev r'.ctxsIn) : IN c' := by
  refine ⟨?_, ?_⟩
  · intro x' hx'
    rcases hs x' hx' with ⟨x, hx, e1, e2⟩ | h
    · rw [e1, e2]; exact (hj.staged x hx).mono he
    · exact h
  · intro r' hr'
    obtain ⟨i, hi⟩ := List.getElem?_of_mem hr'
    by_cases hlen : c.st.sequence.length ≤ i
    · exact hr i r' hi hlen
    · have hlt : i < c.st.sequence.length := Nat.lt_of_not_le hlen
      have hr0 : c.st.sequence[i]? = some c.st.sequence[i] := List.getElem?_eq_getElem hlt
      obtain ⟨r'', hr'', hc⟩ := Ext.getElem_core he hr0
      rw [hi] at hr''
      cases hr''
      rw [Rec.core_prev hc, Rec.core_ctxsIn hc]
      exact (hj.recs _ (List.mem_of_getElem? hr0)).mono he

theorem IN.step {c c' : Cond} (he : c.st.Ext c'.st) (hp : PrevStep c c') (hj : IN c) : IN c' := by
  apply IN.of_parts he hj
  · intro x' hx'
    obtain ⟨x, hx, e1, _, e3⟩ := hp.staged x' hx'
    exact Or.inl ⟨x, hx, e1, e3⟩
  · intro i r' hi hlen
    obtain ⟨r, hr, _⟩ := hp.recs i r' hi
    have := (List.getElem?_eq_some_iff.mp hr).1
    omega

/-- a Hoare judgement -/
structure JN {α} (m : M α) : Prop where
  run : ∀ c, IN c → IN (m c).2

theorem JN.of_rel {α} {m : M α} (h2 : Rel extPre m) (h3 : Rel prevPre m) : JN m :=
  ⟨fun c hj => IN.step (h2.run c) (h3.run c) hj⟩

theorem JN.pure {α} (a : α) : JN (Pure.pure a : M α) := ⟨fun _ hj => hj⟩
theorem JN.throw {α} (e : Err) : JN (M.throw e : M α) := ⟨fun _ hj => hj⟩

theorem JN.bind {α β} {m : M α} {f : α → M β} (hm : JN m) (hf : ∀ a, JN (f a)) : JN (m >>= f) := by
  constructor
  intro c hj
  have h1 := hm.run c hj
  rw [M.bind_run]
  cases h : m c with
  | mk res c1 =>
    rw [h] at h1
    cases res with
    | ok a => exact (hf a).run c1 h1
    | error e => exact h1

theorem JN.forEach {α} (xs : List α) {f : α → M Unit} (hf : ∀ x, JN (f x)) : JN (M.forEach xs f) := by
  induction xs with
  | nil => exact JN.pure ()
  | cons x xs ih =>
    show JN (M.bind' (f x) fun _ => M.forEach xs f)
    exact JN.bind (hf x) (fun _ => ih)

theorem JN.mapM' {α β} (xs : List α) {f : α → M β} (hf : ∀ x, JN (f x)) : JN (M.mapM' xs f) := by
  induction xs with
  | nil => exact JN.pure _
  | cons x xs ih =>
    show JN (M.bind' (f x) fun y => M.bind' (M.mapM' xs f) fun ys => Pure.pure (y :: ys))
    exact JN.bind (hf x) (fun _ => JN.bind ih (fun _ => JN.pure _))

theorem JN.foldM' {α β} (xs : List α) (b : β) {f : β → α → M β} (hf : ∀ b a, JN (f b a)) : JN (M.foldM' xs b f) :=
  ⟨fun c hj => foldM_inv IN xs b f (fun b a s hs => (hf b a).run s hs) c hj⟩

theorem Rel.ext_ok {α} {m : M α} (h : Rel extPre m) {c c1 : Cond} {r : Except Err α} (hrun : m c = (r, c1)) :
    c.st.Ext c1.st := by
  have := h.run c
  rw [hrun] at this
  exact this

theorem JN.run_ok {α} {m : M α} (h : JN m) {c c1 : Cond} {r : Except Err α} (hj : IN c) (hrun : m c = (r, c1)) :
    IN c1 := by
  have := h.run c hj
  rw [hrun] at this
  exact this

theorem in_bind {α β} (m : M α) (f : α → M β) (c : Cond)
    (hm : IN (m c).2) (hf : ∀ a c1, m c = (.ok a, c1) → IN (f a c1).2) : IN ((m >>= f) c).2 := by
  rw [M.bind_run]
  cases h : m c with
  | mk res c1 =>
    rw [h] at hm
    cases res with
    | ok a => exact hf a c1 h
    | error e => exact hm

/-- a state with the same records justifies the same lists -/
theorem Inh.same {c c' : Cond} (hs : c'.st.sequence = c.st.sequence) {prev : List (TransId × Nat)} {ctxs : List Nat}
    (h : Inh c prev ctxs) : Inh c' prev ctxs :=
  ⟨h.1, fun p hp => by obtain ⟨q, hq, hsub⟩ := h.2 p hp; exact ⟨q, by rw [hs]; exact hq, hsub⟩⟩

/-! ### the four places that create or extend a list -/

theorem stageTarget_in (nk : TaskKey) (backref : TransId) (idx : Nat) (outIdxs : List Nat) (c : Cond)
    (hj : IN c) (hq : ∃ q, c.st.sequence[idx]? = some q ∧ 0 ∈ q.ctxsIn ∧ ∀ i ∈ q.ctxsIn, i ∈ outIdxs) :
    IN (stageTarget nk backref idx outIdxs c).2 := by
  obtain ⟨q, hqi, hq0, hqsub⟩ := hq
  have h0out : 0 ∈ outIdxs := hqsub 0 hq0
  unfold stageTarget
  rw [M.bind_run]
  simp only [M.get]
  cases hg : c.st.getStaged? nk with
  | some x0 =>
    dsimp only
    rw [M.bind_run]
    cases he : eraseFirst outIdxs 0 with
    | none => exact hj
    | some rest =>
      simp only [liftOpt, pure, M.pure', M.modifySt, M.modify]
      have hrest : ∀ i ∈ outIdxs, i = 0 ∨ i ∈ rest := by
        intro i hi
        unfold eraseFirst at he
        split at he
        · cases he
          by_cases h0 : i = 0
          · exact Or.inl h0
          · right
            exact (List.mem_erase_of_ne h0).mpr hi
        · cases he
      refine IN.of_parts ?ext1 hj ?_ ?_
      case ext1 => exact Ext.of_eq rfl rfl rfl rfl
      · intro x' hx'
        rcases mem_updateStaged_go_key _ _ _ _ hx' with h | ⟨x, hx, _, ex⟩
        · left; exact ⟨x', h, rfl, rfl⟩
        · right
          rw [ex]
          apply Inh.same (c := c) rfl
          have hx0 := hj.staged x hx
          refine ⟨List.mem_append_left _ hx0.1, ?_⟩
          intro p hp
          rcases mem_setAssoc_eq _ _ _ _ hp with hp' | hp'
          · obtain ⟨q', hq', hsub⟩ := hx0.2 p hp'
            exact ⟨q', hq', fun i hi => List.mem_append_left _ (hsub i hi)⟩
          · rw [hp']
            refine ⟨q, hqi, ?_⟩
            intro i hi
            rcases hrest i (hqsub i hi) with h | h
            · rw [h]; exact List.mem_append_left _ hx0.1
            · exact List.mem_append_right _ h
      · intro i r' hr' hlen
        have h2 : i < c.st.sequence.length := (List.getElem?_eq_some_iff.mp hr').1
        have h3 : c.st.sequence.length ≤ i := hlen
        omega
  | none =>
    simp only [M.modifySt, M.modify]
    refine IN.of_parts ?ext1 hj ?_ ?_
    case ext1 => exact Ext.of_eq rfl rfl rfl rfl
    · intro x' hx'
      rcases List.mem_append.mp hx' with h | h
      · left; exact ⟨x', h, rfl, rfl⟩
      · right
        simp only [List.mem_singleton] at h
        subst h
        apply Inh.same (c := c) rfl
        have hne : outIdxs.isEmpty = false := by
          cases outIdxs with
          | nil => cases h0out
          | cons _ _ => rfl
        show Inh c [(backref, idx)] (if outIdxs.isEmpty then [0] else outIdxs)
        rw [hne]
        refine ⟨h0out, ?_⟩
        intro p hp
        simp only [List.mem_singleton] at hp
        subst hp
        exact ⟨q, hqi, hqsub⟩
    · intro i r' hr' hlen
      have h2 : i < c.st.sequence.length := (List.getElem?_eq_some_iff.mp hr').1
      have h3 : c.st.sequence.length ≤ i := hlen
      omega

theorem stageNext_in (k : TaskKey) (idx : Nat) (e : Edge) (outIdxs : List Nat) (acc : TransAcc) (c : Cond)
    (hj : IN c) (hq : ∃ q, c.st.sequence[idx]? = some q ∧ 0 ∈ q.ctxsIn ∧ ∀ i ∈ q.ctxsIn, i ∈ outIdxs) :
    IN (stageNext k idx e outIdxs acc c).2 := by
  unfold stageNext
  apply in_bind
  · exact (JN.of_rel (evaluateRoute_ext e k.2) (evaluateRoute_prev e k.2)).run c hj
  intro nextRoute c1 h1
  have he1 := (evaluateRoute_ext e k.2).ext_ok h1
  have hj1 := (JN.of_rel (evaluateRoute_ext e k.2) (evaluateRoute_prev e k.2)).run_ok hj h1
  have hq1 : ∃ q, c1.st.sequence[idx]? = some q ∧ 0 ∈ q.ctxsIn ∧ ∀ i ∈ q.ctxsIn, i ∈ outIdxs := by
    obtain ⟨q, hqi, h0, hsub⟩ := hq
    obtain ⟨q', hq', hc⟩ := Ext.getElem_core he1 hqi
    exact ⟨q', hq', by rw [Rec.core_ctxsIn hc]; exact h0, by rw [Rec.core_ctxsIn hc]; exact hsub⟩
  have hj2 := stageTarget_in (e.dst, nextRoute) (k.1, e.key) idx outIdxs c1 hj1 hq1
  apply in_bind
  · exact hj2
  intro u c2 h2
  rw [h2] at hj2
  exact (JN.of_rel (m := (do
      let c ← M.get
      let ready := inboundStatus c e.dst k.2 == .satisfied
      M.modifySt fun st => st.updateStaged (e.dst, nextRoute) fun x => { x with ready := ready }
      if (Cmd.ofStr? e.dst).isSome then
        pure { acc with queue := acc.queue ++ [(e.dst, nextRoute)], manualFail := acc.manualFail || e.dst == "fail" }
      else if ready then pure { acc with readyKeys := acc.readyKeys ++ [(e.dst, nextRoute)] }
      else pure acc : M TransAcc)) (by ext_walk []) (by prev_walk [])).run c2 hj2

theorem fireTransition_in (k : TaskKey) (idx : Nat) (ec : EvalCtx) (acc : TransAcc) (e : Edge) (c : Cond)
    (hj : IN c) : IN (fireTransition E k idx ec acc e c).2 := by
  unfold fireTransition
  rw [M.bind_run]
  simp only [M.get]
  apply in_bind
  · rw [liftOpt_state]; exact hj
  intro ts c1 h1
  obtain ⟨_, e1⟩ := liftOpt_ok h1
  subst e1
  apply in_bind
  · rw [liftOpt_state]; exact hj
  intro tr c2 h2
  obtain ⟨_, e2⟩ := liftOpt_ok h2
  subst e2
  generalize renderSeq E _ _ _ = rs
  obtain ⟨ra, newCtx, nerr⟩ := rs
  dsimp only
  by_cases hn : nerr > 0
  · rw [if_pos hn]
    exact (JN.of_rel (by ext_walk [failOnError_ext]) (by prev_walk [failOnError_prev, logError_prev _ _ _ _])).run c hj
  · rw [if_neg hn]
    apply in_bind
    · rw [liftOpt_state]; exact hj
    intro r c3 h3
    obtain ⟨hr, e3⟩ := liftOpt_ok h3
    subst e3
    have hr0 : 0 ∈ r.ctxsIn := (hj.recs r (List.mem_of_getElem? hr)).1
    by_cases hempty : newCtx.isEmpty = true
    · rw [if_pos hempty, if_pos hempty]
      rw [M.bind_run]
      simp only [pure, M.pure']
      exact stageNext_in k idx e _ acc c hj ⟨r, hr, hr0, fun i hi => hi⟩
    · rw [if_neg hempty, if_neg hempty]
      rw [M.bind_run]
      simp only [M.modifySt, M.modify]
      show IN (stageNext k idx e (r.ctxsIn ++ [c.st.contexts.length]) acc
        { c with st := pubStep c.st newCtx idx (e.dst, e.key) c.st.contexts.length }).2
      have he4 : c.st.Ext (pubStep c.st newCtx idx (e.dst, e.key) c.st.contexts.length) :=
        Ext.appendCtx _ _ _ _ _ (fun _ => rfl)
      have hp4 := (pubStep_prev newCtx idx (e.dst, e.key) c.st.contexts.length).run c
      have hj4 : IN { c with st := pubStep c.st newCtx idx (e.dst, e.key) c.st.contexts.length } :=
        IN.step he4 hp4 hj
      obtain ⟨r', hr', hc⟩ := Ext.getElem_core he4 hr
      apply stageNext_in k idx e _ acc _ hj4
      refine ⟨r', hr', by rw [Rec.core_ctxsIn hc]; exact hr0, ?_⟩
      intro i hi
      rw [Rec.core_ctxsIn hc] at hi
      exact List.mem_append_left _ hi

theorem fireTransition_jn (k idx ec acc e) : JN (fireTransition E k idx ec acc e) :=
  ⟨fun c hj => fireTransition_in E k idx ec acc e c hj⟩

theorem processTransition_jn (k idx ec acc e) : JN (processTransition E k idx ec acc e) := by
  unfold processTransition
  repeat' (first
    | exact JN.pure _
    | exact fireTransition_jn E _ _ _ _ _
    | exact JN.of_rel (logError_ext _ _ _ _) (logError_prev _ _ _ _)
    | exact JN.of_rel failOnError_ext failOnError_prev
    | apply JN.bind | intro _ | split
    | (apply JN.of_rel
       · ext_walk []
       · prev_walk [])
    | dsimp only)

theorem evalTransitions_jn (k idx ts ev) : JN (evalTransitions E k idx ts ev) := by
  unfold evalTransitions
  repeat' (first
    | exact JN.pure _
    | exact JN.of_rel Rel.get Rel.get
    | exact JN.of_rel (makeTaskContext_ext _ _ _) (makeTaskContext_prev _ _ _)
    | exact processTransition_jn E _ _ _ _ _
    | apply JN.bind | apply JN.foldM' | apply JN.forEach | intro _ | split
    | (apply JN.of_rel
       · ext_walk []
       · prev_walk [])
    | dsimp only)

/-! ### new records, retry, rerun -/

theorem IN.append (c : Cond) (r0 : Rec) (k : TaskKey) (n : Nat) (hj : IN c) (hb : Inh c r0.prev r0.ctxsIn) :
    IN { c with st := ({ c.st with sequence := c.st.sequence ++ [r0] } : WState).setTask k n } := by
  have hseq : (({ c.st with sequence := c.st.sequence ++ [r0] } : WState).setTask k n).sequence = c.st.sequence ++ [r0] := by
    rw [WState.setTask_sequence]
  have hstg : (({ c.st with sequence := c.st.sequence ++ [r0] } : WState).setTask k n).staged = c.st.staged := by
    unfold WState.setTask; split <;> rfl
  have hext : c.st.Ext (({ c.st with sequence := c.st.sequence ++ [r0] } : WState).setTask k n) := Ext.appendRec _ _ _ _
  refine IN.of_parts hext hj ?_ ?_
  · intro x' hx'
    left
    refine ⟨x', ?_, rfl, rfl⟩
    have : x' ∈ (({ c.st with sequence := c.st.sequence ++ [r0] } : WState).setTask k n).staged := hx'
    rw [hstg] at this
    exact this
  · intro i r' hr' hlen
    have hr'' : (c.st.sequence ++ [r0])[i]? = some r' := by
      have : (({ c.st with sequence := c.st.sequence ++ [r0] } : WState).setTask k n).sequence[i]? = some r' := hr'
      rw [hseq] at this
      exact this
    rw [List.getElem?_append_right hlen] at hr''
    have : r' = r0 := by
      cases hi : i - c.st.sequence.length with
      | zero => rw [hi] at hr''; simpa using hr''.symm
      | succ n => rw [hi] at hr''; simp at hr''
    rw [this]
    exact hb.mono hext

theorem Inh.orZero {c : Cond} {prev : List (TransId × Nat)} {l : List Nat} (h : Inh c prev l) :
    Inh c prev (if l.isEmpty then [0] else l) := by
  have : l.isEmpty = false := by
    cases l with
    | nil => cases h.1
    | cons _ _ => rfl
  rw [this]
  exact h

theorem addTaskState_in (k : TaskKey) (a : List Nat) (b : List (TransId × Nat)) (c : Cond)
    (hj : IN c) (hb : Inh c b a) : IN (addTaskState E k a b c).2 := by
  unfold addTaskState
  rw [M.bind_run]
  simp only [M.get]
  split
  · exact hj
  · have hhe : Rel extPre (match (newRecord E c k a b).2 with
        | none => pure ()
        | some e => do
          logError e.className (some k.1) (some k.2)
          failOnError : M Unit) := by
      ext_walk [failOnError_ext]
    have hhp : Rel prevPre (match (newRecord E c k a b).2 with
        | none => pure ()
        | some e => do
          logError e.className (some k.1) (some k.2)
          failOnError : M Unit) := by
      prev_walk [failOnError_prev, logError_prev _ _ _ _]
    apply in_bind
    · exact (JN.of_rel hhe hhp).run c hj
    intro u c2 h2
    have e2 := hhe.ext_ok h2
    have hj2 := (JN.of_rel hhe hhp).run_ok hj h2
    rw [M.bind_run]
    simp only [M.get]
    rw [M.bind_run]
    simp only [M.modifySt, M.modify, pure, M.pure']
    apply IN.append c2 _ k _ hj2
    rw [newRecord_ctxsIn, newRecord_prev]
    exact (hb.mono e2).orZero

theorem addTaskState_jn_of (k : TaskKey) (a : List Nat) (b : List (TransId × Nat))
    (h : ∀ c, IN c → Inh c b a) : JN (addTaskState E k a b) :=
  ⟨fun c hj => addTaskState_in E k a b c hj (h c hj)⟩

theorem restageRetry_in (k : TaskKey) (idx : Nat) (o : Status) (c : Cond) (hj : IN c) :
    IN (restageRetry k idx o c).2 := by
  have he := (restageRetry_ext k idx o).run c
  unfold restageRetry at he ⊢
  rw [M.bind_run] at he ⊢
  simp only [M.get] at he ⊢
  rw [M.bind_run] at he ⊢
  cases hr : c.st.sequence[idx]? with
  | none => exact hj
  | some r =>
    rw [hr] at he
    simp only [liftOpt, pure, M.pure'] at he ⊢
    split
    · rename_i hcond
      rw [if_pos hcond] at he
      rw [M.bind_run] at he ⊢
      cases hrs : r.retry with
      | none => exact hj
      | some rs =>
        rw [hrs] at he
        simp only [liftOpt, pure, M.pure'] at he ⊢
        apply IN.of_parts he hj
        · intro x' hx'
          have hx'' : x' ∈ ((c.st.updateRec idx fun r => { r with retry := some { rs with tally := rs.tally + 1 } }).removeStaged k).staged ++
              [({ id := k.1, route := k.2, ctxsIn := if r.ctxsIn.isEmpty then [0] else r.ctxsIn,
                  prev := r.prev, ready := true, retry := some { rs with tally := rs.tally + 1 } } : Staged)] := hx'
          rcases List.mem_append.mp hx'' with h | h
          · left
            have hmem := mem_removeStaged _ _ _ h
            exact ⟨x', hmem, rfl, rfl⟩
          · right
            simp only [List.mem_singleton] at h
            subst h
            exact ((hj.recs r (List.mem_of_getElem? hr)).mono he).orZero
        · intro i r' hr' hlen
          exfalso
          have hmap : (WState.addStaged ((c.st.updateRec idx fun r => { r with retry := some { rs with tally := rs.tally + 1 } }).removeStaged k)
              ({ id := k.1, route := k.2, ctxsIn := if r.ctxsIn.isEmpty then [0] else r.ctxsIn,
                 prev := r.prev, ready := true, retry := some { rs with tally := rs.tally + 1 } } : Staged)).sequence.map (·.prev)
              = c.st.sequence.map (·.prev) := by
            simp only [WState.addStaged_sequence, WState.removeStaged_sequence]
            apply map_prev_modify
            intro r
            rfl
          obtain ⟨r0, hr0, _⟩ := recs_prev_of_map hmap i r' hr'
          have := (List.getElem?_eq_some_iff.mp hr0).1
          omega
    · exact hj

theorem restageRetry_jn (k idx o) : JN (restageRetry k idx o) := ⟨fun c hj => restageRetry_in k idx o c hj⟩

theorem machineStep_jn (k idx ev) : JN (machineStep k idx ev) := by
  unfold machineStep
  repeat' (first
    | exact JN.pure _
    | exact JN.of_rel Rel.get Rel.get
    | exact JN.of_rel (Rel.liftOpt _ _) (Rel.liftOpt _ _)
    | exact JN.of_rel (tkProcessEvent_ext _ _) (tkProcessEvent_prev _ _)
    | exact restageRetry_jn _ _ _
    | apply JN.bind | intro _ | split | dsimp only)

theorem recordFromStaged_in (k : TaskKey) (s0 : Option Staged) (c : Cond) (hj : IN c)
    (hs : ∀ sx, s0 = some sx → Inh c sx.prev sx.ctxsIn) : IN (recordFromStaged E k s0 c).2 := by
  unfold recordFromStaged
  cases s0 with
  | none => exact hj
  | some sx => exact addTaskState_in E _ _ _ c hj (hs sx rfl)

theorem firstRecord_in (k : TaskKey) (s0 : Option Staged) (r0 : Option Nat) (c : Cond) (hj : IN c)
    (hs : ∀ sx, s0 = some sx → Inh c sx.prev sx.ctxsIn) : IN (firstRecord E k s0 r0 c).2 := by
  unfold firstRecord
  cases r0 with
  | none => exact recordFromStaged_in E k s0 c hj hs
  | some i =>
    cases isCmdName k.1 with
    | false => exact hj
    | true => exact recordFromStaged_in E k s0 c hj hs

theorem ensureRecord_in (k : TaskKey) (s0 : Option Staged) (r0 : Option Nat) (ev : Event) (c : Cond)
    (hj : IN c) (hs : ∀ sx, s0 = some sx → Inh c sx.prev sx.ctxsIn) : IN (ensureRecord E k s0 r0 ev c).2 := by
  unfold ensureRecord
  have hj1 := firstRecord_in E k s0 r0 c hj hs
  have e1 := (firstRecord_ext E k s0 r0).run c
  apply in_bind
  · exact hj1
  intro i c1 h1
  rw [h1] at hj1 e1
  rw [M.bind_run]
  simp only [M.get]
  apply in_bind
  · rw [liftOpt_state]; exact hj1
  intro r c2 h2
  obtain ⟨_, e2⟩ := liftOpt_ok h2
  subst e2
  split
  · exact recordFromStaged_in E k s0 c1 hj1 (fun sx h => (hs sx h).mono e1)
  · exact hj1

theorem updateHead_in (k : TaskKey) (ev : Event) (c : Cond) (hj : IN c) : IN (updateHead E k ev c).2 := by
  unfold updateHead
  rw [M.bind_run]
  simp only [M.get]
  split
  · exact hj
  apply in_bind
  · rw [liftOpt_state]; exact hj
  intro ts c0 h0
  obtain ⟨_, e0⟩ := liftOpt_ok h0
  subst e0
  split
  · exact hj
  have hs : ∀ sx, c.st.getStaged? k = some sx → Inh c sx.prev sx.ctxsIn := by
    intro sx hsx
    apply hj.staged sx
    unfold WState.getStaged? at hsx
    exact List.mem_of_find?_eq_some hsx
  have hj1 := ensureRecord_in E k _ (c.st.taskIdx? k) ev c hj hs
  apply in_bind
  · exact hj1
  intro idx c1 h1
  rw [h1] at hj1
  apply in_bind
  · exact (JN.of_rel (noteEvent_ext _ _ _) (noteEvent_prev _ _ _)).run c1 hj1
  intro u c2 h2
  have hj2 := (JN.of_rel (noteEvent_ext k (c.st.getStaged? k) ev) (noteEvent_prev _ _ _)).run c1 hj1
  rw [h2] at hj2
  apply in_bind
  · exact (machineStep_jn k idx ev).run c2 hj2
  intro p c3 h3
  have := (machineStep_jn k idx ev).run c2 hj2
  rw [h3] at this
  exact this

theorem updateHead_jn (k ev) : JN (updateHead E k ev) := ⟨fun c hj => updateHead_in E k ev c hj⟩

theorem updateTail_jn (recur : TaskKey → Event → M Unit) (hrec : ∀ k ev, JN (recur k ev)) (k ev h) :
    JN (updateTail E recur k ev h) := by
  unfold updateTail updateRest
  repeat' (first
    | exact JN.pure _
    | exact JN.of_rel Rel.get Rel.get
    | exact JN.of_rel (Rel.liftOpt _ _) (Rel.liftOpt _ _)
    | exact hrec _ _
    | exact JN.of_rel (completedRetryDecision_ext E _ _ _ _ _ _) (completedRetryDecision_prev E _ _ _ _ _ _)
    | exact evalTransitions_jn E _ _ _ _
    | exact JN.of_rel (wfProcessTaskEvent_ext _ _) (wfProcessTaskEvent_prev _ _)
    | exact JN.of_rel (markTermIfCompleted_ext _) (markTermIfCompleted_prev _)
    | apply JN.bind | apply JN.forEach | intro _ | split | dsimp only)

theorem updateTaskStateAux_jn (fuel k ev) : JN (updateTaskStateAux E fuel k ev) := by
  induction fuel generalizing k ev with
  | zero => unfold updateTaskStateAux; exact JN.throw _
  | succ n ih =>
    unfold updateTaskStateAux
    exact JN.bind (updateHead_jn E k ev) (fun h => updateTail_jn E _ (fun k ev => ih k ev) k ev h)

theorem requestTaskRerun_in (k : TaskKey) (resetItems : Bool) (c : Cond) (hj : IN c) :
    IN (requestTaskRerun E k resetItems c).2 := by
  unfold requestTaskRerun
  rw [M.bind_run]
  simp only [M.get]
  apply in_bind
  · rw [liftOpt_state]; exact hj
  intro idx c0 h0
  obtain ⟨_, e0⟩ := liftOpt_ok h0
  subst e0
  apply in_bind
  · rw [liftOpt_state]; exact hj
  intro task c0 h0
  obtain ⟨htask, e0⟩ := liftOpt_ok h0
  subst e0
  apply in_bind
  · rw [liftOpt_state]; exact hj
  intro ts c0 h0
  obtain ⟨_, e0⟩ := liftOpt_ok h0
  subst e0
  have hin : Inh c task.prev task.ctxsIn := hj.recs task (List.mem_of_getElem? htask)
  have hm1 : Rel extPre (M.modifySt fun st => (st.updateRec idx fun r => { r with term := false }).updateStaged k
      fun x => { x with completed := false }) := by ext_walk []
  have hm1p : Rel prevPre (M.modifySt fun st => (st.updateRec idx fun r => { r with term := false }).updateStaged k
      fun x => { x with completed := false }) := by prev_walk []
  apply in_bind
  · exact (JN.of_rel hm1 hm1p).run c hj
  intro u c1 h1
  have e1 := hm1.ext_ok h1
  have hj1 := (JN.of_rel hm1 hm1p).run_ok hj h1
  have hm2 : Rel extPre (M.modify fun c => { c with errors := c.errors.filter fun e => e.taskId != some k.1 }) := by
    ext_walk []
  have hm2p : Rel prevPre (M.modify fun c => { c with errors := c.errors.filter fun e => e.taskId != some k.1 }) := by
    prev_walk []
  apply in_bind
  · exact (JN.of_rel hm2 hm2p).run c1 hj1
  intro u c2 h2
  have e2 := hm2.ext_ok h2
  have hj2 := (JN.of_rel hm2 hm2p).run_ok hj1 h2
  have hin2 : Inh c2 task.prev task.ctxsIn := (hin.mono e1).mono e2
  have hmid : ∀ (u : Except Err Unit) c3, ((if ts.withItems.isSome then do
        let c ← M.get
        if (c.st.getStaged? k).isNone then M.throw .attributeError
        else M.modifySt fun st => st.updateStaged k fun x =>
          { x with items := x.items.map fun l => l.map fun s => if resetItems || s.isAbended then .unset else s }
      else do
        let _ ← addTaskState E k task.ctxsIn task.prev
        M.modifySt fun st => st.addStaged
          { id := k.1, route := k.2, ctxsIn := if task.ctxsIn.isEmpty then [0] else task.ctxsIn,
            prev := task.prev, ready := true } : M Unit) c2) = (u, c3) → IN c3 := by
    intro u c3 hrun
    split at hrun
    · have hjj := (JN.of_rel (m := (do
          let c ← M.get
          if (c.st.getStaged? k).isNone then M.throw .attributeError
          else M.modifySt fun st => st.updateStaged k fun x =>
            { x with items := x.items.map fun l => l.map fun s => if resetItems || s.isAbended then .unset else s } : M Unit))
        (by ext_walk []) (by prev_walk [])).run c2 hj2
      rw [hrun] at hjj
      exact hjj
    · rw [M.bind_run] at hrun
      have ha := addTaskState_in E k task.ctxsIn task.prev c2 hj2 hin2
      have ea := (addTaskState_ext E k task.ctxsIn task.prev).run c2
      cases hadd : addTaskState E k task.ctxsIn task.prev c2 with
      | mk res ca =>
        rw [hadd] at hrun ha ea
        cases res with
        | error e =>
          have : c3 = ca := by cases hrun; rfl
          subst this
          exact ha
        | ok i =>
          simp only [M.modifySt, M.modify] at hrun
          have hc3 : c3 = { ca with st := (ca.st.addStaged
              ({ id := k.1, route := k.2, ctxsIn := if task.ctxsIn.isEmpty then [0] else task.ctxsIn,
                 prev := task.prev, ready := true } : Staged)) } := by cases hrun; rfl
          subst hc3
          refine IN.of_parts ?ext0 ha ?_ ?_
          case ext0 => exact Ext.of_eq rfl rfl rfl rfl
          · intro x' hx'
            rcases List.mem_append.mp hx' with hm | hm
            · left; exact ⟨x', hm, rfl, rfl⟩
            · right
              simp only [List.mem_singleton] at hm
              subst hm
              apply Inh.same (c := ca) rfl
              exact (hin2.mono ea).orZero
          · intro i r' hr' hlen
            have h2 : i < ca.st.sequence.length := (List.getElem?_eq_some_iff.mp hr').1
            have h3 : ca.st.sequence.length ≤ i := hlen
            omega
  rw [M.bind_run]
  cases hrun : (if ts.withItems.isSome then do
        let c ← M.get
        if (c.st.getStaged? k).isNone then M.throw .attributeError
        else M.modifySt fun st => st.updateStaged k fun x =>
          { x with items := x.items.map fun l => l.map fun s => if resetItems || s.isAbended then .unset else s }
      else do
        let _ ← addTaskState E k task.ctxsIn task.prev
        M.modifySt fun st => st.addStaged
          { id := k.1, route := k.2, ctxsIn := if task.ctxsIn.isEmpty then [0] else task.ctxsIn,
            prev := task.prev, ready := true } : M Unit) c2 with
  | mk res c3 =>
    have hj3 := hmid res c3 hrun
    cases res with
    | error e => exact hj3
    | ok _ =>
      dsimp only
      exact (JN.of_rel (by ext_walk []) (by prev_walk [])).run c3 hj3

theorem requestTaskRerun_jn (k : TaskKey) (r : Bool) : JN (requestTaskRerun E k r) :=
  ⟨fun c hj => requestTaskRerun_in E k r c hj⟩

theorem requestRerun_jn (reqs : List RerunReq) : JN (requestRerun E reqs) := by
  unfold requestRerun
  repeat' (first
    | exact JN.pure _ | exact JN.throw _
    | exact JN.of_rel Rel.get Rel.get
    | exact JN.of_rel (Rel.liftOpt _ _) (Rel.liftOpt _ _)
    | exact JN.of_rel (Rel.liftExcept _) (Rel.liftExcept _)
    | exact requestTaskRerun_jn E _ _
    | apply JN.bind | apply JN.forEach | apply JN.mapM'
    | intro _ | split
    | (apply JN.of_rel
       · ext_walk []
       · prev_walk [])
    | dsimp only)

end Orq
