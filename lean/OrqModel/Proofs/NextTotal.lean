/-
C11/C15: `get_next_tasks` never raises — whatever the evaluator does, from every state whose
workflow status is one a workflow can be in.  The rendering of each task is guarded, and the
request for `failed` that follows a rendering error is always honoured (table facts).
-/
import OrqModel.Proofs.Query
import OrqModel.Proofs.Frozen
import OrqModel.Proofs.NextIdem
import OrqModel.Properties.Status

namespace Orq

variable (E : Evaluator)

/-! ### table facts about the request for `failed` -/

def notOdd (s : Status) : Bool := !(s == .expired) && !(s == .abandoned)

theorem tbl_tk_failed_total : ∀ (tk : Status) (h a i : Bool), notOdd tk = true →
    ((tkOnWorkflowEvent tk .failed h a i).isOk &&
      (tkOnWorkflowEvent tk .failed h a i).all? notOdd) = true := by decide +kernel

theorem tbl_wf_failed_total : ∀ (s : Status) (a st p : Bool), wfReachable s = true → (s == .canceled) = false →
    (wfTransitionValid s .failed && (wfOnWorkflowEvent s .failed a st p).isOk &&
      (wfOnWorkflowEvent s .failed a st p).all? (fun s' => !(s' == s) || s == .failed)) = true := by
  decide +kernel

theorem isActive_notOdd : ∀ (s : Status), s.isActive = true → notOdd s = true := by decide

/-! ### the cascade over the active records -/

/-- record `i` exists and its status is not one of the two a record never carries -/
def OkAt (c : Cond) (i : Nat) : Prop :=
  ∃ r, c.st.sequence[i]? = some r ∧ notOdd (r.status.getD .unset) = true

theorem tkProcessWorkflowEvent_failed_ok (i : Nat) (c : Cond) (h : OkAt c i) :
    (tkProcessWorkflowEvent i .failed c).1 = .ok () ∧
    ∀ j, OkAt c j → OkAt (tkProcessWorkflowEvent i .failed c).2 j := by
  obtain ⟨r, hr, hodd⟩ := h
  unfold tkProcessWorkflowEvent
  simp only [hr]
  generalize (itemFlags c.st r).1 = f1
  generalize (itemFlags c.st r).2.1 = f2
  generalize (itemFlags c.st r).2.2 = f3
  have ht := tbl_tk_failed_total (r.status.getD .unset) f1 f2 f3 hodd
  simp only [Bool.and_eq_true] at ht
  cases hstep : tkOnWorkflowEvent (r.status.getD .unset) .failed f1 f2 f3 with
  | raise e => rw [hstep] at ht; exact absurd ht.1 (by simp [StepRes.isOk])
  | ok s' =>
    rw [hstep] at ht
    simp only [hstep]
    split
    · exact ⟨rfl, fun j hj => hj⟩
    · refine ⟨rfl, ?_⟩
      intro j ⟨rj, hrj, hoj⟩
      by_cases hji : j = i
      · subst hji
        refine ⟨{ r with status := some s' }, ?_, ?_⟩
        · show (c.st.sequence.modify j _)[j]? = _
          rw [getElem?_modify_same, hr]
          rfl
        · exact ht.2
      · refine ⟨rj, ?_, hoj⟩
        show (c.st.sequence.modify i _)[j]? = _
        rw [getElem?_modify_ne _ _ _ _ hji]
        exact hrj

theorem forEach_failed_ok (l : List Nat) (c : Cond) (h : ∀ i ∈ l, OkAt c i) :
    (M.forEach l (fun i => tkProcessWorkflowEvent i .failed) c).1 = .ok () := by
  induction l generalizing c with
  | nil => rfl
  | cons x xs ih =>
    show (M.bind' (tkProcessWorkflowEvent x .failed) (fun _ => M.forEach xs _) c).1 = _
    unfold M.bind'
    obtain ⟨h1, h2⟩ := tkProcessWorkflowEvent_failed_ok x c (h x List.mem_cons_self)
    cases hr : tkProcessWorkflowEvent x .failed c with
    | mk res c1 =>
      rw [hr] at h1 h2
      dsimp only at h1
      subst h1
      dsimp only
      exact ih c1 (fun i hi => h2 i (h i (List.mem_cons_of_mem _ hi)))

theorem forEach_failed_status (l : List Nat) (c : Cond) :
    (M.forEach l (fun i => tkProcessWorkflowEvent i .failed) c).2.st.status = c.st.status :=
  ((Rel.forEach (P := keepPre) l (fun i => tkProcessWorkflowEvent_keep i .failed)).run c)

theorem idxByStatus_okAt (st : WState) (c : Cond) (hc : c.st = st) :
    ∀ i ∈ st.idxByStatus Status.isActive, OkAt c i := by
  intro i hi
  unfold WState.idxByStatus at hi
  obtain ⟨p, hp, hpi⟩ := List.mem_map.mp hi
  obtain ⟨hmem, hcond⟩ := List.mem_filter.mp hp
  obtain ⟨r, j⟩ := p
  simp only at hpi
  subst hpi
  have hget : st.sequence[j]? = some r := by
    have := List.mem_zipIdx_iff_getElem?.mp hmem
    simpa using this
  refine ⟨r, by rw [hc]; exact hget, ?_⟩
  simp only [Bool.and_eq_true] at hcond
  cases hs : r.status with
  | none => rw [hs] at hcond; exact absurd hcond.1 (by decide)
  | some s =>
    rw [hs] at hcond
    exact isActive_notOdd s hcond.1

/-! ### the request for `failed` is honoured -/

theorem forEach_logError_ok (xs : List Staged) (cc : Cond) :
    (M.forEach xs (fun x => logError "UnreachableJoinError" (some x.id) (some x.route)) cc).1 = .ok () := by
  induction xs generalizing cc with
  | nil => rfl
  | cons x xs ih =>
    show (M.bind' (logError _ _ _) (fun _ => M.forEach xs _) cc).1 = _
    unfold M.bind' logError logEntry M.modify
    dsimp only
    exact ih _

/-- when the table accepts the request, the workflow machine returns and leaves the table's answer
    (or `failed`, after the unreachable-join check) -/
theorem wfProcessWorkflowEvent_ok (req : Status) (c : Cond) (s' : Status)
    (h : wfOnWorkflowEvent c.st.status req c.st.hasActive c.st.hasStaged c.st.hasPaused = .ok s') :
    (wfProcessWorkflowEvent req c).1 = .ok () ∧
    ((wfProcessWorkflowEvent req c).2.st.status = s' ∨ (wfProcessWorkflowEvent req c).2.st.status = .failed) := by
  unfold wfProcessWorkflowEvent
  simp only [h]
  split
  · split
    · exact ⟨rfl, Or.inl rfl⟩
    · refine ⟨forEach_logError_ok _ _, Or.inr ?_⟩
      rw [forEach_logError_seq]
  · exact ⟨rfl, Or.inl rfl⟩

theorem bne_failed {s : Status} (h : (Status.failed != s) = true) : s ≠ .failed := by
  intro he
  subst he
  exact absurd h (by decide)

theorem requestStatus_failed_ok (c : Cond) (hreach : wfReachable c.st.status = true)
    (hnc : (c.st.status == .canceled) = false) : (requestStatus .failed c).1 = .ok () := by
  have hcase : ∀ a st p, (wfTransitionValid c.st.status .failed &&
      (wfOnWorkflowEvent c.st.status .failed a st p).isOk &&
      (wfOnWorkflowEvent c.st.status .failed a st p).all? (fun s' => !(s' == c.st.status) || c.st.status == .failed)) = true :=
    fun a st p => tbl_wf_failed_total c.st.status a st p hreach hnc
  have hvalid : wfTransitionValid c.st.status .failed = true := by
    have := hcase false false false
    simp only [Bool.and_eq_true] at this
    exact this.1.1
  unfold requestStatus
  rw [M.bind_run]
  simp only [M.get, hvalid, Bool.not_true, Bool.false_eq_true, if_false]
  rw [M.bind_run]
  have h1 := forEach_failed_ok (c.st.idxByStatus Status.isActive) c (idxByStatus_okAt c.st c rfl)
  have hst := forEach_failed_status (c.st.idxByStatus Status.isActive) c
  cases hf : M.forEach (c.st.idxByStatus Status.isActive) (fun i => tkProcessWorkflowEvent i .failed) c with
  | mk res c1 =>
    rw [hf] at h1 hst
    dsimp only at h1 hst
    subst h1
    dsimp only
    rw [M.bind_run]
    have hc := hcase c1.st.hasActive c1.st.hasStaged c1.st.hasPaused
    simp only [Bool.and_eq_true] at hc
    obtain ⟨⟨_, hok⟩, hall⟩ := hc
    cases hw : wfOnWorkflowEvent c.st.status .failed c1.st.hasActive c1.st.hasStaged c1.st.hasPaused with
    | raise e => rw [hw] at hok; exact absurd hok (by simp [StepRes.isOk])
    | ok s' =>
      rw [hw] at hall
      have hall' : (!(s' == c.st.status) || c.st.status == .failed) = true := hall
      obtain ⟨hr1, hr2⟩ := wfProcessWorkflowEvent_ok .failed c1 s' (by rw [hst]; exact hw)
      cases hp : wfProcessWorkflowEvent .failed c1 with
      | mk res2 c2 =>
        rw [hp] at hr1 hr2
        dsimp only at hr1 hr2
        subst hr1
        dsimp only
        rw [M.bind_run]
        simp only [M.get]
        have e1 : (Status.failed == Status.paused) = false := by decide
        have e2 : (Status.failed == Status.canceled) = false := by decide
        simp only [e1, e2, Bool.false_and, Bool.false_eq_true, if_false]
        split
        · rename_i hcond
          exfalso
          simp only [Bool.and_eq_true] at hcond
          have hne := bne_failed hcond.1
          have heq := status_eq_of_beq hcond.2
          rcases hr2 with hr2 | hr2
          · rw [hr2] at heq
            rw [← heq] at hall'
            have hb : (c.st.status == c.st.status) = true := by
              cases c.st.status <;> decide
            rw [hb] at hall'
            simp only [Bool.not_true, Bool.false_or] at hall'
            exact hne (status_eq_of_beq hall')
          · rw [hr2] at heq
            exact hne heq
        · rfl

theorem failOnError_ok (c : Cond) (hreach : wfReachable c.st.status = true) : (failOnError c).1 = .ok () := by
  unfold failOnError
  rw [M.bind_run]
  simp only [M.get]
  split
  · rfl
  · rename_i hnc
    exact requestStatus_failed_ok c hreach (by
      cases h : (c.st.status == Status.canceled) with
      | false => rfl
      | true => exact absurd h hnc)

/-! ### the query itself -/

theorem nextTaskFor_total (sx : Staged) (c : Cond) : ∃ p, (nextTaskFor E sx c).1 = .ok p := by
  cases he : entryOk E c sx with
  | none => exact ⟨_, nextTaskFor_fail E c sx he⟩
  | some q =>
    obtain ⟨r, it⟩ := q
    exact ⟨_, by rw [nextTaskFor_ok E c sx r it he]⟩

theorem loopBody_total (acc : List Offer × Bool) (sx : Staged) (c : Cond) :
    ∃ p, (loopBody E acc sx c).1 = .ok p := by
  cases he : entryOk E c sx with
  | none =>
    obtain ⟨c', hc'⟩ := loopBody_fail E acc sx c he
    exact ⟨_, by rw [hc']⟩
  | some q =>
    obtain ⟨r, it⟩ := q
    exact ⟨_, by rw [loopBody_ok E acc sx c r it he]⟩

theorem nextLoop_total (l : List Staged) (acc : List Offer × Bool) (c : Cond) :
    ∃ p, (nextLoop E l acc c).1 = .ok p := by
  induction l generalizing acc c with
  | nil => exact ⟨acc, rfl⟩
  | cons x xs ih =>
    unfold nextLoop M.foldM'
    show ∃ p, (M.bind' (loopBody E acc x) (fun b' => M.foldM' xs b' (loopBody E)) c).1 = .ok p
    unfold M.bind'
    obtain ⟨p1, hp1⟩ := loopBody_total E acc x c
    cases hr : loopBody E acc x c with
    | mk res c1 =>
      rw [hr] at hp1
      dsimp only at hp1
      subst hp1
      dsimp only
      exact ih p1 c1

theorem loopBody_q (acc : List Offer × Bool) (sx : Staged) : Rel qPre (loopBody E acc sx) := by
  unfold loopBody
  repeat' (first
    | exact Rel.pure _ | exact nextTaskFor_q E _
    | apply Rel.bind | intro _ | split | dsimp only)

/-- **C11/C15**: from every state whose workflow status is one a workflow can be in,
    `get_next_tasks` returns: it never raises, whatever the evaluator does -/
theorem getNextTasks_total (c : Cond) (hreach : wfReachable c.st.status = true) :
    ∃ r, (getNextTasks E c).1 = .ok r := by
  unfold getNextTasks
  rw [nextFrom_eq, M.bind_run]
  obtain ⟨p, hp⟩ := nextLoop_total E (nextTodo c.st) ([], false) c
  have hq := (Rel.foldM' (P := qPre) (nextTodo c.st) (([] : List Offer), false)
    (f := loopBody E) (fun b a => loopBody_q E b a)).run c
  cases hl : nextLoop E (nextTodo c.st) ([], false) c with
  | mk res c1 =>
    rw [hl] at hp
    have hq' : qPre.R c c1 := by
      have := hq
      unfold nextLoop at hl
      rw [hl] at this
      exact this
    dsimp only at hp
    subst hp
    dsimp only
    obtain ⟨offers, failed⟩ := p
    cases failed with
    | false => exact ⟨_, rfl⟩
    | true =>
      simp only [if_true]
      rw [M.bind_run]
      have hst : c1.st.status = c.st.status := hq'.2.2.2.2.2.2.2.2.1
      have hok := failOnError_ok c1 (by rw [hst]; exact hreach)
      cases hf : failOnError c1 with
      | mk res2 c2 =>
        rw [hf] at hok
        dsimp only at hok
        subst hok
        exact ⟨[], rfl⟩

end Orq
