/-
C09/C10: a workflow status request (pause, resume, cancel, …) touches nothing but statuses: the
workflow status, the statuses of task records, and — when the unreachable-join check applies —
the error log.  Contexts, routes, staged entries, the task-key map, the rerun log, every record's
identity, context lists, predecessors, decisions, flags and retry state are exactly what they
were, whether the request is accepted or rejected.
-/
import OrqModel.Proofs.GraphFixed

namespace Orq

def Rec.noStatus (r : Rec) : Rec := { r with status := none }

theorem map_noStatus_modify (l : List Rec) (i : Nat) (g : Rec → Rec) (h : ∀ r, (g r).noStatus = r.noStatus) :
    (l.modify i g).map Rec.noStatus = l.map Rec.noStatus := by
  induction l generalizing i with
  | nil => cases i <;> rfl
  | cons x xs ih =>
    cases i with
    | zero => simp [h]
    | succ n => simp [ih]

structure Frame (c c' : Cond) : Prop where
  spec : c'.spec = c.spec
  graph : c'.graph = c.graph
  output : c'.output = c.output
  contexts : c'.st.contexts = c.st.contexts
  routes : c'.st.routes = c.st.routes
  staged : c'.st.staged = c.st.staged
  tasks : c'.st.tasks = c.st.tasks
  reruns : c'.st.reruns = c.st.reruns
  pubLog : c'.st.pubLog = c.st.pubLog
  records : c'.st.sequence.map Rec.noStatus = c.st.sequence.map Rec.noStatus

def frPre : Pre where
  R := Frame
  refl _ := ⟨rfl, rfl, rfl, rfl, rfl, rfl, rfl, rfl, rfl, rfl⟩
  trans h1 h2 := ⟨h2.spec.trans h1.spec, h2.graph.trans h1.graph, h2.output.trans h1.output,
    h2.contexts.trans h1.contexts, h2.routes.trans h1.routes, h2.staged.trans h1.staged,
    h2.tasks.trans h1.tasks, h2.reruns.trans h1.reruns, h2.pubLog.trans h1.pubLog, h2.records.trans h1.records⟩

theorem logEntry_fr (e) : Rel frPre (logEntry e) := by
  constructor
  intro c
  unfold logEntry M.modify
  dsimp only
  split <;> exact ⟨rfl, rfl, rfl, rfl, rfl, rfl, rfl, rfl, rfl, rfl⟩

theorem tkProcessWorkflowEvent_fr (i req) : Rel frPre (tkProcessWorkflowEvent i req) := by
  constructor
  intro c
  unfold tkProcessWorkflowEvent
  repeat' (first
    | exact ⟨rfl, rfl, rfl, rfl, rfl, rfl, rfl, rfl, rfl, rfl⟩
    | exact ⟨rfl, rfl, rfl, rfl, rfl, rfl, rfl, rfl, rfl, by apply map_noStatus_modify; intro r; rfl⟩
    | split | dsimp only)

theorem wfProcessWorkflowEvent_fr (req) : Rel frPre (wfProcessWorkflowEvent req) := by
  constructor
  intro c
  unfold wfProcessWorkflowEvent
  dsimp only
  split
  · exact frPre.refl c
  · split
    · split
      · exact ⟨rfl, rfl, rfl, rfl, rfl, rfl, rfl, rfl, rfl, rfl⟩
      · have hk : ∀ xs : List Staged, Rel frPre (M.forEach xs
            fun x => logError "UnreachableJoinError" (some x.id) (some x.route)) :=
          fun xs => Rel.forEach _ (fun x => logEntry_fr _)
        exact frPre.trans (b := { c with st := { c.st with status := Status.failed } })
          ⟨rfl, rfl, rfl, rfl, rfl, rfl, rfl, rfl, rfl, rfl⟩ ((hk _).run _)
    · exact ⟨rfl, rfl, rfl, rfl, rfl, rfl, rfl, rfl, rfl, rfl⟩

theorem requestStatus_fr (req) : Rel frPre (requestStatus req) := by
  unfold requestStatus
  repeat' (first
    | exact Rel.pure _ | exact Rel.throw _ | exact Rel.get
    | exact tkProcessWorkflowEvent_fr _ _ | exact wfProcessWorkflowEvent_fr _
    | apply Rel.bind | apply Rel.forEach | intro _ | split | dsimp only)

end Orq
