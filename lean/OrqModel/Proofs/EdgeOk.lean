/-
C01, "justified by the definition": every decision a task record holds is a decision about an
edge of the composed graph that leaves the record's own task.  With the decision invariant `JT`
this gives: every predecessor a staged entry of task `t` names is a record of some task `s` that
recorded `true` for an edge `s → t` of the graph composed from the definition.
-/
import OrqModel.Proofs.Published
import OrqModel.Properties.Compose

namespace Orq

variable (E : Evaluator)

/-- the decision key `tid = (target, key)` is an edge of the graph leaving `src` -/
def EdgeOf (c : Cond) (src : String) (tid : TransId) : Prop :=
  ∃ e ∈ c.graph.edges, e.src = src ∧ e.dst = tid.1 ∧ e.key = tid.2

structure NE (c : Cond) : Prop where
  recs : ∀ r ∈ c.st.sequence, ∀ m ∈ r.next, EdgeOf c r.id m.1

/-- every record of the new state has the decisions of the old record at its index, or none -/
structure NEw (c c' : Cond) : Prop where
  back : ∀ (i : Nat) (r' : Rec), c'.st.sequence[i]? = some r' →
    (∃ r, c.st.sequence[i]? = some r ∧ r'.next = r.next) ∨ r'.next = []

def nwPre : Pre where
  R := NEw
  refl c := ⟨fun i r h => Or.inl ⟨r, h, rfl⟩⟩
  trans := by
    intro a b c h1 h2
    constructor
    intro i r'' hr''
    rcases h2.back i r'' hr'' with ⟨r', hr', e2⟩ | h0
    · rcases h1.back i r' hr' with ⟨r, hr, e1⟩ | h0
      · exact Or.inl ⟨r, hr, e2.trans e1⟩
      · exact Or.inr (by rw [e2]; exact h0)
    · exact Or.inr h0

theorem NEw.of_map {c c' : Cond} (h : c'.st.sequence.map (·.next) = c.st.sequence.map (·.next)) : NEw c c' := by
  constructor
  intro i r' hr'
  left
  have hmap := congrArg (·[i]?) h
  simp only [List.getElem?_map, hr'] at hmap
  cases hc : c.st.sequence[i]? with
  | none => rw [hc] at hmap; cases hmap
  | some r =>
    rw [hc] at hmap
    simp only [Option.map_some, Option.some.injEq] at hmap
    exact ⟨r, rfl, hmap⟩

theorem Rel.nw_of_nx {α} {m : M α} (h : Rel nxPre m) : Rel nwPre m := ⟨fun c => NEw.of_map (h.run c)⟩

theorem Rel.modifySt_nw_append {f : WState → WState} (r0 : Rec) (h0 : r0.next = [])
    (h : ∀ st : WState, (f st).sequence = st.sequence ++ [r0]) : Rel nwPre (M.modifySt f) := by
  constructor
  intro c
  constructor
  intro i r' hr'
  have hr'' : (c.st.sequence ++ [r0])[i]? = some r' := by
    have : (f c.st).sequence[i]? = some r' := hr'
    rw [h] at this
    exact this
  by_cases hlt : i < c.st.sequence.length
  · left
    rw [List.getElem?_append_left hlt] at hr''
    exact ⟨r', hr'', rfl⟩
  · right
    rw [List.getElem?_append_right (Nat.le_of_not_lt hlt)] at hr''
    cases hi : i - c.st.sequence.length with
    | zero =>
      rw [hi] at hr''
      have : r' = r0 := by simpa using hr''.symm
      rw [this]; exact h0
    | succ n => rw [hi] at hr''; simp at hr''

syntax "nw_walk" "[" term,* "]" : tactic
macro_rules
  | `(tactic| nw_walk [$ts,*]) => do
    let alts ← ts.getElems.mapM fun t => `(tactic| exact $t)
    `(tactic| repeat' (first
      | exact Rel.pure _ | exact Rel.pure' _ | exact Rel.throw _ | exact Rel.get
      | exact Rel.liftOpt _ _ | exact Rel.liftExcept _
      | exact Rel.nw_of_nx (wfProcessWorkflowEvent_nx _) | exact Rel.nw_of_nx (tkProcessWorkflowEvent_nx _ _)
      | exact Rel.nw_of_nx (tkProcessEvent_nx _ _) | exact Rel.nw_of_nx (logEntry_nx _)
      | exact Rel.nw_of_nx (wfProcessTaskEvent_nx _ _) | exact Rel.nw_of_nx (logError_nx _ _ _ _)
      $[| $alts:tactic]*
      | (apply Rel.nw_of_nx; apply Rel.modifySt_nx; intro st; nx_seq)
      | (apply Rel.nw_of_nx; apply Rel.raw_nx; intro c; rfl)
      | apply Rel.bind | apply Rel.bind' | apply Rel.tryCatch | apply Rel.forEach | apply Rel.foldM' | apply Rel.mapM'
      | intro _ | split | dsimp only ))

theorem requestStatus_nw (req) : Rel nwPre (requestStatus req) := Rel.nw_of_nx (requestStatus_nx req)
theorem failOnError_nw : Rel nwPre failOnError := Rel.nw_of_nx failOnError_nx

theorem getTask_nw (k) : Rel nwPre (getTask E k) := by
  unfold getTask
  nw_walk []

theorem evaluateTaskActions_nw (o) : Rel nwPre (evaluateTaskActions o) := by
  unfold evaluateTaskActions
  nw_walk []

theorem nextTaskFor_nw (sx) : Rel nwPre (nextTaskFor E sx) := by
  unfold nextTaskFor
  nw_walk [getTask_nw E _, evaluateTaskActions_nw _]

theorem nextFrom_nw (todo) : Rel nwPre (nextFrom E todo) := by
  unfold nextFrom
  nw_walk [nextTaskFor_nw E _, failOnError_nw]

theorem getNextTasks_nw : Rel nwPre (getNextTasks E) :=
  ⟨fun c => (nextFrom_nw E (nextTodo c.st)).run c⟩

theorem evaluateRoute_nw (e r) : Rel nwPre (evaluateRoute e r) := by
  unfold evaluateRoute
  nw_walk []

theorem stageNext_nw (k idx e o acc) : Rel nwPre (stageNext k idx e o acc) := by
  unfold stageNext stageTarget
  nw_walk [evaluateRoute_nw _ _]

theorem fireTransition_nw (k idx ec acc e) : Rel nwPre (fireTransition E k idx ec acc e) := by
  unfold fireTransition
  nw_walk [stageNext_nw _ _ _ _ _, failOnError_nw]

theorem makeTaskContext_nw (k idx r) : Rel nwPre (makeTaskContext k idx r) := Rel.nw_of_nx (makeTaskContext_nx k idx r)

theorem noteEvent_nw (k s ev) : Rel nwPre (noteEvent k s ev) := by
  unfold noteEvent
  nw_walk []

theorem addTaskState_nw (k a b) : Rel nwPre (addTaskState E k a b) := by
  unfold addTaskState
  nw_walk [failOnError_nw]
  all_goals (
    apply Rel.modifySt_nw_append _ (newRecord_next E _ k a b)
    intro st
    show (WState.setTask _ _ _).sequence = _
    rw [WState.setTask_sequence])

theorem ensureRecord_nw (k s r ev) : Rel nwPre (ensureRecord E k s r ev) := by
  unfold ensureRecord firstRecord recordFromStaged
  nw_walk [addTaskState_nw E _ _ _]

theorem machineStep_nw (k idx ev) : Rel nwPre (machineStep k idx ev) := by
  unfold machineStep
  nw_walk [Rel.nw_of_nx (restageRetry_nx _ _ _)]

theorem updateHead_nw (k ev) : Rel nwPre (updateHead E k ev) := by
  unfold updateHead
  nw_walk [ensureRecord_nw E _ _ _ _, noteEvent_nw _ _ _, machineStep_nw _ _ _]

theorem markTermIfCompleted_nw (idx) : Rel nwPre (markTermIfCompleted idx) := by
  unfold markTermIfCompleted
  nw_walk []

theorem terminalContext_nw : Rel nwPre terminalContext := by
  unfold terminalContext
  nw_walk []

theorem renderOutput_nw : Rel nwPre (renderOutput E) := by
  unfold renderOutput
  nw_walk [terminalContext_nw, failOnError_nw]

theorem requestTaskRerun_nw (k r) : Rel nwPre (requestTaskRerun E k r) := by
  unfold requestTaskRerun
  nw_walk [addTaskState_nw E _ _ _]

theorem requestRerun_nw (reqs) : Rel nwPre (requestRerun E reqs) := by
  unfold requestRerun
  nw_walk [requestTaskRerun_nw E _ _]

theorem completedRetryDecision_nw (k idx ts os ns ev) : Rel nwPre (completedRetryDecision E k idx ts os ns ev) :=
  Rel.nw_of_nx (completedRetryDecision_nx E k idx ts os ns ev)

/-! ### the invariant -/

theorem EdgeOf.same {c c' : Cond} (hg : c'.graph = c.graph) {src : String} {tid : TransId} (h : EdgeOf c src tid) :
    EdgeOf c' src tid := by
  obtain ⟨e, he, h1⟩ := h
  exact ⟨e, by rw [hg]; exact he, h1⟩

theorem NE.step {c c' : Cond} (hw : NEw c c') (he : c.st.Ext c'.st) (hg : c'.graph = c.graph) (hj : NE c) : NE c' := by
  constructor
  intro r' hr' m hm
  obtain ⟨i, hi⟩ := List.getElem?_of_mem hr'
  rcases hw.back i r' hi with ⟨r, hr, e⟩ | h0
  · obtain ⟨r'', hr'', hc⟩ := Ext.getElem_core he hr
    rw [hi] at hr''
    cases hr''
    rw [Rec.core_id hc]
    rw [e] at hm
    exact (hj.recs r (List.mem_of_getElem? hr) m hm).same hg
  · rw [h0] at hm
    cases hm

theorem NE.uniform {α} {m : M α} (h1 : Rel nwPre m) (h2 : Rel extPre m) (h3 : Rel gPre m) (c : Cond) (hj : NE c) :
    NE (m c).2 := NE.step (h1.run c) (h2.run c) (h3.run c).2 hj

theorem ne_bind {α β} (m : M α) (f : α → M β) (c : Cond)
    (hm : NE (m c).2) (hf : ∀ a c1, m c = (.ok a, c1) → NE (f a c1).2) : NE ((m >>= f) c).2 := by
  rw [M.bind_run]
  cases h : m c with
  | mk res c1 =>
    rw [h] at hm
    cases res with
    | ok a => exact hf a c1 h
    | error e => exact hm

theorem processTransition_ne (k : TaskKey) (idx : Nat) (ec : EvalCtx) (acc : TransAcc) (e : Edge) (c : Cond)
    (hj : NE c) (hid : IdAt c idx k.1) (hmem : e ∈ c.graph.nextTransitions k.1) :
    NE (processTransition E k idx ec acc e c).2 := by
  unfold processTransition
  cases transCriteria E e ec with
  | none =>
    dsimp only
    exact NE.uniform (by nw_walk [failOnError_nw]) (by ext_walk [failOnError_ext]) (by g_walk [failOnError_g]) c hj
  | some b =>
    dsimp only
    rw [M.bind_run]
    simp only [M.modifySt, M.modify]
    have hj1 : NE ({ c with st := c.st.updateRec idx fun r => { r with next := setAssoc r.next (e.dst, e.key) b } } : Cond) := by
      constructor
      intro r' hr' m hm
      obtain ⟨i, hi⟩ := List.getElem?_of_mem hr'
      have hi' : (c.st.sequence.modify idx fun r => { r with next := setAssoc r.next (e.dst, e.key) b })[i]? = some r' := hi
      by_cases hidx : i = idx
      · subst hidx
        rw [getElem?_modify_same] at hi'
        cases hq : c.st.sequence[i]? with
        | none => rw [hq] at hi'; cases hi'
        | some q =>
          rw [hq] at hi'
          simp only [Option.map_some, Option.some.injEq] at hi'
          subst hi'
          show EdgeOf c q.id m.1
          have hm' : m ∈ setAssoc q.next (e.dst, e.key) b := hm
          rcases mem_setAssoc_eq _ _ _ _ hm' with h | h
          · exact hj.recs q (List.mem_of_getElem? hq) m h
          · rw [h, hid q hq]
            obtain ⟨he1, he2⟩ := (C14_next_transitions_exact c.graph k.1 e).mp hmem
            exact ⟨e, he1, eq_of_beq he2, rfl, rfl⟩
      · rw [getElem?_modify_ne _ _ _ _ hidx] at hi'
        exact hj.recs r' (List.mem_of_getElem? hi') m hm
    split
    · exact hj1
    · exact NE.uniform (fireTransition_nw E k idx ec acc e) (fireTransition_ext E k idx ec acc e)
        (fireTransition_g E k idx ec acc e) _ hj1

theorem evalTransitions_ne (k : TaskKey) (idx : Nat) (ts : TaskSpec) (ev : Event) (c : Cond)
    (hj : NE c) (hid : IdAt c idx k.1) (hex : (c.st.sequence[idx]?).isSome) :
    NE (evalTransitions E k idx ts ev c).2 := by
  unfold evalTransitions
  have he1 := (makeTaskContext_ext k idx (taskResult ts ev)).run c
  have hg1 := (makeTaskContext_g k idx (taskResult ts ev)).run c
  apply ne_bind
  · exact NE.uniform (makeTaskContext_nw _ _ _) (makeTaskContext_ext _ _ _) (makeTaskContext_g _ _ _) c hj
  intro ec c1 h1
  have hj1 : NE c1 := by
    have := NE.uniform (makeTaskContext_nw k idx (taskResult ts ev)) (makeTaskContext_ext _ _ _) (makeTaskContext_g _ _ _) c hj
    rw [h1] at this
    exact this
  rw [h1] at he1 hg1
  obtain ⟨q, hq⟩ := Option.isSome_iff_exists.mp hex
  have hid1 : IdAt c1 idx k.1 := hid.ext he1 hq
  obtain ⟨q1, hq1, _⟩ := Ext.getElem_core he1 hq
  rw [M.bind_run]
  simp only [M.get]
  have hm2w : Rel nwPre (if (c1.graph.nextTransitions k.1).isEmpty then
      M.modifySt fun st => st.updateRec idx fun r => { r with term := true } else pure () : M Unit) := by
    nw_walk []
  have hm2e : Rel extPre (if (c1.graph.nextTransitions k.1).isEmpty then
      M.modifySt fun st => st.updateRec idx fun r => { r with term := true } else pure () : M Unit) := by
    ext_walk []
  have hm2g : Rel gPre (if (c1.graph.nextTransitions k.1).isEmpty then
      M.modifySt fun st => st.updateRec idx fun r => { r with term := true } else pure () : M Unit) := by
    g_walk []
  apply ne_bind
  · exact NE.uniform hm2w hm2e hm2g c1 hj1
  intro u c2 h2
  have hj2 : NE c2 := by
    have := NE.uniform hm2w hm2e hm2g c1 hj1
    rw [h2] at this
    exact this
  have he2 := hm2e.ext_ok h2
  have hg2 : c2.graph = c1.graph := by
    have := hm2g.run c1
    rw [h2] at this
    exact this.2
  have hid2 : IdAt c2 idx k.1 := hid1.ext he2 hq1
  obtain ⟨q2, hq2, _⟩ := Ext.getElem_core he2 hq1
  -- the loop: the graph and the identity of record `idx` are kept by every iteration
  have hall : ∀ (ts' : List Edge) (acc : TransAcc) (s : Cond), (∀ e ∈ ts', e ∈ c1.graph.nextTransitions k.1) →
      NE s → IdAt s idx k.1 → (s.st.sequence[idx]?).isSome → s.graph = c1.graph →
      NE (M.foldM' ts' acc (processTransition E k idx ec) s).2 := by
    intro ts'
    induction ts' with
    | nil => intro acc s _ hs _ _ _; exact hs
    | cons e rest ih =>
      intro acc s hsub hs hids hexs hgs
      show NE (M.bind' (processTransition E k idx ec acc e) (fun b' => M.foldM' rest b' (processTransition E k idx ec)) s).2
      unfold M.bind'
      have h1' := processTransition_ne E k idx ec acc e s hs hids (by rw [hgs]; exact hsub e List.mem_cons_self)
      have hext := (processTransition_ext E k idx ec acc e).run s
      have hgg := (processTransition_g E k idx ec acc e).run s
      cases hr : processTransition E k idx ec acc e s with
      | mk res s1 =>
        rw [hr] at h1' hext hgg
        cases res with
        | error err => exact h1'
        | ok acc' =>
          obtain ⟨qs, hqs⟩ := Option.isSome_iff_exists.mp hexs
          obtain ⟨qs1, hqs1, _⟩ := Ext.getElem_core hext hqs
          exact ih acc' s1 (fun x hx => hsub x (List.mem_cons_of_mem _ hx)) h1' (hids.ext hext hqs)
            (by rw [hqs1]; rfl) (hgg.2.trans hgs)
  apply ne_bind
  · exact hall _ _ c2 (fun _ hx => hx) hj2 hid2 (by rw [hq2]; rfl) hg2
  intro acc c3 h3
  have hj3 := hall (c1.graph.nextTransitions k.1) ({} : TransAcc) c2 (fun _ hx => hx) hj2 hid2 (by rw [hq2]; rfl) hg2
  rw [h3] at hj3
  exact NE.uniform (by nw_walk []) (by ext_walk []) (by g_walk []) c3 hj3

/-- the record the first half of `update_task_state` settles on is a record of the reported task -/
theorem updateHead_idAt (k : TaskKey) (ev : Event) (c c4 : Cond) (h : Stepped) (hk : TK c)
    (hrun : updateHead E k ev c = (.ok h, c4)) : ∃ r, c4.st.sequence[h.idx]? = some r ∧ r.id = k.1 := by
  unfold updateHead at hrun
  rw [M.bind_run] at hrun
  simp only [M.get] at hrun
  split at hrun
  · cases hrun
  obtain ⟨ts, c2, hl, h2⟩ := M.bind_ok hrun
  obtain ⟨_, e3⟩ := liftOpt_ok hl
  subst e3
  split at h2
  · cases h2
  obtain ⟨idx, c1, h1, h3⟩ := M.bind_ok h2
  obtain ⟨r1, hr1, hid1⟩ := ensureRecord_id E k ev c c1 idx hk h1
  obtain ⟨u, c2, hn, h4⟩ := M.bind_ok h3
  have hsq := (noteEvent_sq k (c.st.getStaged? k) ev).run c1
  rw [hn] at hsq
  obtain ⟨p, c3, hm, h5⟩ := M.bind_ok h4
  have hext := (machineStep_ext k idx ev).ext_ok hm
  obtain ⟨e6, e7⟩ := pure_ok h5
  subst e6 e7
  have hr2 : c2.st.sequence[idx]? = some r1 := by rw [hsq.1]; exact hr1
  obtain ⟨r3, hr3, hc⟩ := Ext.getElem_core hext hr2
  exact ⟨r3, hr3, by rw [Rec.core_id hc]; exact hid1⟩

/-! ### the invariant along `update_task_state` (it needs only the task-key map invariant beside it) -/

structure Inv5 (c : Cond) : Prop where
  tk : TK c
  ne : NE c

structure JI5 {α} (m : M α) : Prop where
  run : ∀ c, Inv5 c → Inv5 (m c).2

theorem JI5.of_rel {α} {m : M α} (h2 : Rel tkPre m) (h3 : Rel gPre m) (h7 : Rel nwPre m) : JI5 m :=
  ⟨fun c hi => ⟨TK.step (h2.run c) hi.tk, NE.step (h7.run c) (h2.run c).ext (h3.run c).2 hi.ne⟩⟩

theorem JI5.pure {α} (a : α) : JI5 (Pure.pure a : M α) := ⟨fun _ hi => hi⟩
theorem JI5.throw {α} (e : Err) : JI5 (M.throw e : M α) := ⟨fun _ hi => hi⟩

theorem JI5.bind {α β} {m : M α} {f : α → M β} (hm : JI5 m) (hf : ∀ a, JI5 (f a)) : JI5 (m >>= f) := by
  constructor
  intro c hi
  have h1 := hm.run c hi
  rw [M.bind_run]
  cases h : m c with
  | mk res c1 =>
    rw [h] at h1
    cases res with
    | ok a => exact (hf a).run c1 h1
    | error e => exact h1

theorem JI5.forEach {α} (xs : List α) {f : α → M Unit} (hf : ∀ x, JI5 (f x)) : JI5 (M.forEach xs f) := by
  induction xs with
  | nil => exact JI5.pure ()
  | cons x xs ih =>
    show JI5 (M.bind' (f x) fun _ => M.forEach xs f)
    exact JI5.bind (hf x) (fun _ => ih)

theorem inv5_bind {α β} (m : M α) (f : α → M β) (c : Cond)
    (hm : Inv5 (m c).2) (hf : ∀ a c1, m c = (.ok a, c1) → Inv5 (f a c1).2) : Inv5 ((m >>= f) c).2 := by
  rw [M.bind_run]
  cases h : m c with
  | mk res c1 =>
    rw [h] at hm
    cases res with
    | ok a => exact hf a c1 h
    | error e => exact hm

theorem updateRest_inv5 (recur : TaskKey → Event → M Unit) (hrec : ∀ nk ev, JI5 (recur nk ev))
    (k : TaskKey) (ev : Event) (h : Stepped) (c : Cond) (hi : Inv5 c)
    (hid : ∃ r, c.st.sequence[h.idx]? = some r ∧ r.id = k.1) :
    Inv5 (updateRest E recur k ev h c).2 := by
  unfold updateRest
  obtain ⟨r0, hr0, hid0⟩ := hid
  have hidat : IdAt c h.idx k.1 := by
    intro r hr
    rw [hr0] at hr
    cases hr
    exact hid0
  have hfirst : ∀ acc c1, (if h.newStatus.isCompleted && h.newStatus != h.oldStatus then evalTransitions E k h.idx h.ts ev
      else pure {} : M TransAcc) c = (acc, c1) → Inv5 c1 := by
    intro acc c1 h1
    split at h1
    · have t := (evalTransitions_tk E k h.idx h.ts ev).run c
      have n := evalTransitions_ne E k h.idx h.ts ev c hi.ne hidat (by rw [hr0]; rfl)
      rw [h1] at t n
      exact ⟨TK.step t hi.tk, n⟩
    · have : c1 = c := by
        simp only [pure, M.pure', Prod.mk.injEq] at h1
        exact h1.2.symm
      subst this
      exact hi
  rw [M.bind_run]
  cases h1 : (if h.newStatus.isCompleted && h.newStatus != h.oldStatus then evalTransitions E k h.idx h.ts ev
      else pure {} : M TransAcc) c with
  | mk res c1 =>
    have hi1 := hfirst res c1 h1
    cases res with
    | error e => exact hi1
    | ok acc =>
      dsimp only
      have hrest : JI5 (do
          let c ← M.get
          let r ← liftOpt c.st.sequence[h.idx]? .indexError
          let st ← liftOpt r.status .keyError
          wfProcessTaskEvent k st
          M.forEach acc.queue fun nk =>
            match Cmd.ofStr? nk.1 with
            | some cmd => recur nk (.engine cmd)
            | none => pure ()
          markTermIfCompleted h.idx : M Unit) := by
        apply JI5.bind (JI5.of_rel Rel.get Rel.get Rel.get)
        intro c2
        apply JI5.bind (JI5.of_rel (Rel.liftOpt _ _) (Rel.liftOpt _ _) (Rel.liftOpt _ _))
        intro r
        apply JI5.bind (JI5.of_rel (Rel.liftOpt _ _) (Rel.liftOpt _ _) (Rel.liftOpt _ _))
        intro st
        apply JI5.bind (JI5.of_rel (wfProcessTaskEvent_tk _ _) (wfProcessTaskEvent_g _ _)
          (Rel.nw_of_nx (wfProcessTaskEvent_nx _ _)))
        intro _
        apply JI5.bind
        · apply JI5.forEach
          intro nk
          split
          · exact hrec nk _
          · exact JI5.pure ()
        · intro _
          exact JI5.of_rel (markTermIfCompleted_tk _) (markTermIfCompleted_g _) (markTermIfCompleted_nw _)
      exact hrest.run c1 hi1

theorem updateTail_inv5 (recur : TaskKey → Event → M Unit) (hrec : ∀ nk ev, JI5 (recur nk ev))
    (k : TaskKey) (ev : Event) (h : Stepped) (c : Cond) (hi : Inv5 c)
    (hid : ∃ r, c.st.sequence[h.idx]? = some r ∧ r.id = k.1) :
    Inv5 (updateTail E recur k ev h c).2 := by
  unfold updateTail
  have hm1t : Rel tkPre (if h.newStatus.isCompleted then completedRetryDecision E k h.idx h.ts h.oldStatus h.newStatus ev
      else pure false : M Bool) := by
    split
    · exact completedRetryDecision_tk E _ _ _ _ _ _
    · exact Rel.pure _
  have hm1g : Rel gPre (if h.newStatus.isCompleted then completedRetryDecision E k h.idx h.ts h.oldStatus h.newStatus ev
      else pure false : M Bool) := by
    split
    · exact completedRetryDecision_g E _ _ _ _ _ _
    · exact Rel.pure _
  have hm1w : Rel nwPre (if h.newStatus.isCompleted then completedRetryDecision E k h.idx h.ts h.oldStatus h.newStatus ev
      else pure false : M Bool) := by
    split
    · exact completedRetryDecision_nw E _ _ _ _ _ _
    · exact Rel.pure _
  apply inv5_bind
  · exact (JI5.of_rel hm1t hm1g hm1w).run c hi
  intro retry c5 h5
  have hi5 : Inv5 c5 := by
    have := (JI5.of_rel hm1t hm1g hm1w).run c hi
    rw [h5] at this
    exact this
  have hext : c.st.Ext c5.st := by
    have := (hm1t.run c).ext
    rw [h5] at this
    exact this
  obtain ⟨r0, hr0, hid0⟩ := hid
  obtain ⟨r5, hr5, hc⟩ := Ext.getElem_core hext hr0
  cases retry with
  | false => exact updateRest_inv5 E recur hrec k ev h c5 hi5 ⟨r5, hr5, by rw [Rec.core_id hc]; exact hid0⟩
  | true => exact (hrec k _).run c5 hi5

theorem updateTaskStateAux_ji5 (fuel : Nat) (k : TaskKey) (ev : Event) : JI5 (updateTaskStateAux E fuel k ev) := by
  induction fuel generalizing k ev with
  | zero => unfold updateTaskStateAux; exact JI5.throw _
  | succ n ih =>
    constructor
    intro c hi
    unfold updateTaskStateAux
    apply inv5_bind
    · exact (JI5.of_rel (updateHead_tk E k ev) (updateHead_g E k ev) (updateHead_nw E k ev)).run c hi
    intro h c4 h4
    have hi4 : Inv5 c4 := by
      have := (JI5.of_rel (updateHead_tk E k ev) (updateHead_g E k ev) (updateHead_nw E k ev)).run c hi
      rw [h4] at this
      exact this
    exact updateTail_inv5 E _ (fun nk ev' => ih nk ev') k ev h c4 hi4 (updateHead_idAt E k ev c c4 h hi.tk h4)

theorem requestRerun_ji5 (reqs : List RerunReq) : JI5 (requestRerun E reqs) :=
  JI5.of_rel (requestRerun_tk E reqs) (requestRerun_g E reqs) (requestRerun_nw E reqs)

end Orq
