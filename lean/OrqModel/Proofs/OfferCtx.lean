/-
C06, the first link: the context an offered task is rendered with is the overlay, in list order,
of exactly the context snapshots its staged entry lists (the entry `get_task` looks up for the
offered key), evaluated on the state the query was asked in.
-/
import OrqModel.Proofs.NextIdem
import OrqModel.Properties.Next

namespace Orq

variable (E : Evaluator)

theorem liftExcept_ok {α} {x : Except Err α} {c c' : Cond} {a : α} (h : M.liftExcept x c = (.ok a, c')) :
    x = .ok a ∧ c = c' := by
  cases x with
  | ok b =>
    simp only [M.liftExcept, pure, M.pure', Prod.mk.injEq, Except.ok.injEq] at h
    exact ⟨by rw [h.1], h.2⟩
  | error e =>
    simp only [M.liftExcept, M.throw, Prod.mk.injEq] at h
    cases h.1

theorem tryCatch_ok {α} {m : M α} {h : Err → M α} {c c' : Cond} {a : α} (hrun : M.tryCatch m h c = (.ok a, c')) :
    m c = (.ok a, c') ∨ ∃ e c1, m c = (.error e, c1) ∧ h e c1 = (.ok a, c') := by
  unfold M.tryCatch at hrun
  cases hm : m c with
  | mk r c1 =>
    rw [hm] at hrun
    cases r with
    | ok b =>
      left
      simp only [Prod.mk.injEq, Except.ok.injEq] at hrun
      rw [hrun.1, hrun.2]
    | error e => right; exact ⟨e, c1, rfl, hrun⟩

theorem renderTask_ctx (ev : Expr → EvalCtx → Option Val) (ts : TaskSpec) (vars : Val.Dict) (k : TaskKey)
    (o : Offer) (h : renderTask ev ts vars k = .ok o) : o.ctx = vars := by
  unfold renderTask at h
  simp only [bind, Except.bind, pure, Except.pure] at h
  repeat' split at h
  all_goals (cases h <;> (try rfl))

theorem windowOf_ctx (o o' : Offer) (items : List Status) (h : windowOf o items = .ok o') : o'.ctx = o.ctx := by
  unfold windowOf at h
  repeat' split at h
  all_goals (cases h <;> (try rfl))

theorem withRetryDelay_ctx (sx : Staged) (o : Offer) :
    (withRetryDelay sx o).ctx = o.ctx ∧ (withRetryDelay sx o).id = o.id ∧ (withRetryDelay sx o).route = o.route := by
  unfold withRetryDelay
  split <;> exact ⟨rfl, rfl, rfl⟩

/-- what `get_task` renders with -/
theorem getTask_ctx (k : TaskKey) (c c' : Cond) (o : Offer) (h : getTask E k c = (.ok o, c')) :
    c' = c ∧ c.st.taskContext (taskCtxIdxs c.st k) = .ok o.ctx ∧ o.id = k.1 ∧ o.route = k.2 := by
  unfold getTask at h
  obtain ⟨c0, c1, hget, h1⟩ := M.bind_ok h
  obtain ⟨e1, e2⟩ := get_ok hget
  subst e1 e2
  obtain ⟨vars, c2, hv, h2⟩ := M.bind_ok h1
  obtain ⟨hv', e⟩ := liftExcept_ok hv
  subst e
  obtain ⟨ts, c3, ht, h3⟩ := M.bind_ok h2
  obtain ⟨_, e⟩ := liftOpt_ok ht
  subst e
  obtain ⟨hr, e⟩ := liftExcept_ok h3
  subst e
  have hc := renderTask_ctx _ ts vars k o hr
  have hk := renderTask_key _ ts vars k o hr
  exact ⟨rfl, by rw [hv', hc], hk.1, hk.2⟩

theorem evaluateTaskActions_ctx (o o' : Offer) (c c' : Cond) (h : evaluateTaskActions o c = (.ok o', c')) :
    o'.ctx = o.ctx ∧ o'.id = o.id ∧ o'.route = o.route := by
  unfold evaluateTaskActions at h
  cases hic : o.itemsCount with
  | none =>
    simp only [hic] at h
    obtain ⟨e, _⟩ := pure_ok h
    subst e
    exact ⟨rfl, rfl, rfl⟩
  | some n =>
    simp only [hic] at h
    obtain ⟨c0, c1, hget, h1⟩ := M.bind_ok h
    obtain ⟨e1, e2⟩ := get_ok hget
    subst e1 e2
    cases hg : c.st.getStaged? (o.id, o.route) with
    | none =>
      simp only [hg] at h1
      cases h1
    | some sx =>
      simp only [hg] at h1
      obtain ⟨u, c2, _, h2⟩ := M.bind_ok h1
      obtain ⟨hw, _⟩ := liftExcept_ok h2
      have := windowOf_key o o' _ hw
      exact ⟨windowOf_ctx o o' _ hw, this.1, this.2⟩

/-- the offer of one staged entry is rendered from the snapshots `get_task` finds for its key -/
theorem nextTaskFor_ctx (sx : Staged) (c c' : Cond) (o : Offer) (f : Bool)
    (h : nextTaskFor E sx c = (.ok (some o, f), c')) :
    c.st.taskContext (taskCtxIdxs c.st (sx.id, sx.route)) = .ok o.ctx ∧ o.id = sx.id ∧ o.route = sx.route := by
  unfold nextTaskFor at h
  rcases tryCatch_ok h with hb | ⟨e, c1, _, hh⟩
  · obtain ⟨o1, c1, hg, h1⟩ := M.bind_ok hb
    obtain ⟨e1, hctx, hid, hroute⟩ := getTask_ctx E _ c c1 o1 hg
    subst e1
    obtain ⟨o2, c2, he, h2⟩ := M.bind_ok h1
    obtain ⟨hc2, hid2, hr2⟩ := evaluateTaskActions_ctx o1 o2 _ c2 he
    have hw := withRetryDelay_ctx sx o2
    have ho : o = withRetryDelay sx o2 := by
      dsimp only at h2
      split at h2
      · obtain ⟨e, _⟩ := pure_ok h2
        cases e
        rfl
      · split at h2
        · obtain ⟨e, _⟩ := pure_ok h2
          cases e
          rfl
        · obtain ⟨e, _⟩ := pure_ok h2
          cases e
    subst ho
    refine ⟨?_, ?_, ?_⟩
    · rw [hw.1, hc2]; exact hctx
    · rw [hw.2.1, hid2]; exact hid
    · rw [hw.2.2, hr2]; exact hroute
  · obtain ⟨u, c2, _, h2⟩ := M.bind_ok hh
    obtain ⟨e, _⟩ := pure_ok h2
    cases e

/-- the offer `o` is rendered, in state `c`, from the snapshots listed for its key -/
def CtxSpec (c : Cond) (o : Offer) : Prop :=
  c.st.taskContext (taskCtxIdxs c.st (o.id, o.route)) = .ok o.ctx

theorem qPre_same {c c' : Cond} (h : qPre.R c c') : SameButItems c.st c'.st :=
  ⟨h.2.2.2.1, h.2.2.2.2.1, h.2.2.2.2.2.1, h.2.2.2.2.2.2.1, h.2.2.2.2.2.2.2.1, h.2.2.2.2.2.2.2.2.1, h.2.2.2.2.2.2.2.2.2⟩

theorem CtxSpec.back {c0 c : Cond} (h : qPre.R c0 c) {o : Offer} (hs : CtxSpec c o) : CtxSpec c0 o := by
  unfold CtxSpec at hs ⊢
  have hsame := qPre_same h
  rw [taskCtxIdxs_congr hsame, taskContext_congr hsame] at hs
  exact hs

theorem nextLoop_ctx (c0 : Cond) : ∀ (todo : List Staged) (acc : List Offer × Bool) (c : Cond) (r : List Offer × Bool) (c' : Cond),
    M.foldM' todo acc (fun acc sx => do
      let (o, f) ← nextTaskFor E sx
      pure (match o with | some o => acc.1 ++ [o] | none => acc.1, acc.2 || f)) c = (.ok r, c') →
    qPre.R c0 c → (∀ o ∈ acc.1, CtxSpec c0 o) → ∀ o ∈ r.1, CtxSpec c0 o := by
  intro todo
  induction todo with
  | nil =>
    intro acc c r c' h _ hacc
    have : (pure acc : M (List Offer × Bool)) c = (.ok r, c') := h
    obtain ⟨e, _⟩ := pure_ok this
    subst e
    exact hacc
  | cons sx rest ih =>
    intro acc c r c' h hq hacc
    have h' : (M.bind' (do
        let (o, f) ← nextTaskFor E sx
        pure (match o with | some o => acc.1 ++ [o] | none => acc.1, acc.2 || f))
      (fun b' => M.foldM' rest b' (fun acc sx => do
        let (o, f) ← nextTaskFor E sx
        pure (match o with | some o => acc.1 ++ [o] | none => acc.1, acc.2 || f)))) c = (.ok r, c') := h
    obtain ⟨acc', c1, hstep, hrest⟩ := M.bind_ok (m := (do
        let (o, f) ← nextTaskFor E sx
        pure (match o with | some o => acc.1 ++ [o] | none => acc.1, acc.2 || f) : M (List Offer × Bool))) h'
    obtain ⟨res, c2, hn, hp⟩ := M.bind_ok hstep
    have hq1 : qPre.R c c2 := by
      have := (nextTaskFor_q E sx).run c
      rw [hn] at this
      exact this
    obtain ⟨oo, f⟩ := res
    dsimp only at hp
    obtain ⟨e, e2⟩ := pure_ok hp
    subst e e2
    apply ih _ c2 r c' hrest (qPre.trans hq hq1)
    intro o ho
    cases oo with
    | none => exact hacc o ho
    | some o1 =>
      dsimp only at ho
      rcases List.mem_append.mp ho with ho | ho
      · exact hacc o ho
      · simp only [List.mem_singleton] at ho
        subst ho
        have hsp := nextTaskFor_ctx E sx c c2 o f hn
        have : CtxSpec c o := by
          unfold CtxSpec
          rw [hsp.2.1, hsp.2.2]
          exact hsp.1
        exact this.back hq

theorem nextFrom_ctx (todo : List Staged) (c c' : Cond) (offers : List Offer)
    (h : nextFrom E todo c = (.ok offers, c')) : ∀ o ∈ offers, CtxSpec c o := by
  unfold nextFrom at h
  obtain ⟨r, c1, hloop, h1⟩ := M.bind_ok h
  obtain ⟨offs, failed⟩ := r
  dsimp only at h1
  have hall := nextLoop_ctx E c todo ([], false) c (offs, failed) c1 hloop (qPre.refl c)
    (fun o ho => by cases ho)
  split at h1
  · obtain ⟨u, c2, _, h2⟩ := M.bind_ok h1
    obtain ⟨e, _⟩ := pure_ok h2
    subst e
    intro o ho
    cases ho
  · obtain ⟨e, _⟩ := pure_ok h1
    subst e
    intro o ho
    exact hall o ((mem_sortOffers offs o).mp ho)

/-! ### the delay a re-offered task carries -/

/-- the delay `get_next_tasks` attaches to the offer of a re-staged (retried) entry -/
def retryDelayOf (r : RetryState) : Val :=
  match r.delay with
  | .val v => if v.truthy then v else .int 0
  | .expr _ => .str "<expr>"
  | .none_ => .int 0

theorem withRetryDelay_delay (sx : Staged) (o : Offer) (r : RetryState) (h : sx.retry = some r) :
    (withRetryDelay sx o).delay = some (retryDelayOf r) := by
  unfold withRetryDelay
  rw [h]
  dsimp only
  unfold retryDelayOf
  cases hd : r.delay <;> rfl

theorem nextTaskFor_delay (sx : Staged) (c c' : Cond) (o : Offer) (f : Bool)
    (h : nextTaskFor E sx c = (.ok (some o, f), c')) (r : RetryState) (hr : sx.retry = some r) :
    o.delay = some (retryDelayOf r) := by
  unfold nextTaskFor at h
  rcases tryCatch_ok h with hb | ⟨e, c1, _, hh⟩
  · obtain ⟨o1, c1, _, h1⟩ := M.bind_ok hb
    obtain ⟨o2, c2, _, h2⟩ := M.bind_ok h1
    have ho : o = withRetryDelay sx o2 := by
      dsimp only at h2
      split at h2
      · obtain ⟨e, _⟩ := pure_ok h2
        cases e
        rfl
      · split at h2
        · obtain ⟨e, _⟩ := pure_ok h2
          cases e
          rfl
        · obtain ⟨e, _⟩ := pure_ok h2
          cases e
    rw [ho]
    exact withRetryDelay_delay sx o2 r hr
  · obtain ⟨u, c2, _, h2⟩ := M.bind_ok hh
    obtain ⟨e, _⟩ := pure_ok h2
    cases e

/-- the offer came from the entry `sx` of the list the query iterates over, with its retry delay -/
def DelaySpec (todo : List Staged) (o : Offer) : Prop :=
  ∃ sx ∈ todo, sx.id = o.id ∧ sx.route = o.route ∧ ∀ r, sx.retry = some r → o.delay = some (retryDelayOf r)

theorem nextLoop_delay (all : List Staged) : ∀ (todo : List Staged) (acc : List Offer × Bool) (c : Cond)
    (r : List Offer × Bool) (c' : Cond),
    M.foldM' todo acc (fun acc sx => do
      let (o, f) ← nextTaskFor E sx
      pure (match o with | some o => acc.1 ++ [o] | none => acc.1, acc.2 || f)) c = (.ok r, c') →
    (∀ sx ∈ todo, sx ∈ all) → (∀ o ∈ acc.1, DelaySpec all o) → ∀ o ∈ r.1, DelaySpec all o := by
  intro todo
  induction todo with
  | nil =>
    intro acc c r c' h _ hacc
    have : (pure acc : M (List Offer × Bool)) c = (.ok r, c') := h
    obtain ⟨e, _⟩ := pure_ok this
    subst e
    exact hacc
  | cons sx rest ih =>
    intro acc c r c' h hsub hacc
    have h' : (M.bind' (do
        let (o, f) ← nextTaskFor E sx
        pure (match o with | some o => acc.1 ++ [o] | none => acc.1, acc.2 || f))
      (fun b' => M.foldM' rest b' (fun acc sx => do
        let (o, f) ← nextTaskFor E sx
        pure (match o with | some o => acc.1 ++ [o] | none => acc.1, acc.2 || f)))) c = (.ok r, c') := h
    obtain ⟨acc', c1, hstep, hrest⟩ := M.bind_ok (m := (do
        let (o, f) ← nextTaskFor E sx
        pure (match o with | some o => acc.1 ++ [o] | none => acc.1, acc.2 || f) : M (List Offer × Bool))) h'
    obtain ⟨res, c2, hn, hp⟩ := M.bind_ok hstep
    obtain ⟨oo, f⟩ := res
    dsimp only at hp
    obtain ⟨e, e2⟩ := pure_ok hp
    subst e e2
    apply ih _ c2 r c' hrest (fun x hx => hsub x (List.mem_cons_of_mem _ hx))
    intro o ho
    cases oo with
    | none => exact hacc o ho
    | some o1 =>
      dsimp only at ho
      rcases List.mem_append.mp ho with ho | ho
      · exact hacc o ho
      · simp only [List.mem_singleton] at ho
        subst ho
        have hk := nextTaskFor_ctx E sx c c2 o f hn
        exact ⟨sx, hsub sx List.mem_cons_self, hk.2.1.symm, hk.2.2.symm,
          fun r hr => nextTaskFor_delay E sx c c2 o f hn r hr⟩

theorem nextFrom_delay (todo : List Staged) (c c' : Cond) (offers : List Offer)
    (h : nextFrom E todo c = (.ok offers, c')) : ∀ o ∈ offers, DelaySpec todo o := by
  unfold nextFrom at h
  obtain ⟨r, c1, hloop, h1⟩ := M.bind_ok h
  obtain ⟨offs, failed⟩ := r
  dsimp only at h1
  have hall := nextLoop_delay E todo todo ([], false) c (offs, failed) c1 hloop (fun _ hx => hx)
    (fun o ho => by cases ho)
  split at h1
  · obtain ⟨u, c2, _, h2⟩ := M.bind_ok h1
    obtain ⟨e, _⟩ := pure_ok h2
    subst e
    intro o ho
    cases ho
  · obtain ⟨e, _⟩ := pure_ok h1
    subst e
    intro o ho
    exact hall o ((mem_sortOffers offs o).mp ho)

end Orq
