/-
The task-key → record map points at records of that task: `tasks[(t, r)] = i` implies that record
`i` exists and is a record of task `t`.  An invariant of every history; used by C01 (the
re-staged entry of a retry and of a rerun inherits the predecessors of a record of the same task).
-/
import OrqModel.Proofs.ExtendsOps
import OrqModel.Proofs.RetryBound

namespace Orq

variable (E : Evaluator)

theorem Ext.getElem_core {a b : WState} (h : a.Ext b) {i : Nat} {r : Rec} (hr : a.sequence[i]? = some r) :
    ∃ r', b.sequence[i]? = some r' ∧ r'.core = r.core := by
  obtain ⟨_, _, ⟨l, hl⟩, _⟩ := h
  have h1 : (a.sequence.map Rec.core)[i]? = some r.core := by simp [hr]
  have h2 : (b.sequence.map Rec.core)[i]? = some r.core := by
    rw [hl]
    have hi : i < (a.sequence.map Rec.core).length := (List.getElem?_eq_some_iff.mp h1).1
    rw [List.getElem?_append_left hi]
    exact h1
  simp only [List.getElem?_map, Option.map_eq_some_iff] at h2
  obtain ⟨r', hr', hc⟩ := h2
  exact ⟨r', hr', hc⟩

theorem Rec.core_id {r r' : Rec} (h : r'.core = r.core) : r'.id = r.id := by
  unfold Rec.core at h
  exact (Prod.mk.inj h).1

theorem Rec.core_prev {r r' : Rec} (h : r'.core = r.core) : r'.prev = r.prev := by
  unfold Rec.core at h
  exact (Prod.mk.inj (Prod.mk.inj (Prod.mk.inj h).2).2).2

/-- the record a map entry points at belongs to the entry's task -/
def PointsOk (st : WState) (p : TaskKey × Nat) : Prop := ∃ r, st.sequence[p.2]? = some r ∧ r.id = p.1.1

def TK (c : Cond) : Prop := ∀ p ∈ c.st.tasks, PointsOk c.st p

theorem PointsOk.ext {a b : WState} (h : a.Ext b) {p : TaskKey × Nat} (hp : PointsOk a p) : PointsOk b p := by
  obtain ⟨r, hr, hid⟩ := hp
  obtain ⟨r', hr', hc⟩ := Ext.getElem_core h hr
  exact ⟨r', hr', (Rec.core_id hc).trans hid⟩

structure TKStep (c c' : Cond) : Prop where
  ext : c.st.Ext c'.st
  tasks : ∀ p ∈ c'.st.tasks, p ∈ c.st.tasks ∨ PointsOk c'.st p

def tkPre : Pre where
  R := TKStep
  refl c := ⟨WState.Ext.refl _, fun p hp => Or.inl hp⟩
  trans := by
    intro a b c h1 h2
    refine ⟨WState.Ext.trans h1.ext h2.ext, ?_⟩
    intro p hp
    rcases h2.tasks p hp with h | h
    · rcases h1.tasks p h with h' | h'
      · exact Or.inl h'
      · exact Or.inr (h'.ext h2.ext)
    · exact Or.inr h

theorem TK.step {c c' : Cond} (h : TKStep c c') (ht : TK c) : TK c' := by
  intro p hp
  rcases h.tasks p hp with h' | h'
  · exact (ht p h').ext h.ext
  · exact h'

theorem TK.taskIdx {c : Cond} (ht : TK c) {k : TaskKey} {i : Nat} (h : c.st.taskIdx? k = some i) :
    ∃ r, c.st.sequence[i]? = some r ∧ r.id = k.1 := by
  unfold WState.taskIdx? at h
  split at h
  · rename_i p hp
    cases h
    have hm := List.mem_of_find?_eq_some hp
    have hk := List.find?_some hp
    have hk' : p.1 = k := by simpa using hk
    obtain ⟨r, hr, hid⟩ := ht p hm
    exact ⟨r, hr, by rw [hid, hk']⟩
  · cases h

/-! ### the walk -/

theorem Rel.tk_of {α} {m : M α} (h1 : Rel extPre m) (h2 : ∀ c, (m c).2.st.tasks = c.st.tasks) : Rel tkPre m :=
  ⟨fun c => ⟨h1.run c, fun p hp => Or.inl (by rw [h2] at hp; exact hp)⟩⟩

theorem Rel.modifySt_tk {f : WState → WState} (h1 : ∀ st : WState, st.Ext (f st))
    (h2 : ∀ st : WState, (f st).tasks = st.tasks) : Rel tkPre (M.modifySt f) :=
  Rel.tk_of (Rel.modifySt_ext h1) (fun c => h2 c.st)

theorem logEntry_tk (e) : Rel tkPre (logEntry e) := by
  apply Rel.tk_of (logEntry_ext e)
  intro c
  unfold logEntry M.modify
  dsimp only
  split <;> rfl

theorem logError_tk (k a b c) : Rel tkPre (logError k a b c) := logEntry_tk _

theorem wfProcessWorkflowEvent_tk (req) : Rel tkPre (wfProcessWorkflowEvent req) :=
  Rel.tk_of (wfProcessWorkflowEvent_ext req) (fun c => ((wfProcessWorkflowEvent_rk req).run c).2)

theorem tkProcessWorkflowEvent_tk (i req) : Rel tkPre (tkProcessWorkflowEvent i req) :=
  Rel.tk_of (tkProcessWorkflowEvent_ext i req) (fun c => ((tkProcessWorkflowEvent_rk i req).run c).2)

theorem tkProcessEvent_tk (i ev) : Rel tkPre (tkProcessEvent i ev) :=
  Rel.tk_of (tkProcessEvent_ext i ev) (fun c => ((tkProcessEvent_rk i ev).run c).2)

theorem wfProcessTaskEvent_tk (k ev) : Rel tkPre (wfProcessTaskEvent k ev) := by
  apply Rel.tk_of (wfProcessTaskEvent_ext k ev)
  intro c
  unfold wfProcessTaskEvent
  dsimp only
  split
  · rfl
  · split
    · split
      · rfl
      · rw [forEach_logError_st]
    · rfl

macro "tk_leaf" : tactic => `(tactic| (
  apply Rel.modifySt_tk
  · intro st
    first
    | exact Ext.appendRoute _ _
    | exact Ext.appendCtx _ _ _ _ _ (fun _ => rfl)
    | exact Ext.appendRerun _ _
    | exact Ext.setStatus _ _
    | exact Ext.of_eq (by simp) (by simp) (by ext_core) (by first | rfl | (simp; done))
  · intro st
    first | rfl | (simp; done)))

syntax "tk_walk" "[" term,* "]" : tactic
macro_rules
  | `(tactic| tk_walk [$ts,*]) => do
    let alts ← ts.getElems.mapM fun t => `(tactic| exact $t)
    `(tactic| repeat' (first
      | exact Rel.pure _ | exact Rel.pure' _ | exact Rel.throw _ | exact Rel.get
      | exact Rel.liftOpt _ _ | exact Rel.liftExcept _
      | exact wfProcessWorkflowEvent_tk _ | exact wfProcessTaskEvent_tk _ _
      | exact tkProcessWorkflowEvent_tk _ _ | exact tkProcessEvent_tk _ _
      | exact logError_tk _ _ _ _ | exact logEntry_tk _
      $[| $alts:tactic]*
      | tk_leaf
      | (refine Rel.tk_of (Rel.modify_ext ?_) ?_ <;> (intro c; rfl))
      | apply Rel.bind | apply Rel.bind' | apply Rel.tryCatch | apply Rel.forEach | apply Rel.foldM' | apply Rel.mapM'
      | intro _ | split | dsimp only ))

theorem requestStatus_tk (req) : Rel tkPre (requestStatus req) := by
  unfold requestStatus
  tk_walk []

theorem failOnError_tk : Rel tkPre failOnError := by
  unfold failOnError
  tk_walk [requestStatus_tk _]

theorem getTask_tk (k) : Rel tkPre (getTask E k) := by
  unfold getTask
  tk_walk []

theorem evaluateTaskActions_tk (o) : Rel tkPre (evaluateTaskActions o) := by
  unfold evaluateTaskActions
  tk_walk []

theorem nextTaskFor_tk (sx) : Rel tkPre (nextTaskFor E sx) := by
  unfold nextTaskFor
  tk_walk [getTask_tk E _, evaluateTaskActions_tk _]

theorem nextFrom_tk (todo) : Rel tkPre (nextFrom E todo) := by
  unfold nextFrom
  tk_walk [nextTaskFor_tk E _, failOnError_tk]

theorem getNextTasks_tk : Rel tkPre (getNextTasks E) :=
  ⟨fun c => (nextFrom_tk E (nextTodo c.st)).run c⟩

theorem newRecord_id (c : Cond) (k : TaskKey) (a : List Nat) (b : List (TransId × Nat)) :
    (newRecord E c k a b).1.id = k.1 := by
  unfold newRecord
  dsimp only
  split <;> rfl

theorem mem_setTask (s : WState) (k : TaskKey) (n : Nat) (p : TaskKey × Nat) (h : p ∈ (s.setTask k n).tasks) :
    p ∈ s.tasks ∨ p = (k, n) := by
  unfold WState.setTask at h
  split at h
  · obtain ⟨q, hq, e⟩ := List.mem_map.mp h
    split at e
    · rename_i hk
      right
      have : q.1 = k := by simpa using hk
      rw [← e, this]
    · left; rw [← e]; exact hq
  · rcases List.mem_append.mp h with h | h
    · left; exact h
    · right; simpa using h

/-- appending a record of task `k.1` and pointing `k` at it -/
theorem TKStep.append (c : Cond) (r0 : Rec) (k : TaskKey) (h0 : r0.id = k.1) :
    TKStep c { c with st := ({ c.st with sequence := c.st.sequence ++ [r0] } : WState).setTask k c.st.sequence.length } := by
  refine ⟨Ext.appendRec _ _ _ _, ?_⟩
  intro p hp
  rcases mem_setTask _ _ _ _ hp with h | h
  · left; exact h
  · right
    subst h
    refine ⟨r0, ?_, h0⟩
    show (WState.setTask _ _ _).sequence[c.st.sequence.length]? = some r0
    rw [WState.setTask_sequence]
    simp

theorem pre_bind {P : Pre} {α β} (m : M α) (f : α → M β) (c : Cond) (hm : P.R c (m c).2)
    (hf : ∀ a c1, m c = (.ok a, c1) → P.R c1 (f a c1).2) : P.R c ((m >>= f) c).2 := by
  rw [M.bind_run]
  cases h : m c with
  | mk res c1 =>
    rw [h] at hm
    cases res with
    | ok a => exact P.trans hm (hf a c1 h)
    | error e => exact hm

theorem addTaskState_tk (k a b) : Rel tkPre (addTaskState E k a b) := by
  constructor
  intro c
  unfold addTaskState
  rw [M.bind_run]
  simp only [M.get]
  split
  · exact tkPre.refl c
  · have hhead : Rel tkPre (match (newRecord E c k a b).2 with
        | none => pure ()
        | some e => do
          logError e.className (some k.1) (some k.2)
          failOnError : M Unit) := by
      tk_walk [failOnError_tk]
    apply pre_bind (P := tkPre)
    · exact hhead.run c
    intro u c2 _
    rw [M.bind_run]
    simp only [M.get]
    rw [M.bind_run]
    simp only [M.modifySt, M.modify, pure, M.pure']
    exact TKStep.append c2 _ k (newRecord_id E c k a b)

theorem evaluateRoute_tk (e r) : Rel tkPre (evaluateRoute e r) := by
  unfold evaluateRoute
  tk_walk []

theorem stageNext_tk (k idx e o acc) : Rel tkPre (stageNext k idx e o acc) := by
  unfold stageNext stageTarget
  tk_walk [evaluateRoute_tk _ _]

theorem fireTransition_tk (k idx ec acc e) : Rel tkPre (fireTransition E k idx ec acc e) := by
  unfold fireTransition
  tk_walk [failOnError_tk, stageNext_tk _ _ _ _ _]

theorem processTransition_tk (k idx ec acc e) : Rel tkPre (processTransition E k idx ec acc e) := by
  unfold processTransition
  tk_walk [failOnError_tk, fireTransition_tk E _ _ _ _ _]

theorem makeTaskContext_tk (k idx r) : Rel tkPre (makeTaskContext k idx r) := by
  unfold makeTaskContext
  tk_walk []

theorem ensureRecord_tk (k s r ev) : Rel tkPre (ensureRecord E k s r ev) := by
  unfold ensureRecord firstRecord recordFromStaged
  tk_walk [addTaskState_tk E _ _ _]

theorem noteEvent_tk (k s ev) : Rel tkPre (noteEvent k s ev) := by
  unfold noteEvent
  tk_walk []

theorem restageRetry_tk (k idx o) : Rel tkPre (restageRetry k idx o) := by
  unfold restageRetry
  tk_walk []

theorem completedRetryDecision_tk (k idx ts os ns ev) : Rel tkPre (completedRetryDecision E k idx ts os ns ev) := by
  unfold completedRetryDecision
  tk_walk [makeTaskContext_tk _ _ _, failOnError_tk]

theorem evalTransitions_tk (k idx ts ev) : Rel tkPre (evalTransitions E k idx ts ev) := by
  unfold evalTransitions
  tk_walk [makeTaskContext_tk _ _ _, processTransition_tk E _ _ _ _ _]

theorem markTermIfCompleted_tk (idx) : Rel tkPre (markTermIfCompleted idx) := by
  unfold markTermIfCompleted
  tk_walk []

theorem machineStep_tk (k idx ev) : Rel tkPre (machineStep k idx ev) := by
  unfold machineStep
  tk_walk [restageRetry_tk _ _ _]

theorem updateHead_tk (k ev) : Rel tkPre (updateHead E k ev) := by
  unfold updateHead
  tk_walk [ensureRecord_tk E _ _ _ _, noteEvent_tk _ _ _, machineStep_tk _ _ _]

theorem updateTail_tk (recur : TaskKey → Event → M Unit) (hrec : ∀ k ev, Rel tkPre (recur k ev))
    (k ev h) : Rel tkPre (updateTail E recur k ev h) := by
  unfold updateTail updateRest
  tk_walk [hrec _ _, completedRetryDecision_tk E _ _ _ _ _ _, evalTransitions_tk E _ _ _ _, markTermIfCompleted_tk _]

theorem updateTaskStateAux_tk (fuel k ev) : Rel tkPre (updateTaskStateAux E fuel k ev) := by
  induction fuel generalizing k ev with
  | zero => unfold updateTaskStateAux; exact Rel.throw _
  | succ n ih =>
    unfold updateTaskStateAux
    tk_walk [updateHead_tk E _ _, updateTail_tk E _ (fun k ev => ih k ev) _ _ _]

theorem updateTaskState_tk (k ev) : Rel tkPre (updateTaskState E k ev) := updateTaskStateAux_tk E 3 k ev

theorem terminalContext_tk : Rel tkPre terminalContext := by
  unfold terminalContext
  tk_walk []

theorem renderOutput_tk : Rel tkPre (renderOutput E) := by
  unfold renderOutput
  tk_walk [terminalContext_tk, failOnError_tk]

theorem requestTaskRerun_tk (k r) : Rel tkPre (requestTaskRerun E k r) := by
  unfold requestTaskRerun
  tk_walk [addTaskState_tk E _ _ _]

theorem requestRerun_tk (reqs) : Rel tkPre (requestRerun E reqs) := by
  unfold requestRerun
  tk_walk [requestTaskRerun_tk E _ _]

end Orq
