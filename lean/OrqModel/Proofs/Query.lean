/-
C19: asking for the next tasks is a query.  The only part of the workflow state `get_next_tasks`
touches — unless it logs a rendering error and fails the workflow — is the `items` bookkeeping of
the staged with-items entries it looks at.
-/
import OrqModel.Proofs.RetryBound

namespace Orq

variable (E : Evaluator)

def Staged.dropItems (x : Staged) : Staged := { x with items := none }

/-- equal up to the `items` of staged entries (and the conductor's error log) -/
def qPre : Pre where
  R c c' := c'.spec = c.spec ∧ c'.graph = c.graph ∧ c'.output = c.output ∧ c'.st.contexts = c.st.contexts ∧
    c'.st.routes = c.st.routes ∧ c'.st.sequence = c.st.sequence ∧ c'.st.tasks = c.st.tasks ∧
    c'.st.reruns = c.st.reruns ∧ c'.st.status = c.st.status ∧
    c'.st.staged.map Staged.dropItems = c.st.staged.map Staged.dropItems
  refl _ := ⟨rfl, rfl, rfl, rfl, rfl, rfl, rfl, rfl, rfl, rfl⟩
  trans h1 h2 := ⟨h2.1.trans h1.1, h2.2.1.trans h1.2.1, h2.2.2.1.trans h1.2.2.1, h2.2.2.2.1.trans h1.2.2.2.1,
    h2.2.2.2.2.1.trans h1.2.2.2.2.1, h2.2.2.2.2.2.1.trans h1.2.2.2.2.2.1,
    h2.2.2.2.2.2.2.1.trans h1.2.2.2.2.2.2.1, h2.2.2.2.2.2.2.2.1.trans h1.2.2.2.2.2.2.2.1,
    h2.2.2.2.2.2.2.2.2.1.trans h1.2.2.2.2.2.2.2.2.1, h2.2.2.2.2.2.2.2.2.2.trans h1.2.2.2.2.2.2.2.2.2⟩

theorem updateStaged_go_dropItems (k : TaskKey) (f : Staged → Staged) (hf : ∀ x, (f x).dropItems = x.dropItems)
    (l : List Staged) : (WState.updateStaged.go k f l).map Staged.dropItems = l.map Staged.dropItems := by
  induction l with
  | nil => rfl
  | cons x xs ih =>
    unfold WState.updateStaged.go
    split
    · simp [hf]
    · simp [ih]

theorem Rel.modifySt_q {f : WState → WState}
    (h : ∀ st : WState, (f st).contexts = st.contexts ∧ (f st).routes = st.routes ∧ (f st).sequence = st.sequence ∧
      (f st).tasks = st.tasks ∧ (f st).reruns = st.reruns ∧ (f st).status = st.status ∧
      (f st).staged.map Staged.dropItems = st.staged.map Staged.dropItems) : Rel qPre (M.modifySt f) :=
  ⟨fun c => ⟨rfl, rfl, rfl, (h c.st).1, (h c.st).2.1, (h c.st).2.2.1, (h c.st).2.2.2.1, (h c.st).2.2.2.2.1,
    (h c.st).2.2.2.2.2.1, (h c.st).2.2.2.2.2.2⟩⟩

theorem M.bind_ok_rel {P : Pre} {α β} {m : M α} {f : α → M β} {c c' : Cond} {b : β} (hm : Rel P m)
    (h : (m >>= f) c = (.ok b, c')) : ∃ a c1, P.R c c1 ∧ f a c1 = (.ok b, c') := by
  obtain ⟨a, c1, h1, h2⟩ := M.bind_ok h
  have := hm.run c
  rw [h1] at this
  exact ⟨a, c1, this, h2⟩

theorem logEntry_q (e) : Rel qPre (logEntry e) := by
  constructor
  intro c
  unfold logEntry M.modify
  dsimp only
  split <;> exact ⟨rfl, rfl, rfl, rfl, rfl, rfl, rfl, rfl, rfl, rfl⟩

theorem logError_q (k a b c) : Rel qPre (logError k a b c) := logEntry_q _

theorem getTask_q (k) : Rel qPre (getTask E k) := by
  unfold getTask
  repeat' (first
    | exact Rel.pure _ | exact Rel.pure' _ | exact Rel.throw _ | exact Rel.get
    | exact Rel.liftOpt _ _ | exact Rel.liftExcept _
    | apply Rel.bind | apply Rel.bind' | apply Rel.mapM'
    | intro _ | split | dsimp only)

theorem evaluateTaskActions_q (o) : Rel qPre (evaluateTaskActions o) := by
  unfold evaluateTaskActions
  repeat' (first
    | exact Rel.pure _ | exact Rel.pure' _ | exact Rel.throw _ | exact Rel.get | exact Rel.liftExcept _
    | (apply Rel.modifySt_q; intro st
       refine ⟨rfl, rfl, rfl, rfl, rfl, rfl, ?_⟩
       show (WState.updateStaged.go _ _ _).map _ = _
       apply updateStaged_go_dropItems
       intro x
       rfl)
    | apply Rel.bind | apply Rel.bind'
    | intro _ | split | dsimp only)

theorem nextTaskFor_q (sx) : Rel qPre (nextTaskFor E sx) := by
  unfold nextTaskFor
  repeat' (first
    | exact Rel.pure _ | exact Rel.pure' _ | exact Rel.throw _ | exact Rel.get
    | exact getTask_q E _ | exact evaluateTaskActions_q _ | exact logError_q _ _ _ _
    | apply Rel.bind | apply Rel.bind' | apply Rel.tryCatch
    | intro _ | split | dsimp only)

/-- **C19**: whenever `get_next_tasks` returns at least one task it has changed nothing but the
    `items` bookkeeping of staged with-items entries (and possibly nothing at all): records,
    contexts, routes, task map, rerun log, workflow status, output, and every other field of every
    staged entry are as before -/
theorem getNextTasks_query (c c' : Cond) (r : List Offer) (h : getNextTasks E c = (.ok r, c'))
    (hr : r ≠ []) : qPre.R c c' := by
  unfold getNextTasks nextFrom at h
  obtain ⟨p, c1, hq, h2⟩ := M.bind_ok_rel (P := qPre) (by
    apply Rel.foldM'
    intro b a
    repeat' (first
      | exact Rel.pure _ | exact nextTaskFor_q E _
      | apply Rel.bind | intro _ | split | dsimp only)) h
  obtain ⟨offers, failed⟩ := p
  dsimp only at h2
  cases failed with
  | true =>
    simp only [if_true] at h2
    obtain ⟨_, c2, _, h3⟩ := M.bind_ok h2
    obtain ⟨e, _⟩ := pure_ok h3
    exact absurd e.symm hr
  | false =>
    simp only [Bool.false_eq_true, if_false] at h2
    obtain ⟨_, e⟩ := pure_ok h2
    subst e
    exact hq

end Orq
