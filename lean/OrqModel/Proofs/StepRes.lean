/-
Checking a predicate on the result of a generated state-machine function without quantifying
over the result: table facts are stated as `(f args).all? P = true`, which the kernel evaluates
once per argument tuple, and read back through `all?_ok`.
-/
import OrqModel.Generated.Tables

namespace Orq

def StepRes.all? (r : StepRes) (p : Status → Bool) : Bool :=
  match r with
  | .ok s => p s
  | .raise _ => true

def StepRes.isOk : StepRes → Bool
  | .ok _ => true
  | .raise _ => false

theorem StepRes.all?_ok {r : StepRes} {p : Status → Bool} (h : r.all? p = true) {s : Status}
    (hr : r = .ok s) : p s = true := by
  subst hr; exact h

end Orq
