/-
C18/C13: a record whose outbound transitions have been decided is completed, and from then on its
status never changes (in particular it is never retried).
-/
import OrqModel.Proofs.RetryBound

namespace Orq

variable (E : Evaluator)

/-- the record is in a completed status -/
def Comp (r : Rec) : Prop := ∃ s, r.status = some s ∧ s.isCompleted = true

/-- how one record may evolve: a completed record keeps its status, a decided record stays decided,
    and a record becomes decided only in a completed status -/
structure RecStep (r r' : Rec) : Prop where
  status : Comp r → r'.status = r.status
  decided : r.next ≠ [] → r'.next ≠ []
  fresh : r'.next ≠ [] → r.next ≠ [] ∨ Comp r'

theorem RecStep.refl (r : Rec) : RecStep r r := ⟨fun _ => rfl, id, fun h => Or.inl h⟩

theorem Comp.step {r r' : Rec} (h : RecStep r r') (hc : Comp r) : Comp r' := by
  obtain ⟨s, hs, hcs⟩ := hc
  exact ⟨s, by rw [h.status ⟨s, hs, hcs⟩, hs], hcs⟩

theorem RecStep.trans {a b c : Rec} (h1 : RecStep a b) (h2 : RecStep b c) : RecStep a c := by
  refine ⟨?_, fun h => h2.decided (h1.decided h), ?_⟩
  · intro hc
    rw [h2.status (Comp.step h1 hc), h1.status hc]
  · intro h
    rcases h2.fresh h with hb | hc
    · rcases h1.fresh hb with ha | hcb
      · exact Or.inl ha
      · exact Or.inr (Comp.step h2 hcb)
    · exact Or.inr hc

/-- the relation on conductor states: every record evolves by `RecStep`, new records are undecided
    or completed -/
structure DecStepR (c c' : Cond) : Prop where
  old : ∀ (i : Nat) (r : Rec), c.st.sequence[i]? = some r → ∃ r', c'.st.sequence[i]? = some r' ∧ RecStep r r'
  new : ∀ (i : Nat) (r' : Rec), c'.st.sequence[i]? = some r' → c.st.sequence[i]? = none → r'.next ≠ [] → Comp r'

theorem DecStepR.refl (c : Cond) : DecStepR c c :=
  ⟨fun i r h => ⟨r, h, RecStep.refl r⟩, fun i r' h h0 => by rw [h] at h0; cases h0⟩

theorem DecStepR.trans {a b c : Cond} (h1 : DecStepR a b) (h2 : DecStepR b c) : DecStepR a c := by
  refine ⟨?_, ?_⟩
  · intro i r hr
    obtain ⟨r', hr', s1⟩ := h1.old i r hr
    obtain ⟨r'', hr'', s2⟩ := h2.old i r' hr'
    exact ⟨r'', hr'', s1.trans s2⟩
  · intro i r'' hr'' hnone hn
    cases hb : b.st.sequence[i]? with
    | none => exact h2.new i r'' hr'' hb hn
    | some r' =>
      obtain ⟨r2, hr2, s2⟩ := h2.old i r' hb
      rw [hr''] at hr2
      cases hr2
      rcases s2.fresh hn with h' | hc
      · exact Comp.step s2 (h1.new i r' hb hnone h')
      · exact hc

def decStep : Pre := ⟨DecStepR, DecStepR.refl, DecStepR.trans⟩

/-- decided records are completed -/
def Dec (c : Cond) : Prop := ∀ (i : Nat) (r : Rec), c.st.sequence[i]? = some r → r.next ≠ [] → Comp r

theorem Dec.step {c c' : Cond} (h : DecStepR c c') (hd : Dec c) : Dec c' := by
  intro i r' hr' hn
  cases hc : c.st.sequence[i]? with
  | none => exact h.new i r' hr' hc hn
  | some r =>
    obtain ⟨r2, hr2, s⟩ := h.old i r hc
    rw [hr'] at hr2
    cases hr2
    rcases s.fresh hn with h' | hcomp
    · exact Comp.step s (hd i r hc h')
    · exact hcomp

/-- decided (hence completed) records are frozen -/
theorem DecStepR.frozen {c c' : Cond} (h : DecStepR c c') (hd : Dec c) (i : Nat) (r : Rec)
    (hr : c.st.sequence[i]? = some r) (hn : r.next ≠ []) :
    ∃ r', c'.st.sequence[i]? = some r' ∧ r'.status = r.status ∧ r'.next ≠ [] := by
  obtain ⟨r', hr', s⟩ := h.old i r hr
  exact ⟨r', hr', s.status (hd i r hr hn), s.decided hn⟩

/-! ### leaves -/

theorem Rel.raw_dec {α} {m : M α} (h : ∀ c, DecStepR c (m c).2) : Rel decStep m := ⟨h⟩

/-- a state update that leaves the record sequence alone -/
theorem Rel.modifySt_dec_same {f : WState → WState} (h : ∀ st : WState, (f st).sequence = st.sequence) :
    Rel decStep (M.modifySt f) := by
  constructor
  intro c
  have : (M.modifySt f c).2.st.sequence = c.st.sequence := h c.st
  show DecStepR _ _
  refine ⟨fun i r hr => ⟨r, by rw [this]; exact hr, RecStep.refl r⟩, fun i r' hr' h0 => ?_⟩
  rw [this, h0] at hr'
  cases hr'

theorem Rel.modify_dec {f : Cond → Cond} (h : ∀ c, (f c).st = c.st) : Rel decStep (M.modify f) := by
  constructor
  intro c
  have : (M.modify f c).2.st.sequence = c.st.sequence := by
    show (f c).st.sequence = _
    rw [h]
  show DecStepR _ _
  refine ⟨fun i r hr => ⟨r, by rw [this]; exact hr, RecStep.refl r⟩, fun i r' hr' h0 => ?_⟩
  rw [this, h0] at hr'
  cases hr'

theorem getElem?_modify_ne {α} (l : List α) (i j : Nat) (f : α → α) (h : j ≠ i) :
    (l.modify i f)[j]? = l[j]? := by
  simp [List.getElem?_modify, Ne.symm h]

/-- a record update by a function that is a `RecStep` on every record -/
theorem decStep_modify (l : List Rec) (idx : Nat) (g : Rec → Rec) (hg : ∀ r, l[idx]? = some r → RecStep r (g r)) (c c' : Cond)
    (hc : c.st.sequence = l) (hc' : c'.st.sequence = l.modify idx g) : DecStepR c c' := by
  refine ⟨?_, ?_⟩
  · intro i r hr
    rw [hc] at hr
    by_cases hi : i = idx
    · subst hi
      exact ⟨g r, by rw [hc', getElem?_modify_same, hr]; rfl, hg r hr⟩
    · exact ⟨r, by rw [hc', getElem?_modify_ne _ _ _ _ hi]; exact hr, RecStep.refl r⟩
  · intro i r' hr' h0 _
    rw [hc] at h0
    rw [hc'] at hr'
    by_cases hi : i = idx
    · subst hi
      rw [getElem?_modify_same, h0] at hr'
      cases hr'
    · rw [getElem?_modify_ne _ _ _ _ hi, h0] at hr'
      cases hr'

theorem Rel.modifySt_dec_rec {f : WState → WState} (idx : Nat) (g : Rec → Rec) (hg : ∀ r, RecStep r (g r))
    (h : ∀ st : WState, (f st).sequence = st.sequence.modify idx g) : Rel decStep (M.modifySt f) :=
  ⟨fun c => decStep_modify c.st.sequence idx g (fun r _ => hg r) c _ rfl (h c.st)⟩

/-- appending an undecided record -/
theorem Rel.modifySt_dec_append {f : WState → WState} (r0 : Rec) (h0 : r0.next = [])
    (h : ∀ st : WState, (f st).sequence = st.sequence ++ [r0]) : Rel decStep (M.modifySt f) := by
  constructor
  intro c
  have hs : (M.modifySt f c).2.st.sequence = c.st.sequence ++ [r0] := h c.st
  show DecStepR _ _
  refine ⟨?_, ?_⟩
  · intro i r hr
    refine ⟨r, ?_, RecStep.refl r⟩
    rw [hs, List.getElem?_append_left]
    · exact hr
    · exact (List.getElem?_eq_some_iff.mp hr).1
  · intro i r' hr' hnone hn
    rw [hs] at hr'
    have hlen : c.st.sequence.length ≤ i := by
      rcases Nat.lt_or_ge i c.st.sequence.length with hlt | hge
      · rw [List.getElem?_eq_getElem hlt] at hnone; cases hnone
      · exact hge
    rw [List.getElem?_append_right hlen] at hr'
    have : r' = r0 := by
      cases hk : i - c.st.sequence.length with
      | zero => rw [hk] at hr'; simpa using hr'.symm
      | succ n => rw [hk] at hr'; simp at hr'
    subst this
    exact absurd h0 hn

/-- an update of a record that touches neither its status nor its decisions -/
theorem RecStep.same {r r' : Rec} (h1 : r'.status = r.status) (h2 : r'.next = r.next) : RecStep r r' :=
  ⟨fun _ => h1, fun h => by rw [h2]; exact h, fun h => Or.inl (by rw [← h2]; exact h)⟩

/-! ### the tables: completed rows are stable, except for the engine's retry event -/

theorem tbl_comp_action : ∀ (tk ev : Status), tk.isCompleted = true →
    (tkOnActionEvent tk ev).all? (fun s' => s' == tk) = true := by decide +kernel

theorem tbl_comp_item : ∀ (tk ev : Status) (a p c f i : Bool), tk.isCompleted = true →
    (tkOnItemEvent tk ev a p c f i).all? (fun s' => s' == tk) = true := by decide +kernel

theorem tbl_comp_item_ns : ∀ (tk ev : Status), tk.isCompleted = true →
    (tkOnItemEventNoStaged tk ev).all? (fun s' => s' == tk) = true := by decide +kernel

theorem tbl_comp_engine : ∀ (tk : Status) (cmd : Cmd), tk.isCompleted = true → (cmd == .retry_) = false →
    (tkOnEngineEvent tk cmd).all? (fun s' => s' == tk) = true := by decide +kernel

theorem tbl_comp_wf : ∀ (tk ev : Status) (h a i : Bool), tk.isCompleted = true →
    (tkOnWorkflowEvent tk ev h a i).all? (fun s' => s' == tk) = true := by decide +kernel

theorem status_eq_of_beq {a b : Status} (h : (a == b) = true) : a = b := by
  revert h
  cases a <;> cases b <;> decide

/-- the task machine's answer on a completed record, for anything but the retry event, is its status -/
theorem tkEventStep_comp (c : Cond) (r : Rec) (ev : Event) (s' tk : Status) (hev : ev ≠ .engine .retry_)
    (hs : r.status = some tk) (hc : tk.isCompleted = true) (h : tkEventStep c r ev = .ok (.ok s')) : s' = tk := by
  unfold tkEventStep at h
  rw [hs] at h
  simp only [Option.getD_some] at h
  cases ev with
  | action s res =>
    simp only [Except.ok.injEq] at h
    exact status_eq_of_beq (StepRes.all?_ok (tbl_comp_action tk s hc) h)
  | engine cmd =>
    simp only [Except.ok.injEq] at h
    have hne : (cmd == .retry_) = false := by
      cases cmd <;> first | rfl | exact absurd rfl hev
    exact status_eq_of_beq (StepRes.all?_ok (tbl_comp_engine tk cmd hc hne) h)
  | item idx s res acc =>
    dsimp only at h
    split at h
    · simp only [Except.ok.injEq] at h
      exact status_eq_of_beq (StepRes.all?_ok (tbl_comp_item_ns tk s hc) h)
    · split at h
      · cases h
      · simp only [Except.ok.injEq] at h
        exact status_eq_of_beq (StepRes.all?_ok (tbl_comp_item tk s _ _ _ _ _ hc) h)

theorem RecStep.setStatus (r : Rec) (s' : Status) (h : ∀ tk, r.status = some tk → tk.isCompleted = true → s' = tk) :
    RecStep r { r with status := some s' } := by
  refine ⟨?_, id, fun hn => Or.inl hn⟩
  rintro ⟨tk, hs, hc⟩
  show some s' = r.status
  rw [hs, h tk hs hc]

theorem tkProcessEvent_dec (i : Nat) (ev : Event) (hev : ev ≠ .engine .retry_) : Rel decStep (tkProcessEvent i ev) := by
  apply Rel.raw_dec
  intro c
  unfold tkProcessEvent
  cases hr : c.st.sequence[i]? with
  | none => exact DecStepR.refl c
  | some r =>
    dsimp only
    cases hstep : tkEventStep c r ev with
    | error e => exact DecStepR.refl c
    | ok sr =>
      cases sr with
      | raise e => exact DecStepR.refl c
      | ok s' =>
        dsimp only
        split
        · exact DecStepR.refl c
        · apply decStep_modify c.st.sequence i (fun r => { r with status := some s' }) _ c _ rfl rfl
          intro r0 hr0
          rw [hr] at hr0
          cases hr0
          exact RecStep.setStatus r s' (fun tk hs hc => tkEventStep_comp c r ev s' tk hev hs hc hstep)

theorem tkProcessWorkflowEvent_dec (i : Nat) (req : Status) : Rel decStep (tkProcessWorkflowEvent i req) := by
  apply Rel.raw_dec
  intro c
  unfold tkProcessWorkflowEvent
  cases hr : c.st.sequence[i]? with
  | none => exact DecStepR.refl c
  | some r =>
    dsimp only
    split
    · exact DecStepR.refl c
    · rename_i s' hstep
      split
      · exact DecStepR.refl c
      · apply decStep_modify c.st.sequence i (fun r => { r with status := some s' }) _ c _ rfl rfl
        intro r0 hr0
        rw [hr] at hr0
        cases hr0
        apply RecStep.setStatus
        intro tk hs hc
        rw [hs] at hstep
        simp only [Option.getD_some] at hstep
        exact status_eq_of_beq (StepRes.all?_ok (tbl_comp_wf tk req _ _ _ hc) hstep)

end Orq
