/-
The ghost publication log is written in exactly one place (a publishing transition): every other
model function leaves it as it is.
-/
import OrqModel.Proofs.Ancestry
import OrqModel.Proofs.RequestFrame

namespace Orq

variable (E : Evaluator)

def logPre : Pre where
  R c c' := c'.st.pubLog = c.st.pubLog
  refl _ := rfl
  trans h1 h2 := h2.trans h1

theorem Rel.raw_log {α} {m : M α} (h : ∀ c, (m c).2.st.pubLog = c.st.pubLog) : Rel logPre m := ⟨h⟩

theorem Rel.log_of_fr {α} {m : M α} (h : Rel frPre m) : Rel logPre m := ⟨fun c => (h.run c).pubLog⟩

theorem logEntry_log (e) : Rel logPre (logEntry e) := by
  apply Rel.raw_log
  intro c
  unfold logEntry M.modify
  dsimp only
  split <;> rfl

theorem logError_log (k a b c) : Rel logPre (logError k a b c) := logEntry_log _

theorem wfProcessTaskEvent_log (k ev) : Rel logPre (wfProcessTaskEvent k ev) := by
  apply Rel.raw_log
  intro c
  unfold wfProcessTaskEvent
  dsimp only
  split
  · rfl
  · split
    · split
      · rfl
      · rw [forEach_logError_st]
    · rfl

theorem tkProcessEvent_log (i ev) : Rel logPre (tkProcessEvent i ev) := by
  apply Rel.raw_log
  intro c
  unfold tkProcessEvent
  repeat' (first | rfl | split | dsimp only)

syntax "log_walk" "[" term,* "]" : tactic
macro_rules
  | `(tactic| log_walk [$ts,*]) => do
    let alts ← ts.getElems.mapM fun t => `(tactic| exact $t)
    `(tactic| repeat' (first
      | exact Rel.pure _ | exact Rel.pure' _ | exact Rel.throw _ | exact Rel.get
      | exact Rel.liftOpt _ _ | exact Rel.liftExcept _
      | exact Rel.log_of_fr (wfProcessWorkflowEvent_fr _) | exact wfProcessTaskEvent_log _ _
      | exact Rel.log_of_fr (tkProcessWorkflowEvent_fr _ _) | exact tkProcessEvent_log _ _
      | exact logEntry_log _ | exact logError_log _ _ _ _
      $[| $alts:tactic]*
      | (apply Rel.raw_log; intro c; first | rfl | (simp [M.modifySt, M.modify]; done))
      | apply Rel.bind | apply Rel.bind' | apply Rel.tryCatch | apply Rel.forEach | apply Rel.foldM' | apply Rel.mapM'
      | intro _ | split | dsimp only ))

theorem requestStatus_log (req) : Rel logPre (requestStatus req) := Rel.log_of_fr (requestStatus_fr req)

theorem failOnError_log : Rel logPre failOnError := by
  unfold failOnError
  log_walk [requestStatus_log _]

theorem getTask_log (k) : Rel logPre (getTask E k) := by
  unfold getTask
  log_walk []

theorem evaluateTaskActions_log (o) : Rel logPre (evaluateTaskActions o) := by
  unfold evaluateTaskActions
  log_walk []

theorem nextTaskFor_log (sx) : Rel logPre (nextTaskFor E sx) := by
  unfold nextTaskFor
  log_walk [getTask_log E _, evaluateTaskActions_log _]

theorem nextFrom_log (todo) : Rel logPre (nextFrom E todo) := by
  unfold nextFrom
  log_walk [nextTaskFor_log E _, failOnError_log]

theorem getNextTasks_log : Rel logPre (getNextTasks E) :=
  ⟨fun c => (nextFrom_log E (nextTodo c.st)).run c⟩

theorem addTaskState_log (k a b) : Rel logPre (addTaskState E k a b) := by
  unfold addTaskState
  log_walk [failOnError_log]

theorem evaluateRoute_log (e r) : Rel logPre (evaluateRoute e r) := by
  unfold evaluateRoute
  log_walk []

theorem stageNext_log (k idx e o acc) : Rel logPre (stageNext k idx e o acc) := by
  unfold stageNext stageTarget
  log_walk [evaluateRoute_log _ _]

theorem makeTaskContext_log (k idx r) : Rel logPre (makeTaskContext k idx r) := by
  unfold makeTaskContext
  log_walk []

theorem ensureRecord_log (k s r ev) : Rel logPre (ensureRecord E k s r ev) := by
  unfold ensureRecord firstRecord recordFromStaged
  log_walk [addTaskState_log E _ _ _]

theorem firstRecord_log (k s r) : Rel logPre (firstRecord E k s r) := by
  unfold firstRecord recordFromStaged
  log_walk [addTaskState_log E _ _ _]

theorem noteEvent_log (k s ev) : Rel logPre (noteEvent k s ev) := by
  unfold noteEvent
  log_walk []

theorem restageRetry_log (k idx o) : Rel logPre (restageRetry k idx o) := by
  unfold restageRetry
  log_walk []

theorem completedRetryDecision_log (k idx ts os ns ev) : Rel logPre (completedRetryDecision E k idx ts os ns ev) := by
  unfold completedRetryDecision
  log_walk [makeTaskContext_log _ _ _, failOnError_log]

theorem markTermIfCompleted_log (idx) : Rel logPre (markTermIfCompleted idx) := by
  unfold markTermIfCompleted
  log_walk []

theorem machineStep_log (k idx ev) : Rel logPre (machineStep k idx ev) := by
  unfold machineStep
  log_walk [restageRetry_log _ _ _]

theorem updateHead_log (k ev) : Rel logPre (updateHead E k ev) := by
  unfold updateHead
  log_walk [ensureRecord_log E _ _ _ _, noteEvent_log _ _ _, machineStep_log _ _ _]

theorem terminalContext_log : Rel logPre terminalContext := by
  unfold terminalContext
  log_walk []

theorem renderOutput_log : Rel logPre (renderOutput E) := by
  unfold renderOutput
  log_walk [terminalContext_log, failOnError_log]

theorem requestTaskRerun_log (k r) : Rel logPre (requestTaskRerun E k r) := by
  unfold requestTaskRerun
  log_walk [addTaskState_log E _ _ _]

theorem requestRerun_log (reqs) : Rel logPre (requestRerun E reqs) := by
  unfold requestRerun
  log_walk [requestTaskRerun_log E _ _]

end Orq
