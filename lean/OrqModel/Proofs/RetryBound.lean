/-
C13, history level: the retry tally of every record stays within the policy's count.
State-assertion reasoning (a precondition travels with the engine's retry event) on top of the
frame preorders of `RetryKeep`.
-/
import OrqModel.Proofs.RetryKeep

namespace Orq

variable (E : Evaluator)

/-! ### inversion of monadic runs -/

theorem M.bind_ok {α β} {m : M α} {f : α → M β} {c c' : Cond} {b : β}
    (h : (m >>= f) c = (.ok b, c')) : ∃ a c1, m c = (.ok a, c1) ∧ f a c1 = (.ok b, c') := by
  change M.bind' m f c = _ at h
  unfold M.bind' at h
  cases hm : m c with
  | mk r c1 =>
    rw [hm] at h
    cases r with
    | ok a => exact ⟨a, c1, rfl, h⟩
    | error e => cases h

theorem M.bind_run {α β} (m : M α) (f : α → M β) (c : Cond) :
    (m >>= f) c = match m c with
      | (.ok a, c1) => f a c1
      | (.error e, c1) => (.error e, c1) := rfl

theorem liftOpt_ok {α} {o : Option α} {e : Err} {c c' : Cond} {a : α}
    (h : liftOpt o e c = (.ok a, c')) : o = some a ∧ c = c' := by
  cases o with
  | none => cases h
  | some x =>
    simp only [liftOpt, pure, M.pure'] at h
    cases h
    exact ⟨rfl, rfl⟩

/-! ### the tables: entering `retrying` -/

theorem tbl_retrying_action : ∀ (tk ev : Status),
    (tkOnActionEvent tk ev).all? (fun s' => !(s' == .retrying) || tk == .retrying) = true := by
  decide +kernel

theorem tbl_retrying_item : ∀ (tk ev : Status) (a p c f i : Bool),
    (tkOnItemEvent tk ev a p c f i).all? (fun s' => !(s' == .retrying) || tk == .retrying) = true := by
  decide +kernel

theorem tbl_retrying_item_nostaged : ∀ (tk ev : Status),
    (tkOnItemEventNoStaged tk ev).all? (fun s' => !(s' == .retrying) || tk == .retrying) = true := by
  decide +kernel

theorem tbl_retrying_engine : ∀ (tk : Status) (c : Cmd),
    (tkOnEngineEvent tk c).all? (fun s' => !(s' == .retrying) || tk == .retrying ||
      (c == .retry_ && (tk == .succeeded || tk == .failed))) = true := by
  decide +kernel

theorem status_beq_retrying (s : Status) : (s == Status.retrying) = true ↔ s = .retrying := by
  cases s <;> decide

/-- the task machine moves a record into `retrying` only on the engine's retry event, and only
    from `succeeded` or `failed` -/
theorem tkEventStep_enter (c : Cond) (r : Rec) (ev : Event)
    (h : tkEventStep c r ev = .ok (.ok .retrying)) (hold : r.status.getD .unset ≠ .retrying) :
    ev = .engine .retry_ ∧ (r.status = some .succeeded ∨ r.status = some .failed) := by
  unfold tkEventStep at h
  have hne : (r.status.getD .unset == Status.retrying) = false := by
    cases hb : (r.status.getD .unset == Status.retrying)
    · rfl
    · exact absurd ((status_beq_retrying _).mp hb) hold
  have hrr : (Status.retrying == Status.retrying) = true := by decide
  cases ev with
  | action s res =>
    simp only [Except.ok.injEq] at h
    have ht := StepRes.all?_ok (tbl_retrying_action _ s) h
    simp [hne, hrr] at ht
  | engine cmd =>
    simp only [Except.ok.injEq] at h
    have ht := StepRes.all?_ok (tbl_retrying_engine _ cmd) h
    simp [hne, hrr] at ht
    obtain ⟨hcmd, hs⟩ := ht
    subst hcmd
    refine ⟨rfl, ?_⟩
    cases hst : r.status with
    | none => rw [hst] at hs; simp at hs; exact absurd hs (by decide)
    | some s =>
      rw [hst] at hs
      simp only [Option.getD_some] at hs
      rcases hs with hs | hs
      · left; congr 1; revert hs; cases s <;> decide
      · right; congr 1; revert hs; cases s <;> decide
  | item idx s res acc =>
    dsimp only at h
    split at h
    · simp only [Except.ok.injEq] at h
      have ht := StepRes.all?_ok (tbl_retrying_item_nostaged _ s) h
      simp [hne, hrr] at ht
    · split at h
      · cases h
      · simp only [Except.ok.injEq] at h
        have ht := StepRes.all?_ok (tbl_retrying_item _ s _ _ _ _ _) h
        simp [hne, hrr] at ht

theorem getElem?_modify_same {α} (l : List α) (i : Nat) (f : α → α) :
    (l.modify i f)[i]? = l[i]?.map f := by
  simp [List.getElem?_modify]

theorem tkProcessEvent_enter (i : Nat) (ev : Event) (c : Cond) (r r' : Rec)
    (h0 : c.st.sequence[i]? = some r) (h1 : (tkProcessEvent i ev c).2.st.sequence[i]? = some r')
    (hs : r'.status = some .retrying) (hold : r.status.getD .unset ≠ .retrying) :
    ev = .engine .retry_ ∧ (r.status = some .succeeded ∨ r.status = some .failed) := by
  have hcontra : c.st.sequence[i]? = some r' → False := by
    intro h
    rw [h0] at h
    cases h
    rw [hs] at hold
    exact hold rfl
  unfold tkProcessEvent at h1
  rw [h0] at h1
  dsimp only at h1
  cases hstep : tkEventStep c r ev with
  | error e => rw [hstep] at h1; exact (hcontra h1).elim
  | ok sr =>
    rw [hstep] at h1
    cases sr with
    | raise e => exact (hcontra h1).elim
    | ok s' =>
      dsimp only at h1
      split at h1
      · exact (hcontra h1).elim
      · simp only [WState.updateRec, getElem?_modify_same, h0, Option.map_some, Option.some.injEq] at h1
        subst h1
        simp only [Option.some.injEq] at hs
        subst hs
        exact tkEventStep_enter c r ev hstep hold

/-! ### the bump -/

/-- attempts remain on this record -/
def CanBumpRec (r : Rec) : Prop :=
  ∀ rs n, r.retry = some rs → rs.count = .val (.int n) → (rs.tally : Int) < n

def CanBump (c : Cond) (i : Nat) : Prop := ∀ r, c.st.sequence[i]? = some r → CanBumpRec r

theorem mem_modify {α} (l : List α) (i : Nat) (f : α → α) (x : α) (h : x ∈ l.modify i f) :
    x ∈ l ∨ ∃ y, l[i]? = some y ∧ x = f y := by
  induction l generalizing i with
  | nil => cases i <;> simp at h
  | cons a as ih =>
    cases i with
    | zero =>
      simp only [List.modify_zero_cons, List.mem_cons] at h
      rcases h with h | h
      · right; exact ⟨a, rfl, h⟩
      · left; exact List.mem_cons_of_mem _ h
    | succ n =>
      simp only [List.modify_succ_cons, List.mem_cons] at h
      rcases h with h | h
      · left; rw [h]; exact List.mem_cons_self
      · rcases ih n h with h | ⟨y, hy, hx⟩
        · left; exact List.mem_cons_of_mem _ h
        · right; exact ⟨y, by simpa using hy, hx⟩

theorem restageRetry_inv13 (k : TaskKey) (idx : Nat) (old : Status) (c : Cond) (hinv : Inv13 c)
    (hb : ∀ r, c.st.sequence[idx]? = some r → r.status = some .retrying → old ≠ .retrying → CanBumpRec r) :
    Inv13 (restageRetry k idx old c).2 := by
  unfold restageRetry
  rw [M.bind_run]
  simp only [M.get]
  rw [M.bind_run]
  cases hr : c.st.sequence[idx]? with
  | none => exact hinv
  | some r =>
    simp only [liftOpt, pure, M.pure']
    split
    · rename_i hcond
      rw [M.bind_run]
      cases hrs : r.retry with
      | none => exact hinv
      | some rs =>
        simp only [liftOpt, pure, M.pure']
        intro x hx
        have hseq : (M.modifySt (fun st => ((st.updateRec idx fun r => { r with retry := some { rs with tally := rs.tally + 1 } }).removeStaged k).addStaged
            { id := k.1, route := k.2, ctxsIn := if r.ctxsIn.isEmpty then [0] else r.ctxsIn,
              prev := r.prev, ready := true, retry := some { rs with tally := rs.tally + 1 } }) c).2.st.sequence
            = c.st.sequence.modify idx fun r => { r with retry := some { rs with tally := rs.tally + 1 } } := by
          show (WState.addStaged _ _).sequence = _
          simp [WState.updateRec]
        rw [hseq] at hx
        rcases mem_modify _ _ _ _ hx with hx | ⟨y, hy, hx⟩
        · exact hinv x hx
        · have hy' : y = r := by rw [hr] at hy; exact (Option.some.inj hy).symm
          subst hy'
          subst hx
          simp only [Bool.and_eq_true, bne_iff_ne, ne_eq] at hcond
          have hst : y.status = some Status.retrying := by
            have := hcond.1
            cases hs : y.status with
            | none => rw [hs] at this; cases this
            | some s => rw [hs] at this; congr 1; revert this; cases s <;> decide
          have hold : old ≠ .retrying := by
            intro he; subst he; exact absurd hcond.2 (by decide)
          have hcan := hb y hr hst hold
          intro rs' n h1 h2
          simp only [Option.some.injEq] at h1
          subst h1
          have := hcan rs n hrs h2
          simp only at h2 ⊢
          omega
    · exact hinv

theorem rk_getElem {l l' : List Rec} (h : l'.map (·.retry) = l.map (·.retry)) {i : Nat} {r r' : Rec}
    (h1 : l[i]? = some r) (h2 : l'[i]? = some r') : r'.retry = r.retry := by
  have := congrArg (·[i]?) h
  simp only [List.getElem?_map, h1, h2, Option.map_some, Option.some.injEq] at this
  exact this

theorem CanBumpRec.of_retry {r r' : Rec} (h : r'.retry = r.retry) (hc : CanBumpRec r) : CanBumpRec r' := by
  intro rs n h1 h2
  exact hc rs n (h ▸ h1) h2

theorem machineStep_inv13 (k : TaskKey) (idx : Nat) (ev : Event) (c : Cond) (hinv : Inv13 c)
    (hpre : ev = .engine .retry_ → ∀ r, c.st.sequence[idx]? = some r →
      (r.status = some .succeeded ∨ r.status = some .failed) → CanBumpRec r) :
    Inv13 (machineStep k idx ev c).2 := by
  unfold machineStep
  rw [M.bind_run]
  simp only [M.get]
  rw [M.bind_run]
  cases hr : c.st.sequence[idx]? with
  | none => exact hinv
  | some r =>
    simp only [liftOpt, pure, M.pure']
    rw [M.bind_run]
    have hinv3 := (tkProcessEvent_inv13 idx ev).run c hinv
    have hrk := (tkProcessEvent_rk idx ev).run c
    cases h3 : tkProcessEvent idx ev c with
    | mk res c3 =>
      rw [h3] at hinv3 hrk
      cases res with
      | error e => exact hinv3
      | ok u =>
        dsimp only
        rw [M.bind_run]
        simp only [M.get]
        rw [M.bind_run]
        cases hr' : c3.st.sequence[idx]? with
        | none => exact hinv3
        | some r' =>
          simp only [liftOpt, pure, M.pure']
          rw [M.bind_run]
          have h4 : Inv13 (restageRetry k idx (r.status.getD .unset) c3).2 := by
            apply restageRetry_inv13 k idx _ c3 hinv3
            intro r'' hr'' hst hold
            have hent := tkProcessEvent_enter idx ev c r r'' hr (by rw [h3]; exact hr'') hst hold
            have hcan := hpre hent.1 r hr hent.2
            exact CanBumpRec.of_retry (rk_getElem hrk.1 hr hr'') hcan
          cases h5 : restageRetry k idx (r.status.getD .unset) c3 with
          | mk res5 c5 =>
            rw [h5] at h4
            cases res5 <;> exact h4

/-! ### the task-key map is only written when a record is appended -/

def tasksPre : Pre where
  R c c' := c'.st.tasks = c.st.tasks
  refl _ := rfl
  trans h1 h2 := h2.trans h1

theorem Rel.rk_tasks {α} {m : M α} (h : Rel rkPre m) : Rel tasksPre m := ⟨fun s => (h.run s).2⟩

theorem restageRetry_tasks (k idx o) : Rel tasksPre (restageRetry k idx o) := by
  unfold restageRetry
  repeat' (first
    | exact Rel.pure _ | exact Rel.get | exact Rel.liftOpt _ _
    | (apply Rel.modifySt; intro s; show _ = _; simp; done)
    | apply Rel.bind | intro _ | split | dsimp only)

theorem machineStep_tasks (k idx ev) : Rel tasksPre (machineStep k idx ev) := by
  unfold machineStep
  repeat' (first
    | exact Rel.pure _ | exact Rel.get | exact Rel.liftOpt _ _
    | exact Rel.rk_tasks (tkProcessEvent_rk _ _) | exact restageRetry_tasks _ _ _
    | apply Rel.bind | intro _ | split | dsimp only)

/-! ### what `add_task_state` and phase 1 leave behind -/

theorem find?_map_setIdx (l : List (TaskKey × Nat)) (k : TaskKey) (i : Nat)
    (h : l.any (fun p => p.1 == k) = true) :
    ∃ p, (l.map fun p => if p.1 == k then (p.1, i) else p).find? (fun p => p.1 == k) = some p ∧ p.2 = i := by
  induction l with
  | nil => simp at h
  | cons a as ih =>
    by_cases ha : (a.1 == k) = true
    · refine ⟨(a.1, i), ?_, rfl⟩
      show List.find? _ ((if (a.1 == k) = true then (a.1, i) else a) :: _) = _
      rw [if_pos ha, List.find?_cons_of_pos]
      exact ha
    · simp only [List.any_cons, ha, Bool.false_or] at h
      obtain ⟨p, hp, hi⟩ := ih h
      refine ⟨p, ?_, hi⟩
      show List.find? _ ((if (a.1 == k) = true then (a.1, i) else a) :: _) = _
      rw [if_neg ha, List.find?_cons_of_neg]
      · exact hp
      · exact ha

theorem taskIdx?_setTask (s : WState) (k : TaskKey) (i : Nat) : (s.setTask k i).taskIdx? k = some i := by
  by_cases h : s.tasks.any (fun p => p.1 == k) = true
  · obtain ⟨p, hp, hi⟩ := find?_map_setIdx s.tasks k i h
    simp only [WState.setTask, WState.taskIdx?, h, if_true, hp, hi]
  · have hnone : s.tasks.find? (fun p => p.1 == k) = none := by
      rw [List.find?_eq_none]
      intro x hx hxk
      exact h (List.any_eq_true.mpr ⟨x, hx, hxk⟩)
    simp only [WState.setTask, WState.taskIdx?, h]
    simp [List.find?_append, hnone]

theorem newRecord_status (c : Cond) (k : TaskKey) (a : List Nat) (b : List (TransId × Nat)) :
    (newRecord E c k a b).1.status = none := by
  unfold newRecord
  dsimp only
  split <;> rfl

theorem get_ok {c a c' : Cond} (h : M.get c = (.ok a, c')) : c = a ∧ c = c' := by
  simp only [M.get, Prod.mk.injEq, Except.ok.injEq] at h
  exact h

theorem pure_ok {α} {a b : α} {c c' : Cond} (h : (pure a : M α) c = (.ok b, c')) : a = b ∧ c = c' := by
  simp only [pure, M.pure', Prod.mk.injEq, Except.ok.injEq] at h
  exact h

theorem addTaskState_post (k : TaskKey) (a : List Nat) (b : List (TransId × Nat)) (c cf : Cond) (i : Nat)
    (h : addTaskState E k a b c = (.ok i, cf)) :
    cf.st.sequence[i]? = some (newRecord E c k a b).1 ∧ cf.st.taskIdx? k = some i := by
  unfold addTaskState at h
  rw [M.bind_run] at h
  simp only [M.get] at h
  split at h
  · cases h
  · obtain ⟨u, c2, _, h2⟩ := M.bind_ok h
    obtain ⟨c2', c3, hget2, h3⟩ := M.bind_ok h2
    obtain ⟨e1, e2⟩ := get_ok hget2
    subst e1 e2
    obtain ⟨u', c4, hmod, h4⟩ := M.bind_ok h3
    obtain ⟨e3, e4⟩ := pure_ok h4
    subst e3 e4
    simp only [M.modifySt, M.modify, Prod.mk.injEq, Except.ok.injEq, true_and] at hmod
    subst hmod
    constructor
    · show (WState.setTask _ _ _).sequence[_]? = _
      rw [WState.setTask_sequence]
      simp
    · exact taskIdx?_setTask _ _ _

theorem getStaged?_key (s : WState) (k : TaskKey) (sx : Staged) (h : s.getStaged? k = some sx) :
    (sx.id, sx.route) = k := by
  unfold WState.getStaged? at h
  have := List.find?_some h
  simp only [Bool.and_eq_true, beq_iff_eq] at this
  rw [this.1, this.2]

/-- phase 1 for an engine-command pseudo task: the record is fresh -/
theorem ensureRecord_cmd (k : TaskKey) (s0 : Option Staged) (r0 : Option Nat) (ev : Event) (c c1 : Cond)
    (idx : Nat) (hcmd : isCmdName k.1 = true) (h : ensureRecord E k s0 r0 ev c = (.ok idx, c1)) :
    ∃ r, c1.st.sequence[idx]? = some r ∧ r.status = none := by
  unfold ensureRecord firstRecord recordFromStaged at h
  obtain ⟨i, c', h1, h2⟩ := M.bind_ok h
  have h1' : ∃ sx : Staged, addTaskState E (k.1, sx.route) sx.ctxsIn sx.prev c = (.ok i, c') := by
    cases r0 <;> simp only [hcmd] at h1 <;> (cases s0 with
      | none => cases h1
      | some sx => exact ⟨sx, h1⟩)
  obtain ⟨sx, h1'⟩ := h1'
  have hpost := addTaskState_post E _ _ _ _ _ _ h1'
  obtain ⟨c2, c3, hget, h3⟩ := M.bind_ok h2
  obtain ⟨e1, e2⟩ := get_ok hget
  subst e1 e2
  obtain ⟨r, c4, hl, h4⟩ := M.bind_ok h3
  obtain ⟨hr, e3⟩ := liftOpt_ok hl
  subst e3
  rw [hpost.1] at hr
  cases hr
  simp only [newRecord_status, Option.any_none, Bool.false_and] at h4
  obtain ⟨e4, e5⟩ := pure_ok h4
  subst e4 e5
  exact ⟨_, hpost.1, newRecord_status E _ _ _ _⟩

/-- phase 1 for an ordinary task: the returned index is the task's entry in the task-key map -/
theorem ensureRecord_taskIdx (k : TaskKey) (ev : Event) (c c1 : Cond)
    (idx : Nat) (hcmd : isCmdName k.1 = false)
    (h : ensureRecord E k (c.st.getStaged? k) (c.st.taskIdx? k) ev c = (.ok idx, c1)) :
    c1.st.taskIdx? k = some idx := by
  unfold ensureRecord firstRecord recordFromStaged at h
  obtain ⟨i, c', h1, h2⟩ := M.bind_ok h
  obtain ⟨c2, c3, hget, h3⟩ := M.bind_ok h2
  obtain ⟨e1, e2⟩ := get_ok hget
  subst e1 e2
  obtain ⟨r, c4, hl, h4⟩ := M.bind_ok h3
  obtain ⟨hr, e3⟩ := liftOpt_ok hl
  subst e3
  cases hr0 : c.st.taskIdx? k with
  | some i0 =>
    rw [hr0] at h1
    simp only [hcmd] at h1
    obtain ⟨e4, e5⟩ := pure_ok h1
    subst e4 e5
    split at h4
    · cases hs0 : c.st.getStaged? k with
      | none => rw [hs0] at h4; cases h4
      | some sx =>
        rw [hs0] at h4
        have hpost := addTaskState_post E _ _ _ _ _ _ h4
        have hk := getStaged?_key _ _ _ hs0
        have hkey : (k.1, sx.route) = k := by rw [← hk]
        rw [hkey] at hpost
        exact hpost.2
    · obtain ⟨e6, e7⟩ := pure_ok h4
      subst e6 e7
      exact hr0
  | none =>
    rw [hr0] at h1
    simp only [hcmd] at h1
    cases hs0 : c.st.getStaged? k with
    | none => rw [hs0] at h1; cases h1
    | some sx =>
      rw [hs0] at h1 h4
      have hpost := addTaskState_post E _ _ _ _ _ _ h1
      have hk := getStaged?_key _ _ _ hs0
      have hkey : (k.1, sx.route) = k := by rw [← hk]
      rw [hkey] at hpost
      rw [hpost.1] at hr
      cases hr
      simp only [newRecord_status, Option.any_none, Bool.false_and] at h4
      obtain ⟨e6, e7⟩ := pure_ok h4
      subst e6 e7
      exact hpost.2

/-! ### the retry event carries its licence -/

/-- what must hold when `update_task_state` is entered with event `ev` for task `k`: the engine's
    retry event comes with a record on which attempts remain -/
def Pre13 (k : TaskKey) (ev : Event) (c : Cond) : Prop :=
  ev = .engine .retry_ → (isCmdName k.1 = true ∨ ∃ i, c.st.taskIdx? k = some i ∧ CanBump c i)

theorem inv_bind {α β} (m : M α) (f : α → M β) (c : Cond)
    (hm : Inv13 (m c).2) (hq : ∀ a c1, m c = (.ok a, c1) → Inv13 (f a c1).2) : Inv13 ((m >>= f) c).2 := by
  rw [M.bind_run]
  cases h : m c with
  | mk res c1 =>
    rw [h] at hm
    cases res with
    | ok a => exact hq a c1 h
    | error e => exact hm

theorem liftOpt_state {α} (o : Option α) (e : Err) (c : Cond) : (liftOpt o e c).2 = c := by
  cases o <;> rfl

theorem ensureRecord_retry_inv (k : TaskKey) (s0 : Option Staged) (i0 : Nat) (ev : Event) (c c1 : Cond) (idx : Nat)
    (hcmd : isCmdName k.1 = false) (hstart : ev.status.isStarting = false)
    (h : ensureRecord E k s0 (some i0) ev c = (.ok idx, c1)) : i0 = idx ∧ c = c1 := by
  unfold ensureRecord firstRecord recordFromStaged at h
  obtain ⟨i, c', h1, h2⟩ := M.bind_ok h
  simp only [hcmd] at h1
  obtain ⟨e1, e2⟩ := pure_ok h1
  subst e1 e2
  obtain ⟨c2, c3, hget, h3⟩ := M.bind_ok h2
  obtain ⟨e3, e4⟩ := get_ok hget
  subst e3 e4
  obtain ⟨r, c4, hl, h4⟩ := M.bind_ok h3
  obtain ⟨_, e5⟩ := liftOpt_ok hl
  subst e5
  simp only [hstart, Bool.and_false] at h4
  exact pure_ok h4

theorem updateHead_inv13 (k : TaskKey) (ev : Event) (c : Cond) (hinv : Inv13 c) (hpre : Pre13 k ev c) :
    Inv13 (updateHead E k ev c).2 := by
  unfold updateHead
  apply inv_bind
  · exact hinv
  intro c0 c1 hget
  obtain ⟨e1, e2⟩ := get_ok hget
  subst e1 e2
  split
  · exact hinv
  apply inv_bind
  · rw [liftOpt_state]; exact hinv
  intro ts c2 hl
  obtain ⟨_, e3⟩ := liftOpt_ok hl
  subst e3
  split
  · exact hinv
  have hI1 := (ensureRecord_inv13 E k (c.st.getStaged? k) (c.st.taskIdx? k) ev).run c hinv
  apply inv_bind
  · exact hI1
  intro idx c1 h1
  rw [h1] at hI1
  have hI2 := (noteEvent_inv13 k (c.st.getStaged? k) ev).run c1 hI1
  have hsq := (noteEvent_sq k (c.st.getStaged? k) ev).run c1
  apply inv_bind
  · exact hI2
  intro u c2 h2
  rw [h2] at hI2 hsq
  have hpre2 : ev = .engine .retry_ → ∀ r, c2.st.sequence[idx]? = some r →
      (r.status = some .succeeded ∨ r.status = some .failed) → CanBumpRec r := by
    intro hev r hr hst
    rw [hsq.1] at hr
    cases hcmd : isCmdName k.1 with
    | true =>
      obtain ⟨r1, hr1, hs1⟩ := ensureRecord_cmd E k _ _ ev c c1 idx hcmd h1
      rw [hr1] at hr
      cases hr
      rw [hs1] at hst
      rcases hst with hst | hst <;> cases hst
    | false =>
      rcases hpre hev with hc | ⟨i0, hi0, hcan⟩
      · rw [hcmd] at hc; cases hc
      · rw [hi0] at h1
        have hstart : ev.status.isStarting = false := by subst hev; rfl
        obtain ⟨e4, e5⟩ := ensureRecord_retry_inv E k _ i0 ev c c1 idx hcmd hstart h1
        subst e4 e5
        exact hcan r hr
  have hI3 := machineStep_inv13 k idx ev c2 hI2 hpre2
  apply inv_bind
  · exact hI3
  intro p c3 h3
  rw [h3] at hI3
  exact hI3

theorem updateHead_taskIdx (k : TaskKey) (ev : Event) (c c4 : Cond) (h : Stepped)
    (hrun : updateHead E k ev c = (.ok h, c4)) (hcmd : isCmdName k.1 = false) :
    c4.st.taskIdx? k = some h.idx := by
  unfold updateHead at hrun
  rw [M.bind_run] at hrun
  simp only [M.get] at hrun
  split at hrun
  · cases hrun
  obtain ⟨ts, c2, hl, h2⟩ := M.bind_ok hrun
  obtain ⟨_, e3⟩ := liftOpt_ok hl
  subst e3
  split at h2
  · cases h2
  obtain ⟨idx, c1, h1, h3⟩ := M.bind_ok h2
  have ht1 := ensureRecord_taskIdx E k ev c c1 idx hcmd h1
  obtain ⟨u, c2, hn, h4⟩ := M.bind_ok h3
  have hsq := (noteEvent_sq k (c.st.getStaged? k) ev).run c1
  rw [hn] at hsq
  obtain ⟨p, c3, hm, h5⟩ := M.bind_ok h4
  have htk := (machineStep_tasks k idx ev).run c2
  rw [hm] at htk
  obtain ⟨e6, e7⟩ := pure_ok h5
  subst e6 e7
  show WState.taskIdx? _ k = some idx
  unfold WState.taskIdx? at ht1 ⊢
  have e : c3.st.tasks = c1.st.tasks := htk.trans hsq.2
  rw [e]
  exact ht1

theorem completedRetryDecision_true (k : TaskKey) (idx : Nat) (ts : TaskSpec) (os ns : Status) (ev : Event)
    (c c' : Cond) (h : completedRetryDecision E k idx ts os ns ev c = (.ok true, c')) : CanBump c' idx := by
  unfold completedRetryDecision at h
  obtain ⟨u, c1, _, h1⟩ := M.bind_ok h
  obtain ⟨ec, c2, _, h2⟩ := M.bind_ok h1
  obtain ⟨c2', c3, hget, h3⟩ := M.bind_ok h2
  obtain ⟨e1, e2⟩ := get_ok hget
  subst e1 e2
  obtain ⟨r, c4, hl, h4⟩ := M.bind_ok h3
  obtain ⟨hr, e3⟩ := liftOpt_ok hl
  subst e3
  dsimp only at h4
  generalize hdec : (if (ns != os && c2.st.status.isActive) = true then evaluateTaskRetry E r ec else Except.ok false : Except Err Bool) = dec at h4
  cases dec with
  | ok b =>
    obtain ⟨e4, e5⟩ := pure_ok h4
    subst e4 e5
    split at hdec
    · obtain ⟨rs, n, hrs, hcount, hlt⟩ := C13_retry_requires_tally_below_count E r ec hdec
      intro r' hr' rs' n' h1' h2'
      rw [hr] at hr'
      cases hr'
      rw [hrs] at h1'
      cases h1'
      rw [hcount] at h2'
      cases h2'
      exact hlt
    · cases hdec
  | error e =>
    obtain ⟨_, c5, _, h5⟩ := M.bind_ok h4
    obtain ⟨_, c6, _, h6⟩ := M.bind_ok h5
    obtain ⟨e6, _⟩ := pure_ok h6
    cases e6

/-- the decision phase asks for a retry only when the event changed the record's status -/
theorem completedRetryDecision_changed (k : TaskKey) (idx : Nat) (ts : TaskSpec) (os ns : Status) (ev : Event)
    (c c' : Cond) (h : completedRetryDecision E k idx ts os ns ev c = (.ok true, c')) : ns ≠ os := by
  unfold completedRetryDecision at h
  obtain ⟨u, c1, _, h1⟩ := M.bind_ok h
  obtain ⟨ec, c2, _, h2⟩ := M.bind_ok h1
  obtain ⟨c2', c3, hget, h3⟩ := M.bind_ok h2
  obtain ⟨e1, e2⟩ := get_ok hget
  subst e1 e2
  obtain ⟨r, c4, hl, h4⟩ := M.bind_ok h3
  obtain ⟨hr, e3⟩ := liftOpt_ok hl
  subst e3
  dsimp only at h4
  generalize hdec : (if (ns != os && c2.st.status.isActive) = true then evaluateTaskRetry E r ec else Except.ok false : Except Err Bool) = dec at h4
  cases dec with
  | ok b =>
    obtain ⟨e4, e5⟩ := pure_ok h4
    subst e4 e5
    split at hdec
    · rename_i hcond
      simp only [Bool.and_eq_true] at hcond
      have h1 := hcond.1
      intro he
      subst he
      revert h1
      cases ns <;> decide
    · cases hdec
  | error e =>
    obtain ⟨_, c5, _, h5⟩ := M.bind_ok h4
    obtain ⟨_, c6, _, h6⟩ := M.bind_ok h5
    obtain ⟨e6, _⟩ := pure_ok h6
    cases e6

theorem updateRest_inv13 (recur : TaskKey → Event → M Unit)
    (hrec : ∀ nk cmd, Cmd.ofStr? nk.1 = some cmd → Rel inv13Pre (recur nk (.engine cmd)))
    (k ev h) : Rel inv13Pre (updateRest E recur k ev h) := by
  unfold updateRest
  inv13_walk [hrec _ _ (by assumption), evalTransitions_inv13 E _ _ _ _, markTermIfCompleted_inv13 _]

theorem updateTail_inv13 (recur : TaskKey → Event → M Unit)
    (hrec : ∀ k ev c, Inv13 c → Pre13 k ev c → Inv13 (recur k ev c).2)
    (k : TaskKey) (ev : Event) (h : Stepped) (c : Cond) (hinv : Inv13 c)
    (hidx : isCmdName k.1 = false → c.st.taskIdx? k = some h.idx) :
    Inv13 (updateTail E recur k ev h c).2 := by
  unfold updateTail
  have hm1 : Rel inv13Pre (if h.newStatus.isCompleted then completedRetryDecision E k h.idx h.ts h.oldStatus h.newStatus ev
      else pure false : M Bool) := by
    split
    · exact completedRetryDecision_inv13 E _ _ _ _ _ _
    · exact Rel.pure _
  have hm1k : Rel rkPre (if h.newStatus.isCompleted then completedRetryDecision E k h.idx h.ts h.oldStatus h.newStatus ev
      else pure false : M Bool) := by
    split
    · exact completedRetryDecision_rk E _ _ _ _ _ _
    · exact Rel.pure _
  have hI5 := hm1.run c hinv
  have hk5 := hm1k.run c
  apply inv_bind
  · exact hI5
  intro retry c5 h5
  rw [h5] at hI5 hk5
  cases retry with
  | false =>
    apply (updateRest_inv13 E recur _ k ev h).run c5 hI5
    intro nk cmd hcmd
    constructor
    intro s hs
    apply hrec nk _ s hs
    intro _
    left
    unfold isCmdName
    rw [hcmd]
    rfl
  | true =>
    apply hrec k _ c5 hI5
    intro _
    cases hcmd : isCmdName k.1 with
    | true => left; rfl
    | false =>
      right
      refine ⟨h.idx, ?_, ?_⟩
      · have := hidx hcmd
        unfold WState.taskIdx? at this ⊢
        rw [hk5.2]
        exact this
      · split at h5
        · exact completedRetryDecision_true E _ _ _ _ _ _ _ _ h5
        · obtain ⟨e, _⟩ := pure_ok h5
          cases e

theorem updateTaskStateAux_inv13 (fuel : Nat) (k : TaskKey) (ev : Event) (c : Cond) (hinv : Inv13 c)
    (hpre : Pre13 k ev c) : Inv13 (updateTaskStateAux E fuel k ev c).2 := by
  induction fuel generalizing k ev c with
  | zero => unfold updateTaskStateAux; exact hinv
  | succ n ih =>
    unfold updateTaskStateAux
    have hI := updateHead_inv13 E k ev c hinv hpre
    apply inv_bind
    · exact hI
    intro h c4 h4
    rw [h4] at hI
    apply updateTail_inv13 E _ (fun k ev c hi hp => ih k ev c hi hp) k ev h c4 hI
    intro hcmd
    exact updateHead_taskIdx E k ev c c4 h h4 hcmd

end Orq
