/-
C06, completeness for the predecessors an entry names: the snapshot a predecessor published on the
transition into a task is listed by the staged entry (and the record) of that task that names the
predecessor.  Together with `Inherit.lean` (what the predecessor *saw* is listed): a task is
rendered from everything each predecessor it names saw or published on the way.
-/
import OrqModel.Proofs.LogKeep
import OrqModel.Proofs.Inherit

namespace Orq

variable (E : Evaluator)

/-- for an entry of task `id`: whatever a named predecessor published on its transition into `id`
    is among the listed snapshots -/
def PubOk (c : Cond) (id : String) (prev : List (TransId × Nat)) (ctxs : List Nat) : Prop :=
  ∀ p ∈ prev, ∀ i, (p.2, ((id, p.1.2) : TransId), i) ∈ c.st.pubLog → i ∈ ctxs

structure PL (c : Cond) : Prop where
  staged : ∀ x ∈ c.st.staged, PubOk c x.id x.prev x.ctxsIn
  recs : ∀ r ∈ c.st.sequence, PubOk c r.id r.prev r.ctxsIn
  logged : ∀ m ∈ c.st.pubLog, Recorded c m.1 (m.2.1, true)

theorem PubOk.same {c c' : Cond} (hl : c'.st.pubLog = c.st.pubLog) {id : String} {prev : List (TransId × Nat)}
    {ctxs : List Nat} (h : PubOk c id prev ctxs) : PubOk c' id prev ctxs := by
  intro p hp i hi
  rw [hl] at hi
  exact h p hp i hi

theorem PL.of_parts {c c' : Cond} (hm : MK c c') (he : c.st.Ext c'.st) (hl : c'.st.pubLog = c.st.pubLog) (hj : PL c)
    (hs : ∀ x' ∈ c'.st.staged, (∃ x ∈ c.st.staged, x'.prev = x.prev ∧ x'.id = x.id ∧ x'.ctxsIn = x.ctxsIn) ∨
      PubOk c' x'.id x'.prev x'.ctxsIn)
    (hr : ∀ (i : Nat) (r' : Rec), c'.st.sequence[i]? = some r' → c.st.sequence.length ≤ i →
      PubOk c' r'.id r'.prev r'.ctxsIn) : PL c' := by
  refine ⟨?_, ?_, ?_⟩
  · intro x' hx'
    rcases hs x' hx' with ⟨x, hx, e1, e2, e3⟩ | h
    · rw [e1, e2, e3]; exact (hj.staged x hx).same hl
    · exact h
  · intro r' hr'
    obtain ⟨i, hi⟩ := List.getElem?_of_mem hr'
    by_cases hlen : c.st.sequence.length ≤ i
    · exact hr i r' hi hlen
    · have hlt : i < c.st.sequence.length := Nat.lt_of_not_le hlen
      have hr0 : c.st.sequence[i]? = some c.st.sequence[i] := List.getElem?_eq_getElem hlt
      obtain ⟨r'', hr'', hc⟩ := Ext.getElem_core he hr0
      rw [hi] at hr''
      cases hr''
      rw [Rec.core_id hc, Rec.core_prev hc, Rec.core_ctxsIn hc]
      exact (hj.recs _ (List.mem_of_getElem? hr0)).same hl
  · intro m hm'
    rw [hl] at hm'
    exact (hj.logged m hm').mono hm

theorem PL.step {c c' : Cond} (hm : MK c c') (he : c.st.Ext c'.st) (hp : PrevStep c c')
    (hl : c'.st.pubLog = c.st.pubLog) (hj : PL c) : PL c' := by
  apply PL.of_parts hm he hl hj
  · intro x' hx'
    exact Or.inl (hp.staged x' hx')
  · intro i r' hi hlen
    obtain ⟨r, hr, _⟩ := hp.recs i r' hi
    have := (List.getElem?_eq_some_iff.mp hr).1
    omega

theorem PL.uniform {α} {m : M α} (h1 : Rel nxaPre m) (h2 : Rel extPre m) (h3 : Rel prevPre m) (h4 : Rel logPre m)
    (c : Cond) (hj : PL c) : PL (m c).2 :=
  PL.step (h1.run c).toMK (h2.run c) (h3.run c) (h4.run c) hj

theorem pl_bind {α β} (m : M α) (f : α → M β) (c : Cond)
    (hm : PL (m c).2) (hf : ∀ a c1, m c = (.ok a, c1) → PL (f a c1).2) : PL ((m >>= f) c).2 := by
  rw [M.bind_run]
  cases h : m c with
  | mk res c1 =>
    rw [h] at hm
    cases res with
    | ok a => exact hf a c1 h
    | error e => exact hm

theorem Rel.log_ok {α} {m : M α} (h : Rel logPre m) {c c1 : Cond} {r : Except Err α} (hrun : m c = (r, c1)) :
    c1.st.pubLog = c.st.pubLog := by
  have := h.run c
  rw [hrun] at this
  exact this

theorem Rel.mk_ok {α} {m : M α} (h : Rel nxaPre m) {c c1 : Cond} {r : Except Err α} (hrun : m c = (r, c1)) :
    MK c c1 := by
  have := (h.run c).toMK
  rw [hrun] at this
  exact this

theorem pl_ok {α} {m : M α} (h1 : Rel nxaPre m) (h2 : Rel extPre m) (h3 : Rel prevPre m) (h4 : Rel logPre m)
    {c c1 : Cond} {r : Except Err α} (hj : PL c) (hrun : m c = (r, c1)) : PL c1 := by
  have := PL.uniform h1 h2 h3 h4 c hj
  rw [hrun] at this
  exact this

/-! ### staging -/

theorem stageTarget_pl (nk : TaskKey) (backref : TransId) (idx : Nat) (outIdxs : List Nat) (c : Cond)
    (hj : PL c) (hin : IN c)
    (hnew : ∀ i, (idx, ((nk.1, backref.2) : TransId), i) ∈ c.st.pubLog → i ∈ outIdxs) :
    PL (stageTarget nk backref idx outIdxs c).2 := by
  unfold stageTarget
  rw [M.bind_run]
  simp only [M.get]
  cases hg : c.st.getStaged? nk with
  | some x0 =>
    dsimp only
    rw [M.bind_run]
    cases he : eraseFirst outIdxs 0 with
    | none => exact hj
    | some rest =>
      simp only [liftOpt, pure, M.pure', M.modifySt, M.modify]
      have hrest : ∀ i ∈ outIdxs, i = 0 ∨ i ∈ rest := by
        intro i hi
        unfold eraseFirst at he
        split at he
        · cases he
          by_cases h0 : i = 0
          · exact Or.inl h0
          · right
            exact (List.mem_erase_of_ne h0).mpr hi
        · cases he
      refine PL.of_parts ?mk1 ?ext1 ?log1 hj ?_ ?_
      case log1 => rfl
      case mk1 => exact ⟨fun i r m hr hm => ⟨r, hr, hm⟩⟩
      case ext1 => exact Ext.of_eq rfl rfl rfl rfl
      · intro x' hx'
        rcases mem_updateStaged_go_key _ _ _ _ hx' with h | ⟨x, hx, hid, ex⟩
        · left; exact ⟨x', h, rfl, rfl, rfl⟩
        · right
          rw [ex]
          apply PubOk.same (c := c) rfl
          intro p hp i hi
          rcases mem_setAssoc_eq _ _ _ _ hp with hp' | hp'
          · exact List.mem_append_left _ (hj.staged x hx p hp' i hi)
          · rw [hp'] at hi
            have hi' : (idx, ((nk.1, backref.2) : TransId), i) ∈ c.st.pubLog := by
              rw [← hid]; exact hi
            rcases hrest i (hnew i hi') with h0 | h0
            · rw [h0]; exact List.mem_append_left _ (hin.staged x hx).1
            · exact List.mem_append_right _ h0
      · intro i r' hr' hlen
        have h2 : i < c.st.sequence.length := (List.getElem?_eq_some_iff.mp hr').1
        have h3 : c.st.sequence.length ≤ i := hlen
        omega
  | none =>
    simp only [M.modifySt, M.modify]
    refine PL.of_parts ?mk1 ?ext1 ?log1 hj ?_ ?_
    case log1 => rfl
    case mk1 => exact ⟨fun i r m hr hm => ⟨r, hr, hm⟩⟩
    case ext1 => exact Ext.of_eq rfl rfl rfl rfl
    · intro x' hx'
      rcases List.mem_append.mp hx' with h | h
      · left; exact ⟨x', h, rfl, rfl, rfl⟩
      · right
        simp only [List.mem_singleton] at h
        subst h
        apply PubOk.same (c := c) rfl
        intro p hp i hi
        simp only [List.mem_singleton] at hp
        subst hp
        have hio := hnew i hi
        show i ∈ (if outIdxs.isEmpty then [0] else outIdxs)
        have hne : outIdxs.isEmpty = false := by
          cases outIdxs with
          | nil => cases hio
          | cons _ _ => rfl
        rw [hne]
        exact hio
    · intro i r' hr' hlen
      have h2 : i < c.st.sequence.length := (List.getElem?_eq_some_iff.mp hr').1
      have h3 : c.st.sequence.length ≤ i := hlen
      omega

theorem stageNext_pl (k : TaskKey) (idx : Nat) (e : Edge) (outIdxs : List Nat) (acc : TransAcc) (c : Cond)
    (hj : PL c) (hin : IN c)
    (hnew : ∀ i, (idx, ((e.dst, e.key) : TransId), i) ∈ c.st.pubLog → i ∈ outIdxs) :
    PL (stageNext k idx e outIdxs acc c).2 := by
  unfold stageNext
  apply pl_bind
  · exact PL.uniform (evaluateRoute_nxa e k.2) (evaluateRoute_ext e k.2) (evaluateRoute_prev e k.2) (evaluateRoute_log e k.2) c hj
  intro nextRoute c1 h1
  have hj1 := pl_ok (evaluateRoute_nxa e k.2) (evaluateRoute_ext e k.2) (evaluateRoute_prev e k.2) (evaluateRoute_log e k.2) hj h1
  have hl1 := (evaluateRoute_log e k.2).log_ok h1
  have hin1 := (JN.of_rel (evaluateRoute_ext e k.2) (evaluateRoute_prev e k.2)).run_ok hin h1
  have hj2 := stageTarget_pl (e.dst, nextRoute) (k.1, e.key) idx outIdxs c1 hj1 hin1
    (fun i hi => hnew i (by rw [hl1] at hi; exact hi))
  apply pl_bind
  · exact hj2
  intro u c2 h2
  rw [h2] at hj2
  exact PL.uniform (m := (do
      let c ← M.get
      let ready := inboundStatus c e.dst k.2 == .satisfied
      M.modifySt fun st => st.updateStaged (e.dst, nextRoute) fun x => { x with ready := ready }
      if (Cmd.ofStr? e.dst).isSome then
        pure { acc with queue := acc.queue ++ [(e.dst, nextRoute)], manualFail := acc.manualFail || e.dst == "fail" }
      else if ready then pure { acc with readyKeys := acc.readyKeys ++ [(e.dst, nextRoute)] }
      else pure acc : M TransAcc)) (by nxa_walk []) (by ext_walk []) (by prev_walk []) (by log_walk []) c2 hj2

/-- nobody names record `idx` as the source of transition `tid` yet -/
structure NoRef (c : Cond) (idx : Nat) (tid : TransId) : Prop where
  staged : ∀ x ∈ c.st.staged, ∀ p ∈ x.prev, p.2 = idx → ((x.id, p.1.2) : TransId) ≠ tid
  recs : ∀ r ∈ c.st.sequence, ∀ p ∈ r.prev, p.2 = idx → ((r.id, p.1.2) : TransId) ≠ tid

theorem fireTransition_pl (k : TaskKey) (idx : Nat) (ec : EvalCtx) (acc : TransAcc) (e : Edge) (c : Cond)
    (hj : PL c) (hin : IN c) (ht : Recorded c idx ((e.dst, e.key), true))
    (hnoref : NoRef c idx (e.dst, e.key)) (hnolog : ∀ i, (idx, ((e.dst, e.key) : TransId), i) ∉ c.st.pubLog) :
    PL (fireTransition E k idx ec acc e c).2 := by
  unfold fireTransition
  rw [M.bind_run]
  simp only [M.get]
  apply pl_bind
  · rw [liftOpt_state]; exact hj
  intro ts c1 h1
  obtain ⟨_, e1⟩ := liftOpt_ok h1
  subst e1
  apply pl_bind
  · rw [liftOpt_state]; exact hj
  intro tr c2 h2
  obtain ⟨_, e2⟩ := liftOpt_ok h2
  subst e2
  generalize renderSeq E _ _ _ = rs
  obtain ⟨ra, newCtx, nerr⟩ := rs
  dsimp only
  by_cases hn : nerr > 0
  · rw [if_pos hn]
    exact PL.uniform (by nxa_walk [failOnError_nxa, logError_nxa _ _ _ _]) (by ext_walk [failOnError_ext])
      (by prev_walk [failOnError_prev, logError_prev _ _ _ _]) (by log_walk [failOnError_log]) c hj
  · rw [if_neg hn]
    apply pl_bind
    · rw [liftOpt_state]; exact hj
    intro r c3 h3
    obtain ⟨hr, e3⟩ := liftOpt_ok h3
    subst e3
    by_cases hempty : newCtx.isEmpty = true
    · rw [if_pos hempty, if_pos hempty]
      rw [M.bind_run]
      simp only [pure, M.pure']
      exact stageNext_pl k idx e _ acc c hj hin (fun i hi => absurd hi (hnolog i))
    · rw [if_neg hempty, if_neg hempty]
      rw [M.bind_run]
      simp only [M.modifySt, M.modify]
      show PL (stageNext k idx e (r.ctxsIn ++ [c.st.contexts.length]) acc
        { c with st := pubStep c.st newCtx idx (e.dst, e.key) c.st.contexts.length }).2
      have hm4 : MK c { c with st := pubStep c.st newCtx idx (e.dst, e.key) c.st.contexts.length } :=
        ((pubStep_nxa newCtx idx (e.dst, e.key) c.st.contexts.length).run c).toMK
      have he4 : c.st.Ext (pubStep c.st newCtx idx (e.dst, e.key) c.st.contexts.length) :=
        Ext.appendCtx _ _ _ _ _ (fun _ => rfl)
      have hp4 := (pubStep_prev newCtx idx (e.dst, e.key) c.st.contexts.length).run c
      have hin4 : IN { c with st := pubStep c.st newCtx idx (e.dst, e.key) c.st.contexts.length } :=
        IN.step he4 hp4 hin
      have hlog4 : ({ c with st := pubStep c.st newCtx idx (e.dst, e.key) c.st.contexts.length } : Cond).st.pubLog
          = c.st.pubLog ++ [(idx, ((e.dst, e.key) : TransId), c.st.contexts.length)] := rfl
      have hj4 : PL { c with st := pubStep c.st newCtx idx (e.dst, e.key) c.st.contexts.length } := by
        refine ⟨?_, ?_, ?_⟩
        · intro x' hx'
          obtain ⟨x, hx, e1, e2, e3⟩ := hp4.staged x' hx'
          intro p hp i hi
          rw [hlog4] at hi
          rcases List.mem_append.mp hi with hi' | hi'
          · rw [e3]
            rw [e1] at hp
            rw [e2] at hi'
            exact hj.staged x hx p hp i hi'
          · exfalso
            simp only [List.mem_singleton, Prod.mk.injEq] at hi'
            rw [e1] at hp
            apply hnoref.staged x hx p hp hi'.1
            rw [← e2]
            exact Prod.ext hi'.2.1.1 hi'.2.1.2
        · intro r' hr'
          obtain ⟨i0, hi0⟩ := List.getElem?_of_mem hr'
          obtain ⟨r0, hr0, e1⟩ := hp4.recs i0 r' hi0
          obtain ⟨r'', hr'', hc⟩ := Ext.getElem_core he4 hr0
          rw [hi0] at hr''
          cases hr''
          intro p hp i hi
          rw [hlog4] at hi
          rcases List.mem_append.mp hi with hi' | hi'
          · rw [Rec.core_ctxsIn hc]
            rw [Rec.core_prev hc] at hp
            rw [Rec.core_id hc] at hi'
            exact hj.recs r0 (List.mem_of_getElem? hr0) p hp i hi'
          · exfalso
            simp only [List.mem_singleton, Prod.mk.injEq] at hi'
            rw [Rec.core_prev hc] at hp
            apply hnoref.recs r0 (List.mem_of_getElem? hr0) p hp hi'.1
            rw [← Rec.core_id hc]
            exact Prod.ext hi'.2.1.1 hi'.2.1.2
        · intro m hm
          rw [hlog4] at hm
          rcases List.mem_append.mp hm with hm' | hm'
          · exact (hj.logged m hm').mono hm4
          · simp only [List.mem_singleton] at hm'
            subst hm'
            exact ht.mono hm4
      apply stageNext_pl k idx e _ acc _ hj4 hin4
      intro i hi
      rw [hlog4] at hi
      rcases List.mem_append.mp hi with hi' | hi'
      · exact absurd hi' (hnolog i)
      · simp only [List.mem_singleton, Prod.mk.injEq] at hi'
        rw [hi'.2.2]
        exact List.mem_append_right _ (List.mem_singleton.mpr rfl)

theorem NoRef.of_fresh {c : Cond} {idx : Nat} {tid : TransId} (hjt : JT c) (hfresh : FreshAt c idx tid) :
    NoRef c idx tid := by
  refine ⟨?_, ?_⟩
  · intro x hx p hp hidx heq
    obtain ⟨q, hq, hm⟩ := hjt.staged x hx p hp
    rw [hidx] at hq
    exact hfresh q hq _ hm heq
  · intro r hr p hp hidx heq
    obtain ⟨q, hq, hm⟩ := hjt.recs r hr p hp
    rw [hidx] at hq
    exact hfresh q hq _ hm heq

theorem processTransition_pl (k : TaskKey) (idx : Nat) (ec : EvalCtx) (acc : TransAcc) (e : Edge) (c : Cond)
    (hj : PL c) (hin : IN c) (hjt : JT c) (hfresh : FreshAt c idx (e.dst, e.key)) :
    PL (processTransition E k idx ec acc e c).2 := by
  have hnoref := NoRef.of_fresh hjt hfresh
  have hnolog : ∀ i, (idx, ((e.dst, e.key) : TransId), i) ∉ c.st.pubLog := by
    intro i hi
    obtain ⟨q, hq, hm⟩ := hj.logged _ hi
    exact hfresh q hq _ hm rfl
  unfold processTransition
  cases transCriteria E e ec with
  | none =>
    dsimp only
    exact PL.uniform (by nxa_walk [failOnError_nxa, logError_nxa _ _ _ _]) (by ext_walk [failOnError_ext])
      (by prev_walk [failOnError_prev, logError_prev _ _ _ _]) (by log_walk [failOnError_log]) c hj
  | some b =>
    dsimp only
    rw [M.bind_run]
    simp only [M.modifySt, M.modify]
    have hmk : MK c ({ c with st := c.st.updateRec idx fun r => { r with next := setAssoc r.next (e.dst, e.key) b } } : Cond) := by
      constructor
      intro i r m hr hm
      by_cases hi : i = idx
      · subst hi
        refine ⟨{ r with next := setAssoc r.next (e.dst, e.key) b }, ?_, ?_⟩
        · show (c.st.sequence.modify i _)[i]? = _
          rw [getElem?_modify_same, hr]
          rfl
        · show m ∈ setAssoc r.next (e.dst, e.key) b
          rw [setAssoc_fresh _ _ _ (hfresh r hr)]
          exact List.mem_append_left _ hm
      · refine ⟨r, ?_, hm⟩
        show (c.st.sequence.modify idx _)[i]? = some r
        rw [getElem?_modify_ne _ _ _ _ hi]
        exact hr
    have hext : c.st.Ext (c.st.updateRec idx fun r => { r with next := setAssoc r.next (e.dst, e.key) b }) :=
      Ext.updateRec _ _ _ (fun _ => rfl)
    have hprev := (show Rel prevPre (M.modifySt fun st => st.updateRec idx fun r => { r with next := setAssoc r.next (e.dst, e.key) b }) by
        prev_walk []).run c
    have hj1 : PL ({ c with st := c.st.updateRec idx fun r => { r with next := setAssoc r.next (e.dst, e.key) b } } : Cond) :=
      PL.step hmk hext hprev rfl hj
    have hin1 : IN ({ c with st := c.st.updateRec idx fun r => { r with next := setAssoc r.next (e.dst, e.key) b } } : Cond) :=
      IN.step hext hprev hin
    cases b with
    | false => exact hj1
    | true =>
      rw [if_neg (by decide)]
      cases hq : c.st.sequence[idx]? with
      | none =>
        unfold fireTransition
        rw [M.bind_run]
        simp only [M.get]
        apply pl_bind
        · rw [liftOpt_state]; exact hj1
        intro ts c1 h1
        obtain ⟨_, e1⟩ := liftOpt_ok h1
        subst e1
        apply pl_bind
        · rw [liftOpt_state]; exact hj1
        intro tr c2 h2
        obtain ⟨_, e2⟩ := liftOpt_ok h2
        subst e2
        generalize renderSeq E _ _ _ = rs
        obtain ⟨ra, newCtx, nerr⟩ := rs
        dsimp only
        by_cases hn : nerr > 0
        · rw [if_pos hn]
          exact PL.uniform (by nxa_walk [failOnError_nxa, logError_nxa _ _ _ _]) (by ext_walk [failOnError_ext])
            (by prev_walk [failOnError_prev, logError_prev _ _ _ _]) (by log_walk [failOnError_log]) _ hj1
        · rw [if_neg hn]
          apply pl_bind
          · rw [liftOpt_state]; exact hj1
          intro r c3 h3
          obtain ⟨hr3, _⟩ := liftOpt_ok h3
          exfalso
          have : (c.st.sequence.modify idx fun r => { r with next := setAssoc r.next (e.dst, e.key) true })[idx]? = some r := hr3
          rw [getElem?_modify_same, hq] at this
          cases this
      | some q =>
        apply fireTransition_pl E k idx ec acc e _ hj1 hin1
        · refine ⟨{ q with next := setAssoc q.next (e.dst, e.key) true }, ?_, ?_⟩
          · show (c.st.sequence.modify idx _)[idx]? = _
            rw [getElem?_modify_same, hq]
            rfl
          · show ((e.dst, e.key), true) ∈ setAssoc q.next (e.dst, e.key) true
            rw [setAssoc_fresh _ _ _ (hfresh q hq)]
            exact List.mem_append_right _ (List.mem_singleton.mpr rfl)
        · -- nobody names the record as the source of this transition: staged entries are untouched,
          -- records keep their predecessor lists
          refine ⟨hnoref.staged, ?_⟩
          intro r' hr' p hp hidx
          obtain ⟨i0, hi0⟩ := List.getElem?_of_mem hr'
          obtain ⟨r0, hr0, e1⟩ := hprev.recs i0 r' hi0
          obtain ⟨r'', hr'', hc⟩ := Ext.getElem_core hext hr0
          have hi0' : (c.st.updateRec idx fun r => { r with next := setAssoc r.next (e.dst, e.key) true }).sequence[i0]? = some r' := hi0
          rw [hi0'] at hr''
          cases hr''
          rw [Rec.core_prev hc] at hp
          rw [Rec.core_id hc]
          exact hnoref.recs r0 (List.mem_of_getElem? hr0) p hp hidx
        · exact hnolog

theorem evalFold_pl (k : TaskKey) (idx : Nat) (ec : EvalCtx) :
    ∀ (ts : List Edge) (acc : TransAcc) (c : Cond),
      (ts.map fun e => ((e.dst, e.key) : String × Nat)).Nodup → PL c → IN c → JT c → CompAt c idx →
      (∀ e ∈ ts, FreshAt c idx (e.dst, e.key)) →
      PL (M.foldM' ts acc (processTransition E k idx ec) c).2 := by
  intro ts
  induction ts with
  | nil => intro acc c _ hj _ _ _ _; exact hj
  | cons e rest ih =>
    intro acc c hnd hj hin hjt hcomp hfresh
    show PL (M.bind' (processTransition E k idx ec acc e) (fun b' => M.foldM' rest b' (processTransition E k idx ec)) c).2
    unfold M.bind'
    have h1 := processTransition_pl E k idx ec acc e c hj hin hjt (hfresh e List.mem_cons_self)
    have h1t := processTransition_jt E k idx ec acc e c hjt (hfresh e List.mem_cons_self)
    have h1n := (processTransition_jn E k idx ec acc e).run c hin
    have hc1 := ((processTransition_at E k idx ec acc e).run c hcomp).1
    have hkeys := processTransition_keys E k idx ec acc e c
    cases hr : processTransition E k idx ec acc e c with
    | mk res c1 =>
      rw [hr] at h1 h1t h1n hc1 hkeys
      cases res with
      | error err => exact h1
      | ok acc' =>
        simp only [List.map_cons, List.nodup_cons] at hnd
        apply ih acc' c1 hnd.2 h1 h1n h1t hc1
        intro e' he' q1 hq1 m hm
        obtain ⟨q, hq, _⟩ := hcomp
        rcases hkeys q hq q1 hq1 m hm with h | h
        · exact hfresh e' (List.mem_cons_of_mem _ he') q hq m h
        · rw [h]
          intro heq
          apply hnd.1
          rw [heq]
          exact List.mem_map.mpr ⟨e', he', rfl⟩

theorem evalTransitions_pl (k : TaskKey) (idx : Nat) (ts : TaskSpec) (ev : Event) (c : Cond)
    (hj : PL c) (hin : IN c) (hjt : JT c) (hcomp : CompAt c idx) (hund : Undecided c idx)
    (hkeys : KeysOk c.graph.edges) : PL (evalTransitions E k idx ts ev c).2 := by
  unfold evalTransitions
  have hd1 := (makeTaskContext_dec k idx (taskResult ts ev)).run c
  have hg1 := (makeTaskContext_g k idx (taskResult ts ev)).run c
  have hn1 := (makeTaskContext_nxa k idx (taskResult ts ev)).run c
  apply pl_bind
  · exact PL.uniform (makeTaskContext_nxa _ _ _) (makeTaskContext_ext _ _ _) (makeTaskContext_prev _ _ _)
      (makeTaskContext_log _ _ _) c hj
  intro ec c1 h1
  have hj1 := pl_ok (makeTaskContext_nxa _ _ _) (makeTaskContext_ext _ _ _) (makeTaskContext_prev _ _ _)
      (makeTaskContext_log _ _ _) hj h1
  have hin1 := (JN.of_rel (makeTaskContext_ext k idx (taskResult ts ev)) (makeTaskContext_prev _ _ _)).run_ok hin h1
  have hjt1 : JT c1 := by
    have := JT.uniform (makeTaskContext_nxa k idx (taskResult ts ev)) (makeTaskContext_ext _ _ _) (makeTaskContext_prev _ _ _) c hjt
    rw [h1] at this
    exact this
  rw [h1] at hd1 hg1 hn1
  have hcomp1 : CompAt c1 idx := CompAt.step hd1 hcomp
  have hund1 : Undecided c1 idx := by
    intro q1 hq1
    obtain ⟨q, hq, _⟩ := hcomp
    rw [hn1.back hq hq1]
    exact hund q hq
  rw [M.bind_run]
  simp only [M.get]
  have hm2d : Rel decStep (if (c1.graph.nextTransitions k.1).isEmpty then
      M.modifySt fun st => st.updateRec idx fun r => { r with term := true } else pure () : M Unit) := by
    dec_walk []
  have hm2n : Rel nxaPre (if (c1.graph.nextTransitions k.1).isEmpty then
      M.modifySt fun st => st.updateRec idx fun r => { r with term := true } else pure () : M Unit) := by
    nxa_walk []
  have hm2e : Rel extPre (if (c1.graph.nextTransitions k.1).isEmpty then
      M.modifySt fun st => st.updateRec idx fun r => { r with term := true } else pure () : M Unit) := by
    ext_walk []
  have hm2p : Rel prevPre (if (c1.graph.nextTransitions k.1).isEmpty then
      M.modifySt fun st => st.updateRec idx fun r => { r with term := true } else pure () : M Unit) := by
    prev_walk []
  have hm2l : Rel logPre (if (c1.graph.nextTransitions k.1).isEmpty then
      M.modifySt fun st => st.updateRec idx fun r => { r with term := true } else pure () : M Unit) := by
    log_walk []
  have hd2 := hm2d.run c1
  have hn2 := hm2n.run c1
  apply pl_bind
  · exact PL.uniform hm2n hm2e hm2p hm2l c1 hj1
  intro u c2 h2
  have hj2 := pl_ok hm2n hm2e hm2p hm2l hj1 h2
  have hin2 := (JN.of_rel hm2e hm2p).run_ok hin1 h2
  have hjt2 : JT c2 := by
    have := JT.uniform hm2n hm2e hm2p c1 hjt1
    rw [h2] at this
    exact this
  rw [h2] at hd2 hn2
  have hcomp2 : CompAt c2 idx := CompAt.step hd2 hcomp1
  have hund2 : Undecided c2 idx := by
    intro q2 hq2
    obtain ⟨q, hq, _⟩ := hcomp1
    rw [hn2.back hq hq2]
    exact hund1 q hq
  have hnd : ((c1.graph.nextTransitions k.1).map fun e => ((e.dst, e.key) : String × Nat)).Nodup := by
    apply nextTransitions_nodup
    rw [hg1.2]
    exact hkeys
  have hloop := evalFold_pl E k idx ec (c1.graph.nextTransitions k.1) ({} : TransAcc) c2 hnd hj2 hin2 hjt2 hcomp2
    (fun e _ q hq m hm => by rw [hund2 q hq] at hm; cases hm)
  apply pl_bind
  · exact hloop
  intro acc c3 h3
  rw [h3] at hloop
  exact PL.uniform (by nxa_walk []) (by ext_walk []) (by prev_walk []) (by log_walk []) c3 hloop

/-! ### new records, retry -/

theorem PL.append (c : Cond) (r0 : Rec) (k : TaskKey) (n : Nat) (hj : PL c) (hb : PubOk c r0.id r0.prev r0.ctxsIn) :
    PL { c with st := ({ c.st with sequence := c.st.sequence ++ [r0] } : WState).setTask k n } := by
  have hseq : (({ c.st with sequence := c.st.sequence ++ [r0] } : WState).setTask k n).sequence = c.st.sequence ++ [r0] := by
    rw [WState.setTask_sequence]
  have hstg : (({ c.st with sequence := c.st.sequence ++ [r0] } : WState).setTask k n).staged = c.st.staged := by
    unfold WState.setTask; split <;> rfl
  have hlog : (({ c.st with sequence := c.st.sequence ++ [r0] } : WState).setTask k n).pubLog = c.st.pubLog := by
    rw [WState.setTask_pubLog]
  have hmk : MK c { c with st := ({ c.st with sequence := c.st.sequence ++ [r0] } : WState).setTask k n } := by
    constructor
    intro i r m hr hm
    refine ⟨r, ?_, hm⟩
    show (WState.setTask _ _ _).sequence[i]? = some r
    rw [hseq, List.getElem?_append_left (List.getElem?_eq_some_iff.mp hr).1]
    exact hr
  have hext : c.st.Ext (({ c.st with sequence := c.st.sequence ++ [r0] } : WState).setTask k n) := Ext.appendRec _ _ _ _
  refine PL.of_parts hmk hext hlog hj ?_ ?_
  · intro x' hx'
    left
    refine ⟨x', ?_, rfl, rfl, rfl⟩
    have : x' ∈ (({ c.st with sequence := c.st.sequence ++ [r0] } : WState).setTask k n).staged := hx'
    rw [hstg] at this
    exact this
  · intro i r' hr' hlen
    have hr'' : (c.st.sequence ++ [r0])[i]? = some r' := by
      have : (({ c.st with sequence := c.st.sequence ++ [r0] } : WState).setTask k n).sequence[i]? = some r' := hr'
      rw [hseq] at this
      exact this
    rw [List.getElem?_append_right hlen] at hr''
    have : r' = r0 := by
      cases hi : i - c.st.sequence.length with
      | zero => rw [hi] at hr''; simpa using hr''.symm
      | succ n => rw [hi] at hr''; simp at hr''
    rw [this]
    exact hb.same hlog

theorem PubOk.orZero {c : Cond} {id : String} {prev : List (TransId × Nat)} {l : List Nat} (h : PubOk c id prev l) :
    PubOk c id prev (if l.isEmpty then [0] else l) := by
  intro p hp i hi
  have := h p hp i hi
  have hne : l.isEmpty = false := by
    cases l with
    | nil => cases this
    | cons _ _ => rfl
  rw [hne]
  exact this

theorem addTaskState_pl (k : TaskKey) (a : List Nat) (b : List (TransId × Nat)) (c : Cond)
    (hj : PL c) (hb : PubOk c k.1 b a) : PL (addTaskState E k a b c).2 := by
  unfold addTaskState
  rw [M.bind_run]
  simp only [M.get]
  split
  · exact hj
  · have hhn : Rel nxaPre (match (newRecord E c k a b).2 with
        | none => pure ()
        | some e => do
          logError e.className (some k.1) (some k.2)
          failOnError : M Unit) := by
      nxa_walk [failOnError_nxa, logError_nxa _ _ _ _]
    have hhe : Rel extPre (match (newRecord E c k a b).2 with
        | none => pure ()
        | some e => do
          logError e.className (some k.1) (some k.2)
          failOnError : M Unit) := by
      ext_walk [failOnError_ext]
    have hhp : Rel prevPre (match (newRecord E c k a b).2 with
        | none => pure ()
        | some e => do
          logError e.className (some k.1) (some k.2)
          failOnError : M Unit) := by
      prev_walk [failOnError_prev, logError_prev _ _ _ _]
    have hhl : Rel logPre (match (newRecord E c k a b).2 with
        | none => pure ()
        | some e => do
          logError e.className (some k.1) (some k.2)
          failOnError : M Unit) := by
      log_walk [failOnError_log]
    apply pl_bind
    · exact PL.uniform hhn hhe hhp hhl c hj
    intro u c2 h2
    have hj2 := pl_ok hhn hhe hhp hhl hj h2
    have hl2 := hhl.log_ok h2
    rw [M.bind_run]
    simp only [M.get]
    rw [M.bind_run]
    simp only [M.modifySt, M.modify, pure, M.pure']
    apply PL.append c2 _ k _ hj2
    rw [newRecord_ctxsIn, newRecord_id, newRecord_prev]
    exact (hb.same hl2).orZero

theorem restageRetry_pl (k : TaskKey) (idx : Nat) (o : Status) (c : Cond) (hj : PL c) (hid : IdAt c idx k.1) :
    PL (restageRetry k idx o c).2 := by
  have hm := (NxAll.of_map ((restageRetry_nx k idx o).run c)).toMK
  have he := (restageRetry_ext k idx o).run c
  have hl := (restageRetry_log k idx o).run c
  unfold restageRetry at hm he hl ⊢
  rw [M.bind_run] at hm he hl ⊢
  simp only [M.get] at hm he hl ⊢
  rw [M.bind_run] at hm he hl ⊢
  cases hr : c.st.sequence[idx]? with
  | none => exact hj
  | some r =>
    rw [hr] at hm he hl
    simp only [liftOpt, pure, M.pure'] at hm he hl ⊢
    split
    · rename_i hcond
      rw [if_pos hcond] at hm he hl
      rw [M.bind_run] at hm he hl ⊢
      cases hrs : r.retry with
      | none => exact hj
      | some rs =>
        rw [hrs] at hm he hl
        simp only [liftOpt, pure, M.pure'] at hm he hl ⊢
        apply PL.of_parts hm he hl hj
        · intro x' hx'
          have hx'' : x' ∈ ((c.st.updateRec idx fun r => { r with retry := some { rs with tally := rs.tally + 1 } }).removeStaged k).staged ++
              [({ id := k.1, route := k.2, ctxsIn := if r.ctxsIn.isEmpty then [0] else r.ctxsIn,
                  prev := r.prev, ready := true, retry := some { rs with tally := rs.tally + 1 } } : Staged)] := hx'
          rcases List.mem_append.mp hx'' with h | h
          · left
            have hmem := mem_removeStaged _ _ _ h
            exact ⟨x', hmem, rfl, rfl, rfl⟩
          · right
            simp only [List.mem_singleton] at h
            subst h
            have hok : PubOk c k.1 r.prev r.ctxsIn := by
              rw [← hid r hr]
              exact hj.recs r (List.mem_of_getElem? hr)
            exact (hok.same hl).orZero
        · intro i r' hr' hlen
          exfalso
          have hmap : (WState.addStaged ((c.st.updateRec idx fun r => { r with retry := some { rs with tally := rs.tally + 1 } }).removeStaged k)
              ({ id := k.1, route := k.2, ctxsIn := if r.ctxsIn.isEmpty then [0] else r.ctxsIn,
                 prev := r.prev, ready := true, retry := some { rs with tally := rs.tally + 1 } } : Staged)).sequence.map (·.prev)
              = c.st.sequence.map (·.prev) := by
            simp only [WState.addStaged_sequence, WState.removeStaged_sequence]
            apply map_prev_modify
            intro r
            rfl
          obtain ⟨r0, hr0, _⟩ := recs_prev_of_map hmap i r' hr'
          have := (List.getElem?_eq_some_iff.mp hr0).1
          omega
    · exact hj

theorem machineStep_pl (k : TaskKey) (idx : Nat) (ev : Event) (c : Cond) (hj : PL c) (hid : IdAt c idx k.1) :
    PL (machineStep k idx ev c).2 := by
  unfold machineStep
  rw [M.bind_run]
  simp only [M.get]
  apply pl_bind
  · rw [liftOpt_state]; exact hj
  intro r c1 h1
  obtain ⟨hr, e1⟩ := liftOpt_ok h1
  subst e1
  apply pl_bind
  · exact PL.uniform (Rel.nxa_of_nx (tkProcessEvent_nx idx ev)) (tkProcessEvent_ext idx ev) (tkProcessEvent_prev idx ev)
      (tkProcessEvent_log idx ev) c hj
  intro u c3 h3
  have hj3 := pl_ok (Rel.nxa_of_nx (tkProcessEvent_nx idx ev)) (tkProcessEvent_ext idx ev) (tkProcessEvent_prev idx ev)
      (tkProcessEvent_log idx ev) hj h3
  have he3 := (tkProcessEvent_ext idx ev).ext_ok h3
  have hid3 : IdAt c3 idx k.1 := hid.ext he3 hr
  rw [M.bind_run]
  simp only [M.get]
  apply pl_bind
  · rw [liftOpt_state]; exact hj3
  intro r' c4 h4
  obtain ⟨_, e4⟩ := liftOpt_ok h4
  subst e4
  apply pl_bind
  · exact restageRetry_pl k idx _ c3 hj3 hid3
  intro u5 c5 h5
  have := restageRetry_pl k idx (r.status.getD .unset) c3 hj3 hid3
  rw [h5] at this
  exact this

theorem recordFromStaged_pl (k : TaskKey) (s0 : Option Staged) (c : Cond) (hj : PL c)
    (hs : ∀ sx, s0 = some sx → PubOk c k.1 sx.prev sx.ctxsIn) : PL (recordFromStaged E k s0 c).2 := by
  unfold recordFromStaged
  cases s0 with
  | none => exact hj
  | some sx => exact addTaskState_pl E _ _ _ c hj (hs sx rfl)

theorem firstRecord_pl (k : TaskKey) (s0 : Option Staged) (r0 : Option Nat) (c : Cond) (hj : PL c)
    (hs : ∀ sx, s0 = some sx → PubOk c k.1 sx.prev sx.ctxsIn) : PL (firstRecord E k s0 r0 c).2 := by
  unfold firstRecord
  cases r0 with
  | none => exact recordFromStaged_pl E k s0 c hj hs
  | some i =>
    cases isCmdName k.1 with
    | false => exact hj
    | true => exact recordFromStaged_pl E k s0 c hj hs

theorem ensureRecord_pl (k : TaskKey) (s0 : Option Staged) (r0 : Option Nat) (ev : Event) (c : Cond)
    (hj : PL c) (hs : ∀ sx, s0 = some sx → PubOk c k.1 sx.prev sx.ctxsIn) : PL (ensureRecord E k s0 r0 ev c).2 := by
  unfold ensureRecord
  have hj1 := firstRecord_pl E k s0 r0 c hj hs
  apply pl_bind
  · exact hj1
  intro i c1 h1
  rw [h1] at hj1
  have l1 := (firstRecord_log E k s0 r0).log_ok h1
  rw [M.bind_run]
  simp only [M.get]
  apply pl_bind
  · rw [liftOpt_state]; exact hj1
  intro r c2 h2
  obtain ⟨_, e2⟩ := liftOpt_ok h2
  subst e2
  split
  · exact recordFromStaged_pl E k s0 c1 hj1 (fun sx h => (hs sx h).same l1)
  · exact hj1

theorem updateHead_pl (k : TaskKey) (ev : Event) (c : Cond) (hj : PL c) (hk : TK c) :
    PL (updateHead E k ev c).2 := by
  unfold updateHead
  rw [M.bind_run]
  simp only [M.get]
  split
  · exact hj
  apply pl_bind
  · rw [liftOpt_state]; exact hj
  intro ts c0 h0
  obtain ⟨_, e0⟩ := liftOpt_ok h0
  subst e0
  split
  · exact hj
  have hs : ∀ sx, c.st.getStaged? k = some sx → PubOk c k.1 sx.prev sx.ctxsIn := by
    intro sx hsx
    have hkey := getStaged?_key _ _ _ hsx
    have hid : sx.id = k.1 := by rw [← hkey]
    rw [← hid]
    apply hj.staged sx
    unfold WState.getStaged? at hsx
    exact List.mem_of_find?_eq_some hsx
  have hj1 := ensureRecord_pl E k _ (c.st.taskIdx? k) ev c hj hs
  apply pl_bind
  · exact hj1
  intro idx c1 h1
  rw [h1] at hj1
  obtain ⟨r1, hr1, hid1⟩ := ensureRecord_id E k ev c c1 idx hk h1
  apply pl_bind
  · exact PL.uniform (noteEvent_nxa _ _ _) (noteEvent_ext _ _ _) (noteEvent_prev _ _ _) (noteEvent_log _ _ _) c1 hj1
  intro u c2 h2
  have hj2 := pl_ok (noteEvent_nxa k (c.st.getStaged? k) ev) (noteEvent_ext _ _ _) (noteEvent_prev _ _ _) (noteEvent_log _ _ _) hj1 h2
  have hsq := (noteEvent_sq k (c.st.getStaged? k) ev).run c1
  rw [h2] at hsq
  have hid2 : IdAt c2 idx k.1 := by
    intro r hr
    rw [hsq.1, hr1] at hr
    cases hr
    exact hid1
  apply pl_bind
  · exact machineStep_pl k idx ev c2 hj2 hid2
  intro p c3 h3
  have := machineStep_pl k idx ev c2 hj2 hid2
  rw [h3] at this
  exact this

/-! ### the invariants together -/

structure Inv3 (c : Cond) : Prop where
  inv2 : Inv2 c
  inh : IN c
  pl : PL c

structure JI3 {α} (m : M α) : Prop where
  run : ∀ c, Inv3 c → Inv3 (m c).2

theorem JI3.of_rel {α} {m : M α} (h1 : Rel decStep m) (h2 : Rel tkPre m) (h3 : Rel gPre m) (h4 : Rel nxaPre m)
    (h5 : Rel prevPre m) (h6 : Rel logPre m) : JI3 m :=
  ⟨fun c hi => ⟨(JI2.of_rel h1 h2 h3 h4 h5).run c hi.inv2,
    IN.step (h2.run c).ext (h5.run c) hi.inh,
    PL.step (h4.run c).toMK (h2.run c).ext (h5.run c) (h6.run c) hi.pl⟩⟩

theorem JI3.pure {α} (a : α) : JI3 (Pure.pure a : M α) := ⟨fun _ hi => hi⟩

theorem JI3.throw {α} (e : Err) : JI3 (M.throw e : M α) := ⟨fun _ hi => hi⟩

theorem JI3.bind {α β} {m : M α} {f : α → M β} (hm : JI3 m) (hf : ∀ a, JI3 (f a)) : JI3 (m >>= f) := by
  constructor
  intro c hi
  have h1 := hm.run c hi
  rw [M.bind_run]
  cases h : m c with
  | mk res c1 =>
    rw [h] at h1
    cases res with
    | ok a => exact (hf a).run c1 h1
    | error e => exact h1

theorem JI3.forEach {α} (xs : List α) {f : α → M Unit} (hf : ∀ x, JI3 (f x)) : JI3 (M.forEach xs f) := by
  induction xs with
  | nil => exact JI3.pure ()
  | cons x xs ih =>
    show JI3 (M.bind' (f x) fun _ => M.forEach xs f)
    exact JI3.bind (hf x) (fun _ => ih)

theorem JI3.mapM' {α β} (xs : List α) {f : α → M β} (hf : ∀ x, JI3 (f x)) : JI3 (M.mapM' xs f) := by
  induction xs with
  | nil => exact JI3.pure _
  | cons x xs ih =>
    show JI3 (M.bind' (f x) fun y => M.bind' (M.mapM' xs f) fun ys => Pure.pure (y :: ys))
    exact JI3.bind (hf x) (fun _ => JI3.bind ih (fun _ => JI3.pure _))

theorem inv3_bind {α β} (m : M α) (f : α → M β) (c : Cond)
    (hm : Inv3 (m c).2) (hf : ∀ a c1, m c = (.ok a, c1) → Inv3 (f a c1).2) : Inv3 ((m >>= f) c).2 := by
  rw [M.bind_run]
  cases h : m c with
  | mk res c1 =>
    rw [h] at hm
    cases res with
    | ok a => exact hf a c1 h
    | error e => exact hm

theorem updateRest_inv3 (recur : TaskKey → Event → M Unit)
    (hrec : ∀ nk cmd, Cmd.ofStr? nk.1 = some cmd → JI3 (recur nk (.engine cmd)))
    (k : TaskKey) (ev : Event) (h : Stepped) (c : Cond) (hi : Inv3 c)
    (hcomp : h.newStatus.isCompleted = true → CompAt c h.idx)
    (hund : h.newStatus ≠ h.oldStatus → Undecided c h.idx) :
    Inv3 (updateRest E recur k ev h c).2 := by
  unfold updateRest
  have hfirst : ∀ acc c1, (if h.newStatus.isCompleted && h.newStatus != h.oldStatus then evalTransitions E k h.idx h.ts ev
      else pure {} : M TransAcc) c = (acc, c1) → Inv3 c1 := by
    intro acc c1 h1
    split at h1
    · rename_i hcond
      simp only [Bool.and_eq_true] at hcond
      have hne : h.newStatus ≠ h.oldStatus := by
        intro he
        have := hcond.2
        rw [he] at this
        revert this
        cases h.oldStatus <;> decide
      have w := ((evalTransitions_at E k h.idx h.ts ev).run c (hcomp hcond.1)).2.weak
      have t := (evalTransitions_tk E k h.idx h.ts ev).run c
      have g := (evalTransitions_g E k h.idx h.ts ev).run c
      have j := evalTransitions_jt E k h.idx h.ts ev c hi.inv2.inv.jt (hcomp hcond.1) (hund hne) hi.inv2.inv.gk
      have a := evalTransitions_ca E k h.idx h.ts ev c hi.inv2.ca (hcomp hcond.1) (hund hne) hi.inv2.inv.gk
      have n := (evalTransitions_jn E k h.idx h.ts ev).run c hi.inh
      have p := evalTransitions_pl E k h.idx h.ts ev c hi.pl hi.inh hi.inv2.inv.jt (hcomp hcond.1) (hund hne) hi.inv2.inv.gk
      rw [h1] at w t g j a n p
      exact ⟨⟨hi.inv2.inv.of w t g j, a⟩, n, p⟩
    · have : c1 = c := by
        simp only [pure, M.pure', Prod.mk.injEq] at h1
        exact h1.2.symm
      subst this
      exact hi
  rw [M.bind_run]
  cases h1 : (if h.newStatus.isCompleted && h.newStatus != h.oldStatus then evalTransitions E k h.idx h.ts ev
      else pure {} : M TransAcc) c with
  | mk res c1 =>
    have hi1 := hfirst res c1 h1
    cases res with
    | error e => exact hi1
    | ok acc =>
      dsimp only
      have hrest : JI3 (do
          let c ← M.get
          let r ← liftOpt c.st.sequence[h.idx]? .indexError
          let st ← liftOpt r.status .keyError
          wfProcessTaskEvent k st
          M.forEach acc.queue fun nk =>
            match Cmd.ofStr? nk.1 with
            | some cmd => recur nk (.engine cmd)
            | none => pure ()
          markTermIfCompleted h.idx : M Unit) := by
        apply JI3.bind (JI3.of_rel Rel.get Rel.get Rel.get Rel.get Rel.get Rel.get)
        intro c2
        apply JI3.bind (JI3.of_rel (Rel.liftOpt _ _) (Rel.liftOpt _ _) (Rel.liftOpt _ _) (Rel.liftOpt _ _) (Rel.liftOpt _ _) (Rel.liftOpt _ _))
        intro r
        apply JI3.bind (JI3.of_rel (Rel.liftOpt _ _) (Rel.liftOpt _ _) (Rel.liftOpt _ _) (Rel.liftOpt _ _) (Rel.liftOpt _ _) (Rel.liftOpt _ _))
        intro st
        apply JI3.bind (JI3.of_rel (wfProcessTaskEvent_dec _ _) (wfProcessTaskEvent_tk _ _) (wfProcessTaskEvent_g _ _)
          (Rel.nxa_of_nx (wfProcessTaskEvent_nx _ _)) (wfProcessTaskEvent_prev _ _) (wfProcessTaskEvent_log _ _))
        intro _
        apply JI3.bind
        · apply JI3.forEach
          intro nk
          split
          · rename_i cmd hcmd
            exact hrec nk cmd hcmd
          · exact JI3.pure ()
        · intro _
          exact JI3.of_rel (markTermIfCompleted_dec _) (markTermIfCompleted_tk _) (markTermIfCompleted_g _)
            (markTermIfCompleted_nxa _) (markTermIfCompleted_prev _) (markTermIfCompleted_log _)
      exact hrest.run c1 hi1

theorem updateTail_inv3 (recur : TaskKey → Event → M Unit)
    (hrec : ∀ k ev c, Inv3 c → Pre18 k ev c → Inv3 (recur k ev c).2)
    (k : TaskKey) (ev : Event) (h : Stepped) (c : Cond) (hi : Inv3 c) (hpost : HeadPost h c)
    (hidx : isCmdName k.1 = false → c.st.taskIdx? k = some h.idx) :
    Inv3 (updateTail E recur k ev h c).2 := by
  unfold updateTail
  have hm1 : Rel decStep (if h.newStatus.isCompleted then completedRetryDecision E k h.idx h.ts h.oldStatus h.newStatus ev
      else pure false : M Bool) := by
    split
    · exact completedRetryDecision_dec E _ _ _ _ _ _
    · exact Rel.pure _
  have hm1p : Rel prevPre (if h.newStatus.isCompleted then completedRetryDecision E k h.idx h.ts h.oldStatus h.newStatus ev
      else pure false : M Bool) := by
    split
    · exact completedRetryDecision_prev E _ _ _ _ _ _
    · exact Rel.pure _
  have hm1k : Rel rkPre (if h.newStatus.isCompleted then completedRetryDecision E k h.idx h.ts h.oldStatus h.newStatus ev
      else pure false : M Bool) := by
    split
    · exact completedRetryDecision_rk E _ _ _ _ _ _
    · exact Rel.pure _
  have hm1n : Rel nxPre (if h.newStatus.isCompleted then completedRetryDecision E k h.idx h.ts h.oldStatus h.newStatus ev
      else pure false : M Bool) := by
    split
    · exact completedRetryDecision_nx E _ _ _ _ _ _
    · exact Rel.pure _
  have hm1t : Rel tkPre (if h.newStatus.isCompleted then completedRetryDecision E k h.idx h.ts h.oldStatus h.newStatus ev
      else pure false : M Bool) := by
    split
    · exact completedRetryDecision_tk E _ _ _ _ _ _
    · exact Rel.pure _
  have hm1g : Rel gPre (if h.newStatus.isCompleted then completedRetryDecision E k h.idx h.ts h.oldStatus h.newStatus ev
      else pure false : M Bool) := by
    split
    · exact completedRetryDecision_g E _ _ _ _ _ _
    · exact Rel.pure _
  have hm1l : Rel logPre (if h.newStatus.isCompleted then completedRetryDecision E k h.idx h.ts h.oldStatus h.newStatus ev
      else pure false : M Bool) := by
    split
    · exact completedRetryDecision_log E _ _ _ _ _ _
    · exact Rel.pure _
  have hs5 := hm1.run c
  have hk5 := hm1k.run c
  have hn5 := hm1n.run c
  have hi5 := (JI3.of_rel hm1 hm1t hm1g (Rel.nxa_of_nx hm1n) hm1p hm1l).run c hi
  apply inv3_bind
  · exact hi5
  intro retry c5 h5
  rw [h5] at hs5 hk5 hn5 hi5
  obtain ⟨r, hr, hstat, hund⟩ := hpost
  obtain ⟨r5, hr5, st5⟩ := hs5.old h.idx r hr
  have hund5 : h.newStatus ≠ h.oldStatus → Undecided c5 h.idx := by
    intro hne r' hr'
    rw [hr5] at hr'
    cases hr'
    rw [nx_getElem hn5 hr hr5]
    exact hund hne
  cases retry with
  | false =>
    apply updateRest_inv3 E recur _ k ev h c5 hi5
    · intro hcomp
      have hcr : Comp r := by
        cases hs : r.status with
        | none => rw [hs] at hstat; simp only [Option.getD_none] at hstat; rw [← hstat] at hcomp; cases hcomp
        | some s =>
          rw [hs] at hstat
          simp only [Option.getD_some] at hstat
          exact ⟨s, hs, by rw [hstat]; exact hcomp⟩
      exact ⟨r5, hr5, Comp.step st5 hcr⟩
    · exact hund5
    · intro nk cmd hcmd
      constructor
      intro c' hi'
      apply hrec nk _ c' hi'
      intro _
      left
      unfold isCmdName
      rw [hcmd]
      rfl
  | true =>
    apply hrec k _ c5 hi5
    intro _
    cases hcmd : isCmdName k.1 with
    | true => left; rfl
    | false =>
      right
      refine ⟨h.idx, ?_, ?_⟩
      · have := hidx hcmd
        unfold WState.taskIdx? at this ⊢
        rw [hk5.2]
        exact this
      · have hne : h.newStatus ≠ h.oldStatus := by
          split at h5
          · exact completedRetryDecision_changed E _ _ _ _ _ _ _ _ h5
          · obtain ⟨e, _⟩ := pure_ok h5
            cases e
        exact hund5 hne

theorem updateTaskStateAux_inv3 (fuel : Nat) (k : TaskKey) (ev : Event) (c : Cond) (hi : Inv3 c)
    (hpre : Pre18 k ev c) : Inv3 (updateTaskStateAux E fuel k ev c).2 := by
  induction fuel generalizing k ev c with
  | zero => unfold updateTaskStateAux; exact hi
  | succ n ih =>
    unfold updateTaskStateAux
    obtain ⟨hw, hpost⟩ := updateHead_decw E k ev c hi.inv2.inv.dec hpre
    have hjh := updateHead_jt E k ev c hi.inv2.inv.jt hi.inv2.inv.tk
    have hah := updateHead_ca E k ev c hi.inv2.ca hi.inv2.inv.tk
    have hnh := updateHead_in E k ev c hi.inh
    have hph := updateHead_pl E k ev c hi.pl hi.inv2.inv.tk
    have ht := (updateHead_tk E k ev).run c
    have hg := (updateHead_g E k ev).run c
    apply inv3_bind
    · exact ⟨⟨hi.inv2.inv.of hw ht hg hjh, hah⟩, hnh, hph⟩
    intro h c4 h4
    rw [h4] at hw hjh hah hnh hph ht hg
    apply updateTail_inv3 E _ (fun k ev c hi hp => ih k ev c hi hp) k ev h c4
      ⟨⟨hi.inv2.inv.of hw ht hg hjh, hah⟩, hnh, hph⟩ (hpost h c4 h4)
    intro hcmd
    exact updateHead_taskIdx E k ev c c4 h h4 hcmd

/-! ### rerun -/

theorem requestTaskRerun_pl (k : TaskKey) (resetItems : Bool) (c : Cond) (hj : PL c) (hk : TK c) :
    PL (requestTaskRerun E k resetItems c).2 := by
  unfold requestTaskRerun
  rw [M.bind_run]
  simp only [M.get]
  apply pl_bind
  · rw [liftOpt_state]; exact hj
  intro idx c0 h0
  obtain ⟨hidx, e0⟩ := liftOpt_ok h0
  subst e0
  apply pl_bind
  · rw [liftOpt_state]; exact hj
  intro task c0 h0
  obtain ⟨htask, e0⟩ := liftOpt_ok h0
  subst e0
  apply pl_bind
  · rw [liftOpt_state]; exact hj
  intro ts c0 h0
  obtain ⟨_, e0⟩ := liftOpt_ok h0
  subst e0
  have hpub : PubOk c k.1 task.prev task.ctxsIn := by
    obtain ⟨r, hr, hid⟩ := hk.taskIdx hidx
    rw [htask] at hr
    cases hr
    rw [← hid]
    exact hj.recs task (List.mem_of_getElem? htask)
  have hm1n : Rel nxaPre (M.modifySt fun st => (st.updateRec idx fun r => { r with term := false }).updateStaged k
      fun x => { x with completed := false }) := by nxa_walk []
  have hm1e : Rel extPre (M.modifySt fun st => (st.updateRec idx fun r => { r with term := false }).updateStaged k
      fun x => { x with completed := false }) := by ext_walk []
  have hm1p : Rel prevPre (M.modifySt fun st => (st.updateRec idx fun r => { r with term := false }).updateStaged k
      fun x => { x with completed := false }) := by prev_walk []
  have hm1l : Rel logPre (M.modifySt fun st => (st.updateRec idx fun r => { r with term := false }).updateStaged k
      fun x => { x with completed := false }) := by log_walk []
  apply pl_bind
  · exact PL.uniform hm1n hm1e hm1p hm1l c hj
  intro u c1 h1
  have hj1 := pl_ok hm1n hm1e hm1p hm1l hj h1
  have l1 := hm1l.log_ok h1
  have hm2n : Rel nxaPre (M.modify fun c => { c with errors := c.errors.filter fun e => e.taskId != some k.1 }) := by
    nxa_walk []
  have hm2e : Rel extPre (M.modify fun c => { c with errors := c.errors.filter fun e => e.taskId != some k.1 }) := by
    ext_walk []
  have hm2p : Rel prevPre (M.modify fun c => { c with errors := c.errors.filter fun e => e.taskId != some k.1 }) := by
    prev_walk []
  have hm2l : Rel logPre (M.modify fun c => { c with errors := c.errors.filter fun e => e.taskId != some k.1 }) := by
    log_walk []
  apply pl_bind
  · exact PL.uniform hm2n hm2e hm2p hm2l c1 hj1
  intro u c2 h2
  have hj2 := pl_ok hm2n hm2e hm2p hm2l hj1 h2
  have l2 := hm2l.log_ok h2
  have hpub2 : PubOk c2 k.1 task.prev task.ctxsIn := (hpub.same l1).same l2
  have hmid : ∀ (u : Except Err Unit) c3, ((if ts.withItems.isSome then do
        let c ← M.get
        if (c.st.getStaged? k).isNone then M.throw .attributeError
        else M.modifySt fun st => st.updateStaged k fun x =>
          { x with items := x.items.map fun l => l.map fun s => if resetItems || s.isAbended then .unset else s }
      else do
        let _ ← addTaskState E k task.ctxsIn task.prev
        M.modifySt fun st => st.addStaged
          { id := k.1, route := k.2, ctxsIn := if task.ctxsIn.isEmpty then [0] else task.ctxsIn,
            prev := task.prev, ready := true } : M Unit) c2) = (u, c3) → PL c3 := by
    intro u c3 hrun
    split at hrun
    · have hjj := PL.uniform (m := (do
          let c ← M.get
          if (c.st.getStaged? k).isNone then M.throw .attributeError
          else M.modifySt fun st => st.updateStaged k fun x =>
            { x with items := x.items.map fun l => l.map fun s => if resetItems || s.isAbended then .unset else s } : M Unit))
        (by nxa_walk []) (by ext_walk []) (by prev_walk []) (by log_walk []) c2 hj2
      rw [hrun] at hjj
      exact hjj
    · rw [M.bind_run] at hrun
      have ha := addTaskState_pl E k task.ctxsIn task.prev c2 hj2 hpub2
      have la := (addTaskState_log E k task.ctxsIn task.prev).run c2
      cases hadd : addTaskState E k task.ctxsIn task.prev c2 with
      | mk res ca =>
        rw [hadd] at hrun ha la
        cases res with
        | error e =>
          have : c3 = ca := by cases hrun; rfl
          subst this
          exact ha
        | ok i =>
          simp only [M.modifySt, M.modify] at hrun
          have hc3 : c3 = { ca with st := (ca.st.addStaged
              ({ id := k.1, route := k.2, ctxsIn := if task.ctxsIn.isEmpty then [0] else task.ctxsIn,
                 prev := task.prev, ready := true } : Staged)) } := by cases hrun; rfl
          subst hc3
          refine PL.of_parts ?mk0 ?ext0 ?log0 ha ?_ ?_
          case mk0 => exact ⟨fun i r m hr hm => ⟨r, hr, hm⟩⟩
          case ext0 => exact Ext.of_eq rfl rfl rfl rfl
          case log0 => rfl
          · intro x' hx'
            rcases List.mem_append.mp hx' with hm | hm
            · left; exact ⟨x', hm, rfl, rfl, rfl⟩
            · right
              simp only [List.mem_singleton] at hm
              subst hm
              apply PubOk.same (c := ca) rfl
              exact (hpub2.same la).orZero
          · intro i r' hr' hlen
            have h2 : i < ca.st.sequence.length := (List.getElem?_eq_some_iff.mp hr').1
            have h3 : ca.st.sequence.length ≤ i := hlen
            omega
  rw [M.bind_run]
  cases hrun : (if ts.withItems.isSome then do
        let c ← M.get
        if (c.st.getStaged? k).isNone then M.throw .attributeError
        else M.modifySt fun st => st.updateStaged k fun x =>
          { x with items := x.items.map fun l => l.map fun s => if resetItems || s.isAbended then .unset else s }
      else do
        let _ ← addTaskState E k task.ctxsIn task.prev
        M.modifySt fun st => st.addStaged
          { id := k.1, route := k.2, ctxsIn := if task.ctxsIn.isEmpty then [0] else task.ctxsIn,
            prev := task.prev, ready := true } : M Unit) c2 with
  | mk res c3 =>
    have hj3 := hmid res c3 hrun
    cases res with
    | error e => exact hj3
    | ok _ =>
      dsimp only
      exact PL.uniform (by nxa_walk []) (by ext_walk []) (by prev_walk []) (by log_walk []) c3 hj3

theorem requestTaskRerun_ji3 (k : TaskKey) (r : Bool) : JI3 (requestTaskRerun E k r) :=
  ⟨fun c hi => ⟨(requestTaskRerun_ji2 E k r).run c hi.inv2, (requestTaskRerun_jn E k r).run c hi.inh,
    requestTaskRerun_pl E k r c hi.pl hi.inv2.inv.tk⟩⟩

theorem requestRerun_ji3 (reqs : List RerunReq) : JI3 (requestRerun E reqs) := by
  unfold requestRerun
  repeat' (first
    | exact JI3.pure _ | exact JI3.throw _
    | exact JI3.of_rel Rel.get Rel.get Rel.get Rel.get Rel.get Rel.get
    | exact JI3.of_rel (Rel.liftOpt _ _) (Rel.liftOpt _ _) (Rel.liftOpt _ _) (Rel.liftOpt _ _) (Rel.liftOpt _ _) (Rel.liftOpt _ _)
    | exact JI3.of_rel (Rel.liftExcept _) (Rel.liftExcept _) (Rel.liftExcept _) (Rel.liftExcept _) (Rel.liftExcept _) (Rel.liftExcept _)
    | exact requestTaskRerun_ji3 E _ _
    | apply JI3.bind | apply JI3.forEach | apply JI3.mapM'
    | intro _ | split
    | (apply JI3.of_rel
       · dec_walk []
       · tk_walk []
       · g_walk []
       · nxa_walk []
       · prev_walk []
       · log_walk [])
    | dsimp only)

end Orq
