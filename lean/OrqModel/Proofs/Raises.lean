/-
Which exception classes can leave a model computation: `Raises m X` says every exception `m`
lets out satisfies `X`.  `try/except Exception` handlers cut the set down to what the handler
itself can raise.
-/
import OrqModel.Model.Conductor

namespace Orq

structure Raises {α} (m : M α) (X : Err → Prop) : Prop where
  run : ∀ s e s', m s = (.error e, s') → X e

namespace Raises

variable {X : Err → Prop}

theorem pure {α} (a : α) : Raises (Pure.pure a : M α) X :=
  ⟨fun s e s' h => by
    have : ((Except.ok a : Except Err α), s) = (Except.error e, s') := h
    cases this⟩

theorem pure' {α} (a : α) : Raises (M.pure' a : M α) X := pure a

theorem get : Raises M.get X := ⟨fun s e s' h => by cases h⟩
theorem modify (f) : Raises (M.modify f) X := ⟨fun s e s' h => by cases h⟩
theorem modifySt (f) : Raises (M.modifySt f) X := ⟨fun s e s' h => by cases h⟩

theorem throw {α} {e : Err} (h : X e) : Raises (M.throw e : M α) X :=
  ⟨fun s e' s' heq => by
    have : ((Except.error e : Except Err α), s) = (Except.error e', s') := heq
    cases this; exact h⟩

theorem bind {α β} {m : M α} {f : α → M β} (hm : Raises m X) (hf : ∀ a, Raises (f a) X) :
    Raises (m >>= f) X := by
  constructor
  intro s e s' heq
  have heq' : M.bind' m f s = (.error e, s') := heq
  unfold M.bind' at heq'
  cases hms : m s with
  | mk r s1 =>
    rw [hms] at heq'
    cases r with
    | ok a => exact (hf a).run s1 e s' heq'
    | error e1 =>
      have h2 : ((Except.error e1 : Except Err β), s1) = (Except.error e, s') := heq'
      have he : e1 = e := by injection h2 with h3 _; injection h3
      subst he
      exact hm.run s e1 s1 hms

theorem bind' {α β} {m : M α} {f : α → M β} (hm : Raises m X) (hf : ∀ a, Raises (f a) X) :
    Raises (M.bind' m f) X := bind hm hf

/-- `try m except Exception as e: h e` lets out only what the handler raises -/
theorem tryCatch {α} {m : M α} {h : Err → M α} (hh : ∀ e, Raises (h e) X) : Raises (M.tryCatch m h) X := by
  constructor
  intro s e s' heq
  unfold M.tryCatch at heq
  cases hms : m s with
  | mk r s1 =>
    rw [hms] at heq
    cases r with
    | ok a => cases heq
    | error e1 => exact (hh e1).run s1 e s' heq

theorem liftOpt {α} (x : Option α) {e : Err} (h : X e) : Raises (liftOpt x e) X := by
  cases x with
  | some a => exact pure a
  | none => exact throw h

theorem liftExcept {α} (x : Except Err α) (h : ∀ e, x = .error e → X e) : Raises (M.liftExcept x) X := by
  cases x with
  | ok a => exact pure a
  | error e => exact throw (h e rfl)

theorem forEach {α} (xs : List α) {f : α → M Unit} (hf : ∀ a, Raises (f a) X) : Raises (M.forEach xs f) X := by
  induction xs with
  | nil => exact pure ()
  | cons x xs ih => unfold M.forEach; exact bind' (hf x) (fun _ => ih)

theorem foldM' {α β} (xs : List α) (b : β) {f : β → α → M β} (hf : ∀ b a, Raises (f b a) X) :
    Raises (M.foldM' xs b f) X := by
  induction xs generalizing b with
  | nil => exact pure b
  | cons x xs ih => unfold M.foldM'; exact bind' (hf b x) (fun b' => ih b')

theorem mapM' {α β} (xs : List α) {f : α → M β} (hf : ∀ a, Raises (f a) X) : Raises (M.mapM' xs f) X := by
  induction xs with
  | nil => exact pure []
  | cons x xs ih => unfold M.mapM'; exact bind' (hf x) (fun _ => bind' ih (fun _ => pure _))

end Raises

end Orq
