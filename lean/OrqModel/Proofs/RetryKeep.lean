/-
Two frame preorders used by the C13 history theorem:
`rkPre`  — the retry policies of the records and the task-key → record map are untouched;
`sqPre`  — the whole record sequence and the task-key map are untouched.
-/
import OrqModel.Proofs.Retry13

namespace Orq

variable (E : Evaluator)

@[simp] theorem WState.addStaged_tasks (s : WState) (x) : (s.addStaged x).tasks = s.tasks := rfl
@[simp] theorem WState.updateRec_tasks (s : WState) (i f) : (s.updateRec i f).tasks = s.tasks := rfl
@[simp] theorem WState.updateStaged_tasks (s : WState) (k f) : (s.updateStaged k f).tasks = s.tasks := rfl
@[simp] theorem WState.removeStaged_tasks (s : WState) (k) : (s.removeStaged k).tasks = s.tasks := by
  unfold WState.removeStaged; split
  · rfl
  · split <;> rfl

def rkPre : Pre where
  R c c' := c'.st.sequence.map (·.retry) = c.st.sequence.map (·.retry) ∧ c'.st.tasks = c.st.tasks
  refl _ := ⟨rfl, rfl⟩
  trans h1 h2 := ⟨h2.1.trans h1.1, h2.2.trans h1.2⟩

def sqPre : Pre where
  R c c' := c'.st.sequence = c.st.sequence ∧ c'.st.tasks = c.st.tasks
  refl _ := ⟨rfl, rfl⟩
  trans h1 h2 := ⟨h2.1.trans h1.1, h2.2.trans h1.2⟩

theorem Rel.sq_rk {α} {m : M α} (h : Rel sqPre m) : Rel rkPre m :=
  ⟨fun s => ⟨by rw [(h.run s).1], (h.run s).2⟩⟩

theorem Rel.modifySt_rk {f : WState → WState}
    (h : ∀ st : WState, (f st).sequence.map (·.retry) = st.sequence.map (·.retry) ∧ (f st).tasks = st.tasks) :
    Rel rkPre (M.modifySt f) := ⟨fun c => h c.st⟩

theorem Rel.modifySt_sq {f : WState → WState}
    (h : ∀ st : WState, (f st).sequence = st.sequence ∧ (f st).tasks = st.tasks) :
    Rel sqPre (M.modifySt f) := ⟨fun c => h c.st⟩

theorem Rel.modify_sq {f : Cond → Cond} (h : ∀ c, (f c).st = c.st) : Rel sqPre (M.modify f) := by
  constructor
  intro c
  show (f c).st.sequence = _ ∧ (f c).st.tasks = _
  rw [h]
  exact ⟨rfl, rfl⟩

theorem logEntry_sq (e) : Rel sqPre (logEntry e) := by
  unfold logEntry
  apply Rel.modify_sq
  intro c
  split <;> rfl

theorem logError_sq (k a b c) : Rel sqPre (logError k a b c) := logEntry_sq _

macro "sq_leaf" : tactic => `(tactic| (
  apply Rel.modifySt_sq
  intro st
  constructor
  · first | rfl | (simp; done)
  · first | rfl | (simp; done)))

syntax "sq_walk" "[" term,* "]" : tactic
macro_rules
  | `(tactic| sq_walk [$ts,*]) => do
    let alts ← ts.getElems.mapM fun t => `(tactic| exact $t)
    `(tactic| repeat' (first
      | exact Rel.pure _ | exact Rel.pure' _ | exact Rel.throw _ | exact Rel.get
      | exact Rel.liftOpt _ _ | exact Rel.liftExcept _
      | exact logError_sq _ _ _ _ | exact logEntry_sq _
      $[| $alts:tactic]*
      | sq_leaf
      | apply Rel.bind | apply Rel.bind' | apply Rel.tryCatch | apply Rel.forEach | apply Rel.foldM' | apply Rel.mapM'
      | intro _ | split | dsimp only ))

theorem noteEvent_sq (k s ev) : Rel sqPre (noteEvent k s ev) := by
  unfold noteEvent
  sq_walk []

theorem makeTaskContext_sq (k idx r) : Rel sqPre (makeTaskContext k idx r) := by
  unfold makeTaskContext
  sq_walk []

/-! ### `rkPre` -/

theorem Rel.raw_rk {α} {m : M α}
    (h : ∀ c, (m c).2.st.sequence.map (·.retry) = c.st.sequence.map (·.retry) ∧ (m c).2.st.tasks = c.st.tasks) :
    Rel rkPre m := ⟨h⟩

theorem forEach_logError_st (xs : List Staged) (c : Cond) :
    ((M.forEach xs fun x => logError "UnreachableJoinError" (some x.id) (some x.route)) c).2.st = c.st :=
  forEach_logError_seq xs c

theorem wfProcessWorkflowEvent_rk (req) : Rel rkPre (wfProcessWorkflowEvent req) := by
  apply Rel.raw_rk
  intro c
  unfold wfProcessWorkflowEvent
  dsimp only
  split
  · exact ⟨rfl, rfl⟩
  · split
    · split
      · exact ⟨rfl, rfl⟩
      · rw [forEach_logError_st]; exact ⟨rfl, rfl⟩
    · exact ⟨rfl, rfl⟩

theorem tkProcessWorkflowEvent_rk (i req) : Rel rkPre (tkProcessWorkflowEvent i req) := by
  apply Rel.raw_rk
  intro c
  unfold tkProcessWorkflowEvent
  repeat' (first | exact ⟨rfl, rfl⟩ | exact ⟨by apply map_retry_modify; intro r; rfl, rfl⟩ | split | dsimp only)

theorem tkProcessEvent_rk (i ev) : Rel rkPre (tkProcessEvent i ev) := by
  apply Rel.raw_rk
  intro c
  unfold tkProcessEvent
  repeat' (first | exact ⟨rfl, rfl⟩ | exact ⟨by apply map_retry_modify; intro r; rfl, rfl⟩ | split | dsimp only)

macro "rk_leaf" : tactic => `(tactic| (
  apply Rel.modifySt_rk
  intro st
  constructor
  · inv13_seq
  · first | rfl | (simp; done)))

syntax "rk_walk" "[" term,* "]" : tactic
macro_rules
  | `(tactic| rk_walk [$ts,*]) => do
    let alts ← ts.getElems.mapM fun t => `(tactic| exact $t)
    `(tactic| repeat' (first
      | exact Rel.pure _ | exact Rel.pure' _ | exact Rel.throw _ | exact Rel.get
      | exact Rel.liftOpt _ _ | exact Rel.liftExcept _
      | exact wfProcessWorkflowEvent_rk _ | exact tkProcessWorkflowEvent_rk _ _ | exact tkProcessEvent_rk _ _
      | exact Rel.sq_rk (logError_sq _ _ _ _) | exact Rel.sq_rk (logEntry_sq _)
      $[| $alts:tactic]*
      | rk_leaf
      | apply Rel.bind | apply Rel.bind' | apply Rel.tryCatch | apply Rel.forEach | apply Rel.foldM' | apply Rel.mapM'
      | intro _ | split | dsimp only ))

theorem requestStatus_rk (req) : Rel rkPre (requestStatus req) := by
  unfold requestStatus
  rk_walk []

theorem failOnError_rk : Rel rkPre failOnError := by
  unfold failOnError
  rk_walk [requestStatus_rk _]

theorem completedRetryDecision_rk (k idx ts os ns ev) : Rel rkPre (completedRetryDecision E k idx ts os ns ev) := by
  unfold completedRetryDecision
  rk_walk [Rel.sq_rk (makeTaskContext_sq _ _ _), requestStatus_rk _, failOnError_rk]

end Orq
