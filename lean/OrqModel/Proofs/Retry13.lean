/-
C13: the retry tally of every task record stays within the policy's count, along every history.
The tally is bumped in exactly one place (`restageRetry`), only when the record has just entered
`retrying`; a record enters `retrying` only through the engine's retry event; that event is issued
only after `_evaluate_task_retry` answered true, i.e. while attempts remain.
-/
import OrqModel.Proofs.ExtendsOps
import OrqModel.Proofs.StepRes
import OrqModel.Properties.Items

namespace Orq

variable (E : Evaluator)

def RetryOk (r : Rec) : Prop :=
  ∀ rs n, r.retry = some rs → rs.count = .val (.int n) → (rs.tally : Int) ≤ max n 0

def Inv13 (c : Cond) : Prop := ∀ r ∈ c.st.sequence, RetryOk r

/-- the preorder "the tally bound is preserved" -/
def inv13Pre : Pre where
  R c c' := Inv13 c → Inv13 c'
  refl _ := id
  trans h1 h2 := fun h => h2 (h1 h)

/-- a state update that keeps the list of retry policies of the records -/
theorem Rel.modifySt_inv13 {f : WState → WState}
    (h : ∀ st : WState, (f st).sequence.map (·.retry) = st.sequence.map (·.retry)) :
    Rel inv13Pre (M.modifySt f) := by
  constructor
  intro c hinv
  show Inv13 { c with st := f c.st }
  intro r hr
  have hmem : r.retry ∈ (f c.st).sequence.map (·.retry) := List.mem_map.mpr ⟨r, hr, rfl⟩
  rw [h] at hmem
  obtain ⟨r0, hr0, he⟩ := List.mem_map.mp hmem
  intro rs n h1 h2
  exact hinv r0 hr0 rs n (he ▸ h1) h2

theorem map_retry_modify (l : List Rec) (i : Nat) (g : Rec → Rec) (h : ∀ r, (g r).retry = r.retry) :
    (l.modify i g).map (·.retry) = l.map (·.retry) := by
  induction l generalizing i with
  | nil => cases i <;> rfl
  | cons x xs ih =>
    cases i with
    | zero => simp [h]
    | succ n => simp [ih]

theorem Rel.modify_inv13 {f : Cond → Cond} (h : ∀ c, (f c).st = c.st) : Rel inv13Pre (M.modify f) := by
  constructor
  intro c hinv r hr
  have : (f c).st.sequence = c.st.sequence := by rw [h]
  rw [show (M.modify f c).2 = f c from rfl, this] at hr
  exact hinv r hr

macro "inv13_seq" : tactic => `(tactic| first
  | rfl
  | (apply map_retry_modify; intro r; rfl)
  | (simp; done)
  | (simp only [WState.removeStaged_sequence, WState.addStaged_sequence, WState.updateStaged_sequence,
       WState.setTask_sequence]
     apply map_retry_modify; intro r; rfl))

macro "inv13_leaf" : tactic => `(tactic| (
  apply Rel.modifySt_inv13
  intro st
  inv13_seq))

theorem logEntry_inv13 (e) : Rel inv13Pre (logEntry e) := by
  unfold logEntry
  apply Rel.modify_inv13
  intro c
  split <;> rfl

theorem logError_inv13 (k a b c) : Rel inv13Pre (logError k a b c) := logEntry_inv13 _

/-- a raw state function that keeps the retry policies of the records -/
theorem Rel.raw_inv13 {α} {m : M α} (h : ∀ c, (m c).2.st.sequence.map (·.retry) = c.st.sequence.map (·.retry)) :
    Rel inv13Pre m := by
  constructor
  intro c hinv r hr
  have hmem : r.retry ∈ (m c).2.st.sequence.map (·.retry) := List.mem_map.mpr ⟨r, hr, rfl⟩
  rw [h] at hmem
  obtain ⟨r0, hr0, he⟩ := List.mem_map.mp hmem
  intro rs n h1 h2
  exact hinv r0 hr0 rs n (he ▸ h1) h2

/-- the preorder "workflow state untouched" (only the conductor's error log / output may change) -/
def stKeepPre : Pre where
  R c c' := c'.st = c.st
  refl _ := rfl
  trans h1 h2 := h2.trans h1

theorem logEntry_stKeep (e) : Rel stKeepPre (logEntry e) := by
  constructor
  intro c
  show _ = _
  unfold logEntry M.modify
  dsimp only
  split <;> rfl

theorem forEach_logError_seq (xs : List Staged) (c : Cond) :
    ((M.forEach xs fun x => logError "UnreachableJoinError" (some x.id) (some x.route)) c).2.st = c.st :=
  (Rel.forEach (P := stKeepPre) xs (fun x => logEntry_stKeep _)).run c

theorem wfProcessTaskEvent_inv13 (k ev) : Rel inv13Pre (wfProcessTaskEvent k ev) := by
  apply Rel.raw_inv13
  intro c
  unfold wfProcessTaskEvent
  dsimp only
  split
  · rfl
  · split
    · split
      · rfl
      · rw [forEach_logError_seq]
    · rfl

theorem wfProcessWorkflowEvent_inv13 (req) : Rel inv13Pre (wfProcessWorkflowEvent req) := by
  apply Rel.raw_inv13
  intro c
  unfold wfProcessWorkflowEvent
  dsimp only
  split
  · rfl
  · split
    · split
      · rfl
      · rw [forEach_logError_seq]
    · rfl

theorem tkProcessWorkflowEvent_inv13 (i req) : Rel inv13Pre (tkProcessWorkflowEvent i req) := by
  apply Rel.raw_inv13
  intro c
  unfold tkProcessWorkflowEvent
  repeat' (first | rfl | (apply map_retry_modify; intro r; rfl) | split | dsimp only)

theorem tkProcessEvent_inv13 (i ev) : Rel inv13Pre (tkProcessEvent i ev) := by
  apply Rel.raw_inv13
  intro c
  unfold tkProcessEvent
  repeat' (first | rfl | (apply map_retry_modify; intro r; rfl) | split | dsimp only)

syntax "inv13_walk" "[" term,* "]" : tactic
macro_rules
  | `(tactic| inv13_walk [$ts,*]) => do
    let alts ← ts.getElems.mapM fun t => `(tactic| exact $t)
    `(tactic| repeat' (first
      | exact Rel.pure _ | exact Rel.pure' _ | exact Rel.throw _ | exact Rel.get
      | exact Rel.liftOpt _ _ | exact Rel.liftExcept _
      | exact wfProcessWorkflowEvent_inv13 _ | exact wfProcessTaskEvent_inv13 _ _
      | exact tkProcessWorkflowEvent_inv13 _ _ | exact tkProcessEvent_inv13 _ _
      | exact logError_inv13 _ _ _ _ | exact logEntry_inv13 _
      $[| $alts:tactic]*
      | inv13_leaf
      | (apply Rel.modify_inv13; intro c; rfl)
      | apply Rel.bind | apply Rel.bind' | apply Rel.tryCatch | apply Rel.forEach | apply Rel.foldM' | apply Rel.mapM'
      | intro _ | split | dsimp only ))

theorem requestStatus_inv13 (req) : Rel inv13Pre (requestStatus req) := by
  unfold requestStatus
  inv13_walk []

theorem failOnError_inv13 : Rel inv13Pre failOnError := by
  unfold failOnError
  inv13_walk [requestStatus_inv13 _]

theorem getTask_inv13 (k) : Rel inv13Pre (getTask E k) := by
  unfold getTask
  inv13_walk []

theorem evaluateTaskActions_inv13 (o) : Rel inv13Pre (evaluateTaskActions o) := by
  unfold evaluateTaskActions
  inv13_walk []

theorem nextTaskFor_inv13 (sx) : Rel inv13Pre (nextTaskFor E sx) := by
  unfold nextTaskFor
  inv13_walk [getTask_inv13 E _, evaluateTaskActions_inv13 _]

theorem nextFrom_inv13 (todo) : Rel inv13Pre (nextFrom E todo) := by
  unfold nextFrom
  inv13_walk [nextTaskFor_inv13 E _, requestStatus_inv13 _, failOnError_inv13]

theorem getNextTasks_inv13 : Rel inv13Pre (getNextTasks E) :=
  ⟨fun c => (nextFrom_inv13 E (nextTodo c.st)).run c⟩

theorem evaluateRoute_inv13 (e r) : Rel inv13Pre (evaluateRoute e r) := by
  unfold evaluateRoute
  inv13_walk []

theorem stageNext_inv13 (k idx e o acc) : Rel inv13Pre (stageNext k idx e o acc) := by
  unfold stageNext stageTarget
  inv13_walk [evaluateRoute_inv13 _ _]

theorem fireTransition_inv13 (k idx ec acc e) : Rel inv13Pre (fireTransition E k idx ec acc e) := by
  unfold fireTransition
  inv13_walk [requestStatus_inv13 _, failOnError_inv13, stageNext_inv13 _ _ _ _ _]

theorem processTransition_inv13 (k idx ec acc e) : Rel inv13Pre (processTransition E k idx ec acc e) := by
  unfold processTransition
  inv13_walk [requestStatus_inv13 _, failOnError_inv13, fireTransition_inv13 E _ _ _ _ _]

theorem makeTaskContext_inv13 (k idx r) : Rel inv13Pre (makeTaskContext k idx r) := by
  unfold makeTaskContext
  inv13_walk []

theorem noteEvent_inv13 (k s ev) : Rel inv13Pre (noteEvent k s ev) := by
  unfold noteEvent
  inv13_walk []

theorem completedRetryDecision_inv13 (k idx ts os ns ev) : Rel inv13Pre (completedRetryDecision E k idx ts os ns ev) := by
  unfold completedRetryDecision
  inv13_walk [makeTaskContext_inv13 _ _ _, requestStatus_inv13 _, failOnError_inv13]

theorem evalTransitions_inv13 (k idx ts ev) : Rel inv13Pre (evalTransitions E k idx ts ev) := by
  unfold evalTransitions
  inv13_walk [makeTaskContext_inv13 _ _ _, processTransition_inv13 E _ _ _ _ _]

theorem markTermIfCompleted_inv13 (idx) : Rel inv13Pre (markTermIfCompleted idx) := by
  unfold markTermIfCompleted
  inv13_walk []

theorem terminalContext_inv13 : Rel inv13Pre terminalContext := by
  unfold terminalContext
  inv13_walk []

theorem renderOutput_inv13 : Rel inv13Pre (renderOutput E) := by
  unfold renderOutput
  inv13_walk [terminalContext_inv13, requestStatus_inv13 _, failOnError_inv13]

/-! ### new records start with tally 0 -/

theorem setupRetry_tally (g : GRetry) (ctx : Except Err Val.Dict) : (setupRetry E g ctx).1.tally = 0 := by
  unfold setupRetry
  dsimp only
  repeat' (first | rfl | split)

theorem newRecord_retryOk (c : Cond) (k : TaskKey) (a : List Nat) (b : List (TransId × Nat)) :
    RetryOk (newRecord E c k a b).1 := by
  unfold newRecord
  dsimp only
  split
  · intro rs n h; cases h
  · intro rs n h1 _
    simp only [Option.some.injEq] at h1
    subst h1
    rw [setupRetry_tally]
    omega

theorem addTaskState_inv13 (k a b) : Rel inv13Pre (addTaskState E k a b) := by
  unfold addTaskState
  inv13_walk [requestStatus_inv13 _, failOnError_inv13]
  -- the append
  all_goals (
    rename_i c0 _ _ c1
    constructor
    intro c hinv r hr
    have hseq : (M.modifySt (fun st => (({ st with sequence := st.sequence ++ [(newRecord E c0 k a b).1] } : WState).setTask k
        c1.st.sequence.length)) c).2.st.sequence = c.st.sequence ++ [(newRecord E c0 k a b).1] := by
      show (WState.setTask _ _ _).sequence = _
      rw [WState.setTask_sequence]
    rw [hseq] at hr
    rcases List.mem_append.mp hr with h | h
    · exact hinv r h
    · simp only [List.mem_singleton] at h
      subst h
      exact newRecord_retryOk E c0 k a b)

theorem ensureRecord_inv13 (k s r ev) : Rel inv13Pre (ensureRecord E k s r ev) := by
  unfold ensureRecord firstRecord recordFromStaged
  inv13_walk [addTaskState_inv13 E _ _ _]

theorem requestTaskRerun_inv13 (k r) : Rel inv13Pre (requestTaskRerun E k r) := by
  unfold requestTaskRerun
  inv13_walk [addTaskState_inv13 E _ _ _]

theorem requestRerun_inv13 (reqs) : Rel inv13Pre (requestRerun E reqs) := by
  unfold requestRerun
  inv13_walk [requestTaskRerun_inv13 E _ _]

end Orq
