/-
C18: recorded decisions never change.  `next` of a record is written only while its own
transitions are evaluated, and that happens only once, on an undecided record.
-/
import OrqModel.Proofs.FrozenUpdate

namespace Orq

variable (E : Evaluator)

/-- every record keeps its decisions (pointwise; new records may appear) -/
structure NxAll (c c' : Cond) : Prop where
  keep : ∀ (i : Nat) (r : Rec), c.st.sequence[i]? = some r → ∃ r', c'.st.sequence[i]? = some r' ∧ r'.next = r.next

def nxaPre : Pre where
  R := NxAll
  refl c := ⟨fun i r h => ⟨r, h, rfl⟩⟩
  trans := by
    intro a b c h1 h2
    constructor
    intro i r hr
    obtain ⟨r', hr', e1⟩ := h1.keep i r hr
    obtain ⟨r'', hr'', e2⟩ := h2.keep i r' hr'
    exact ⟨r'', hr'', e2.trans e1⟩

theorem NxAll.of_map {c c' : Cond} (h : c'.st.sequence.map (·.next) = c.st.sequence.map (·.next)) : NxAll c c' := by
  constructor
  intro i r hr
  have hmap := congrArg (·[i]?) h
  simp only [List.getElem?_map, hr] at hmap
  cases hc : c'.st.sequence[i]? with
  | none => rw [hc] at hmap; cases hmap
  | some r' =>
    rw [hc] at hmap
    simp only [Option.map_some, Option.some.injEq] at hmap
    exact ⟨r', rfl, hmap⟩

theorem Rel.nxa_of_nx {α} {m : M α} (h : Rel nxPre m) : Rel nxaPre m :=
  ⟨fun c => NxAll.of_map (h.run c)⟩

theorem Rel.modifySt_nxa_append {f : WState → WState} (r0 : Rec)
    (h : ∀ st : WState, (f st).sequence = st.sequence ++ [r0]) : Rel nxaPre (M.modifySt f) := by
  constructor
  intro c
  constructor
  intro i r hr
  refine ⟨r, ?_, rfl⟩
  show (f c.st).sequence[i]? = some r
  rw [h, List.getElem?_append_left]
  · exact hr
  · exact (List.getElem?_eq_some_iff.mp hr).1

syntax "nxa_walk" "[" term,* "]" : tactic
macro_rules
  | `(tactic| nxa_walk [$ts,*]) => do
    let alts ← ts.getElems.mapM fun t => `(tactic| exact $t)
    `(tactic| repeat' (first
      | exact Rel.pure _ | exact Rel.pure' _ | exact Rel.throw _ | exact Rel.get
      | exact Rel.liftOpt _ _ | exact Rel.liftExcept _
      | exact Rel.nxa_of_nx (wfProcessWorkflowEvent_nx _) | exact Rel.nxa_of_nx (tkProcessWorkflowEvent_nx _ _)
      | exact Rel.nxa_of_nx (tkProcessEvent_nx _ _) | exact Rel.nxa_of_nx (logEntry_nx _)
      $[| $alts:tactic]*
      | (apply Rel.nxa_of_nx; apply Rel.modifySt_nx; intro st; nx_seq)
      | (apply Rel.nxa_of_nx; apply Rel.raw_nx; intro c; rfl)
      | apply Rel.bind | apply Rel.bind' | apply Rel.tryCatch | apply Rel.forEach | apply Rel.foldM' | apply Rel.mapM'
      | intro _ | split | dsimp only ))

theorem wfProcessTaskEvent_nx (k ev) : Rel nxPre (wfProcessTaskEvent k ev) := by
  apply Rel.raw_nx
  intro c
  unfold wfProcessTaskEvent
  dsimp only
  split
  · rfl
  · split
    · split
      · rfl
      · rw [forEach_logError_seq]
    · rfl

theorem requestStatus_nxa (req) : Rel nxaPre (requestStatus req) := Rel.nxa_of_nx (requestStatus_nx req)

theorem failOnError_nxa : Rel nxaPre failOnError := Rel.nxa_of_nx failOnError_nx

theorem logError_nxa (k a b c) : Rel nxaPre (logError k a b c) := Rel.nxa_of_nx (logError_nx k a b c)

theorem getTask_nxa (k) : Rel nxaPre (getTask E k) := by
  unfold getTask
  nxa_walk []

theorem evaluateTaskActions_nxa (o) : Rel nxaPre (evaluateTaskActions o) := by
  unfold evaluateTaskActions
  nxa_walk []

theorem nextTaskFor_nxa (sx) : Rel nxaPre (nextTaskFor E sx) := by
  unfold nextTaskFor
  nxa_walk [getTask_nxa E _, evaluateTaskActions_nxa _, logError_nxa _ _ _ _]

theorem nextFrom_nxa (todo) : Rel nxaPre (nextFrom E todo) := by
  unfold nextFrom
  nxa_walk [nextTaskFor_nxa E _, failOnError_nxa]

theorem getNextTasks_nxa : Rel nxaPre (getNextTasks E) :=
  ⟨fun c => (nextFrom_nxa E (nextTodo c.st)).run c⟩

theorem evaluateRoute_nxa (e r) : Rel nxaPre (evaluateRoute e r) := by
  unfold evaluateRoute
  nxa_walk []

theorem stageNext_nxa (k idx e o acc) : Rel nxaPre (stageNext k idx e o acc) := by
  unfold stageNext stageTarget
  nxa_walk [evaluateRoute_nxa _ _]

theorem makeTaskContext_nxa (k idx r) : Rel nxaPre (makeTaskContext k idx r) := Rel.nxa_of_nx (makeTaskContext_nx k idx r)

theorem noteEvent_nxa (k s ev) : Rel nxaPre (noteEvent k s ev) := by
  unfold noteEvent
  nxa_walk []

theorem addTaskState_nxa (k a b) : Rel nxaPre (addTaskState E k a b) := by
  unfold addTaskState
  nxa_walk [failOnError_nxa, logError_nxa _ _ _ _]
  all_goals (
    apply Rel.modifySt_nxa_append
    intro st
    show (WState.setTask _ _ _).sequence = _
    rw [WState.setTask_sequence])

theorem ensureRecord_nxa (k s r ev) : Rel nxaPre (ensureRecord E k s r ev) := by
  unfold ensureRecord firstRecord recordFromStaged
  nxa_walk [addTaskState_nxa E _ _ _]

theorem machineStep_nxa (k idx ev) : Rel nxaPre (machineStep k idx ev) := by
  unfold machineStep
  nxa_walk [Rel.nxa_of_nx (restageRetry_nx _ _ _)]

theorem updateHead_nxa (k ev) : Rel nxaPre (updateHead E k ev) := by
  unfold updateHead
  nxa_walk [ensureRecord_nxa E _ _ _ _, noteEvent_nxa _ _ _, machineStep_nxa _ _ _]

theorem markTermIfCompleted_nxa (idx) : Rel nxaPre (markTermIfCompleted idx) := by
  unfold markTermIfCompleted
  nxa_walk []

theorem terminalContext_nxa : Rel nxaPre terminalContext := by
  unfold terminalContext
  nxa_walk []

theorem renderOutput_nxa : Rel nxaPre (renderOutput E) := by
  unfold renderOutput
  nxa_walk [terminalContext_nxa, failOnError_nxa, logError_nxa _ _ _ _]

theorem requestTaskRerun_nxa (k r) : Rel nxaPre (requestTaskRerun E k r) := by
  unfold requestTaskRerun
  nxa_walk [addTaskState_nxa E _ _ _]

theorem requestRerun_nxa (reqs) : Rel nxaPre (requestRerun E reqs) := by
  unfold requestRerun
  nxa_walk [requestTaskRerun_nxa E _ _]

/-! ### evaluating the transitions of record `idx` touches no other record's decisions -/

structure NxOther (idx : Nat) (c c' : Cond) : Prop where
  keep : ∀ (i : Nat) (r : Rec), i ≠ idx → c.st.sequence[i]? = some r →
    ∃ r', c'.st.sequence[i]? = some r' ∧ r'.next = r.next
  len : ∀ (i : Nat), c.st.sequence[i]?.isSome → c'.st.sequence[i]?.isSome

def nxoPre (idx : Nat) : Pre where
  R := NxOther idx
  refl c := ⟨fun i r _ h => ⟨r, h, rfl⟩, fun i h => h⟩
  trans := by
    intro a b c h1 h2
    refine ⟨?_, fun i h => h2.len i (h1.len i h)⟩
    intro i r hi hr
    obtain ⟨r', hr', e1⟩ := h1.keep i r hi hr
    obtain ⟨r'', hr'', e2⟩ := h2.keep i r' hi hr'
    exact ⟨r'', hr'', e2.trans e1⟩

theorem Rel.nxo_of_nxa {α} {m : M α} (idx : Nat) (h : Rel nxaPre m) : Rel (nxoPre idx) m := by
  constructor
  intro c
  refine ⟨fun i r _ hr => (h.run c).keep i r hr, ?_⟩
  intro i hi
  cases hc : c.st.sequence[i]? with
  | none => rw [hc] at hi; cases hi
  | some r =>
    obtain ⟨r', hr', _⟩ := (h.run c).keep i r hc
    rw [hr']
    rfl

theorem recordDecision_nxo (idx : Nat) (tid : TransId) (b : Bool) :
    Rel (nxoPre idx) (M.modifySt fun st => st.updateRec idx fun r => { r with next := setAssoc r.next tid b }) := by
  constructor
  intro c
  refine ⟨?_, ?_⟩
  · intro i r hi hr
    refine ⟨r, ?_, rfl⟩
    show (c.st.sequence.modify idx _)[i]? = some r
    rw [getElem?_modify_ne _ _ _ _ hi]
    exact hr
  · intro i hi
    show ((c.st.sequence.modify idx _)[i]?).isSome
    by_cases h : i = idx
    · subst h
      rw [getElem?_modify_same]
      cases hc : c.st.sequence[i]? with
      | none => rw [hc] at hi; cases hi
      | some r => rfl
    · rw [getElem?_modify_ne _ _ _ _ h]
      exact hi

syntax "nxo_walk" "[" term,* "]" : tactic
macro_rules
  | `(tactic| nxo_walk [$ts,*]) => do
    let alts ← ts.getElems.mapM fun t => `(tactic| exact $t)
    `(tactic| repeat' (first
      | exact Rel.pure _ | exact Rel.pure' _ | exact Rel.throw _ | exact Rel.get
      | exact Rel.liftOpt _ _ | exact Rel.liftExcept _
      | exact recordDecision_nxo _ _ _
      | exact Rel.nxo_of_nxa _ (logError_nxa _ _ _ _) | exact Rel.nxo_of_nxa _ failOnError_nxa
      $[| $alts:tactic]*
      | (apply Rel.nxo_of_nxa; apply Rel.nxa_of_nx; apply Rel.modifySt_nx; intro st; nx_seq)
      | apply Rel.bind | apply Rel.bind' | apply Rel.tryCatch | apply Rel.forEach | apply Rel.foldM' | apply Rel.mapM'
      | intro _ | split | dsimp only ))

theorem fireTransition_nxo (k idx ec acc e) : Rel (nxoPre idx) (fireTransition E k idx ec acc e) := by
  unfold fireTransition
  nxo_walk [Rel.nxo_of_nxa _ (stageNext_nxa _ _ _ _ _)]

theorem processTransition_nxo (k idx ec acc e) : Rel (nxoPre idx) (processTransition E k idx ec acc e) := by
  unfold processTransition
  nxo_walk [fireTransition_nxo E _ _ _ _ _]

theorem evalTransitions_nxo (k idx ts ev) : Rel (nxoPre idx) (evalTransitions E k idx ts ev) := by
  unfold evalTransitions
  nxo_walk [Rel.nxo_of_nxa _ (makeTaskContext_nxa _ _ _), processTransition_nxo E _ _ _ _ _]

/-! ### decided records keep their decisions -/

structure NK (c c' : Cond) : Prop where
  keep : ∀ (i : Nat) (r : Rec), c.st.sequence[i]? = some r → r.next ≠ [] →
    ∃ r', c'.st.sequence[i]? = some r' ∧ r'.next = r.next

theorem NK.refl (c : Cond) : NK c c := ⟨fun i r h _ => ⟨r, h, rfl⟩⟩

theorem NK.trans {a b c : Cond} (h1 : NK a b) (h2 : NK b c) : NK a c := by
  constructor
  intro i r hr hn
  obtain ⟨r', hr', e1⟩ := h1.keep i r hr hn
  obtain ⟨r'', hr'', e2⟩ := h2.keep i r' hr' (by rw [e1]; exact hn)
  exact ⟨r'', hr'', e2.trans e1⟩

theorem NxAll.nk {c c' : Cond} (h : NxAll c c') : NK c c' := ⟨fun i r hr _ => h.keep i r hr⟩

theorem NxOther.nk {idx : Nat} {c c' : Cond} (h : NxOther idx c c') (hund : Undecided c idx) : NK c c' := by
  constructor
  intro i r hr hn
  by_cases hi : i = idx
  · subst hi
    exact absurd (hund r hr) hn
  · exact h.keep i r hi hr

theorem nk_bind {α β} (m : M α) (f : α → M β) (c : Cond) (hm : NK c (m c).2)
    (hf : ∀ a c1, m c = (.ok a, c1) → NK c1 (f a c1).2) : NK c ((m >>= f) c).2 := by
  rw [M.bind_run]
  cases h : m c with
  | mk res c1 =>
    rw [h] at hm
    cases res with
    | ok a => exact hm.trans (hf a c1 h)
    | error e => exact hm

/-- a Hoare judgement: from a state where decided records are completed, `m` keeps the decisions
    (and makes a weak step, so that the invariant can be threaded) -/
def KW {α} (m : M α) : Prop := ∀ c, Dec c → (DecStepW c (m c).2 ∧ NK c (m c).2)

theorem KW.of_rel {α} {m : M α} (h1 : Rel decStep m) (h2 : Rel nxaPre m) : KW m :=
  fun c _ => ⟨(h1.run c).weak, (h2.run c).nk⟩

theorem KW.pure {α} (a : α) : KW (Pure.pure a : M α) := fun c _ => ⟨DecStepW.refl c, NK.refl c⟩

theorem KW.bind {α β} {m : M α} {f : α → M β} (hm : KW m) (hf : ∀ a, KW (f a)) : KW (m >>= f) := by
  intro c hd
  obtain ⟨w, n⟩ := hm c hd
  rw [M.bind_run]
  cases h : m c with
  | mk res c1 =>
    rw [h] at w n
    cases res with
    | ok a =>
      obtain ⟨w2, n2⟩ := hf a c1 (Dec.stepW w hd)
      exact ⟨w.trans w2, n.trans n2⟩
    | error e => exact ⟨w, n⟩

theorem KW.forEach {α} (xs : List α) {f : α → M Unit} (hf : ∀ x, KW (f x)) : KW (M.forEach xs f) := by
  induction xs with
  | nil => exact KW.pure ()
  | cons x xs ih =>
    show KW (M.bind' (f x) fun _ => M.forEach xs f)
    exact KW.bind (hf x) (fun _ => ih)

theorem updateRest_nk (recur : TaskKey → Event → M Unit)
    (hrec : ∀ nk cmd, Cmd.ofStr? nk.1 = some cmd → KW (recur nk (.engine cmd)))
    (k : TaskKey) (ev : Event) (h : Stepped) (c : Cond) (hd : Dec c)
    (hcomp : h.newStatus.isCompleted = true → CompAt c h.idx)
    (hund : h.newStatus ≠ h.oldStatus → Undecided c h.idx) :
    NK c (updateRest E recur k ev h c).2 := by
  unfold updateRest
  have hfirst : ∀ acc c1, (if h.newStatus.isCompleted && h.newStatus != h.oldStatus then evalTransitions E k h.idx h.ts ev
      else pure {} : M TransAcc) c = (acc, c1) → DecStepW c c1 ∧ NK c c1 := by
    intro acc c1 h1
    split at h1
    · rename_i hcond
      simp only [Bool.and_eq_true] at hcond
      have hne : h.newStatus ≠ h.oldStatus := by
        intro he
        have := hcond.2
        rw [he] at this
        revert this
        cases h.oldStatus <;> decide
      have w := ((evalTransitions_at E k h.idx h.ts ev).run c (hcomp hcond.1)).2.weak
      have n := ((evalTransitions_nxo E k h.idx h.ts ev).run c).nk (hund hne)
      rw [h1] at w n
      exact ⟨w, n⟩
    · have : c1 = c := by
        simp only [pure, M.pure', Prod.mk.injEq] at h1
        exact h1.2.symm
      subst this
      exact ⟨DecStepW.refl _, NK.refl _⟩
  rw [M.bind_run]
  cases h1 : (if h.newStatus.isCompleted && h.newStatus != h.oldStatus then evalTransitions E k h.idx h.ts ev
      else pure {} : M TransAcc) c with
  | mk res c1 =>
    obtain ⟨w1, n1⟩ := hfirst res c1 h1
    cases res with
    | error e => exact n1
    | ok acc =>
      dsimp only
      have hrest : KW (do
          let c ← M.get
          let r ← liftOpt c.st.sequence[h.idx]? .indexError
          let st ← liftOpt r.status .keyError
          wfProcessTaskEvent k st
          M.forEach acc.queue fun nk =>
            match Cmd.ofStr? nk.1 with
            | some cmd => recur nk (.engine cmd)
            | none => pure ()
          markTermIfCompleted h.idx : M Unit) := by
        apply KW.bind (KW.of_rel Rel.get Rel.get)
        intro c2
        apply KW.bind (KW.of_rel (Rel.liftOpt _ _) (Rel.liftOpt _ _))
        intro r
        apply KW.bind (KW.of_rel (Rel.liftOpt _ _) (Rel.liftOpt _ _))
        intro st
        apply KW.bind (KW.of_rel (wfProcessTaskEvent_dec _ _) (Rel.nxa_of_nx (wfProcessTaskEvent_nx _ _)))
        intro _
        apply KW.bind
        · apply KW.forEach
          intro nk
          split
          · rename_i cmd hcmd
            exact hrec nk cmd hcmd
          · exact KW.pure ()
        · intro _
          exact KW.of_rel (markTermIfCompleted_dec _) (markTermIfCompleted_nxa _)
      exact n1.trans (hrest c1 (Dec.stepW w1 hd)).2

theorem updateTail_nk (recur : TaskKey → Event → M Unit)
    (hrecw : ∀ k ev c, Dec c → Pre18 k ev c → DecStepW c (recur k ev c).2)
    (hreck : ∀ k ev c, Dec c → Pre18 k ev c → NK c (recur k ev c).2)
    (k : TaskKey) (ev : Event) (h : Stepped) (c : Cond) (hd : Dec c) (hpost : HeadPost h c)
    (hidx : isCmdName k.1 = false → c.st.taskIdx? k = some h.idx) :
    NK c (updateTail E recur k ev h c).2 := by
  unfold updateTail
  have hm1 : Rel decStep (if h.newStatus.isCompleted then completedRetryDecision E k h.idx h.ts h.oldStatus h.newStatus ev
      else pure false : M Bool) := by
    split
    · exact completedRetryDecision_dec E _ _ _ _ _ _
    · exact Rel.pure _
  have hm1k : Rel rkPre (if h.newStatus.isCompleted then completedRetryDecision E k h.idx h.ts h.oldStatus h.newStatus ev
      else pure false : M Bool) := by
    split
    · exact completedRetryDecision_rk E _ _ _ _ _ _
    · exact Rel.pure _
  have hm1n : Rel nxPre (if h.newStatus.isCompleted then completedRetryDecision E k h.idx h.ts h.oldStatus h.newStatus ev
      else pure false : M Bool) := by
    split
    · exact completedRetryDecision_nx E _ _ _ _ _ _
    · exact Rel.pure _
  have hs5 := hm1.run c
  have hk5 := hm1k.run c
  have hn5 := hm1n.run c
  apply nk_bind
  · exact (NxAll.of_map hn5).nk
  intro retry c5 h5
  rw [h5] at hs5 hk5 hn5
  have hd5 : Dec c5 := Dec.stepW hs5.weak hd
  obtain ⟨r, hr, hstat, hund⟩ := hpost
  obtain ⟨r5, hr5, st5⟩ := hs5.old h.idx r hr
  have hund5 : h.newStatus ≠ h.oldStatus → Undecided c5 h.idx := by
    intro hne r' hr'
    rw [hr5] at hr'
    cases hr'
    rw [nx_getElem hn5 hr hr5]
    exact hund hne
  cases retry with
  | false =>
    apply updateRest_nk E recur _ k ev h c5 hd5
    · intro hcomp
      have hcr : Comp r := by
        cases hs : r.status with
        | none => rw [hs] at hstat; simp only [Option.getD_none] at hstat; rw [← hstat] at hcomp; cases hcomp
        | some s =>
          rw [hs] at hstat
          simp only [Option.getD_some] at hstat
          exact ⟨s, hs, by rw [hstat]; exact hcomp⟩
      exact ⟨r5, hr5, Comp.step st5 hcr⟩
    · exact hund5
    · intro nk cmd hcmd c' hd'
      have hp : Pre18 nk (.engine cmd) c' := by
        intro _
        left
        unfold isCmdName
        rw [hcmd]
        rfl
      exact ⟨hrecw nk _ c' hd' hp, hreck nk _ c' hd' hp⟩
  | true =>
    apply hreck k _ c5 hd5
    intro _
    cases hcmd : isCmdName k.1 with
    | true => left; rfl
    | false =>
      right
      refine ⟨h.idx, ?_, ?_⟩
      · have := hidx hcmd
        unfold WState.taskIdx? at this ⊢
        rw [hk5.2]
        exact this
      · have hne : h.newStatus ≠ h.oldStatus := by
          split at h5
          · exact completedRetryDecision_changed E _ _ _ _ _ _ _ _ h5
          · obtain ⟨e, _⟩ := pure_ok h5
            cases e
        exact hund5 hne

theorem updateTaskStateAux_nk (fuel : Nat) (k : TaskKey) (ev : Event) (c : Cond) (hd : Dec c)
    (hpre : Pre18 k ev c) : NK c (updateTaskStateAux E fuel k ev c).2 := by
  induction fuel generalizing k ev c with
  | zero => unfold updateTaskStateAux; exact NK.refl c
  | succ n ih =>
    unfold updateTaskStateAux
    obtain ⟨hw, hpost⟩ := updateHead_decw E k ev c hd hpre
    have hn := ((updateHead_nxa E k ev).run c).nk
    apply nk_bind
    · exact hn
    intro h c4 h4
    rw [h4] at hw
    apply updateTail_nk E _ (fun k ev c hd hp => updateTaskStateAux_decw E n k ev c hd hp)
      (fun k ev c hd hp => ih k ev c hd hp) k ev h c4 (Dec.stepW hw hd) (hpost h c4 h4)
    intro hcmd
    exact updateHead_taskIdx E k ev c c4 h h4 hcmd

end Orq
