/-
Every API operation of the conductor model refines the workflow status automaton
(`Rel (statusPre A)`), for every expression evaluator.  The proofs are one syntax-directed walk per
model function.
-/
import OrqModel.Proofs.StatusTrace

namespace Orq

variable (E : Evaluator) {A : Status → Bool}

syntax "status_walk" "[" term,* "]" : tactic
macro_rules
  | `(tactic| status_walk [$ts,*]) => do
    let alts ← ts.getElems.mapM fun t => `(tactic| exact $t)
    `(tactic| repeat' (first
      | exact Rel.pure _ | exact Rel.pure' _ | exact Rel.throw _ | exact Rel.get
      | exact Rel.liftOpt _ _ | exact Rel.liftExcept _
      | exact wfProcessTaskEvent_status _ _
      | exact Rel.of_keep (tkProcessWorkflowEvent_keep _ _) | exact Rel.of_keep (tkProcessEvent_keep _ _)
      | exact logError_status _ _ _ _ | exact logEntry_status _
      $[| $alts:tactic]*
      | (apply Rel.modifySt_status; intro st; simp; done)
      | (apply Rel.modify_status; intro st; rfl)
      | apply Rel.bind | apply Rel.bind' | apply Rel.tryCatch | apply Rel.forEach | apply Rel.foldM' | apply Rel.mapM'
      | intro _ | split | dsimp only ))

theorem requestStatus_status (req) (hA : A req = true) : Rel (statusPre A) (requestStatus req) := by
  unfold requestStatus
  status_walk [wfProcessWorkflowEvent_status _ hA]

theorem failOnError_status (hF : A .failed = true) : Rel (statusPre A) failOnError := by
  unfold failOnError
  status_walk [requestStatus_status _ hF]

theorem getTask_status (k) : Rel (statusPre A) (getTask E k) := by
  unfold getTask
  status_walk []

theorem evaluateTaskActions_status (o) : Rel (statusPre A) (evaluateTaskActions o) := by
  unfold evaluateTaskActions
  status_walk []

theorem nextTaskFor_status (sx) (hF : A .failed = true) : Rel (statusPre A) (nextTaskFor E sx) := by
  unfold nextTaskFor
  status_walk [getTask_status E _ , evaluateTaskActions_status _ ]

theorem nextFrom_status (todo) (hF : A .failed = true) : Rel (statusPre A) (nextFrom E todo) := by
  unfold nextFrom
  status_walk [nextTaskFor_status E _ hF, requestStatus_status _ hF, failOnError_status hF]

theorem getNextTasks_status (hF : A .failed = true) : Rel (statusPre A) (getNextTasks E) := by
  constructor
  intro c
  exact (nextFrom_status E (nextTodo c.st) hF).run c

theorem addTaskState_status (k a b) (hF : A .failed = true) : Rel (statusPre A) (addTaskState E k a b) := by
  unfold addTaskState
  status_walk [requestStatus_status _ hF, failOnError_status hF]

theorem evaluateRoute_status (e r) : Rel (statusPre A) (evaluateRoute e r) := by
  unfold evaluateRoute
  status_walk []

theorem stageNext_status (k idx e o acc) : Rel (statusPre A) (stageNext k idx e o acc) := by
  unfold stageNext stageTarget
  status_walk [evaluateRoute_status _ _ ]

theorem fireTransition_status (k idx ec acc e) (hF : A .failed = true) : Rel (statusPre A) (fireTransition E k idx ec acc e) := by
  unfold fireTransition
  status_walk [requestStatus_status _ hF, failOnError_status hF, stageNext_status _ _ _ _ _ ]

theorem processTransition_status (k idx ec acc e) (hF : A .failed = true) : Rel (statusPre A) (processTransition E k idx ec acc e) := by
  unfold processTransition
  status_walk [requestStatus_status _ hF, failOnError_status hF, fireTransition_status E _ _ _ _ _ hF]

theorem makeTaskContext_status (k idx r) : Rel (statusPre A) (makeTaskContext k idx r) := by
  unfold makeTaskContext
  status_walk []

theorem ensureRecord_status (k s r ev) (hF : A .failed = true) : Rel (statusPre A) (ensureRecord E k s r ev) := by
  unfold ensureRecord firstRecord recordFromStaged
  status_walk [addTaskState_status E _ _ _ hF]

theorem noteEvent_status (k s ev) : Rel (statusPre A) (noteEvent k s ev) := by
  unfold noteEvent
  status_walk []

theorem restageRetry_status (k idx o) : Rel (statusPre A) (restageRetry k idx o) := by
  unfold restageRetry
  status_walk []

theorem completedRetryDecision_status (k idx ts os ns ev) (hF : A .failed = true) :
    Rel (statusPre A) (completedRetryDecision E k idx ts os ns ev) := by
  unfold completedRetryDecision
  status_walk [makeTaskContext_status _ _ _ , requestStatus_status _ hF, failOnError_status hF]

theorem evalTransitions_status (k idx ts ev) (hF : A .failed = true) : Rel (statusPre A) (evalTransitions E k idx ts ev) := by
  unfold evalTransitions
  status_walk [makeTaskContext_status _ _ _ , processTransition_status E _ _ _ _ _ hF]

theorem markTermIfCompleted_status (idx) : Rel (statusPre A) (markTermIfCompleted idx) := by
  unfold markTermIfCompleted
  status_walk []

theorem machineStep_status (k idx ev) : Rel (statusPre A) (machineStep k idx ev) := by
  unfold machineStep
  status_walk [restageRetry_status _ _ _]

theorem updateHead_status (k ev) (hF : A .failed = true) : Rel (statusPre A) (updateHead E k ev) := by
  unfold updateHead
  status_walk [ensureRecord_status E _ _ _ _ hF, noteEvent_status _ _ _ , machineStep_status _ _ _]

theorem updateTail_status (recur : TaskKey → Event → M Unit) (hrec : ∀ k ev, Rel (statusPre A) (recur k ev))
    (k ev h) (hF : A .failed = true) : Rel (statusPre A) (updateTail E recur k ev h) := by
  unfold updateTail updateRest
  status_walk [hrec _ _, completedRetryDecision_status E _ _ _ _ _ _ hF, evalTransitions_status E _ _ _ _ hF, markTermIfCompleted_status _ ]

theorem updateTaskStateAux_status (fuel k ev) (hF : A .failed = true) : Rel (statusPre A) (updateTaskStateAux E fuel k ev) := by
  induction fuel generalizing k ev with
  | zero => unfold updateTaskStateAux; exact Rel.throw _
  | succ n ih =>
    unfold updateTaskStateAux
    status_walk [updateHead_status E _ _ hF, updateTail_status E _ (fun k ev => ih k ev) _ _ _ hF]

theorem updateTaskState_status (k ev) (hF : A .failed = true) : Rel (statusPre A) (updateTaskState E k ev) :=
  updateTaskStateAux_status E 3 k ev hF

theorem terminalContext_status : Rel (statusPre A) terminalContext := by
  unfold terminalContext
  status_walk []

theorem renderOutput_status (hF : A .failed = true) : Rel (statusPre A) (renderOutput E) := by
  unfold renderOutput
  status_walk [terminalContext_status, requestStatus_status _ hF, failOnError_status hF]

end Orq
