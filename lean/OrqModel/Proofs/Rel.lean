/-
A small relational program logic for the model's state/exception monad `M`.

`Rel R m` says: running `m` from any state `s` ends (normally or with an exception) in a state
`s'` with `R s s'`.  For a reflexive, transitive `R` the rules below are syntax-directed, so one
tactic script walks the whole conductor model; the same walk is reused for every preorder
(status automaton, append-only history, error-log growth, …).
-/
import OrqModel.Model.Conductor

namespace Orq

structure Pre where
  R : Cond → Cond → Prop
  refl : ∀ s, R s s
  trans : ∀ {a b c}, R a b → R b c → R a c

structure Rel (P : Pre) {α} (m : M α) : Prop where
  run : ∀ s, P.R s (m s).2

namespace Rel

variable {P : Pre}

theorem pure {α} (a : α) : Rel P (Pure.pure a : M α) := ⟨fun s => P.refl s⟩

theorem pure' {α} (a : α) : Rel P (M.pure' a : M α) := ⟨fun s => P.refl s⟩

theorem bind {α β} {m : M α} {f : α → M β} (hm : Rel P m) (hf : ∀ a, Rel P (f a)) :
    Rel P (m >>= f) := by
  constructor
  intro s
  show P.R s (M.bind' m f s).2
  unfold M.bind'
  have h1 := hm.run s
  cases h : m s with
  | mk r s' =>
    rw [h] at h1
    cases r with
    | ok a => exact P.trans h1 ((hf a).run s')
    | error e => exact h1

theorem bind' {α β} {m : M α} {f : α → M β} (hm : Rel P m) (hf : ∀ a, Rel P (f a)) :
    Rel P (M.bind' m f) := bind hm hf

theorem throw {α} (e : Err) : Rel P (M.throw e : M α) := ⟨fun s => P.refl s⟩

theorem get : Rel P M.get := ⟨fun s => P.refl s⟩

theorem modify {f : Cond → Cond} (h : ∀ s, P.R s (f s)) : Rel P (M.modify f) := ⟨fun s => h s⟩

theorem modifySt {f : WState → WState} (h : ∀ s : Cond, P.R s { s with st := f s.st }) :
    Rel P (M.modifySt f) := ⟨fun s => h s⟩

theorem liftExcept {α} (x : Except Err α) : Rel P (M.liftExcept x) := by
  cases x <;> constructor <;> intro s <;> exact P.refl s

theorem liftOpt {α} (x : Option α) (e : Err) : Rel P (liftOpt x e) := by
  cases x <;> constructor <;> intro s <;> exact P.refl s

theorem tryCatch {α} {m : M α} {h : Err → M α} (hm : Rel P m) (hh : ∀ e, Rel P (h e)) :
    Rel P (M.tryCatch m h) := by
  constructor
  intro s
  unfold M.tryCatch
  have h1 := hm.run s
  cases hr : m s with
  | mk r s' =>
    rw [hr] at h1
    cases r with
    | ok a => exact h1
    | error e => exact P.trans h1 ((hh e).run s')

theorem forEach {α} (xs : List α) {f : α → M Unit} (hf : ∀ a, Rel P (f a)) :
    Rel P (M.forEach xs f) := by
  induction xs with
  | nil => exact pure ()
  | cons x xs ih =>
    unfold M.forEach
    exact bind' (hf x) (fun _ => ih)

theorem mapM' {α β} (xs : List α) {f : α → M β} (hf : ∀ a, Rel P (f a)) :
    Rel P (M.mapM' xs f) := by
  induction xs with
  | nil => exact pure []
  | cons x xs ih =>
    unfold M.mapM'
    exact bind' (hf x) (fun _ => bind' ih (fun _ => pure _))

theorem foldM' {α β} (xs : List α) (b : β) {f : β → α → M β} (hf : ∀ b a, Rel P (f b a)) :
    Rel P (M.foldM' xs b f) := by
  induction xs generalizing b with
  | nil => exact pure b
  | cons x xs ih =>
    unfold M.foldM'
    exact bind' (hf b x) (fun b' => ih b')

theorem ite {α} {c : Prop} [Decidable c] {a b : M α} (ha : Rel P a) (hb : Rel P b) :
    Rel P (if c then a else b) := by
  split <;> assumption

/-- a raw state function: give the relation directly -/
theorem raw {α} {m : M α} (h : ∀ s, P.R s (m s).2) : Rel P m := ⟨h⟩

end Rel

end Orq
