/-
The fragment evaluator of the executable driver cannot see the staging area: it satisfies the
hypothesis of the repeatability theorem (`getNextTasks_idem`), which is therefore not vacuous.
-/
import OrqModel.Proofs.NextIdem
import OrqModel.Model.Eval

namespace Orq

theorem taskStatusOf_staged (st : WState) (X : List Staged) (P : List (Nat × TransId × Nat)) (tid : String) (fuel route : Nat) :
    taskStatusOf { st with staged := X, pubLog := P } tid fuel route = taskStatusOf st tid fuel route := by
  induction fuel generalizing route with
  | zero =>
    cases route with
    | zero => simp only [taskStatusOf, WState.taskIdx?]
    | succ r => simp only [taskStatusOf]
  | succ n ih =>
    cases route with
    | zero => simp only [taskStatusOf, WState.taskIdx?]
    | succ r => simp only [taskStatusOf, WState.taskIdx?, ih]

theorem fragEval_staged (st : WState) (X : List Staged) (P : List (Nat × TransId × Nat)) (e : Expr) : ∀ ec : EvalCtx,
    fragEval e { ec with st := some { st with staged := X, pubLog := P } } = fragEval e { ec with st := some st } := by
  induction e with
  | taskStatus t => intro ec; simp only [fragEval, taskStatusOf_staged]
  | succeeded => intro ec; simp only [fragEval, curTaskStatus, taskStatusOf_staged]
  | failed => intro ec; simp only [fragEval, curTaskStatus, taskStatusOf_staged]
  | completed => intro ec; simp only [fragEval, curTaskStatus, taskStatusOf_staged]
  | eq a b iha ihb => intro ec; simp only [fragEval, iha, ihb]
  | lt a b iha ihb => intro ec; simp only [fragEval, iha, ihb]
  | not a iha => intro ec; simp only [fragEval, iha]
  | and a b iha ihb => intro ec; simp only [fragEval, iha, ihb]
  | or a b iha ihb => intro ec; simp only [fragEval, iha, ihb]
  | add a b iha ihb => intro ec; simp only [fragEval, iha, ihb]
  | div a b iha ihb => intro ec; simp only [fragEval, iha, ihb]
  | _ => intro ec; simp only [fragEval]

theorem fragEvaluator_itemsBlind : fragEvaluator.ItemsBlind := by
  intro st st' h e ec
  have hst : st' = { st with staged := st'.staged, pubLog := st'.pubLog } := by
    obtain ⟨h1, h2, h3, h4, h5, h6, _⟩ := h
    cases st'
    cases st
    simp only at h1 h2 h3 h4 h5 h6
    subst h1 h2 h3 h4 h5 h6
    rfl
  rw [hst]
  exact fragEval_staged st st'.staged st'.pubLog e ec

end Orq
