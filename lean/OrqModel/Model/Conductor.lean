/-
Hand model of `orquesta/conducting.py` (WorkflowConductor), written against the generated
state-machine functions.  Every function is parametrised by the expression `Evaluator`.
Core Lean only.

Python object identity is replaced by indices/keys: a record is addressed by its index in
`sequence`, a staged entry by `(id, route)` (first match, as `get_staged_task`).
-/
import OrqModel.Model.State

namespace Orq

open M

variable (E : Evaluator)

/-! ## logging -/

def logEntry (e : ErrEntry) : M Unit := modify fun c =>
  if c.errors.any (·.same e) then c else { c with errors := c.errors ++ [e] }

def logError (kind : String) (taskId : Option String := none) (route : Option Nat := none)
    (trans : Option TransId := none) : M Unit :=
  logEntry { kind := kind, taskId := taskId, route := route, trans := trans }

/-! ## graph/state queries used by the workflow state machine -/

inductive Inbound where
  | satisfied | wip | notSatisfied
  deriving DecidableEq, Repr

def distinctStrs (xs : List String) : List String :=
  xs.foldl (fun acc x => if acc.contains x then acc else acc ++ [x]) []

/-- per inbound task: `none` = no record on the route yet, `some b` = whether some transition of
    its latest record into `taskId` was decided true -/
def evalSrc (c : Cond) (taskId : String) (route : Nat) (src : String) : Option Bool :=
  match c.st.getRec? (src, route) with
  | none => none
  | some r =>
    some (((c.graph.prevTransitions taskId).filter (·.src == src)).any fun e =>
      (r.next.find? (fun p => p.1 == (taskId, e.key))).any (·.2))

/-- the number of inbound tasks a barrier requires (`get_barrier(task) or 1`) -/
def barrierRequirement (c : Cond) (taskId : String) (nsrcs : Nat) : Nat :=
  match c.graph.barrier? taskId with
  | some none => nsrcs
  | some (some n) => n
  | none => 1

/-- `get_inbound_criteria_status` with the (set-ordered) list of distinct inbound tasks explicit -/
def inboundStatusWith (c : Cond) (taskId : String) (route : Nat) (srcs : List String) : Inbound :=
  let evals := srcs.map (evalSrc c taskId route)
  if (evals.filter (· == some true)).length ≥ barrierRequirement c taskId srcs.length then .satisfied
  else if evals.any (· == none) && (c.st.hasActive || c.st.hasStaged) then .wip
  else .notSatisfied

/-- `get_inbound_criteria_status(task_id, route)` -/
def inboundStatus (c : Cond) (taskId : String) (route : Nat) : Inbound :=
  inboundStatusWith c taskId route (distinctStrs ((c.graph.prevTransitions taskId).map (·.src)))

/-- `_has_next(task_id, route, eval_join_ready)` -/
def hasNext (c : Cond) (k : TaskKey) (evalJoinReady : Bool) : Bool :=
  match c.st.getRec? k with
  | none => false
  | some r =>
    if !(r.status.any Status.isCompleted) then false
    else
      (c.graph.nextTransitions k.1).any fun e =>
        e.dst != "continue" &&
        (r.next.find? (fun p => p.1 == (e.dst, e.key))).any (·.2) &&
        (if c.graph.hasBarrier e.dst then
           (!evalJoinReady) || inboundStatus c e.dst k.2 != .notSatisfied
         else true)

/-- `get_unreachable_barriers()` -/
def unreachableBarriers (c : Cond) : List Staged :=
  c.st.staged.filter fun x =>
    c.graph.hasBarrier x.id && !x.ready && inboundStatus c x.id x.route == .notSatisfied

def setWfStatus (s : Status) : M Unit := modifySt fun st => { st with status := s }

/-- `WorkflowStateMachine.process_event(state, TaskExecutionEvent(task, route, status))` -/
def wfProcessTaskEvent (k : TaskKey) (ev : Status) : M Unit := fun c =>
  let bn := hasNext c k false
  let nx := hasNext c k true
  let (rem, act, oc) := taskEventSummary ev bn nx c.st.hasActive c.st.hasCanceling c.st.hasCanceled
    c.st.hasPausing c.st.hasPaused c.st.hasStaged
  match wfOnTaskEvent c.st.status ev rem act oc with
  | .raise e => (.error (.machine e), c)
  | .ok s' =>
    let cur := c.st.status
    let c1 := { c with st := { c.st with status := s' } }
    if s' != cur && wfUnreachCheck s' then
      let ub := unreachableBarriers c1
      if ub.isEmpty then (.ok (), c1)
      else
        (forEach ub fun x => logError "UnreachableJoinError" (some x.id) (some x.route))
          { c1 with st := { c1.st with status := .failed } }
    else (.ok (), c1)

/-- `WorkflowStateMachine.process_event(state, WorkflowExecutionEvent(status))` -/
def wfProcessWorkflowEvent (req : Status) : M Unit := fun c =>
  match wfOnWorkflowEvent c.st.status req c.st.hasActive c.st.hasStaged c.st.hasPaused with
  | .raise e => (.error (.machine e), c)
  | .ok s' =>
    let cur := c.st.status
    let c1 := { c with st := { c.st with status := s' } }
    if s' != cur && wfReqUnreachCheck s' then
      let ub := unreachableBarriers c1
      if ub.isEmpty then (.ok (), c1)
      else
        (forEach ub fun x => logError "UnreachableJoinError" (some x.id) (some x.route))
          { c1 with st := { c1.st with status := .failed } }
    else (.ok (), c1)

/-- the with-items context of a task record for a workflow event: has items, some active, some incomplete -/
def itemFlags (st : WState) (r : Rec) : Bool × Bool × Bool :=
  match st.getStaged? (r.id, r.route) with
  | some x => match x.items with
    | some its => (true, its.any Status.isActive, its.any (fun s => !s.isCompleted))
    | none => (false, false, false)
  | none => (false, false, false)

/-- `TaskStateMachine.process_event(state, record, WorkflowExecutionEvent(status))` on record `i` -/
def tkProcessWorkflowEvent (i : Nat) (req : Status) : M Unit := fun c =>
  match c.st.sequence[i]? with
  | none => (.error .indexError, c)
  | some r =>
    match tkOnWorkflowEvent (r.status.getD .unset) req (itemFlags c.st r).1 (itemFlags c.st r).2.1 (itemFlags c.st r).2.2 with
    | .raise e => (.error (.machine e), c)
    | .ok s' =>
      -- the status key is written only when a table entry matched; an absent status that stays
      -- `unset` is left absent
      if r.status.isNone && s' == .unset then (.ok (), c)
      else (.ok (), { c with st := c.st.updateRec i fun r => { r with status := some s' } })

/-! ## request_workflow_status -/

def requestStatus (req : Status) : M Unit := do
  let c ← get
  let cur := c.st.status
  if !wfTransitionValid cur req then throw .invalidWorkflowStatusTransition
  else do
    forEach (c.st.idxByStatus Status.isActive) fun i => tkProcessWorkflowEvent i req
    wfProcessWorkflowEvent req
    let c' ← get
    let upd := c'.st.status
    if req == .paused && cur == .pausing && upd == .pausing then pure ()
    else if req == .canceled && cur == .canceling && upd == .canceling then pure ()
    else if req != cur && cur == upd then throw .invalidWorkflowStatusTransition
    else pure ()

/-- `_fail_workflow_on_error()`: a runtime error is recorded wherever it occurs, but it cannot
    fail a workflow that is already canceled (the request would be rejected) -/
def failOnError : M Unit := do
  let c ← get
  if c.st.status == .canceled then pure () else requestStatus .failed

/-! ## initialisation (`workflow_state` property) -/

def renderInput (spec : WfSpec) (runtime : Val.Dict) (inCtx : Val.Dict) : Val.Dict × Nat :=
  spec.input.foldl (fun (acc : Val.Dict × Nat) (p : String × Option Expr) =>
    let (rolling, nerr) := acc
    let v : Option Val := match Val.dlookup runtime p.1 with
      | some v => some v
      | none => match p.2 with
        | some e => E.eval e { vars := rolling }
        | none => some .null
    match v with
    | some v => (Val.dset rolling p.1 v, nerr)
    | none => (rolling, nerr + 1)) (inCtx, 0)

/-- sequential rendering of `name: expr` lists against a rolling context (vars, output, publish):
    returns (rolling context, rendered pairs, number of evaluation errors). -/
def renderSeq (items : List (String × Expr)) (mk : Val.Dict → EvalCtx) (inCtx : Val.Dict) :
    Val.Dict × Val.Dict × Nat :=
  items.foldl (fun (acc : Val.Dict × Val.Dict × Nat) (p : String × Expr) =>
    let (rolling, out, nerr) := acc
    match E.eval p.2 (mk rolling) with
    | some v => (Val.dset rolling p.1 v, Val.dset out p.1 v, nerr)
    | none => (rolling, out, nerr + 1)) (inCtx, [], 0)

def init (spec : WfSpec) (parentCtx inputs : Val.Dict) : Cond :=
  let g := compose spec
  let c : Cond := { spec := spec, graph := g, inputs := inputs, parentCtx := parentCtx }
  let (rendered, e1) := renderInput E spec inputs parentCtx
  let ctx := Val.mergeDicts parentCtx rendered
  let (_, vars, e2) := renderSeq E spec.vars (fun r => { vars := r }) ctx
  let ctx := Val.mergeDicts ctx vars
  let c := if e1 + e2 > 0 then
      ((do logError "ExpressionEvaluationException"; failOnError : M Unit) c).2
    else c
  if c.st.status.isAbended then c
  else
    { c with st := { c.st with
        contexts := c.st.contexts ++ [ctx],
        routes := c.st.routes ++ [[]],
        staged := c.st.staged ++ g.roots.map fun n =>
          ({ id := n, route := 0, ctxsIn := [0], ready := true } : Staged) } }

/-! ## get_next_tasks -/

structure ActionOffer where
  action : String
  input : Val
  itemId : Option Nat
  deriving Repr

structure Offer where
  id : String
  route : Nat
  actions : List ActionOffer
  delay : Option Val := none
  itemsCount : Option Nat := none
  concurrency : Option Val := none       -- `some .null` when the key is present with None
  ctx : Val.Dict := []
  deriving Repr

def liftOpt {α} (o : Option α) (e : Err) : M α :=
  match o with
  | some a => pure a
  | none => throw e

/-- `evaluate(getattr(self, "input", {}), ctx)`: an absent input renders as `None` -/
def evalInputsWith (ev : Expr → EvalCtx → Option Val) (inp : List (String × Expr)) (ec : EvalCtx) : Option Val :=
  if inp.isEmpty then some .null
  else (inp.foldlM (fun acc p => (ev p.2 ec).map fun v => Val.dset acc p.1 v) []).map Val.dict

def evalInputs (inp : List (String × Expr)) (ec : EvalCtx) : Option Val := evalInputsWith E.eval inp ec

def optErr {α} (o : Option α) (e : Err) : Except Err α :=
  match o with
  | some a => .ok a
  | none => .error e

/-- the rendering of a task for an offer, as a function of the way expressions are evaluated
    (`ev`), the task's specification and its context variables -/
def renderTask (ev : Expr → EvalCtx → Option Val) (ts : TaskSpec) (vars : Val.Dict) (k : TaskKey) : Except Err Offer := do
  let ec : EvalCtx := { vars := vars, curTask := some k }
  let actions ← (match ts.withItems with
    | none => do
      let inp ← optErr (evalInputsWith ev ts.input ec) .expr
      pure [({ action := ts.action, input := inp, itemId := none } : ActionOffer)]
    | some its => do
      let itemsV ← optErr (ev its.items ec) .expr
      match itemsV with
      | .list xs =>
        (xs.zipIdx).mapM fun (x, i) => do
          let item : Val := match its.key with
            | some key => .dict [(key, x)]
            | none => x
          let inp ← optErr (evalInputsWith ev ts.input { ec with curItem := some item }) .expr
          pure ({ action := ts.action, input := inp, itemId := some i } : ActionOffer)
      | _ => .error .typeError : Except Err (List ActionOffer))
  let delay ← (match ts.delay with
    | none => pure none
    | some (.lit (.int 0)) => pure none
    | some (.lit (.int n)) => pure (some (.int n))
    | some e => do
      let v ← optErr (ev e ec) .expr
      match v with
      | .int n => pure (some (.int n))
      | _ => .error .typeError : Except Err (Option Val))
  match ts.withItems with
  | none => pure { id := k.1, route := k.2, actions := actions, delay := delay, ctx := vars }
  | some its => do
    let conc ← (match its.concurrency with
      | none => pure Val.null
      | some e => optErr (ev e ec) .expr : Except Err Val)
    pure { id := k.1, route := k.2, actions := actions, delay := delay,
           itemsCount := some actions.length, concurrency := some conc, ctx := vars }

/-- the context snapshots a task is rendered with: those of its staged entry, else of its record -/
def taskCtxIdxs (st : WState) (k : TaskKey) : List Nat :=
  match st.getStaged? k with
  | some x => x.ctxsIn
  | none => match st.getRec? k with
    | some r => r.ctxsIn
    | none => [0]   -- ValueError branch: falls back to the workflow initial context

/-- `get_task(task_id, route)` -/
def getTask (k : TaskKey) : M Offer := do
  let c ← get
  let vars ← liftExcept (c.st.taskContext (taskCtxIdxs c.st k))
  let ts ← liftOpt (c.spec.getTask? k.1) .keyError
  liftExcept (renderTask (fun e ec => E.eval e { ec with st := some c.st }) ts vars k)

/-- number of items whose action is in an active status -/
def activeCount (items : List Status) : Nat := (items.filter Status.isActive).length

/-- the actions of the items that have not run yet, in item order -/
def notRun {α} (actions : List α) (items : List Status) : List α :=
  ((actions.zip items).filter fun p => p.2 == .unset).map (·.1)

/-- the with-items window: which of the not-yet-run items are offered now.
    `conc = none`: no concurrency limit; a limit below 1 counts as 1. -/
def selectItems {α} (actions : List α) (items : List Status) (conc : Option Int) : List α :=
  match conc with
  | some cc => (notRun actions items).take (((if cc ≤ 0 then 1 else cc) - (activeCount items : Int)).toNat)
  | none => notRun actions items

/-- the item statuses `_evaluate_task_actions` works with: those recorded in the staged entry, or
    `n` fresh ones when nothing (or an empty list) is recorded yet -/
def normItems (old : Option (List Status)) (n : Nat) : List Status :=
  match old with
  | some its => if its.isEmpty then List.replicate n .unset else its
  | none => List.replicate n .unset

/-- the offer cut down to the with-items window, given the item statuses -/
def windowOf (o : Offer) (items : List Status) : Except Err Offer :=
  match o.concurrency with
  | some (.int cc) =>
    .ok { o with actions := selectItems o.actions items (some cc),
                 concurrency := some (.int (if cc ≤ 0 then 1 else cc)) }
  | some .null => .ok { o with actions := selectItems o.actions items none }
  | none => .ok { o with actions := selectItems o.actions items none }
  | some _ => .error .typeError

/-- `_evaluate_task_actions(task)` -/
def evaluateTaskActions (o : Offer) : M Offer := do
  match o.itemsCount with
  | none => pure o
  | some n => do
    let c ← get
    let k : TaskKey := (o.id, o.route)
    match c.st.getStaged? k with
    | none => throw .typeError
    | some sx => do
      let items := normItems sx.items n
      modifySt fun st => st.updateStaged k fun x => { x with items := some items }
      liftExcept (windowOf o items)

def insOffer (x : Offer) : List Offer → List Offer
  | [] => [x]
  | y :: ys =>
    if x.id < y.id || (x.id == y.id && x.route < y.route) then x :: y :: ys else y :: insOffer x ys

def sortOffers (xs : List Offer) : List Offer := xs.foldl (fun acc x => insOffer x acc) []

/-- the retry delay of a re-staged entry overrides the task delay -/
def withRetryDelay (sx : Staged) (o : Offer) : Offer :=
  match sx.retry with
  | some r =>
    let d : Val := match r.delay with
      | .val v => if v.truthy then v else .int 0
      | .expr _ => .str "<expr>"
      | .none_ => .int 0
    { o with delay := some d }
  | none => o

/-- one staged entry of `get_next_tasks`: returns the offer (if any) or logs the error -/
def nextTaskFor (sx : Staged) : M (Option Offer × Bool) :=
  tryCatch
    (do
      let o ← getTask E (sx.id, sx.route)
      let o ← evaluateTaskActions o
      let o := withRetryDelay sx o
      if !o.actions.isEmpty then pure (some o, false)
      else if o.itemsCount == some 0 then pure (some o, false)
      else pure (none, false))
    (fun e => do
      logError e.className (some sx.id) (some sx.route)
      pure (none, true))

/-- the staged entries `get_next_tasks` looks at: the ready ones while the workflow is in a
    running status; the run-on-fail ones of a failed workflow; none otherwise -/
def nextTodo (st : WState) : List Staged :=
  let staged := st.readyStaged
  let remediation := if st.status == .failed then staged.filter (·.runOnFail) else []
  if !st.status.isRunning && remediation.isEmpty then []
  else if remediation.isEmpty then staged else remediation

def nextFrom (todo : List Staged) : M (List Offer) := do
  let (offers, failed) ← foldM' todo (([] : List Offer), false) fun acc sx => do
    let (o, f) ← nextTaskFor E sx
    pure (match o with | some o => acc.1 ++ [o] | none => acc.1, acc.2 || f)
  if failed then do
    failOnError
    pure []
  else pure (sortOffers offers)

def getNextTasks : M (List Offer) := fun c => nextFrom E (nextTodo c.st) c

/-! ## update_task_state -/

inductive Event where
  | action (s : Status) (result : Val)
  | item (idx : Nat) (s : Status) (result : Val) (acc : Option Val)
  | engine (c : Cmd)
  deriving Repr

def Event.status : Event → Status
  | .action s _ => s
  | .item _ s _ _ => s
  | .engine c => c.eventStatus

def rvOf (e : Option Expr) : RV :=
  match e with
  | none => .none_
  | some (.lit v) => .val v
  | some e => .expr e

/-- `setup_retry_in_task_state`: returns the retry state reached and whether evaluation failed
    (with the class of the failure). -/
def setupRetry (g : GRetry) (inCtx : Except Err Val.Dict) : RetryState × Option Err :=
  let r0 : RetryState := { when_ := g.when_, count := rvOf g.count, delay := rvOf g.delay, tally := 0 }
  match inCtx with
  | .error e => (r0, some e)
  | .ok vars =>
    let ec : EvalCtx := { vars := vars }
    let step (rv : RV) : Except Err RV :=
      match rv with
      | .expr e => match E.eval e ec with
        | some (.int n) => .ok (.val (.int n))
        | some _ => .error .valueError
        | none => .error .expr
      -- a string is always evaluated, also one without an expression: it then yields itself,
      -- which is not an integer
      | .val (.str _) => .error .valueError
      | rv => .ok rv
    match step r0.delay with
    | .error e => (r0, some e)
    | .ok d =>
      let r1 := { r0 with delay := d }
      match step r1.count with
      | .error e => (r1, some e)
      | .ok cnt => ({ r1 with count := cnt }, none)

/-- the record `add_task_state` builds (before it is appended), and the error of the retry setup -/
def newRecord (c : Cond) (k : TaskKey) (ctxsIn : List Nat) (prev : List (TransId × Nat)) : Rec × Option Err :=
  let ctxsIn := if ctxsIn.isEmpty then [0] else ctxsIn
  let r0 : Rec := { id := k.1, route := k.2, ctxsIn := ctxsIn, prev := prev }
  match c.graph.retry? k.1 with
  | none => (r0, none)
  | some g =>
    let res := setupRetry E g (c.st.taskContext ctxsIn)
    ({ r0 with retry := some res.1 }, res.2)

/-- `add_task_state(task_id, route, in_ctx_idxs, prev)`; returns the new record's index -/
def addTaskState (k : TaskKey) (ctxsIn : List Nat) (prev : List (TransId × Nat)) : M Nat := do
  let c ← get
  if !c.graph.hasTask k.1 then throw .invalidTask
  else do
    (match (newRecord E c k ctxsIn prev).2 with
      | none => pure ()
      | some e => do
        logError e.className (some k.1) (some k.2)
        failOnError : M Unit)
    let c' ← get
    modifySt fun st => (({ st with sequence := st.sequence ++ [(newRecord E c k ctxsIn prev).1] } : WState).setTask k
      c'.st.sequence.length)
    pure c'.st.sequence.length

/-- the task state machine's answer for an event on record `r` (item events look at the staged
    entry's other items) -/
def tkEventStep (c : Cond) (r : Rec) (ev : Event) : Except Err StepRes :=
  let cur := r.status.getD .unset
  match ev with
  | .action s _ => .ok (tkOnActionEvent cur s)
  | .engine cmd => .ok (tkOnEngineEvent cur cmd)
  | .item idx s _ _ =>
    match c.st.getStaged? (r.id, r.route) with
    | none => .ok (tkOnItemEventNoStaged cur s)
    | some x => match x.items with
      | none => .error .keyError
      | some its =>
        let sm := itemSummary (its.eraseIdx idx)
        .ok (tkOnItemEvent cur s sm.1 sm.2.1 sm.2.2.1 sm.2.2.2.1 sm.2.2.2.2)

/-- `TaskStateMachine.process_event(state, record, event)` for action / item / engine events -/
def tkProcessEvent (i : Nat) (ev : Event) : M Unit := fun c =>
  match c.st.sequence[i]? with
  | none => (.error .indexError, c)
  | some r =>
    match tkEventStep c r ev with
    | .error e => (.error e, c)
    | .ok (.raise e) => (.error (.machine e), c)
    | .ok (.ok s') =>
      if r.status.isNone && s' == .unset then (.ok (), c)
      else (.ok (), { c with st := c.st.updateRec i fun r => { r with status := some s' } })

/-- `_evaluate_task_retry(record, current_ctx)` -/
def evaluateTaskRetry (r : Rec) (ec : EvalCtx) : Except Err Bool :=
  match r.retry with
  | none => .ok false
  | some rs =>
    match rs.count with
    | .val (.int n) =>
      if (rs.tally : Int) ≥ n then .ok false
      else if (r.status.any Status.isAbended) && rs.when_.isNone then .ok true
      else match rs.when_ with
        | none => .ok false
        | some w => match E.eval w ec with
          | some v => .ok v.truthy
          | none => .error .expr
    | _ => .error .typeError

/-- `_evaluate_route(task_transition, prev_route)` -/
def evaluateRoute (e : Edge) (prevRoute : Nat) : M Nat := do
  let c ← get
  if !c.spec.isSplit e.dst || c.graph.inCycle e.dst then pure prevRoute
  else
    match c.st.routes[prevRoute]? with
    | none => throw .indexError
    | some old =>
      let ptid : TransId := (e.src, e.key)
      if old.contains ptid then pure prevRoute
      else do
        modifySt fun st => { st with routes := st.routes ++ [old ++ [ptid]] }
        pure c.st.routes.length

def eraseFirst (xs : List Nat) (x : Nat) : Option (List Nat) :=
  if xs.contains x then some (xs.erase x) else none

def setAssoc {κ} [BEq κ] {β} (xs : List (κ × β)) (k : κ) (v : β) : List (κ × β) :=
  if xs.any (·.1 == k) then xs.map fun p => if p.1 == k then (p.1, v) else p else xs ++ [(k, v)]

structure TransAcc where
  queue : List TaskKey := []
  manualFail : Bool := false
  readyKeys : List TaskKey := []

/-- create the staged entry of a transition's target, or merge the arrival into the existing one -/
def stageTarget (nk : TaskKey) (backref : TransId) (idx : Nat) (outIdxs : List Nat) : M Unit := do
  let c ← get
  (match c.st.getStaged? nk with
    | some _ => do
      let rest ← liftOpt (eraseFirst outIdxs 0) .valueError
      modifySt fun st => st.updateStaged nk fun x =>
        { x with ctxsIn := x.ctxsIn ++ rest, prev := setAssoc x.prev backref idx,
                 items := none, completed := false }
    | none =>
      modifySt fun st => st.addStaged
        { id := nk.1, route := nk.2, ctxsIn := if outIdxs.isEmpty then [0] else outIdxs,
          prev := [(backref, idx)], ready := false } : M Unit)

/-- stage (or merge into the staged entry of) the target of a satisfied transition -/
def stageNext (k : TaskKey) (idx : Nat) (e : Edge) (outIdxs : List Nat) (acc : TransAcc) : M TransAcc := do
  let nextRoute ← evaluateRoute e k.2
  let nk : TaskKey := (e.dst, nextRoute)
  let backref : TransId := (k.1, e.key)
  stageTarget nk backref idx outIdxs
  let c ← get
  let ready := inboundStatus c e.dst k.2 == .satisfied
  modifySt fun st => st.updateStaged nk fun x => { x with ready := ready }
  if (Cmd.ofStr? e.dst).isSome then
    pure { acc with queue := acc.queue ++ [nk], manualFail := acc.manualFail || e.dst == "fail" }
  else if ready then pure { acc with readyKeys := acc.readyKeys ++ [nk] }
  else pure acc

/-- publish of a satisfied transition (`finalize_context`) and staging of its target -/
def fireTransition (k : TaskKey) (idx : Nat) (ec : EvalCtx) (acc : TransAcc) (e : Edge) :
    M TransAcc := do
  let tid : TransId := (e.dst, e.key)
  let c ← get
  let ts ← liftOpt (c.spec.getTask? k.1) .keyError
  let tr ← liftOpt ts.next[e.ref]? .indexError
  let pubs := if tr.do_.contains e.dst then tr.publish else []
  let (_, newCtx, nerr) := renderSeq E pubs (fun r => { ec with vars := r }) ec.vars
  if nerr > 0 then do
    logError "ExpressionEvaluationException" (some k.1) (some k.2) (some tid)
    failOnError
    pure acc
  else do
    let r ← liftOpt c.st.sequence[idx]? .indexError
    let newIdx := c.st.contexts.length
    let outIdxs := if newCtx.isEmpty then r.ctxsIn else r.ctxsIn ++ [newIdx]
    (if newCtx.isEmpty then pure ()
     else modifySt fun st => ({ st with contexts := st.contexts ++ [newCtx],
                                        pubLog := st.pubLog ++ [(idx, tid, newIdx)] } : WState).updateRec idx
        fun r => { r with ctxsOut := some (tid, newIdx) } : M Unit)
    stageNext k idx e outIdxs acc

/-- the transition's condition on the task's context: `none` when the evaluation fails -/
def transCriteria (e : Edge) (ec : EvalCtx) : Option Bool :=
  match e.criteria with
  | none => some true
  | some cnd => (E.eval cnd ec).map Val.truthy

/-- body of the loop over outbound transitions for one transition -/
def processTransition (k : TaskKey) (idx : Nat) (ec : EvalCtx) (acc : TransAcc) (e : Edge) :
    M TransAcc := do
  let tid : TransId := (e.dst, e.key)
  match transCriteria E e ec with
  | none => do
    logError "ExpressionEvaluationException" (some k.1) (some k.2) (some tid)
    failOnError
    pure acc
  | some b => do
    modifySt fun st => st.updateRec idx fun r => { r with next := setAssoc r.next tid b }
    if !b then pure acc
    else fireTransition E k idx ec acc e

def isCmdName (s : String) : Bool := (Cmd.ofStr? s).isSome

/-- the task result as `make_task_result` formats it -/
def taskResult (ts : TaskSpec) (ev : Event) : Val :=
  match ts.withItems, ev with
  | none, .action _ res => res
  | none, .item _ _ res _ => res
  | none, .engine _ => .null
  | some _, .item _ _ _ acc => (match acc with | some a => if a.truthy then a else .list [] | none => .list [])
  | some _, .action _ res => if res.truthy then res else .list []
  | some _, .engine _ => .list []

/-- `make_task_context(record, result)` -/
def makeTaskContext (k : TaskKey) (idx : Nat) (result : Val) : M EvalCtx := do
  let c ← get
  let r ← liftOpt c.st.sequence[idx]? .indexError
  let vars ← liftExcept (c.st.taskContext r.ctxsIn)
  pure { vars := vars, curTask := some k, result := some result, st := some c.st }

/-- a new record from the task's staged entry -/
def recordFromStaged (k : TaskKey) (staged0 : Option Staged) : M Nat :=
  match staged0 with
  | some sx => addTaskState E (k.1, sx.route) sx.ctxsIn sx.prev
  | none => throw .typeError

/-- the record an event applies to before the re-entry rule: the task's latest one, or a new one
    for an engine command or a task that has none yet -/
def firstRecord (k : TaskKey) (staged0 : Option Staged) (rec0 : Option Nat) : M Nat :=
  match rec0, isCmdName k.1 with
  | some i, false => pure i
  | _, _ => recordFromStaged E k staged0

/-- phase 1: find or create the record the event applies to -/
def ensureRecord (k : TaskKey) (staged0 : Option Staged) (rec0 : Option Nat) (ev : Event) : M Nat := do
  let idx ← firstRecord E k staged0 rec0
  -- a completed record receiving a starting status is a new cycle iteration
  let c ← get
  let r ← liftOpt c.st.sequence[idx]? .indexError
  if r.status.any Status.isCompleted && ev.status.isStarting then recordFromStaged E k staged0
  else pure idx

/-- phase 2: staging bookkeeping for the event and the failure log entry -/
def noteEvent (k : TaskKey) (staged0 : Option Staged) (ev : Event) : M Unit := do
  (match staged0 with
    | some sx => if sx.items.isNone then modifySt fun st => st.removeStaged k else pure ()
    | none => pure () : M Unit)
  (match staged0, ev with
    | some sx, .item i s _ _ =>
      match sx.items with
      | none => throw .keyError
      | some its =>
        if i < its.length then
          modifySt fun st => st.updateStaged k fun x =>
            { x with items := x.items.map fun l => l.set i s }
        else throw .indexError
    | _, _ => pure () : M Unit)
  (match ev with
    | .action .failed res => logEntry { kind := "ExecutionFailed", taskId := some k.1, result := some res }
    | .item _ .failed res _ => logEntry { kind := "ExecutionFailed", taskId := some k.1, result := some res }
    | .engine c => if c.eventStatus == .failed then
        logEntry { kind := "ExecutionFailed", taskId := some k.1, result := none } else pure ()
    | _ => pure () : M Unit)

/-- phase 3: a record that became `retrying` is re-staged with a bumped tally -/
def restageRetry (k : TaskKey) (idx : Nat) (oldStatus : Status) : M Unit := do
  let c ← get
  let r ← liftOpt c.st.sequence[idx]? .indexError
  if r.status == some .retrying && oldStatus != .retrying then do
    let rs ← liftOpt r.retry .keyError
    let rs := { rs with tally := rs.tally + 1 }
    modifySt fun st => ((st.updateRec idx fun r => { r with retry := some rs }).removeStaged k).addStaged
      { id := k.1, route := k.2, ctxsIn := if r.ctxsIn.isEmpty then [0] else r.ctxsIn,
        prev := r.prev, ready := true, retry := some rs }
  else pure ()

/-- phase 4 (completed records): staging clean-up, then the retry decision; `true` = retry.
    A report that leaves the status of an already completed record as it was (a late or duplicate
    report) is not a reason to retry. -/
def completedRetryDecision (k : TaskKey) (idx : Nat) (ts : TaskSpec) (oldStatus newStatus : Status) (ev : Event) :
    M Bool := do
  (if !(ts.withItems.isSome && newStatus.isAbended) then modifySt fun st => st.removeStaged k
   else do
     let c ← get
     if (c.st.getStaged? k).isNone then throw .typeError
     else modifySt fun st => st.updateStaged k fun x => { x with completed := true } : M Unit)
  let ec ← makeTaskContext k idx (taskResult ts ev)
  let c ← get
  let r ← liftOpt c.st.sequence[idx]? .indexError
  let dec : Except Err Bool :=
    if newStatus != oldStatus && c.st.status.isActive then evaluateTaskRetry E r ec else .ok false
  match dec with
  | .ok b => pure b
  | .error e => do
    logError e.className (some k.1) (some k.2)
    failOnError
    pure false

/-- phase 5: evaluate the outbound transitions of a freshly completed record -/
def evalTransitions (k : TaskKey) (idx : Nat) (ts : TaskSpec) (ev : Event) : M TransAcc := do
  let ec ← makeTaskContext k idx (taskResult ts ev)
  let c ← get
  let trans := c.graph.nextTransitions k.1
  (if trans.isEmpty then modifySt fun st => st.updateRec idx fun r => { r with term := true }
   else pure () : M Unit)
  let acc ← foldM' trans ({} : TransAcc) (processTransition E k idx ec)
  (if acc.manualFail then
     forEach acc.readyKeys fun nk => modifySt fun st => st.updateStaged nk fun x => { x with runOnFail := true }
   else pure () : M Unit)
  pure acc

/-- mark the record terminal when the workflow has completed -/
def markTermIfCompleted (idx : Nat) : M Unit := do
  let c ← get
  if c.st.status.isCompleted then modifySt fun st => st.updateRec idx fun r => { r with term := true }
  else pure ()

/-- the task state machine applied to record `idx`, and the re-staging of a record that became
    `retrying`; returns the status before and after -/
def machineStep (k : TaskKey) (idx : Nat) (ev : Event) : M (Status × Status) := do
  let c ← get
  let r ← liftOpt c.st.sequence[idx]? .indexError
  let oldStatus := r.status.getD .unset
  tkProcessEvent idx ev
  let c ← get
  let r ← liftOpt c.st.sequence[idx]? .indexError
  let newStatus := r.status.getD .unset
  restageRetry k idx oldStatus
  pure (oldStatus, newStatus)

structure Stepped where
  idx : Nat
  ts : TaskSpec
  oldStatus : Status
  newStatus : Status

/-- first half of `update_task_state`: resolve the record, note the event, run the task machine -/
def updateHead (k : TaskKey) (ev : Event) : M Stepped := do
  let c ← get
  if !c.graph.hasTask k.1 then throw .invalidTask
  else do
  let staged0 := c.st.getStaged? k
  let rec0 := c.st.taskIdx? k
  let ts ← liftOpt (c.spec.getTask? k.1) .keyError
  if staged0.isNone && (c.st.getRec? k).isNone then throw .invalidTaskStateEntry
  else do
  let idx ← ensureRecord E k staged0 rec0 ev
  noteEvent k staged0 ev
  let (oldStatus, newStatus) ← machineStep k idx ev
  pure { idx := idx, ts := ts, oldStatus := oldStatus, newStatus := newStatus }

/-- after the retry decision said no: outbound transitions, workflow state machine, queued engine
    commands (re-entering `update_task_state`) -/
def updateRest (recur : TaskKey → Event → M Unit) (k : TaskKey) (ev : Event) (h : Stepped) : M Unit := do
  let acc ← (if h.newStatus.isCompleted && h.newStatus != h.oldStatus then evalTransitions E k h.idx h.ts ev
             else pure {} : M TransAcc)
  -- workflow state machine
  let c ← get
  let r ← liftOpt c.st.sequence[h.idx]? .indexError
  let st ← liftOpt r.status .keyError
  wfProcessTaskEvent k st
  -- engine commands
  forEach acc.queue fun nk =>
    match Cmd.ofStr? nk.1 with
    | some cmd => recur nk (.engine cmd)
    | none => pure ()
  markTermIfCompleted h.idx

/-- second half: the retry decision (re-entering `update_task_state` with the retry event), or the rest -/
def updateTail (recur : TaskKey → Event → M Unit) (k : TaskKey) (ev : Event) (h : Stepped) : M Unit := do
  let retry ← (if h.newStatus.isCompleted then completedRetryDecision E k h.idx h.ts h.oldStatus h.newStatus ev
               else pure false : M Bool)
  if retry then recur k (.engine .retry_)
  else updateRest E recur k ev h

def updateTaskStateAux : Nat → TaskKey → Event → M Unit
  | 0, _, _ => throw (.machine .other)
  | fuel + 1, k, ev => do
    let h ← updateHead E k ev
    updateTail E (updateTaskStateAux fuel) k ev h

def updateTaskState (k : TaskKey) (ev : Event) : M Unit := updateTaskStateAux E 3 k ev

/-! ## output -/

/-- `get_workflow_terminal_context()` -/
def terminalContext : M Val.Dict := do
  let c ← get
  if !c.st.status.isCompleted then throw .workflowContextError
  else
    match c.st.terminalRecs with
    | [] => pure []
    | (_, first) :: others => do
      let base ← liftExcept (c.st.taskContext first.ctxsIn)
      foldM' others base fun acc p => do
        let idxs ← liftOpt (eraseFirst p.2.ctxsIn 0) .valueError
        let cx ← liftExcept (c.st.taskContext idxs)
        pure (Val.mergeDicts acc cx)

/-- `render_workflow_output()` -/
def renderOutput : M Unit := do
  let c ← get
  let outEmpty := match c.output with | none => true | some d => d.isEmpty
  if c.st.status.isCompleted && outEmpty then do
    let ctx ← terminalContext
    let (_, outs, nerr) := renderSeq E c.spec.output (fun r => { vars := r, st := some c.st }) ctx
    (if !outs.isEmpty then modify fun c => { c with output := some outs } else pure () : M Unit)
    if nerr > 0 then do
      logError "ExpressionEvaluationException"
      if c.st.status != .expired && c.st.status != .abandoned && c.st.status != .canceled then
        failOnError
      else pure ()
    else pure ()
  else pure ()

/-! ## rerun -/

structure RerunReq where
  taskId : String
  route : Nat
  resetItems : Bool
  deriving Repr

/-- `get_task_sequence(task_id, route)`: indices only -/
def taskSequenceAux (s : WState) : Nat → List TaskKey → List Nat → List Nat
  | 0, _, seq => seq
  | _, [], seq => seq
  | fuel + 1, (tid, rt) :: q, seq =>
    let (seq', q') := (s.sequence.zipIdx).foldl (fun (acc : List Nat × List TaskKey) (p : Rec × Nat) =>
      let (t, i) := p
      t.prev.foldl (fun (acc : List Nat × List TaskKey) (pv : TransId × Nat) =>
        match s.sequence[pv.2]? with
        | some pr =>
          if pr.id == tid && pr.route == rt && !acc.1.contains i then
            (acc.1 ++ [i], acc.2 ++ [(t.id, t.route)])
          else acc
        | none => acc) acc) (seq, q)
    taskSequenceAux s fuel q' seq'

def taskSequence (s : WState) (k : TaskKey) : Except Err (List Nat) :=
  match s.taskIdx? k with
  | none => .error .keyError
  | some idx => .ok (taskSequenceAux s (s.sequence.length + 2) [k] [idx])

/-- `_request_task_rerun` -/
def requestTaskRerun (k : TaskKey) (resetItems : Bool) : M Unit := do
  let c ← get
  let idx ← liftOpt (c.st.taskIdx? k) .keyError
  let task ← liftOpt c.st.sequence[idx]? .indexError
  let ts ← liftOpt (c.spec.getTask? k.1) .keyError
  modifySt fun st => (st.updateRec idx fun r => { r with term := false }).updateStaged k
    fun x => { x with completed := false }
  modify fun c => { c with errors := c.errors.filter fun e => e.taskId != some k.1 }
  (if ts.withItems.isSome then do
      let c ← get
      if (c.st.getStaged? k).isNone then throw .attributeError
      else modifySt fun st => st.updateStaged k fun x =>
        { x with items := x.items.map fun l => l.map fun s => if resetItems || s.isAbended then .unset else s }
    else do
      let _ ← addTaskState E k task.ctxsIn task.prev
      modifySt fun st => st.addStaged
        { id := k.1, route := k.2, ctxsIn := if task.ctxsIn.isEmpty then [0] else task.ctxsIn,
          prev := task.prev, ready := true } : M Unit)
  let c ← get
  let seq ← liftExcept (taskSequence c.st k)
  forEach seq fun i => modifySt fun st => st.updateRec i fun r => { r with term := false }

def dedupKeys (xs : List RerunReq) : List RerunReq :=
  xs.foldl (fun acc x =>
    if acc.any (fun y => y.taskId == x.taskId && y.route == x.route) then
      acc.map fun y => if y.taskId == x.taskId && y.route == x.route then x else y
    else acc ++ [x]) []

def insKeyIdx (x : TaskKey × Nat) : List (TaskKey × Nat) → List (TaskKey × Nat)
  | [] => [x]
  | y :: ys =>
    if x.1.1 < y.1.1 || (x.1.1 == y.1.1 && x.1.2 < y.1.2) then x :: y :: ys else y :: insKeyIdx x ys

/-- `request_workflow_rerun(task_requests)` -/
def requestRerun (reqs : List RerunReq) : M Unit := do
  let c ← get
  if !c.st.status.isCompleted then throw .workflowIsActiveAndNotRerunable
  else do
    let tasks := dedupKeys reqs
    if tasks.any fun t => (c.st.taskIdx? (t.taskId, t.route)).isNone then throw .invalidTaskRerunRequest
    else do
      -- candidates: association list key ↦ record index, in dict order
      let cands ← (if tasks.isEmpty then
          pure ((c.st.terminalRecs.filter fun p => p.2.status.any Status.isAbended).foldl
            (fun acc p => setAssoc acc ((p.2.id, p.2.route) : TaskKey) p.1) ([] : List (TaskKey × Nat)))
        else do
          let seqs ← mapM' tasks fun t => do
            let s ← liftExcept (taskSequence c.st (t.taskId, t.route))
            pure (((t.taskId, t.route) : TaskKey), s)
          let kept := if tasks.length > 1 then
              seqs.filter fun p => seqs.any fun q => p.2.any fun i => !q.2.contains i
            else seqs
          mapM' kept fun p => do
            let i ← liftOpt (c.st.taskIdx? p.1) .keyError
            pure (p.1, i) : M (List (TaskKey × Nat)))
      modifySt fun st => { st with reruns := st.reruns ++ [cands.map (·.2)] }
      -- sorted by the record's (id, route)
      let sorted := cands.foldl (fun acc x => insKeyIdx x acc) []
      forEach sorted fun p => do
        let reset := match tasks.find? (fun t => t.taskId == p.1.1 && t.route == p.1.2) with
          | some t => t.resetItems
          | none => false
        requestTaskRerun E p.1 reset
      -- continuable candidates: terminal records with a satisfied transition; one per key (last)
      let c ← get
      let cont := (c.st.terminalRecs.filter fun p => p.2.next.any (·.2)).foldl
        (fun acc p => setAssoc acc ((p.2.id, p.2.route) : TaskKey) p.1) ([] : List (TaskKey × Nat))
      forEach cont fun p => modifySt fun st => st.updateRec p.2 fun r => { r with term := false }
      modify fun c => { c with output := none }
      modifySt fun st => { st with status := .resuming }

end Orq
