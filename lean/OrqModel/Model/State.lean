/-
The conductor's state (`WorkflowState` + the conductor's own fields), field for field, with
structured keys instead of the `"%s__r%s"` / `"%s__t%s"` strings, and the state/exception monad
the API operations are written in.  Core Lean only.
-/
import OrqModel.Model.Spec

namespace Orq

/-- `"%s__t%s" % (task, key)` -/
abbrev TransId := String × Nat
/-- `"%s__r%s" % (task, route)` -/
abbrev TaskKey := String × Nat

/-- a retry value that is either evaluated or still the definition's expression -/
inductive RV where
  | none_
  | val (v : Val)
  | expr (e : Expr)
  deriving Repr, Inhabited

structure RetryState where
  when_ : Option Expr
  count : RV
  delay : RV
  tally : Nat
  deriving Repr, Inhabited

structure Rec where
  id : String
  route : Nat
  ctxsIn : List Nat
  ctxsOut : Option (TransId × Nat) := none
  prev : List (TransId × Nat) := []
  next : List (TransId × Bool) := []
  status : Option Status := none
  term : Bool := false
  retry : Option RetryState := none
  deriving Repr, Inhabited

structure Staged where
  id : String
  route : Nat
  ctxsIn : List Nat
  prev : List (TransId × Nat) := []
  ready : Bool
  retry : Option RetryState := none
  items : Option (List Status) := none
  completed : Bool := false
  runOnFail : Bool := false
  deriving Repr, Inhabited

structure WState where
  contexts : List Val.Dict := []
  routes : List (List TransId) := []
  sequence : List Rec := []
  staged : List Staged := []
  status : Status := .unset
  tasks : List (TaskKey × Nat) := []
  reruns : List (List Nat) := []
  /-- ghost (not part of the implementation's state, never read by a model function, not printed
      by the driver): which record published which context snapshot on which transition.  The
      implementation keeps only the last one per record (`ctxs.out` is overwritten); the log is what
      the C06 invariant is stated over. -/
  pubLog : List (Nat × TransId × Nat) := []
  deriving Repr, Inhabited

/-- error-log entry, reduced to what the correspondence check compares: the exception class
    (or `ExecutionFailed` for a failed action), task, route, transition. -/
structure ErrEntry where
  kind : String
  taskId : Option String := none
  route : Option Nat := none
  trans : Option TransId := none
  result : Option Val := none
  deriving Repr, Inhabited

def ErrEntry.same (a b : ErrEntry) : Bool :=
  a.kind == b.kind && a.taskId == b.taskId && a.route == b.route && a.trans == b.trans &&
  (match a.result, b.result with
   | none, none => true
   | some x, some y => x == y
   | _, _ => false)

structure Cond where
  spec : WfSpec
  graph : Graph
  st : WState := {}
  errors : List ErrEntry := []
  output : Option Val.Dict := none
  inputs : Val.Dict := []
  parentCtx : Val.Dict := []
  deriving Inhabited

/-- exception classes that can leave an API call -/
inductive Err where
  | machine (e : Exn)
  | invalidTask
  | invalidTaskStateEntry
  | invalidWorkflowStatusTransition
  | invalidTaskRerunRequest
  | workflowIsActiveAndNotRerunable
  | workflowContextError
  | keyError
  | typeError
  | indexError
  | valueError
  | attributeError
  | expr                         -- ExpressionEvaluationException (YAQL or Jinja)
  deriving Repr, Inhabited, DecidableEq

def Err.className : Err → String
  | .machine .invalidEvent => "InvalidEvent"
  | .machine .invalidStatus => "InvalidStatus"
  | .machine .invalidWorkflowStatusTransition => "InvalidWorkflowStatusTransition"
  | .machine .invalidTaskStatusTransition => "InvalidTaskStatusTransition"
  | .machine .invalidEventType => "InvalidEventType"
  | .machine .typeError => "TypeError"
  | .machine .other => "Exception"
  | .invalidTask => "InvalidTask"
  | .invalidTaskStateEntry => "InvalidTaskStateEntry"
  | .invalidWorkflowStatusTransition => "InvalidWorkflowStatusTransition"
  | .invalidTaskRerunRequest => "InvalidTaskRerunRequest"
  | .workflowIsActiveAndNotRerunable => "WorkflowIsActiveAndNotRerunableError"
  | .workflowContextError => "WorkflowContextError"
  | .keyError => "KeyError"
  | .typeError => "TypeError"
  | .indexError => "IndexError"
  | .valueError => "ValueError"
  | .attributeError => "AttributeError"
  | .expr => "ExpressionEvaluationException"

/-! ## The monad: state survives an exception (Python mutates in place, then raises). -/

def M (α : Type) := Cond → Except Err α × Cond

namespace M

@[inline] def pure' {α} (a : α) : M α := fun s => (.ok a, s)
@[inline] def bind' {α β} (m : M α) (f : α → M β) : M β := fun s =>
  match m s with
  | (.ok a, s') => f a s'
  | (.error e, s') => (.error e, s')

instance : Monad M where
  pure := pure'
  bind := bind'

def throw {α} (e : Err) : M α := fun s => (.error e, s)
def get : M Cond := fun s => (.ok s, s)
def modify (f : Cond → Cond) : M Unit := fun s => (.ok (), f s)
def modifySt (f : WState → WState) : M Unit := modify fun c => { c with st := f c.st }
/-- `try m except Exception as e: h e` -/
def tryCatch {α} (m : M α) (h : Err → M α) : M α := fun s =>
  match m s with
  | (.ok a, s') => (.ok a, s')
  | (.error e, s') => h e s'
def liftExcept {α} : Except Err α → M α
  | .ok a => pure a
  | .error e => throw e

/-- sequential loop over a list -/
def forEach {α} : List α → (α → M Unit) → M Unit
  | [], _ => pure ()
  | x :: xs, f => bind' (f x) fun _ => forEach xs f

def mapM' {α β} : List α → (α → M β) → M (List β)
  | [], _ => pure []
  | x :: xs, f => bind' (f x) fun y => bind' (mapM' xs f) fun ys => pure (y :: ys)

def foldM' {α β} : List α → β → (β → α → M β) → M β
  | [], b, _ => pure b
  | x :: xs, b, f => bind' (f b x) fun b' => foldM' xs b' f

end M

/-! ## Queries of `WorkflowState` -/

namespace WState

def taskIdx? (s : WState) (k : TaskKey) : Option Nat :=
  match s.tasks.find? (fun p => p.1 == k) with
  | some p => some p.2
  | none => none

def getRec? (s : WState) (k : TaskKey) : Option Rec :=
  match s.taskIdx? k with
  | some i => s.sequence[i]?
  | none => none

def isLast (s : WState) (i : Nat) : Bool := s.tasks.any (fun p => p.2 == i)

/-- `get_tasks_by_status(statuses)`: indices of last-occurrence records whose status satisfies `p`. -/
def idxByStatus (s : WState) (p : Status → Bool) : List Nat :=
  (s.sequence.zipIdx.filter fun (r, i) =>
    (match r.status with | some x => p x | none => false) && s.isLast i).map (·.2)

def hasActive (s : WState) : Bool := !(s.idxByStatus Status.isActive).isEmpty
def hasPausing (s : WState) : Bool := !(s.idxByStatus (· == .pausing)).isEmpty
def hasPaused (s : WState) : Bool := !(s.idxByStatus (fun x => x == .paused || x == .pending)).isEmpty
def hasCanceling (s : WState) : Bool := !(s.idxByStatus (· == .canceling)).isEmpty
def hasCanceled (s : WState) : Bool := !(s.idxByStatus (· == .canceled)).isEmpty

/-- `get_staged_tasks()` (filtered) -/
def readyStaged (s : WState) : List Staged := s.staged.filter fun x => x.ready && !x.completed
def hasStaged (s : WState) : Bool := !s.readyStaged.isEmpty

def getStaged? (s : WState) (k : TaskKey) : Option Staged :=
  s.staged.find? fun x => x.id == k.1 && x.route == k.2

def updateStaged (s : WState) (k : TaskKey) (f : Staged → Staged) : WState :=
  let rec go : List Staged → List Staged
    | [] => []
    | x :: xs => if x.id == k.1 && x.route == k.2 then f x :: xs else x :: go xs
  { s with staged := go s.staged }

def eraseStaged (s : WState) (k : TaskKey) : WState :=
  let rec go : List Staged → List Staged
    | [] => []
    | x :: xs => if x.id == k.1 && x.route == k.2 then xs else x :: go xs
  { s with staged := go s.staged }

/-- `remove_staged_task`: only when no item of the entry is still active. -/
def removeStaged (s : WState) (k : TaskKey) : WState :=
  match s.getStaged? k with
  | none => s
  | some x =>
    if (x.items.getD []).any Status.isActive then s else s.eraseStaged k

def addStaged (s : WState) (x : Staged) : WState := { s with staged := s.staged ++ [x] }

def updateRec (s : WState) (i : Nat) (f : Rec → Rec) : WState :=
  { s with sequence := s.sequence.modify i f }

def setTask (s : WState) (k : TaskKey) (i : Nat) : WState :=
  if s.tasks.any (fun p => p.1 == k) then
    { s with tasks := s.tasks.map fun p => if p.1 == k then (p.1, i) else p }
  else { s with tasks := s.tasks ++ [(k, i)] }

/-- `get_task_context`: merge the listed context snapshots, later overriding earlier.
    An index out of range is an `IndexError`. -/
def taskContext (s : WState) (idxs : List Nat) : Except Err Val.Dict :=
  idxs.foldlM (fun acc i =>
    match s.contexts[i]? with
    | some c => .ok (Val.mergeDicts acc c)
    | none => .error .indexError) []

def terminalRecs (s : WState) : List (Nat × Rec) :=
  (s.sequence.zipIdx.filter fun (r, _) => r.term).map fun (r, i) => (i, r)

end WState

/-! ## Expression evaluation is a parameter of the model -/

structure EvalCtx where
  vars : Val.Dict
  curTask : Option TaskKey := none
  result : Option Val := none           -- `__current_task.result` present
  curItem : Option Val := none          -- `__current_item` present
  st : Option WState := none            -- `__state`

/-- `none` is an `ExpressionEvaluationException` (the only exception class `evaluate` lets out:
    `yql.py`/`jinja.py` wrap every exception; assumed, see DESIGN 3.6). -/
structure Evaluator where
  eval : Expr → EvalCtx → Option Val

end Orq
