/-
Model of `expressions.base.evaluate` as it walks a value: dicts (keys and values) and lists are
walked; a string is handed to the expression language only if it contains an expression; every
other value is returned as it is.  The language evaluators are parameters.
-/
import OrqModel.Model.Val

namespace Orq

mutual
  def evalVal (hasExpr : String → Bool) (ev : String → Val) (evKey : String → String) : Val → Val
    | .str s => if hasExpr s then ev s else .str s
    | .list xs => .list (evalList hasExpr ev evKey xs)
    | .dict kvs => .dict (evalDict hasExpr ev evKey kvs)
    | .null => .null
    | .bool b => .bool b
    | .int i => .int i
  def evalList (hasExpr : String → Bool) (ev : String → Val) (evKey : String → String) : List Val → List Val
    | [] => []
    | x :: xs => evalVal hasExpr ev evKey x :: evalList hasExpr ev evKey xs
  def evalDict (hasExpr : String → Bool) (ev : String → Val) (evKey : String → String) :
      List (String × Val) → List (String × Val)
    | [] => []
    | (k, x) :: xs =>
      ((if hasExpr k then evKey k else k), evalVal hasExpr ev evKey x) :: evalDict hasExpr ev evKey xs
end

-- no string anywhere in the value (keys included) contains an expression
mutual
  def plain (hasExpr : String → Bool) : Val → Bool
    | .str s => !hasExpr s
    | .list xs => plainList hasExpr xs
    | .dict kvs => plainDict hasExpr kvs
    | _ => true
  def plainList (hasExpr : String → Bool) : List Val → Bool
    | [] => true
    | x :: xs => plain hasExpr x && plainList hasExpr xs
  def plainDict (hasExpr : String → Bool) : List (String × Val) → Bool
    | [] => true
    | (k, x) :: xs => !hasExpr k && plain hasExpr x && plainDict hasExpr xs
end

end Orq
