/-
The expression fragment evaluated by the executable driver (`render_yaml.py` prints the same
fragment as YAQL or Jinja for the implementation).  Not used by any theorem: the theorems hold
for every `Evaluator`.
-/
import OrqModel.Model.State

namespace Orq

/-- `task_status_(context, task_id, route)` of `expressions/functions/workflow.py` -/
def taskStatusOf (st : WState) (tid : String) : Nat → Nat → Status
  | _, 0 =>
    match st.taskIdx? (tid, 0) with
    | some i => ((st.sequence[i]?).bind (·.status)).getD .unset
    | none => .unset
  | 0, _ => .unset
  | fuel + 1, route =>
    match st.taskIdx? (tid, route) with
    | some i => ((st.sequence[i]?).bind (·.status)).getD .unset
    | none =>
      match st.routes[route]? with
      | none => .unset
      | some cur =>
        -- first earlier route (longest first) whose details are a subset of the current one
        let cands := (List.range route).reverse.filter fun pr =>
          match st.routes[pr]? with
          | some d => d.all cur.contains
          | none => false
        match cands with
        | pr :: _ => taskStatusOf st tid fuel pr
        | [] => .unset

def curTaskStatus (ec : EvalCtx) : Option Status :=
  match ec.curTask with
  | none => none
  | some (tid, route) =>
    match ec.st with
    | none => some .unset
    | some st => some (taskStatusOf st tid (route + 1) route)

def fragEval : Expr → EvalCtx → Option Val
  | .lit v, _ => some v
  | .ctx x, ec => if x.startsWith "__" then none else Val.dlookup ec.vars x
  | .ctxKey x k, ec =>
    if x.startsWith "__" then none
    else match Val.dlookup ec.vars x with
      | some (.dict d) => Val.dlookup d k
      | _ => none
  | .succeeded, ec => (curTaskStatus ec).map fun s => .bool (s == .succeeded)
  | .failed, ec => (curTaskStatus ec).map fun s => .bool (s == .failed)
  | .completed, ec => (curTaskStatus ec).map fun s => .bool s.isCompleted
  | .result, ec =>
    match ec.curTask with
    | none => none
    | some _ => some (ec.result.getD .null)
  | .item, ec => ec.curItem
  | .itemKey k, ec =>
    match ec.curItem with
    | some (.dict d) => Val.dlookup d k
    | _ => none
  | .taskStatus t, ec =>
    let route := match ec.curTask with | some (_, r) => r | none => 0
    match ec.st with
    | none => some (.str Status.unset.toStr)
    | some st => some (.str (taskStatusOf st t (route + 1) route).toStr)
  | .eq a b, ec => do
    let x ← fragEval a ec
    let y ← fragEval b ec
    pure (.bool (x == y))
  | .lt a b, ec => do
    let x ← fragEval a ec
    let y ← fragEval b ec
    match x, y with
    | .int i, .int j => pure (.bool (i < j))
    | _, _ => none
  | .not a, ec => do
    match ← fragEval a ec with
    | .bool b => pure (.bool !b)
    | _ => none
  | .and a b, ec => do
    match ← fragEval a ec, ← fragEval b ec with
    | .bool x, .bool y => pure (.bool (x && y))
    | _, _ => none
  | .or a b, ec => do
    match ← fragEval a ec, ← fragEval b ec with
    | .bool x, .bool y => pure (.bool (x || y))
    | _, _ => none
  | .add a b, ec => do
    match ← fragEval a ec, ← fragEval b ec with
    | .int x, .int y => pure (.int (x + y))
    | _, _ => none
  | .div a b, ec => do
    match ← fragEval a ec, ← fragEval b ec with
    | .int x, .int y => if y == 0 then none else pure (.int (x / y))
    | _, _ => none

def fragEvaluator : Evaluator := ⟨fragEval⟩

end Orq
