/-
JSON-like values as they travel through orquesta contexts (no floats: never generated).
Dicts are association lists in insertion order, like Python dicts.
Core Lean only.
-/
namespace Orq

inductive Val where
  | null
  | bool (b : Bool)
  | int (i : Int)
  | str (s : String)
  | list (xs : List Val)
  | dict (kvs : List (String × Val))
  deriving Repr, Inhabited

namespace Val

mutual
  def beq : Val → Val → Bool
    | .null, .null => true
    | .bool a, .bool b => a == b
    | .int a, .int b => a == b
    | .str a, .str b => a == b
    | .list a, .list b => beqList a b
    | .dict a, .dict b => beqDict a b
    | _, _ => false
  def beqList : List Val → List Val → Bool
    | [], [] => true
    | x :: xs, y :: ys => beq x y && beqList xs ys
    | _, _ => false
  def beqDict : List (String × Val) → List (String × Val) → Bool
    | [], [] => true
    | (k, x) :: xs, (l, y) :: ys => k == l && beq x y && beqDict xs ys
    | _, _ => false
end

instance : BEq Val := ⟨beq⟩

/-- Python truthiness. -/
def truthy : Val → Bool
  | .null => false
  | .bool b => b
  | .int i => i != 0
  | .str s => s != ""
  | .list xs => !xs.isEmpty
  | .dict kvs => !kvs.isEmpty

abbrev Dict := List (String × Val)

def dlookup (d : Dict) (k : String) : Option Val :=
  match d with
  | [] => none
  | (k', v) :: rest => if k' == k then some v else dlookup rest k

def dhas (d : Dict) (k : String) : Bool := (dlookup d k).isSome

/-- `d[k] = v`: replace in place if present, else append. -/
def dset (d : Dict) (k : String) (v : Val) : Dict :=
  match d with
  | [] => [(k, v)]
  | (k', v') :: rest => if k' == k then (k', v) :: rest else (k', v') :: dset rest k v

/-- `dictionary.merge_dicts(left, right, overwrite=True)`: recursive for dict-in-dict. -/
def merge (fuel : Nat) (left right : Dict) : Dict :=
  match fuel with
  | 0 => right.foldl (fun acc (k, v) => dset acc k v) left
  | fuel + 1 =>
    right.foldl (fun acc (k, v) =>
      match dlookup acc k, v with
      | some (.dict l), .dict r => dset acc k (.dict (merge fuel l r))
      | _, _ => dset acc k v) left

-- nesting depth, an upper bound for the recursion of `merge`.
mutual
  def depth : Val → Nat
    | .list xs => depthList xs + 1
    | .dict kvs => depthDict kvs + 1
    | _ => 0
  def depthList : List Val → Nat
    | [] => 0
    | x :: xs => max (depth x) (depthList xs)
  def depthDict : List (String × Val) → Nat
    | [] => 0
    | (_, x) :: xs => max (depth x) (depthDict xs)
end

def mergeDicts (left right : Dict) : Dict :=
  merge (depthDict right + 1) left right

end Val

end Orq
