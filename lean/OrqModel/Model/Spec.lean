/-
Abstract workflow definitions (what `WorkflowSpec` holds after normalisation of the
shorthand notations), the composed graph, and a model of `composers/native.py`.
Core Lean only.
-/
import OrqModel.Model.Val
import OrqModel.Generated.Tables

namespace Orq

/-- The expression fragment the executable driver evaluates.  Theorems about the conductor
    are stated for an arbitrary `Evaluator`, so they do not depend on this fragment. -/
inductive Expr where
  | lit (v : Val)
  | ctx (x : String)            -- `ctx(x)` / `ctx().x`
  | ctxKey (x k : String)       -- `ctx(x).k`
  | succeeded | failed | completed
  | result
  | item                        -- `item()`
  | itemKey (k : String)        -- `item(k)`
  | taskStatus (t : String)     -- `task_status(t)`
  | eq (a b : Expr) | lt (a b : Expr)
  | not (a : Expr) | and (a b : Expr) | or (a b : Expr)
  | add (a b : Expr)
  | div (a b : Expr)             -- only ever generated with a zero divisor (an evaluation error)
  deriving Repr, Inhabited

structure TransSpec where
  when_ : Option Expr
  publish : List (String × Expr)
  do_ : List String
  deriving Repr, Inhabited

structure ItemsSpec where
  items : Expr
  key : Option String           -- `k in <% … %>`
  concurrency : Option Expr
  deriving Repr, Inhabited

structure RetrySpec where
  when_ : Option Expr
  count : Expr
  delay : Option Expr
  deriving Repr, Inhabited

/-- `join`: `none` = not a join, `some none` = `all`, `some (some n)` = count. -/
structure TaskSpec where
  name : String
  action : String
  input : List (String × Expr)
  join : Option (Option Nat)
  withItems : Option ItemsSpec
  retry : Option RetrySpec
  delay : Option Expr
  next : List TransSpec
  deriving Repr, Inhabited

structure WfSpec where
  input : List (String × Option Expr)
  vars : List (String × Expr)
  output : List (String × Expr)
  tasks : List TaskSpec         -- declaration order
  deriving Repr, Inhabited

namespace WfSpec

def reserved : List String := ["continue", "fail", "noop", "retry"]

def getTask? (w : WfSpec) (n : String) : Option TaskSpec :=
  if reserved.contains n then
    some { name := n, action := "", input := [], join := none, withItems := none,
           retry := none, delay := none, next := [] }
  else w.tasks.find? (·.name == n)

def insertSorted (x : String × Option Expr × Nat) :
    List (String × Option Expr × Nat) → List (String × Option Expr × Nat)
  | [] => [x]
  | y :: ys => if x.1 < y.1 then x :: y :: ys else y :: insertSorted x ys

/-- stable sort by name (Python `sorted(..., key=lambda x: x[0])`). -/
def sortByName (xs : List (String × Option Expr × Nat)) : List (String × Option Expr × Nat) :=
  xs.foldl (fun acc x => insertSorted x acc) []

/-- `TaskMappingSpec.get_next_tasks`: (target, condition, index of the transition). -/
def nextTasks (w : WfSpec) (n : String) : List (String × Option Expr × Nat) :=
  match w.getTask? n with
  | none => []
  | some t =>
    let raw := (t.next.zipIdx).flatMap fun (tr, i) => tr.do_.map fun d => (d, tr.when_, i)
    sortByName raw

/-- `get_prev_tasks`: names (with multiplicity) of tasks having a transition to `n`. -/
def prevTasks (w : WfSpec) (n : String) : List String :=
  w.tasks.flatMap fun t => ((w.nextTasks t.name).filter (·.1 == n)).map fun _ => t.name

def isJoin (w : WfSpec) (n : String) : Bool :=
  match w.getTask? n with
  | some t => t.join.isSome
  | none => false

def isSplit (w : WfSpec) (n : String) : Bool :=
  !w.isJoin n && (w.prevTasks n).length > 1

/-- `TaskMappingSpec.in_cycle`: BFS from the successors looking for `n` (fuel = traversal bound). -/
def inCycleAux (w : WfSpec) (n : String) : Nat → List String → List String → Bool
  | 0, _, _ => false
  | _, [], _ => false
  | fuel + 1, x :: q, traversed =>
    if x == n then true
    else if traversed.contains x then inCycleAux w n fuel q traversed
    else inCycleAux w n fuel (q ++ (w.nextTasks x).map (·.1)) (x :: traversed)

def edgeCount (w : WfSpec) : Nat :=
  (w.tasks.map fun t => (w.nextTasks t.name).length).sum

def inCycle (w : WfSpec) (n : String) : Bool :=
  inCycleAux w n (w.edgeCount + w.tasks.length + 4 + 4 * w.edgeCount) ((w.nextTasks n).map (·.1)) []

def startTasks (w : WfSpec) : List String :=
  let names := (w.tasks.map (·.name)).filter fun n => (w.prevTasks n).isEmpty
  names.foldl (fun acc x =>
    let rec ins : List String → List String
      | [] => [x]
      | y :: ys => if x < y then x :: y :: ys else y :: ins ys
    ins acc) []

end WfSpec

/-! ## The composed graph -/

structure GRetry where
  when_ : Option Expr
  count : Option Expr
  delay : Option Expr
  deriving Repr, Inhabited

structure Node where
  id : String
  barrier : Option (Option Nat) := none    -- `"*"` is `some none`
  splits : List String := []
  retry : Option GRetry := none
  deriving Repr, Inhabited

structure Edge where
  src : String
  dst : String
  key : Nat
  criteria : Option Expr
  ref : Nat
  deriving Repr, Inhabited

structure Graph where
  nodes : List Node := []
  edges : List Edge := []
  deriving Repr, Inhabited

namespace Graph

def hasTask (g : Graph) (n : String) : Bool := g.nodes.any (·.id == n)

def getNode? (g : Graph) (n : String) : Option Node := g.nodes.find? (·.id == n)

def addTask (g : Graph) (n : String) : Graph :=
  if g.hasTask n then g else { g with nodes := g.nodes ++ [{ id := n }] }

def updateNode (g : Graph) (n : String) (f : Node → Node) : Graph :=
  { g with nodes := g.nodes.map fun x => if x.id == n then f x else x }

def insEdge (e : Edge) : List Edge → List Edge
  | [] => [e]
  | y :: ys =>
    if e.dst < y.dst || (e.dst == y.dst && e.key < y.key) then e :: y :: ys else y :: insEdge e ys

/-- `get_next_transitions`: out-edges sorted by destination; ties (same destination) by key. -/
def nextTransitions (g : Graph) (n : String) : List Edge :=
  (g.edges.filter (·.src == n)).foldl (fun acc e => insEdge e acc) []

def prevTransitions (g : Graph) (n : String) : List Edge :=
  g.edges.filter (·.dst == n)

def barrier? (g : Graph) (n : String) : Option (Option Nat) :=
  match g.getNode? n with
  | some nd => nd.barrier
  | none => none

def hasBarrier (g : Graph) (n : String) : Bool := (g.barrier? n).isSome

def retry? (g : Graph) (n : String) : Option GRetry :=
  match g.getNode? n with
  | some nd => nd.retry
  | none => none

/-- `task_has_retry`: a retry dict with a `count` key (the composer always writes the key). -/
def taskHasRetry (g : Graph) (n : String) : Bool := (g.retry? n).isSome

/-- roots: nodes with in-degree 0, sorted by id. -/
def roots (g : Graph) : List String :=
  let names := (g.nodes.map (·.id)).filter fun n => !(g.edges.any (·.dst == n))
  names.foldl (fun acc x =>
    let rec ins : List String → List String
      | [] => [x]
      | y :: ys => if x < y then x :: y :: ys else y :: ins ys
    ins acc) []

/-- reachability closure used for `in_cycle` on the graph (a node is on a simple cycle iff it
    reaches itself). -/
def reachAux (g : Graph) (target : String) : Nat → List String → List String → Bool
  | 0, _, _ => false
  | _, [], _ => false
  | fuel + 1, x :: q, seen =>
    if x == target then true
    else if seen.contains x then reachAux g target fuel q seen
    else reachAux g target fuel (q ++ (g.edges.filter (·.src == x)).map (·.dst)) (x :: seen)

def inCycle (g : Graph) (n : String) : Bool :=
  reachAux g n (5 * g.edges.length + g.nodes.length + 4) ((g.edges.filter (·.src == n)).map (·.dst)) []

end Graph

/-! ## Composer (`composers/native.py: _compose_wf_graph`) -/

def criteriaEq : Option Expr → Option Expr → Bool
  | none, none => true
  | some _, some _ => true   -- compared together with `ref`: same transition item ⇒ same condition
  | _, _ => false

structure CompState where
  g : Graph := {}
  queue : List (String × List String) := []
  track : List (String × List String) := []    -- track_splits: name ↦ set of split names

def subsetOf (a b : List String) : Bool := a.all b.contains

def unionInto (a b : List String) : List String :=
  b.foldl (fun acc x => if acc.contains x then acc else acc ++ [x]) a

/-- the queue / split-tracking part of visiting a transition target -/
def enqueueNext (w : WfSpec) (splits : List String) (st : CompState) (nextName : String) : CompState :=
  if !st.g.hasTask nextName || !w.inCycle nextName then
    match st.track.find? (·.1 == nextName) with
    | some (_, existing) =>
      if existing.isEmpty then
        { st with queue := st.queue ++ [(nextName, splits)],
                  track := st.track.map fun p => if p.1 == nextName then (p.1, unionInto [] splits) else p }
      else if !subsetOf splits existing then
        { st with queue := st.queue ++ [(nextName, splits)],
                  track := st.track.map fun p => if p.1 == nextName then (p.1, unionInto existing splits) else p }
      else st
    | none =>
      { st with queue := st.queue ++ [(nextName, splits)],
                track := st.track ++ [(nextName, unionInto [] splits)] }
  else st

/-- use the existing transition if present, otherwise add it with the next free key -/
def addEdge (g : Graph) (taskName nextName : String) (cond : Option Expr) (idx : Nat) : Graph :=
  if g.edges.any fun e =>
      e.src == taskName && e.dst == nextName && criteriaEq e.criteria cond && e.ref == idx then g
  else
    let g := (g.addTask taskName).addTask nextName
    let key := (g.edges.filter fun e => e.src == taskName && e.dst == nextName).length
    { g with edges := g.edges ++
        [{ src := taskName, dst := nextName, key := key, criteria := cond, ref := idx }] }

def composeEdge (w : WfSpec) (taskName : String) (splits : List String)
    (st : CompState) (nt : String × Option Expr × Nat) : CompState :=
  if nt.1 == "retry" then
    let r : GRetry := { when_ := some (nt.2.1.getD .completed), count := some (.lit (.int 3)), delay := none }
    { st with g := st.g.updateNode taskName fun nd => { nd with retry := some r } }
  else
    let st := enqueueNext w splits st nt.1
    { st with g := addEdge st.g taskName nt.1 nt.2.1 nt.2.2 }

/-- the node-level part of visiting a task: add the node, its barrier, split list and retry policy -/
def stepNode (w : WfSpec) (g : Graph) (taskName : String) (splits : List String) : Graph × List String :=
  let g := g.addTask taskName
  let g := match w.getTask? taskName with
    | some t => match t.join with
      | some b => g.updateNode taskName fun nd => { nd with barrier := some b }
      | none => g
    | none => g
  let splits := if w.isSplit taskName && !w.inCycle taskName then splits ++ [taskName] else splits
  let g := if splits.isEmpty then g else g.updateNode taskName fun nd => { nd with splits := splits }
  let g := match w.getTask? taskName with
    | some t => match t.retry with
      | some r => g.updateNode taskName fun nd =>
          { nd with retry := some { when_ := r.when_, count := some r.count, delay := r.delay } }
      | none => g
    | none => g
  (g, splits)

def composeStep (w : WfSpec) (st : CompState) (taskName : String) (splits : List String) : CompState :=
  (w.nextTasks taskName).foldl (composeEdge w taskName (stepNode w st.g taskName splits).2)
    { st with g := (stepNode w st.g taskName splits).1 }

def composeLoop (w : WfSpec) : Nat → CompState → CompState
  | 0, st => st
  | fuel + 1, st =>
    match st.queue with
    | [] => st
    | (n, splits) :: rest => composeLoop w fuel (composeStep w { st with queue := rest } n splits)

/-- fuel: every queue entry adds at least one split name to `track` for its task, or is the
    first visit; a generous polynomial bound keeps the function total. -/
def composeFuel (w : WfSpec) : Nat :=
  let n := w.tasks.length + 4
  n * n * (w.edgeCount + 1) + 16

def compose (w : WfSpec) : Graph :=
  (composeLoop w (composeFuel w) { queue := w.startTasks.map fun n => (n, []) }).g

end Orq
