/-
API operations as data, and histories (lists of operations) run on the model.
-/
import OrqModel.Model.Conductor

namespace Orq

inductive Op where
  | req (s : Status)
  | next
  | report (k : TaskKey) (ev : Event)
  | render
  | rerun (reqs : List RerunReq)

def Op.isRerun : Op → Bool
  | .rerun _ => true
  | _ => false

/-- the state after one API call (whether it returned or raised) -/
def runOp (E : Evaluator) (op : Op) (c : Cond) : Cond :=
  match op with
  | .req s => (requestStatus s c).2
  | .next => (getNextTasks E c).2
  | .report k ev => (updateTaskState E k ev c).2
  | .render => (renderOutput E c).2
  | .rerun reqs => (requestRerun E reqs c).2

def runOps (E : Evaluator) (ops : List Op) (c : Cond) : Cond :=
  ops.foldl (fun c op => runOp E op c) c

@[simp] theorem runOps_nil (E c) : runOps E [] c = c := rfl
@[simp] theorem runOps_cons (E op ops c) : runOps E (op :: ops) c = runOps E ops (runOp E op c) := rfl

end Orq
