/-
Finite enumeration class used to decide universally quantified statements over the
generated finite types (statuses, outcomes, booleans) by kernel evaluation.
Core Lean only.
-/
namespace Orq

class Enum (α : Type) where
  all : List α
  mem_all : ∀ a : α, a ∈ all

instance : Enum Bool := ⟨[false, true], by intro a; cases a <;> simp⟩

instance {α β : Type} [Enum α] [Enum β] : Enum (α × β) where
  all := (Enum.all (α := α)).flatMap fun a => (Enum.all (α := β)).map fun b => (a, b)
  mem_all := by
    intro ⟨a, b⟩
    simp only [List.mem_flatMap, List.mem_map]
    exact ⟨a, Enum.mem_all a, b, Enum.mem_all b, rfl⟩

instance {α : Type} [Enum α] : Enum (Option α) where
  all := none :: (Enum.all (α := α)).map some
  mem_all := by
    intro a
    cases a with
    | none => simp
    | some a => simp [Enum.mem_all a]

/-- `∀ x, p x` over an enumerable type is decided by checking the whole list. -/
instance decForallEnum {α : Type} [Enum α] (p : α → Prop) [DecidablePred p] :
    Decidable (∀ a, p a) :=
  if h : (Enum.all (α := α)).all (fun a => decide (p a)) = true then
    isTrue (by
      intro a
      have := List.all_eq_true.mp h a (Enum.mem_all a)
      simpa using this)
  else
    isFalse (by
      intro hp
      apply h
      apply List.all_eq_true.mpr
      intro a _
      simpa using hp a)

instance decExistsEnum {α : Type} [Enum α] (p : α → Prop) [DecidablePred p] :
    Decidable (∃ a, p a) :=
  if h : (Enum.all (α := α)).any (fun a => decide (p a)) = true then
    isTrue (by
      obtain ⟨a, _, ha⟩ := List.any_eq_true.mp h
      exact ⟨a, by simpa using ha⟩)
  else
    isFalse (by
      intro ⟨a, ha⟩
      apply h
      apply List.any_eq_true.mpr
      exact ⟨a, Enum.mem_all a, by simpa using ha⟩)

end Orq
