/-
C19: `get_next_tasks` as a query.
-/
import OrqModel.Proofs.Query
import OrqModel.Proofs.FragBlind
import OrqModel.Proofs.GraphFixed
import OrqModel.Model.Ops

namespace Orq

variable (E : Evaluator)

/-- **C19**: for every definition, state and evaluator, a call of `get_next_tasks` that returns at
    least one task has left the records, the context snapshots, the routes, the task-key map, the
    rerun log, the workflow status and the output exactly as they were, and every staged entry
    unchanged except possibly for its `items` bookkeeping (initialised on the first query of a
    with-items task) -/
theorem C19_next_is_query (c c' : Cond) (r : List Offer) (h : getNextTasks E c = (.ok r, c')) (hr : r ≠ []) :
    c'.st.sequence = c.st.sequence ∧ c'.st.contexts = c.st.contexts ∧ c'.st.routes = c.st.routes ∧
    c'.st.tasks = c.st.tasks ∧ c'.st.reruns = c.st.reruns ∧ c'.st.status = c.st.status ∧
    c'.output = c.output ∧ c'.st.staged.map Staged.dropItems = c.st.staged.map Staged.dropItems := by
  obtain ⟨_, _, h3, h4, h5, h6, h7, h8, h9, h10⟩ := getNextTasks_query E c c' r h hr
  exact ⟨h6, h4, h5, h7, h8, h9, h3, h10⟩

/-- one staged entry: rendering a task for the offer touches nothing but that bookkeeping and the
    error log, whether it succeeds or raises -/
theorem C19_render_is_query (sx : Staged) (c : Cond) :
    (nextTaskFor E sx c).2.st.sequence = c.st.sequence ∧ (nextTaskFor E sx c).2.st.status = c.st.status ∧
    (nextTaskFor E sx c).2.st.contexts = c.st.contexts ∧
    (nextTaskFor E sx c).2.st.staged.map Staged.dropItems = c.st.staged.map Staged.dropItems := by
  obtain ⟨_, _, _, h4, _, h6, _, _, h9, h10⟩ := (nextTaskFor_q E sx).run c
  exact ⟨h6, h9, h4, h10⟩

/-- **C19**: asking for the next tasks is repeatable.  For every definition and state, and for every
    evaluator that cannot see the `items` bookkeeping of the staging area (`Evaluator.ItemsBlind`:
    the functions of the expression languages read task records, routes and contexts, never the
    staging area), if `get_next_tasks` returns at least one task then asking again at once returns
    the same list and leaves the state exactly as the first call left it.  (A call that returns
    nothing because rendering failed has, by design, failed the workflow.) -/
theorem C19_next_idempotent (hE : E.ItemsBlind) (c c1 : Cond) (r : List Offer)
    (h : getNextTasks E c = (.ok r, c1)) (hr : r ≠ []) : getNextTasks E c1 = (.ok r, c1) :=
  getNextTasks_idem E hE c c1 r h hr

/-- the hypothesis is met by the evaluator the executable driver uses in the correspondence check -/
theorem C19_fragment_evaluator_items_blind : fragEvaluator.ItemsBlind := fragEvaluator_itemsBlind

theorem C19_next_idempotent_fragment (c c1 : Cond) (r : List Offer)
    (h : getNextTasks fragEvaluator c = (.ok r, c1)) (hr : r ≠ []) :
    getNextTasks fragEvaluator c1 = (.ok r, c1) :=
  getNextTasks_idem fragEvaluator fragEvaluator_itemsBlind c c1 r h hr

/-- **C19/C14**: the definition and the graph composed from it are fixed for the life of the
    conductor: no API call (whatever it returns or raises) changes either -/
theorem C19_definition_and_graph_fixed (ops : List Op) (c : Cond) :
    (runOps E ops c).spec = c.spec ∧ (runOps E ops c).graph = c.graph := by
  induction ops generalizing c with
  | nil => exact ⟨rfl, rfl⟩
  | cons op ops ih =>
    rw [runOps_cons]
    have h1 : (runOp E op c).spec = c.spec ∧ (runOp E op c).graph = c.graph := by
      cases op with
      | req s => exact (requestStatus_g s).run c
      | next => exact (getNextTasks_g E).run c
      | report k ev => exact (updateTaskStateAux_g E 3 k ev).run c
      | render => exact (renderOutput_g E).run c
      | rerun reqs => exact (requestRerun_g E reqs).run c
    obtain ⟨h2, h3⟩ := ih (runOp E op c)
    exact ⟨h2.trans h1.1, h3.trans h1.2⟩

end Orq
