/-
C14: transition keys.  Among the edges of the composed graph, the edges from one task to one
target carry distinct keys (the k-th parallel edge gets key k), so a task's outbound transitions
are identified by (target, key) without ambiguity.
-/
import OrqModel.Properties.Compose

namespace Orq

def samePair (a b : Edge) : Bool := a.src == b.src && a.dst == b.dst

/-- keys of the edges of one (source, target) pair are below their number and pairwise distinct -/
structure KeysOk (l : List Edge) : Prop where
  bound : ∀ e ∈ l, e.key < (l.filter fun x => x.src == e.src && x.dst == e.dst).length
  distinct : l.Pairwise fun a b => ¬ (a.src = b.src ∧ a.dst = b.dst ∧ a.key = b.key)

theorem KeysOk.nil : KeysOk [] := ⟨fun e he => (by cases he), List.Pairwise.nil⟩

theorem addEdge_keys (g : Graph) (t n : String) (cond : Option Expr) (idx : Nat) (h : KeysOk g.edges) :
    KeysOk (addEdge g t n cond idx).edges := by
  unfold addEdge
  split
  · exact h
  · simp only [Graph.addTask_edges]
    refine ⟨?_, ?_⟩
    · intro e he
      rcases List.mem_append.mp he with h1 | h1
      · have := h.bound e h1
        rw [List.filter_append, List.length_append]
        omega
      · simp only [List.mem_singleton] at h1
        subst h1
        simp only [List.filter_append, List.length_append, List.filter_cons, List.filter_nil, BEq.rfl, Bool.and_self,
          if_true, List.length_cons, List.length_nil]
        omega
    · rw [List.pairwise_append]
      refine ⟨h.distinct, List.pairwise_singleton _ _, ?_⟩
      intro a ha b hb
      simp only [List.mem_singleton] at hb
      subst hb
      intro ⟨h1, h2, h3⟩
      have hb := h.bound a ha
      simp only at h1 h2 h3
      rw [h1, h2] at hb
      omega

theorem composeEdge_keys (w : WfSpec) (taskName : String) (splits : List String) (st : CompState)
    (nt : String × Option Expr × Nat) (h : KeysOk st.g.edges) :
    KeysOk (composeEdge w taskName splits st nt).g.edges := by
  unfold composeEdge
  split
  · exact h
  · simp only [enqueueNext_g]
    exact addEdge_keys _ _ _ _ _ h

theorem composeStep_keys (w : WfSpec) (st : CompState) (taskName : String) (splits : List String)
    (h : KeysOk st.g.edges) : KeysOk (composeStep w st taskName splits).g.edges := by
  unfold composeStep
  apply foldl_inv (fun s : CompState => KeysOk s.g.edges)
  · simp only [stepNode_edges]
    exact h
  · intro acc x _ hacc
    exact composeEdge_keys w taskName _ acc x hacc

theorem composeLoop_keys (w : WfSpec) (fuel : Nat) (st : CompState)
    (h : KeysOk st.g.edges) : KeysOk (composeLoop w fuel st).g.edges := by
  induction fuel generalizing st with
  | zero => exact h
  | succ n ih =>
    unfold composeLoop
    split
    · exact h
    · exact ih _ (composeStep_keys w _ _ _ h)

/-- **C14**: in the composed graph, two distinct edges from the same task to the same target never
    share a key -/
theorem C14_keys_distinct (w : WfSpec) : KeysOk (compose w).edges := by
  unfold compose
  apply composeLoop_keys
  exact KeysOk.nil

theorem insEdge_perm (e : Edge) (l : List Edge) : (Graph.insEdge e l).Perm (e :: l) := by
  induction l with
  | nil => exact List.Perm.refl _
  | cons y ys ih =>
    unfold Graph.insEdge
    split
    · exact List.Perm.refl _
    · exact (List.Perm.cons y ih).trans (List.Perm.swap e y ys)

theorem foldl_insEdge_perm (l acc : List Edge) :
    (l.foldl (fun acc e => Graph.insEdge e acc) acc).Perm (l.reverse ++ acc) := by
  induction l generalizing acc with
  | nil => exact List.Perm.refl _
  | cons x xs ih =>
    simp only [List.foldl_cons, List.reverse_cons, List.append_assoc, List.singleton_append]
    exact (ih _).trans (List.Perm.append_left _ (insEdge_perm x acc))

/-- the identifiers (target, key) of a task's outbound transitions are pairwise distinct -/
theorem nextTransitions_nodup (g : Graph) (n : String) (h : KeysOk g.edges) :
    ((g.nextTransitions n).map fun e => ((e.dst, e.key) : String × Nat)).Nodup := by
  unfold Graph.nextTransitions
  have hperm := foldl_insEdge_perm (g.edges.filter (·.src == n)) []
  rw [List.append_nil] at hperm
  have hp2 : (List.map (fun e => ((e.dst, e.key) : String × Nat))
      ((g.edges.filter (·.src == n)).foldl (fun acc e => Graph.insEdge e acc) [])).Perm
      (List.map (fun e => ((e.dst, e.key) : String × Nat)) (g.edges.filter (·.src == n))) :=
    (hperm.map _).trans ((List.reverse_perm _).map _)
  rw [hp2.nodup_iff]
  rw [List.nodup_iff_pairwise_ne, List.pairwise_map]
  have hsub : (g.edges.filter (·.src == n)).Pairwise fun a b => ¬ (a.src = b.src ∧ a.dst = b.dst ∧ a.key = b.key) :=
    List.Pairwise.sublist List.filter_sublist h.distinct
  have hsrc : ∀ a ∈ g.edges.filter (·.src == n), a.src = n := by
    intro a ha
    have := (List.mem_filter.mp ha).2
    simpa using this
  refine List.Pairwise.imp_of_mem ?_ hsub
  intro a b ha hb hne heq
  simp only [Prod.mk.injEq] at heq
  exact hne ⟨(hsrc a ha).trans (hsrc b hb).symm, heq.1, heq.2⟩

end Orq
