/-
C01, "justified by the definition": along every history the decisions a record holds are about
edges of the graph composed from the definition that leave the record's own task; hence every
predecessor of an offered task is a completed record of some task `s` that recorded `true` for an
edge `s → offered task` of the composed graph.
-/
import OrqModel.Proofs.EdgeOk
import OrqModel.Properties.Truth
import OrqModel.Properties.Query

namespace Orq

variable (E : Evaluator)

theorem init_graph (spec : WfSpec) (parentCtx inputs : Val.Dict) : (init E spec parentCtx inputs).graph = compose spec := by
  unfold init
  dsimp only
  have hm : Rel gPre (do logError "ExpressionEvaluationException"; failOnError : M Unit) := by
    g_walk [failOnError_g]
  have h1 := (hm.run ({ spec := spec, graph := compose spec, inputs := inputs, parentCtx := parentCtx } : Cond)).2
  repeat' split
  all_goals first
    | exact h1 | rfl

theorem init_ne (spec : WfSpec) (parentCtx inputs : Val.Dict) : NE (init E spec parentCtx inputs) := by
  unfold init
  dsimp only
  have h0 : NE ({ spec := spec, graph := compose spec, inputs := inputs, parentCtx := parentCtx } : Cond) :=
    ⟨fun r hr => (by cases hr)⟩
  have h1 := NE.uniform (m := (do logError "ExpressionEvaluationException"; failOnError : M Unit))
    (by nw_walk [failOnError_nw]) (by ext_walk [failOnError_ext]) (by g_walk [failOnError_g]) _ h0
  have hroots : ∀ (c : Cond) (ctx : Val.Dict) (roots : List String), NE c →
      NE { c with st := { c.st with
        contexts := c.st.contexts ++ [ctx],
        routes := c.st.routes ++ [[]],
        staged := c.st.staged ++ roots.map fun n =>
          ({ id := n, route := 0, ctxsIn := [0], ready := true } : Staged) } } := by
    intro c ctx roots hj
    exact ⟨fun r hr m hm => hj.recs r hr m hm⟩
  repeat' split
  all_goals first
    | exact h1 | exact h0 | exact hroots _ _ _ h1 | exact hroots _ _ _ h0

theorem runOps_inv5 (ops : List Op) (c : Cond) (hi : Inv5 c) : Inv5 (runOps E ops c) := by
  induction ops generalizing c with
  | nil => exact hi
  | cons op ops ih =>
    rw [runOps_cons]
    apply ih
    cases op with
    | req s => exact (JI5.of_rel (requestStatus_tk s) (requestStatus_g s) (requestStatus_nw s)).run c hi
    | next => exact (JI5.of_rel (getNextTasks_tk E) (getNextTasks_g E) (getNextTasks_nw E)).run c hi
    | render => exact (JI5.of_rel (renderOutput_tk E) (renderOutput_g E) (renderOutput_nw E)).run c hi
    | rerun reqs => exact (requestRerun_ji5 E reqs).run c hi
    | report k ev => exact (updateTaskStateAux_ji5 E 3 k ev).run c hi

/-- **C01**: along every history — no restriction on the operations — every decision a task record
    holds is about an edge of the composed graph that leaves the record's own task: the engine
    evaluates and records only transitions the definition has -/
theorem C01_decisions_follow_graph_edges (spec : WfSpec) (parentCtx inputs : Val.Dict) (ops : List Op) :
    ∀ r ∈ (runOps E ops (init E spec parentCtx inputs)).st.sequence, ∀ m ∈ r.next,
      ∃ e ∈ (compose spec).edges, e.src = r.id ∧ e.dst = m.1.1 ∧ e.key = m.1.2 := by
  intro r hr m hm
  have hi : Inv5 (init E spec parentCtx inputs) := ⟨(init_inv E spec parentCtx inputs).tk, init_ne E spec parentCtx inputs⟩
  obtain ⟨e, he, h1⟩ := (runOps_inv5 E ops _ hi).ne.recs r hr m hm
  rw [(C19_definition_and_graph_fixed E ops (init E spec parentCtx inputs)).2, init_graph] at he
  exact ⟨e, he, h1⟩

/-- **C01**, as the property states it: every task the conductor offers, at any point of any
    history, is a ready staged entry, and each predecessor it names is a *completed* record of a
    task `s` that recorded **true** for an edge `s → offered task` *of the graph composed from the
    definition* (a start task names none; a retried or rerun task inherits the list of the record
    it repeats) -/
theorem C01_offers_justified_by_the_definition (spec : WfSpec) (parentCtx inputs : Val.Dict) (ops : List Op)
    (hops : ∀ op ∈ ops, op.notRetryEvent) (offers : List Offer) (c' : Cond)
    (h : getNextTasks E (runOps E ops (init E spec parentCtx inputs)) = (.ok offers, c')) :
    ∀ o ∈ offers, ∃ sx ∈ (runOps E ops (init E spec parentCtx inputs)).st.staged,
      sx.id = o.id ∧ sx.route = o.route ∧ sx.ready = true ∧
      ∀ p ∈ sx.prev, ∃ q, (runOps E ops (init E spec parentCtx inputs)).st.sequence[p.2]? = some q ∧
        (∃ s, q.status = some s ∧ s.isCompleted = true) ∧ ((o.id, p.1.2), true) ∈ q.next ∧
        ∃ e ∈ (compose spec).edges, e.src = q.id ∧ e.dst = o.id ∧ e.key = p.1.2 := by
  intro o ho
  obtain ⟨sx, hsx, h1, h2, hready, hprev⟩ :=
    C01_offers_have_true_transitions E spec parentCtx inputs ops hops offers c' h o ho
  refine ⟨sx, hsx, h1, h2, hready, ?_⟩
  intro p hp
  obtain ⟨q, hq, hcomp, hm⟩ := hprev p hp
  obtain ⟨e, he, e1, e2, e3⟩ := C01_decisions_follow_graph_edges E spec parentCtx inputs ops q
    (List.mem_of_getElem? hq) _ hm
  exact ⟨q, hq, hcomp, hm, e, he, e1, e2, e3⟩

/-- **C01**: a task nothing transitions into (a start task of the composed graph) never names a
    predecessor — neither in a staged entry nor in a record — at any point of any history: it is
    staged by the initialisation, by a retry or by a rerun only -/
theorem C01_start_tasks_name_no_predecessor (spec : WfSpec) (parentCtx inputs : Val.Dict) (ops : List Op)
    (hops : ∀ op ∈ ops, op.notRetryEvent) (n : String) (hroot : ∀ e ∈ (compose spec).edges, e.dst ≠ n) :
    (∀ x ∈ (runOps E ops (init E spec parentCtx inputs)).st.staged, x.id = n → x.prev = []) ∧
    (∀ r ∈ (runOps E ops (init E spec parentCtx inputs)).st.sequence, r.id = n → r.prev = []) := by
  have hjt := C01_predecessors_decided_true E spec parentCtx inputs ops hops
  have hne := C01_decisions_follow_graph_edges E spec parentCtx inputs ops
  constructor
  · intro x hx hid
    cases hp : x.prev with
    | nil => rfl
    | cons p ps =>
      exfalso
      obtain ⟨q, hq, hm⟩ := hjt.staged x hx p (by rw [hp]; exact List.mem_cons_self)
      obtain ⟨e, he, _, e2, _⟩ := hne q (List.mem_of_getElem? hq) _ hm
      exact hroot e he (by rw [e2, hid])
  · intro r hr hid
    cases hp : r.prev with
    | nil => rfl
    | cons p ps =>
      exfalso
      obtain ⟨q, hq, hm⟩ := hjt.recs r hr p (by rw [hp]; exact List.mem_cons_self)
      obtain ⟨e, he, _, e2, _⟩ := hne q (List.mem_of_getElem? hq) _ hm
      exact hroot e he (by rw [e2, hid])

/-- **C01**: a satisfied transition into a split task (no join, several inbound transitions, on no
    cycle) gets a route of its own at every traversal: the route returned is a new index -- the
    length of the route table before -- and the table grows by exactly the old route's transitions
    plus this one.  Two traversals of the same transition can therefore never land on the same
    (task, route) instance -/
theorem C01_split_gets_fresh_route (e : Edge) (r r' : Nat) (c c' : Cond) (old : List TransId)
    (hs : c.spec.isSplit e.dst = true) (hc : c.graph.inCycle e.dst = false)
    (ho : c.st.routes[r]? = some old) (hn : old.contains ((e.src, e.key) : TransId) = false)
    (h : evaluateRoute e r c = (.ok r', c')) :
    r' = c.st.routes.length ∧ c'.st.routes = c.st.routes ++ [old ++ [(e.src, e.key)]] := by
  unfold evaluateRoute at h
  obtain ⟨c0, c1, hg, h1⟩ := M.bind_ok h
  obtain ⟨e1, e2⟩ := get_ok hg
  subst e1 e2
  simp only [hs, hc, Bool.not_true, Bool.or_false, ho, hn] at h1
  obtain ⟨u, c2, hm, h2⟩ := M.bind_ok h1
  obtain ⟨hr, hcc⟩ := pure_ok h2
  subst hcc
  simp only [M.modifySt, M.modify, Prod.mk.injEq, true_and] at hm
  subst hm
  exact ⟨hr.symm, rfl⟩

end Orq
