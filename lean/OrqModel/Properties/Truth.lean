/-
C01 along every history, with the decision: every predecessor listed by a staged entry, by an
offer, or by a task record is a completed record of the workflow's history that has recorded
`true` for the transition leading to that very task.
-/
import OrqModel.Proofs.Truth
import OrqModel.Properties.Justified

namespace Orq

variable (E : Evaluator)

theorem init_inv (spec : WfSpec) (parentCtx inputs : Val.Dict) : Inv (init E spec parentCtx inputs) := by
  refine ⟨init_dec E spec parentCtx inputs, ?_, ?_, ?_⟩
  all_goals (unfold init; dsimp only)
  · -- the task-key map is empty
    have h0 : TK ({ spec := spec, graph := compose spec, inputs := inputs, parentCtx := parentCtx } : Cond) := by
      intro p hp
      cases hp
    have hm : Rel tkPre (do logError "ExpressionEvaluationException"; failOnError : M Unit) := by
      tk_walk [failOnError_tk]
    have h1 := TK.step (hm.run _) h0
    have hroots : ∀ (c : Cond) (ctx : Val.Dict) (roots : List String), TK c →
        TK { c with st := { c.st with
          contexts := c.st.contexts ++ [ctx],
          routes := c.st.routes ++ [[]],
          staged := c.st.staged ++ roots.map fun n =>
            ({ id := n, route := 0, ctxsIn := [0], ready := true } : Staged) } } := by
      intro c ctx roots hk p hp
      exact hk p hp
    repeat' split
    all_goals first
      | exact h1 | exact h0 | exact hroots _ _ _ h1 | exact hroots _ _ _ h0
  · -- the graph is the composed one
    have h0 : KeysOk ({ spec := spec, graph := compose spec, inputs := inputs, parentCtx := parentCtx } : Cond).graph.edges :=
      C14_keys_distinct spec
    have hm : Rel gPre (do logError "ExpressionEvaluationException"; failOnError : M Unit) := by
      g_walk [failOnError_g]
    have h1 : KeysOk ((do logError "ExpressionEvaluationException"; failOnError : M Unit)
        ({ spec := spec, graph := compose spec, inputs := inputs, parentCtx := parentCtx } : Cond)).2.graph.edges := by
      rw [(hm.run _).2]
      exact h0
    repeat' split
    all_goals first
      | exact h1 | exact h0
  · have h0 : JT ({ spec := spec, graph := compose spec, inputs := inputs, parentCtx := parentCtx } : Cond) :=
      ⟨fun x hx => (by cases hx), fun r hr => (by cases hr)⟩
    have h1 := JT.uniform (m := (do logError "ExpressionEvaluationException"; failOnError : M Unit))
      (by nxa_walk [failOnError_nxa, logError_nxa _ _ _ _]) (by ext_walk [failOnError_ext])
      (by prev_walk [failOnError_prev, logError_prev _ _ _ _]) _ h0
    have hroots : ∀ (c : Cond) (ctx : Val.Dict) (roots : List String), JT c →
        JT { c with st := { c.st with
          contexts := c.st.contexts ++ [ctx],
          routes := c.st.routes ++ [[]],
          staged := c.st.staged ++ roots.map fun n =>
            ({ id := n, route := 0, ctxsIn := [0], ready := true } : Staged) } } := by
      intro c ctx roots hj
      refine ⟨?_, ?_⟩
      · intro x hx
        rcases List.mem_append.mp hx with h | h
        · exact hj.staged x h
        · obtain ⟨n, _, e⟩ := List.mem_map.mp h
          rw [← e]
          exact PrevT.nil _ _
      · intro r hr
        exact hj.recs r hr
    repeat' split
    all_goals first
      | exact h1 | exact h0 | exact hroots _ _ _ h1 | exact hroots _ _ _ h0

theorem runOp_inv (op : Op) (c : Cond) (hop : op.notRetryEvent) (hi : Inv c) : Inv (runOp E op c) := by
  cases op with
  | req s =>
    exact (JI.of_rel (requestStatus_dec s) (requestStatus_tk s) (requestStatus_g s) (requestStatus_nxa s)
      (requestStatus_prev s)).run c hi
  | next =>
    exact (JI.of_rel (getNextTasks_dec E) (getNextTasks_tk E) (getNextTasks_g E) (getNextTasks_nxa E)
      (getNextTasks_prev E)).run c hi
  | render =>
    exact (JI.of_rel (renderOutput_dec E) (renderOutput_tk E) (renderOutput_g E) (renderOutput_nxa E)
      (renderOutput_prev E)).run c hi
  | rerun reqs => exact (requestRerun_ji E reqs).run c hi
  | report k ev =>
    apply updateTaskStateAux_inv E 3 k ev c hi
    intro hev
    subst hev
    exact hop.elim

theorem runOps_inv (ops : List Op) (c : Cond) (hops : ∀ op ∈ ops, op.notRetryEvent) (hi : Inv c) :
    Inv (runOps E ops c) := by
  induction ops generalizing c with
  | nil => exact hi
  | cons op ops ih =>
    rw [runOps_cons]
    exact ih (runOp E op c) (fun o ho => hops o (List.mem_cons_of_mem _ ho))
      (runOp_inv E op c (hops op List.mem_cons_self) hi)

/-- **C01**: along every history (any definition, inputs, evaluator; any order and outcome of
    reports, control requests, reruns), every predecessor `((source, key), i)` listed by a staged
    entry or by a task record of task `t` points at a record `i` that has recorded the decision
    `true` for the transition `(t, key)` — the transition was evaluated, and its condition held. -/
theorem C01_predecessors_decided_true (spec : WfSpec) (parentCtx inputs : Val.Dict) (ops : List Op)
    (hops : ∀ op ∈ ops, op.notRetryEvent) :
    JT (runOps E ops (init E spec parentCtx inputs)) :=
  (runOps_inv E ops _ hops (init_inv E spec parentCtx inputs)).jt

/-- … and the task-key map of every reachable state points at records of the right task -/
theorem C01_task_map_sound (spec : WfSpec) (parentCtx inputs : Val.Dict) (ops : List Op)
    (hops : ∀ op ∈ ops, op.notRetryEvent) (k : TaskKey) (i : Nat)
    (h : (runOps E ops (init E spec parentCtx inputs)).st.taskIdx? k = some i) :
    ∃ r, (runOps E ops (init E spec parentCtx inputs)).st.sequence[i]? = some r ∧ r.id = k.1 :=
  (runOps_inv E ops _ hops (init_inv E spec parentCtx inputs)).tk.taskIdx h

/-- **C01**, as the property states it: every task the conductor offers, at any point of any
    history, is a ready staged entry, and each predecessor that entry lists is a *completed* task
    record whose transition to the offered task was *evaluated to true* (a start task lists none;
    a retried or rerun task inherits the list of the record it repeats). -/
theorem C01_offers_have_true_transitions (spec : WfSpec) (parentCtx inputs : Val.Dict) (ops : List Op)
    (hops : ∀ op ∈ ops, op.notRetryEvent) (offers : List Offer) (c' : Cond)
    (h : getNextTasks E (runOps E ops (init E spec parentCtx inputs)) = (.ok offers, c')) :
    ∀ o ∈ offers, ∃ sx ∈ (runOps E ops (init E spec parentCtx inputs)).st.staged,
      sx.id = o.id ∧ sx.route = o.route ∧ sx.ready = true ∧
      ∀ p ∈ sx.prev, ∃ q, (runOps E ops (init E spec parentCtx inputs)).st.sequence[p.2]? = some q ∧
        (∃ s, q.status = some s ∧ s.isCompleted = true) ∧ ((o.id, p.1.2), true) ∈ q.next := by
  intro o ho
  obtain ⟨sx, hsx, h1, h2, hready, hprev⟩ :=
    C01_offers_have_completed_predecessors E spec parentCtx inputs ops hops offers c' h o ho
  have hj := C01_predecessors_decided_true E spec parentCtx inputs ops hops
  refine ⟨sx, hsx, h1, h2, hready, ?_⟩
  intro p hp
  obtain ⟨q, hq, hcomp, _⟩ := hprev p hp
  obtain ⟨q', hq', hm⟩ := hj.staged sx hsx p hp
  rw [hq] at hq'
  cases hq'
  exact ⟨q, hq, hcomp, by rw [← h1]; exact hm⟩

/-- non-vacuity: a state in which a staged entry lists a predecessor, and the invariant holds -/
def exampleState : Cond where
  spec := ⟨[], [], [], []⟩
  graph := {}
  st := { sequence := [{ id := "a", route := 0, ctxsIn := [0], status := some .succeeded, next := [(("b", 0), true)] }],
          staged := [{ id := "b", route := 0, ctxsIn := [0], prev := [(("a", 0), 0)], ready := true }] }

example : JT exampleState := by
  refine ⟨?_, ?_⟩
  · intro x hx
    have hx' : x ∈ [({ id := "b", route := 0, ctxsIn := [0], prev := [(("a", 0), 0)], ready := true } : Staged)] := hx
    simp only [List.mem_singleton] at hx'
    subst hx'
    intro p hp
    have hp' : p ∈ [((("a", 0), 0) : TransId × Nat)] := hp
    simp only [List.mem_singleton] at hp'
    subst hp'
    exact ⟨_, rfl, List.mem_singleton.mpr rfl⟩
  · intro r hr
    have hr' : r ∈ [({ id := "a", route := 0, ctxsIn := [0], status := some .succeeded, next := [(("b", 0), true)] } : Rec)] := hr
    simp only [List.mem_singleton] at hr'
    subst hr'
    exact PrevT.nil _ _

end Orq
