/-
C04: the remediation flag.  A failed workflow offers only staged entries flagged run-on-fail
(`C04_failed_offers_only_run_on_fail`); the transition loop raises the flag only when a `fail`
command sits on a transition whose condition held for the completed task.
-/
import OrqModel.Proofs.ManualFail
import OrqModel.Proofs.OfferCtx

namespace Orq

variable (E : Evaluator)

theorem makeTaskContext_ok {k : TaskKey} {idx : Nat} {res : Val} {c c' : Cond} {ec : EvalCtx}
    (h : makeTaskContext k idx res c = (.ok ec, c')) : c' = c := by
  unfold makeTaskContext at h
  obtain ⟨c0, c1, h1, h⟩ := M.bind_ok h
  obtain ⟨rfl, rfl⟩ := get_ok h1
  obtain ⟨r, c2, h2, h⟩ := M.bind_ok h
  obtain ⟨_, rfl⟩ := liftOpt_ok h2
  obtain ⟨v, c3, h3, h⟩ := M.bind_ok h
  obtain ⟨_, rfl⟩ := liftExcept_ok h3
  exact (pure_ok h).2.symm

/-- **C04**: the transition loop of a completed task reports a fired fail command (the flag that
    marks the tasks staged beside it as clean-up a failed workflow may still offer) only if one of
    the task's outbound transitions leads to `fail` and its condition evaluated true on the task's
    context -/
theorem C04_remediation_needs_fired_fail (k : TaskKey) (idx : Nat) (ts : TaskSpec) (ev : Event)
    (c c' : Cond) (acc : TransAcc) (h : evalTransitions E k idx ts ev c = (.ok acc, c'))
    (hm : acc.manualFail = true) :
    ∃ ec, makeTaskContext k idx (taskResult ts ev) c = (.ok ec, c) ∧
      ∃ e ∈ c.graph.nextTransitions k.1, e.dst = "fail" ∧ transCriteria E e ec = some true := by
  unfold evalTransitions at h
  obtain ⟨ec, c1, h1, g1⟩ := M.bind_ok h
  have hc1 := makeTaskContext_ok h1
  subst hc1
  refine ⟨ec, h1, ?_⟩
  obtain ⟨c0, c2, h2, g2⟩ := M.bind_ok g1
  obtain ⟨rfl, rfl⟩ := get_ok h2
  obtain ⟨_, c3, _, g3⟩ := M.bind_ok g2
  obtain ⟨acc1, c4, h4, g4⟩ := M.bind_ok g3
  obtain ⟨_, c5, _, g5⟩ := M.bind_ok g4
  obtain ⟨rfl, _⟩ := pure_ok g5
  rcases (foldTrans_mf E k idx ec _ _).run _ _ _ h4 hm with h5 | h5
  · cases h5
  · exact h5

end Orq
