/-
C17: admission of rerun requests on the model.
-/
import OrqModel.Proofs.Post

namespace Orq

variable (E : Evaluator)

/-- **C17**: a rerun is rejected for a workflow that has not completed, and nothing changes -/
theorem C17_reject_active (reqs : List RerunReq) (c : Cond) (h : c.st.status.isCompleted = false) :
    requestRerun E reqs c = (.error .workflowIsActiveAndNotRerunable, c) := by
  unfold requestRerun
  show M.bind' M.get _ c = _
  unfold M.bind' M.get
  simp only [h, Bool.not_false, ↓reduceIte]
  rfl

/-- **C17**: a rerun naming a task execution that does not exist is rejected before anything is
    touched -/
theorem C17_reject_unknown (reqs : List RerunReq) (c : Cond) (h : c.st.status.isCompleted = true)
    (hu : (dedupKeys reqs).any (fun t => (c.st.taskIdx? (t.taskId, t.route)).isNone) = true) :
    requestRerun E reqs c = (.error .invalidTaskRerunRequest, c) := by
  unfold requestRerun
  show M.bind' M.get _ c = _
  unfold M.bind' M.get
  simp only [h, Bool.not_true, Bool.false_eq_true, ↓reduceIte, hu]
  rfl

/-- **C17**: an accepted rerun leaves the workflow `resuming` -/
theorem C17_accepted_resuming (reqs : List RerunReq) :
    PostS (requestRerun E reqs) (fun c => c.st.status = .resuming) := by
  unfold requestRerun
  apply PostS.bind; intro c
  split
  · exact PostS.throw _
  · dsimp only
    split
    · exact PostS.throw _
    · repeat' (first
        | (apply PostS.modifySt; intro c; rfl)
        | (apply PostS.bind; intro _))

/-- the status set by an accepted rerun is the only exit from a terminal status besides
    `succeeded → failed` (compare C04): a rerun is the one operation outside the status automaton -/
theorem C17_only_completed_accepted (reqs : List RerunReq) (c c' : Cond)
    (h : requestRerun E reqs c = (.ok (), c')) : c.st.status.isCompleted = true := by
  by_cases hc : c.st.status.isCompleted = true
  · exact hc
  · have := C17_reject_active E reqs c (by simpa using hc)
    rw [this] at h
    cases h

/-- **C17/C02**: the flags the workflow status is computed from (`has_active_tasks`,
    `has_canceled_tasks`, ...) count only the *current* record of each task execution key: a record
    superseded by a rerun or a later loop iteration has no say -/
theorem C17_only_current_records_counted (s : WState) (p : Status → Bool) (i : Nat)
    (h : i ∈ s.idxByStatus p) :
    (∃ k, (k, i) ∈ s.tasks) ∧ ∃ r x, s.sequence[i]? = some r ∧ r.status = some x ∧ p x = true := by
  unfold WState.idxByStatus at h
  obtain ⟨⟨r, j⟩, hm, hj⟩ := List.mem_map.mp h
  simp only at hj
  subst hj
  obtain ⟨hz, hf⟩ := List.mem_filter.mp hm
  simp only [Bool.and_eq_true] at hf
  obtain ⟨hp, hl⟩ := hf
  constructor
  · unfold WState.isLast at hl
    obtain ⟨q, hq, he⟩ := List.any_eq_true.mp hl
    refine ⟨q.1, ?_⟩
    have : q.2 = j := by simpa using he
    rw [← this]
    exact hq
  · have hget : s.sequence[j]? = some r := by
      have := List.mem_zipIdx hz
      simp only [Nat.zero_add, Nat.sub_zero] at this
      obtain ⟨_, h2, h3⟩ := this
      rw [List.getElem?_eq_getElem h2]
      exact congrArg some h3.symm
    cases hs : r.status with
    | none => simp [hs] at hp
    | some x => exact ⟨r, x, hget, hs, by simpa [hs] using hp⟩

theorem C17_canceled_needs_current_canceled (s : WState) (h : s.hasCanceled = true) :
    ∃ k i r, (k, i) ∈ s.tasks ∧ s.sequence[i]? = some r ∧ r.status = some .canceled := by
  unfold WState.hasCanceled at h
  cases hl : s.idxByStatus (· == .canceled) with
  | nil => simp [hl] at h
  | cons i rest =>
    obtain ⟨⟨k, hk⟩, r, x, hr, hs, hx⟩ := C17_only_current_records_counted s (· == .canceled) i (by rw [hl]; exact List.mem_cons_self)
    refine ⟨k, i, r, hk, hr, ?_⟩
    rw [hs]
    cases x <;> first | rfl | (exact absurd hx (by decide))

end Orq
