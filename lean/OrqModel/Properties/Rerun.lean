/-
C17: admission of rerun requests on the model.
-/
import OrqModel.Proofs.Post

namespace Orq

variable (E : Evaluator)

/-- **C17**: a rerun is rejected for a workflow that has not completed, and nothing changes -/
theorem C17_reject_active (reqs : List RerunReq) (c : Cond) (h : c.st.status.isCompleted = false) :
    requestRerun E reqs c = (.error .workflowIsActiveAndNotRerunable, c) := by
  unfold requestRerun
  show M.bind' M.get _ c = _
  unfold M.bind' M.get
  simp only [h, Bool.not_false, ↓reduceIte]
  rfl

/-- **C17**: a rerun naming a task execution that does not exist is rejected before anything is
    touched -/
theorem C17_reject_unknown (reqs : List RerunReq) (c : Cond) (h : c.st.status.isCompleted = true)
    (hu : (dedupKeys reqs).any (fun t => (c.st.taskIdx? (t.taskId, t.route)).isNone) = true) :
    requestRerun E reqs c = (.error .invalidTaskRerunRequest, c) := by
  unfold requestRerun
  show M.bind' M.get _ c = _
  unfold M.bind' M.get
  simp only [h, Bool.not_true, Bool.false_eq_true, ↓reduceIte, hu]
  rfl

/-- **C17**: an accepted rerun leaves the workflow `resuming` -/
theorem C17_accepted_resuming (reqs : List RerunReq) :
    PostS (requestRerun E reqs) (fun c => c.st.status = .resuming) := by
  unfold requestRerun
  apply PostS.bind; intro c
  split
  · exact PostS.throw _
  · dsimp only
    split
    · exact PostS.throw _
    · repeat' (first
        | (apply PostS.modifySt; intro c; rfl)
        | (apply PostS.bind; intro _))

/-- the status set by an accepted rerun is the only exit from a terminal status besides
    `succeeded → failed` (compare C04): a rerun is the one operation outside the status automaton -/
theorem C17_only_completed_accepted (reqs : List RerunReq) (c c' : Cond)
    (h : requestRerun E reqs c = (.ok (), c')) : c.st.status.isCompleted = true := by
  by_cases hc : c.st.status.isCompleted = true
  · exact hc
  · have := C17_reject_active E reqs c (by simpa using hc)
    rw [this] at h
    cases h

end Orq
