/-
C07 (join barriers), C06 (published deltas), C19 (independence of set iteration order at the
barrier computation).
-/
import OrqModel.Proofs.StatusTrace
import OrqModel.Proofs.RetryBound

namespace Orq

/-! ### C07: barrier arithmetic -/

/-- an inbound task counts as satisfied on route `r` when its latest record on that route has a
    true decision for some transition into `t` -/
def srcSatisfied (c : Cond) (t : String) (r : Nat) (src : String) : Bool :=
  match c.st.getRec? (src, r) with
  | none => false
  | some rc =>
    ((c.graph.prevTransitions t).filter (·.src == src)).any fun e =>
      (rc.next.find? (fun p => p.1 == (t, e.key))).any (·.2)

def inboundTasks (c : Cond) (t : String) : List String :=
  distinctStrs ((c.graph.prevTransitions t).map (·.src))

def satisfiedCount (c : Cond) (t : String) (r : Nat) : Nat :=
  ((inboundTasks c t).filter (srcSatisfied c t r)).length

/-- all inbound tasks for `join: all`, the given count for `join: N`, one for a task without join -/
def requirement (c : Cond) (t : String) : Nat := barrierRequirement c t (inboundTasks c t).length

theorem evalSrc_true_iff (c : Cond) (t : String) (r : Nat) (src : String) :
    (evalSrc c t r src == some true) = srcSatisfied c t r src := by
  unfold evalSrc srcSatisfied
  cases c.st.getRec? (src, r) with
  | none => rfl
  | some rc =>
    simp only
    cases (((c.graph.prevTransitions t).filter (·.src == src)).any fun e =>
          (rc.next.find? (fun p => p.1 == (t, e.key))).any (·.2)) <;> rfl

theorem filter_map_some_true (l : List String) (f : String → Option Bool) (g : String → Bool)
    (h : ∀ a, (f a == some true) = g a) :
    ((l.map f).filter (· == some true)).length = (l.filter g).length := by
  induction l with
  | nil => rfl
  | cons x xs ih =>
    simp only [List.map_cons, List.filter_cons, h x]
    split <;> simp [ih]

/-- **C07**: a join's inbound criteria are `satisfied` exactly when the number of distinct
    inbound tasks with a satisfied transition into it on the same route reaches the requirement
    (all of them for `join: all`, the given count for `join: N`) -/
theorem C07_barrier_requirement (c : Cond) (t : String) (r : Nat) :
    inboundStatus c t r = .satisfied ↔ satisfiedCount c t r ≥ requirement c t := by
  unfold inboundStatus inboundStatusWith satisfiedCount requirement inboundTasks
  simp only []
  rw [filter_map_some_true _ _ _ (evalSrc_true_iff c t r)]
  constructor
  · intro h
    split at h
    · assumption
    · split at h <;> cases h
  · intro h
    rw [if_pos h]

/-- **C07**: the staged entry of a task is offered only when ready (C01_offer_from_staged), and
    its ready flag is the barrier evaluation: here the flag `stageNext` writes -/
def readyFlag (c : Cond) (t : String) (r : Nat) : Bool := inboundStatus c t r == .satisfied

theorem C07_ready_iff_satisfied (c : Cond) (t : String) (r : Nat) :
    readyFlag c t r = true ↔ satisfiedCount c t r ≥ requirement c t := by
  unfold readyFlag
  rw [← C07_barrier_requirement]
  cases inboundStatus c t r <;> simp

/-- **C07**: when a task event completes the workflow while a barrier can no longer be satisfied,
    the workflow is failed instead -/
theorem C07_unreachable_fails (c : Cond) (k : TaskKey) (ev : Status) (s' : Status)
    (h : wfOnTaskEvent c.st.status ev
      (taskEventSummary ev (hasNext c k false) (hasNext c k true) c.st.hasActive c.st.hasCanceling
        c.st.hasCanceled c.st.hasPausing c.st.hasPaused c.st.hasStaged).1
      (taskEventSummary ev (hasNext c k false) (hasNext c k true) c.st.hasActive c.st.hasCanceling
        c.st.hasCanceled c.st.hasPausing c.st.hasPaused c.st.hasStaged).2.1
      (taskEventSummary ev (hasNext c k false) (hasNext c k true) c.st.hasActive c.st.hasCanceling
        c.st.hasCanceled c.st.hasPausing c.st.hasPaused c.st.hasStaged).2.2 = .ok s')
    (hne : (s' != c.st.status) = true) (hchk : wfUnreachCheck s' = true)
    (hub : (unreachableBarriers { c with st := { c.st with status := s' } }).isEmpty = false) :
    (wfProcessTaskEvent k ev c).2.st.status = .failed := by
  unfold wfProcessTaskEvent
  simp only [h, hne, hchk, Bool.and_self, ↓reduceIte, hub, Bool.false_eq_true]
  have hk : ∀ xs : List Staged, Rel keepPre (M.forEach xs
      fun x => logError "UnreachableJoinError" (some x.id) (some x.route)) :=
    fun xs => Rel.forEach _ (fun x => logEntry_keep _)
  exact (hk _).run _

/-- the completed statuses that trigger the unreachable-join check: `succeeded` and `failed`, and
    not `canceled` (a canceled workflow is not failed because a join could not run) -/
theorem C07_check_statuses : wfUnreachCheck .succeeded = true ∧ wfUnreachCheck .failed = true ∧
    wfUnreachCheck .canceled = false := by decide

/-- a workflow completed by a status request (a paused workflow with nothing left is resumed)
    goes through the same check -/
theorem C07_resume_checks_unreachable : wfReqUnreachCheck .succeeded = true := by decide

/-! ### C19: the barrier computation does not depend on the order in which the set of inbound
    task names is iterated -/

theorem C19_inbound_status_perm (c : Cond) (t : String) (r : Nat) (l1 l2 : List String) (h : l1.Perm l2) :
    inboundStatusWith c t r l1 = inboundStatusWith c t r l2 := by
  unfold inboundStatusWith
  simp only []
  have hlen : l1.length = l2.length := h.length_eq
  have hmap := h.map (evalSrc c t r)
  have hfl := (hmap.filter (· == some true)).length_eq
  have hany : (l1.map (evalSrc c t r)).any (· == none) = (l2.map (evalSrc c t r)).any (· == none) :=
    hmap.any_eq
  rw [hlen, hfl, hany]

/-! ### C06: what a transition publishes -/

/-- **C06**: the delta appended by a transition contains only the names that transition
    publishes (nothing leaks in from the evaluation context) -/
theorem C06_delta_keys (E : Evaluator) (items : List (String × Expr)) (mk : Val.Dict → EvalCtx)
    (ctx : Val.Dict) :
    ∀ k, Val.dhas (renderSeq E items mk ctx).2.1 k = true → k ∈ items.map (·.1) := by
  unfold renderSeq
  suffices hgen : ∀ (acc : Val.Dict × Val.Dict × Nat) (k : String),
      Val.dhas (items.foldl (fun (acc : Val.Dict × Val.Dict × Nat) (p : String × Expr) =>
        match E.eval p.2 (mk acc.1) with
        | some v => (Val.dset acc.1 p.1 v, Val.dset acc.2.1 p.1 v, acc.2.2)
        | none => (acc.1, acc.2.1, acc.2.2 + 1)) acc).2.1 k = true →
      Val.dhas acc.2.1 k = true ∨ k ∈ items.map (·.1) by
    intro k hk
    rcases hgen (ctx, [], 0) k hk with h | h
    · simp [Val.dhas, Val.dlookup] at h
    · exact h
  induction items with
  | nil => intro acc k h; exact Or.inl h
  | cons p ps ih =>
    intro acc k h
    simp only [List.foldl_cons] at h
    rcases ih _ k h with h1 | h1
    · split at h1
      · next v hv =>
        by_cases hk : p.1 = k
        · right; simp [hk]
        · left
          have : ∀ d : Val.Dict, Val.dhas (Val.dset d p.1 v) k = Val.dhas d k := by
            intro d
            induction d with
            | nil => simp [Val.dset, Val.dhas, Val.dlookup, hk]
            | cons x xs ihd =>
              unfold Val.dset
              split
              · next heq =>
                have hx : x.1 = p.1 := by simpa using heq
                simp [Val.dhas, Val.dlookup, hx, hk]
              · next hne =>
                simp only [Val.dhas, Val.dlookup] at ihd ⊢
                split
                · rfl
                · exact ihd
          rw [this] at h1
          exact h1
      · exact Or.inl h1
    · right; simp [h1]

/-! ### C07: an arrival at a staged task merges into its entry -/

theorem updateStaged_go_length (k : TaskKey) (g : Staged → Staged) (l : List Staged) :
    (WState.updateStaged.go k g l).length = l.length := by
  induction l with
  | nil => rfl
  | cons a as ih =>
    unfold WState.updateStaged.go
    split
    · rfl
    · simp [ih]

/-- **C07**: when the target of a satisfied transition is already staged (another branch arrived
    before), the arrival is merged into that entry: no second entry is staged, so the task is
    offered once for the barrier, not once per arriving branch; only a target that is not staged
    yet gets a new entry -/
theorem C07_arrival_merges (nk : TaskKey) (backref : TransId) (idx : Nat) (outIdxs : List Nat) (c : Cond) :
    (stageTarget nk backref idx outIdxs c).2.st.staged.length =
      if (c.st.getStaged? nk).isSome then c.st.staged.length else c.st.staged.length + 1 := by
  unfold stageTarget
  simp only [bind, M.bind', M.get]
  cases hg : c.st.getStaged? nk with
  | some x0 =>
    simp only [Option.isSome_some, if_true]
    cases he : eraseFirst outIdxs 0 with
    | none => simp only [liftOpt, M.throw, M.bind']
    | some rest =>
      simp only [liftOpt, pure, M.pure', M.modifySt, M.modify]
      show (WState.updateStaged.go nk _ c.st.staged).length = _
      exact updateStaged_go_length _ _ _
  | none =>
    simp only [Option.isSome_none, Bool.false_eq_true, if_false, M.modifySt, M.modify]
    show (c.st.staged ++ [_]).length = _
    simp

/-! ### C07: the first report consumes the staged entry -/

/-- no two staged entries have the same (task, route) -/
def StagedUnique (st : WState) : Prop :=
  st.staged.Pairwise fun a b => ¬ (a.id = b.id ∧ a.route = b.route)

theorem eraseGo_find (k : TaskKey) : ∀ (l : List Staged),
    l.Pairwise (fun a b => ¬ (a.id = b.id ∧ a.route = b.route)) →
    (WState.eraseStaged.go k l).find? (fun x => x.id == k.1 && x.route == k.2) = none := by
  intro l
  induction l with
  | nil => intro _; rfl
  | cons x xs ih =>
    intro hp
    obtain ⟨hx, hxs⟩ := List.pairwise_cons.mp hp
    unfold WState.eraseStaged.go
    split
    · next hm =>
      simp only [Bool.and_eq_true, beq_iff_eq] at hm
      rw [List.find?_eq_none]
      intro y hy hy'
      simp only [Bool.and_eq_true, beq_iff_eq] at hy'
      exact hx y hy ⟨hm.1.trans hy'.1.symm, hm.2.trans hy'.2.symm⟩
    · next hm =>
      rw [List.find?_cons]
      simp only [hm]
      exact ih hxs

theorem logEntry_st (e : ErrEntry) (c c' : Cond) (u : Unit) (h : logEntry e c = (.ok u, c')) : c'.st = c.st := by
  simp only [logEntry, M.modify, Prod.mk.injEq, true_and] at h
  rw [← h]
  split <;> rfl

/-- **C07** (one step; the uniqueness of staged keys is a hypothesis, not an invariant proved along
    histories): the first report for an offered task — a join instance in particular — consumes
    its staged entry, so `get_next_tasks`, which offers only staged entries
    (`C01_offer_from_staged`), cannot offer that instance again unless a transition stages it anew -/
theorem C07_report_consumes_entry (k : TaskKey) (sx : Staged) (ev : Event) (c c' : Cond) (u : Unit)
    (hu : StagedUnique c.st) (hs : c.st.getStaged? k = some sx) (hi : sx.items = none)
    (h : noteEvent k (some sx) ev c = (.ok u, c')) : c'.st.getStaged? k = none := by
  unfold noteEvent at h
  obtain ⟨_, c1, h1, g1⟩ := M.bind_ok h
  obtain ⟨_, c2, h2, g2⟩ := M.bind_ok g1
  simp only [hi, Option.isNone_none, if_true] at h1
  have hc1 : c1 = { c with st := c.st.removeStaged k } := by
    simp only [M.modifySt, M.modify, Prod.mk.injEq, true_and] at h1
    exact h1.symm
  have hst1 : c1.st.getStaged? k = none := by
    rw [hc1]
    show (c.st.removeStaged k).getStaged? k = none
    unfold WState.removeStaged
    rw [hs]
    simp only [hi, Option.getD_none, List.any_nil]
    exact eraseGo_find k _ hu
  have hc2 : c2.st = c1.st := by
    cases ev with
    | action s r => exact (congrArg Cond.st (pure_ok h2).2).symm
    | engine cmd => exact (congrArg Cond.st (pure_ok h2).2).symm
    | item i s r a =>
      simp only [hi] at h2
      cases h2
  have hc3 : c'.st = c2.st := by
    cases ev with
    | action s r =>
      cases s <;> first | exact logEntry_st _ _ _ _ g2 | exact (congrArg Cond.st (pure_ok g2).2).symm
    | engine cmd =>
      dsimp only at g2
      split at g2
      · exact logEntry_st _ _ _ _ g2
      · exact (congrArg Cond.st (pure_ok g2).2).symm
    | item i s r a =>
      simp only [hi] at h2
      cases h2
  rw [hc3, hc2]
  exact hst1
/-- non-vacuity: two staged instances of one join on different routes are distinct entries -/
example : StagedUnique { staged := [{ id := "j", route := 0, ctxsIn := [0], prev := [], ready := true },
                                    { id := "j", route := 1, ctxsIn := [0], prev := [], ready := true }] } := by
  simp [StagedUnique]

end Orq
