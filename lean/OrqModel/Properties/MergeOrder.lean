/-
C08: the context a task is rendered with is the merge of the snapshots its staged entry lists, in
the order the inbound branches arrived.  A variable that at most one of those snapshots writes
reads the same whatever that order is.
-/
import OrqModel.Properties.Values
import OrqModel.Model.State

namespace Orq

/-- one step of `merge_dicts`: what key `k'` with value `v` from the right does to the left -/
def mergeStep (fuel : Nat) (acc : Val.Dict) (p : String × Val) : Val.Dict :=
  match fuel with
  | 0 => Val.dset acc p.1 p.2
  | fuel + 1 =>
    match Val.dlookup acc p.1, p.2 with
    | some (.dict l), .dict r => Val.dset acc p.1 (.dict (Val.merge fuel l r))
    | _, _ => Val.dset acc p.1 p.2

theorem merge_eq_fold (fuel : Nat) (left right : Val.Dict) :
    Val.merge fuel left right = right.foldl (mergeStep fuel) left := by
  cases fuel with
  | zero => rfl
  | succ n => rfl

/-- a step for another key leaves the reading of `k` alone -/
theorem mergeStep_other (fuel : Nat) (acc : Val.Dict) (p : String × Val) (k : String) (h : p.1 ≠ k) :
    Val.dlookup (mergeStep fuel acc p) k = Val.dlookup acc k := by
  unfold mergeStep
  cases fuel with
  | zero => exact dlookup_dset_other _ _ _ _ h
  | succ n =>
    dsimp only
    split <;> exact dlookup_dset_other _ _ _ _ h

/-- what a step makes `k` read depends on the left only through what `k` read there -/
theorem mergeStep_congr (fuel : Nat) (a b : Val.Dict) (p : String × Val) (k : String)
    (h : Val.dlookup a k = Val.dlookup b k) :
    Val.dlookup (mergeStep fuel a p) k = Val.dlookup (mergeStep fuel b p) k := by
  by_cases hk : p.1 = k
  · unfold mergeStep
    cases fuel with
    | zero => rw [hk, dlookup_dset_same, dlookup_dset_same]
    | succ n =>
      dsimp only
      rw [hk, h]
      split <;> rw [dlookup_dset_same, dlookup_dset_same]
  · rw [mergeStep_other _ _ _ _ hk, mergeStep_other _ _ _ _ hk, h]

theorem merge_congr (fuel : Nat) (right : Val.Dict) (k : String) :
    ∀ (a b : Val.Dict), Val.dlookup a k = Val.dlookup b k →
      Val.dlookup (Val.merge fuel a right) k = Val.dlookup (Val.merge fuel b right) k := by
  simp only [merge_eq_fold]
  induction right with
  | nil => intro a b h; exact h
  | cons p rest ih =>
    intro a b h
    simp only [List.foldl_cons]
    exact ih _ _ (mergeStep_congr fuel a b p k h)

theorem dlookup_none_of_notin (d : Val.Dict) (k : String) (h : ∀ p ∈ d, p.1 ≠ k) : Val.dlookup d k = none := by
  induction d with
  | nil => rfl
  | cons x xs ih =>
    have hx : (x.1 == k) = false := by simpa using h x List.mem_cons_self
    simp only [Val.dlookup, hx]
    exact ih fun p hp => h p (List.mem_cons_of_mem _ hp)

theorem notin_of_dlookup_none (d : Val.Dict) (k : String) (h : Val.dlookup d k = none) : ∀ p ∈ d, p.1 ≠ k := by
  induction d with
  | nil => intro p hp; cases hp
  | cons x xs ih =>
    unfold Val.dlookup at h
    split at h
    · cases h
    · next hx =>
      intro p hp
      rcases List.mem_cons.mp hp with rfl | hp
      · simpa using hx
      · exact ih h p hp

/-- a right operand that does not write `k` leaves the reading of `k` alone -/
theorem merge_frame (fuel : Nat) (right : Val.Dict) (k : String) (hr : Val.dlookup right k = none) :
    ∀ (a : Val.Dict), Val.dlookup (Val.merge fuel a right) k = Val.dlookup a k := by
  have hn := notin_of_dlookup_none right k hr
  simp only [merge_eq_fold]
  clear hr
  induction right with
  | nil => intro a; rfl
  | cons p rest ih =>
    intro a
    simp only [List.foldl_cons]
    rw [ih (fun q hq => hn q (List.mem_cons_of_mem _ hq))]
    exact mergeStep_other fuel a p k (hn p List.mem_cons_self)

/-- the snapshots merged left to right -/
def mergeAll (base : Val.Dict) (ds : List Val.Dict) : Val.Dict := ds.foldl Val.mergeDicts base

theorem mergeAll_frame (k : String) : ∀ (ds : List Val.Dict) (base : Val.Dict),
    (∀ d ∈ ds, Val.dlookup d k = none) → Val.dlookup (mergeAll base ds) k = Val.dlookup base k := by
  intro ds
  induction ds with
  | nil => intro base _; rfl
  | cons d rest ih =>
    intro base h
    show Val.dlookup (mergeAll (Val.mergeDicts base d) rest) k = _
    rw [ih _ (fun x hx => h x (List.mem_cons_of_mem _ hx))]
    exact merge_frame _ d k (h d List.mem_cons_self) base

/-- with a single writer `d` of `k` among the snapshots, `k` reads as if only `d` had been merged -/
theorem mergeAll_single (k : String) (base d : Val.Dict) (pre post : List Val.Dict)
    (hpre : ∀ x ∈ pre, Val.dlookup x k = none) (hpost : ∀ x ∈ post, Val.dlookup x k = none) :
    Val.dlookup (mergeAll base (pre ++ d :: post)) k = Val.dlookup (Val.mergeDicts base d) k := by
  unfold mergeAll
  rw [List.foldl_append, List.foldl_cons]
  have h1 := mergeAll_frame k post (Val.mergeDicts (List.foldl Val.mergeDicts base pre) d) hpost
  unfold mergeAll at h1
  rw [h1]
  exact merge_congr _ d k _ _ (mergeAll_frame k pre base hpre)

/-- does the snapshot write `k`? -/
def writes (k : String) (d : Val.Dict) : Bool := (Val.dlookup d k).isSome

theorem split_single (k : String) (ds : List Val.Dict) (d : Val.Dict) (hd : d ∈ ds) (hw : writes k d = true)
    (h1 : (ds.filter (writes k)).length ≤ 1) :
    ∃ pre post, ds = pre ++ d :: post ∧ (∀ x ∈ pre, Val.dlookup x k = none) ∧
      (∀ x ∈ post, Val.dlookup x k = none) := by
  obtain ⟨pre, post, rfl⟩ := List.append_of_mem hd
  refine ⟨pre, post, rfl, ?_, ?_⟩
  all_goals
    intro x hx
    simp only [List.filter_append, List.filter_cons, hw, if_true, List.length_append, List.length_cons] at h1
    cases hxk : Val.dlookup x k with
    | none => rfl
    | some v =>
      have hwx : writes k x = true := by simp [writes, hxk]
      have : 0 < (List.filter (writes k) _).length := List.length_pos_of_mem (List.mem_filter.mpr ⟨hx, hwx⟩)
      omega

/-- **C08**: the merged context reads a variable written by at most one of the snapshots the same
    in whatever order the snapshots are merged (the order the inbound branches arrived in) -/
theorem C08_single_writer_order_free (k : String) (base : Val.Dict) (ds ds' : List Val.Dict)
    (hp : ds.Perm ds') (h1 : (ds.filter (writes k)).length ≤ 1) :
    Val.dlookup (mergeAll base ds) k = Val.dlookup (mergeAll base ds') k := by
  have h1' : (ds'.filter (writes k)).length ≤ 1 := by rw [← (hp.filter _).length_eq]; exact h1
  by_cases hw : ∃ d ∈ ds, writes k d = true
  · obtain ⟨d, hd, hwd⟩ := hw
    obtain ⟨pre, post, rfl, ha, hb⟩ := split_single k ds d hd hwd h1
    obtain ⟨pre', post', rfl, ha', hb'⟩ := split_single k ds' d (hp.mem_iff.mp hd) hwd h1'
    rw [mergeAll_single k base d pre post ha hb, mergeAll_single k base d pre' post' ha' hb']
  · have hn : ∀ d ∈ ds, Val.dlookup d k = none := by
      intro d hd
      cases hdk : Val.dlookup d k with
      | none => rfl
      | some v => exact absurd ⟨d, hd, by simp [writes, hdk]⟩ hw
    rw [mergeAll_frame k ds base hn, mergeAll_frame k ds' base (fun d hd => hn d (hp.mem_iff.mpr hd))]

/-- `get_task_context` over indices that exist is the left-to-right merge of those snapshots -/
theorem taskContext_eq_mergeAll (s : WState) : ∀ (idxs : List Nat) (base : Val.Dict),
    (∀ i ∈ idxs, i < s.contexts.length) →
    idxs.foldlM (fun acc i =>
      match s.contexts[i]? with
      | some c => Except.ok (Val.mergeDicts acc c)
      | none => Except.error Err.indexError) base
      = .ok (mergeAll base (idxs.filterMap (s.contexts[·]?))) := by
  intro idxs
  induction idxs with
  | nil => intro base _; rfl
  | cons i rest ih =>
    intro base h
    have hi := h i List.mem_cons_self
    have hs : s.contexts[i]? = some s.contexts[i] := List.getElem?_eq_getElem hi
    simp only [List.foldlM_cons, hs, List.filterMap_cons]
    exact ih (Val.mergeDicts base s.contexts[i]) fun j hj => h j (List.mem_cons_of_mem _ hj)

/-- **C08**: two orders of the same snapshot indices give contexts that agree on every variable
    written by at most one of those snapshots -/
theorem C08_context_order_free (s : WState) (idxs idxs' : List Nat) (k : String) (hp : idxs.Perm idxs')
    (hr : ∀ i ∈ idxs, i < s.contexts.length)
    (h1 : ((idxs.filterMap (s.contexts[·]?)).filter (writes k)).length ≤ 1) :
    ∃ v v', s.taskContext idxs = .ok v ∧ s.taskContext idxs' = .ok v' ∧ Val.dlookup v k = Val.dlookup v' k := by
  refine ⟨_, _, taskContext_eq_mergeAll s idxs [] hr,
    taskContext_eq_mergeAll s idxs' [] (fun i hi => hr i (hp.mem_iff.mpr hi)), ?_⟩
  exact C08_single_writer_order_free k [] _ _ (hp.filterMap _) h1

/-- non-vacuity: two branches publishing different variables, merged in either order -/
example : Val.dlookup (mergeAll [] [[("x", .int 1)], [("y", .int 2)]]) "x"
    = Val.dlookup (mergeAll [] [[("y", .int 2)], [("x", .int 1)]]) "x" :=
  C08_single_writer_order_free "x" [] _ _ (List.Perm.swap _ _ _) (by decide)

/-! ### a snapshot listed more than once (an ancestor shared by the branches of a join) -/

/-- `d` merged `n` times over `b` -/
def mergeIter (d : Val.Dict) : Nat → Val.Dict → Val.Dict
  | 0, b => b
  | n + 1, b => mergeIter d n (Val.mergeDicts b d)

theorem mergeAll_same_writer (k : String) (d : Val.Dict) : ∀ (ds : List Val.Dict) (base base' : Val.Dict),
    Val.dlookup base k = Val.dlookup base' k →
    (∀ x ∈ ds, writes k x = true → x = d) →
    Val.dlookup (mergeAll base ds) k = Val.dlookup (mergeIter d (ds.filter (writes k)).length base') k := by
  intro ds
  induction ds with
  | nil => intro base base' h _; exact h
  | cons x rest ih =>
    intro base base' h hw
    show Val.dlookup (mergeAll (Val.mergeDicts base x) rest) k = _
    have hrest : ∀ y ∈ rest, writes k y = true → y = d := fun y hy => hw y (List.mem_cons_of_mem _ hy)
    by_cases hx : writes k x = true
    · have hxd := hw x List.mem_cons_self hx
      subst hxd
      simp only [List.filter_cons, hx, if_true, List.length_cons]
      exact ih _ _ (merge_congr _ x k _ _ h) hrest
    · have hxn : Val.dlookup x k = none := by
        cases hxk : Val.dlookup x k with
        | none => rfl
        | some v => exact absurd (by simp [writes, hxk]) hx
      simp only [List.filter_cons, hx]
      exact ih _ _ ((merge_frame _ x k hxn base).trans h) hrest

/-- **C08**: when every snapshot that writes the variable is one and the same snapshot -- listed
    once, or several times because the branches of a join share it as an ancestor -- the merged
    context reads the variable the same in whatever order the snapshots are merged -/
theorem C08_same_writer_order_free (k : String) (base d : Val.Dict) (ds ds' : List Val.Dict)
    (hp : ds.Perm ds') (hw : ∀ x ∈ ds, writes k x = true → x = d) :
    Val.dlookup (mergeAll base ds) k = Val.dlookup (mergeAll base ds') k := by
  rw [mergeAll_same_writer k d ds base base rfl hw,
    mergeAll_same_writer k d ds' base base rfl (fun x hx => hw x (hp.mem_iff.mpr hx)),
    (hp.filter _).length_eq]

/-- **C08**: the same for `get_task_context` over two orders of the same snapshot indices -/
theorem C08_context_order_free_shared (s : WState) (idxs idxs' : List Nat) (k : String) (d : Val.Dict)
    (hp : idxs.Perm idxs') (hr : ∀ i ∈ idxs, i < s.contexts.length)
    (hw : ∀ i ∈ idxs, ∀ x, s.contexts[i]? = some x → writes k x = true → x = d) :
    ∃ v v', s.taskContext idxs = .ok v ∧ s.taskContext idxs' = .ok v' ∧ Val.dlookup v k = Val.dlookup v' k := by
  refine ⟨_, _, taskContext_eq_mergeAll s idxs [] hr,
    taskContext_eq_mergeAll s idxs' [] (fun i hi => hr i (hp.mem_iff.mpr hi)), ?_⟩
  refine C08_same_writer_order_free k [] d _ _ (hp.filterMap _) ?_
  intro x hx hwx
  obtain ⟨i, hi, hix⟩ := List.mem_filterMap.mp hx
  exact hw i hi x hix hwx

/-- non-vacuity: snapshot `a` is an ancestor of both branches of a join -/
example : Val.dlookup (mergeAll [] [[("a", .int 1)], [("x", .int 2)], [("a", .int 1)]]) "a"
    = Val.dlookup (mergeAll [] [[("a", .int 1)], [("a", .int 1)], [("x", .int 2)]]) "a" := by
  refine C08_same_writer_order_free "a" [] [("a", .int 1)] _ _ (List.Perm.cons _ (List.Perm.swap _ _ _)) ?_
  intro x hx hw
  simp only [List.mem_cons, List.not_mem_nil, or_false] at hx
  rcases hx with rfl | rfl | rfl
  · rfl
  · exact absurd hw (by decide)
  · rfl

end Orq
