/-
C11/C15: `get_next_tasks` never raises.
-/
import OrqModel.Proofs.NextTotal

namespace Orq

variable (E : Evaluator)

theorem tbl_reach_task : ∀ (s ev : Status) (rem act : Bool) (oc : Outcome), wfReachable s = true →
    (wfOnTaskEvent s ev rem act oc).all? wfReachable = true := by decide +kernel

theorem tbl_reach_wf : ∀ (s req : Status) (a st p : Bool), wfReachable s = true →
    (wfOnWorkflowEvent s req a st p).all? wfReachable = true := by decide +kernel

/-- the statuses a workflow can be in are closed under every move of the status automaton -/
theorem wfReachable_closed (a b : Status) (ha : wfReachable a = true) (m : WfMove anyReq a b) :
    wfReachable b = true := by
  cases m with
  | taskEvent ev rem act oc h => exact StepRes.all?_ok (tbl_reach_task a ev rem act oc ha) h
  | taskEventUnreach ev rem act oc h _ _ => rfl
  | wfEvent req x st p _ h => exact StepRes.all?_ok (tbl_reach_wf a req x st p ha) h
  | wfEventUnreach req x st p _ h _ _ => rfl

/-- **C11/C15**: whatever the evaluator does — every expression may fail, anywhere — asking for the
    next tasks never raises: from every state whose workflow status is one a workflow can be in,
    `get_next_tasks` returns a list -/
theorem C11_next_never_raises (c : Cond) (hreach : wfReachable c.st.status = true) :
    ∃ r, (getNextTasks E c).1 = .ok r := getNextTasks_total E c hreach

/-- the same along every rerun-free history that starts in such a state: after any sequence of
    status requests, queries, reports and renderings the query still never raises -/
theorem C11_next_never_raises_history (ops : List Op) (hops : ∀ op ∈ ops, op.isRerun = false) (c : Cond)
    (hreach : wfReachable c.st.status = true) :
    ∃ r, (getNextTasks E (runOps E ops c)).1 = .ok r := by
  apply getNextTasks_total
  exact runOps_closed E (S := fun s => wfReachable s = true) wfReachable_closed ops hops c hreach

/-- the request for `failed` that follows a recorded run-time error is always honoured: the error
    handlers of the conductor never raise -/
theorem C11_error_handler_total (c : Cond) (hreach : wfReachable c.st.status = true) :
    (failOnError c).1 = .ok () := failOnError_ok c hreach

end Orq
