/-
Property theorems about `get_next_tasks` and `request_workflow_status` on the model, for every
definition, state and evaluator — clauses of C01, C04, C08, C09, C10, C19.
-/
import OrqModel.Proofs.Post

namespace Orq

variable (E : Evaluator)

/-- the gate of `get_next_tasks`: unless the workflow is in a running status, or has failed and a
    clean-up task was staged beside a fail command, nothing is offered and the state is untouched -/
theorem nextTodo_gate (st : WState) (h1 : st.status.isRunning = false)
    (h2 : st.status ≠ .failed ∨ (st.readyStaged.filter (·.runOnFail)).isEmpty = true) :
    nextTodo st = [] := by
  unfold nextTodo
  have hrem : (if st.status == Status.failed then st.readyStaged.filter (·.runOnFail) else []).isEmpty = true := by
    rcases h2 with h | h
    · have : (st.status == Status.failed) = false := by
        cases hs : st.status <;> first | rfl | exact absurd hs h
      simp [this]
    · split
      · exact h
      · rfl
  simp only [h1, hrem, Bool.not_false, Bool.and_self, ↓reduceIte]

theorem nextFrom_nil (c : Cond) : nextFrom E [] c = (.ok [], c) := rfl

theorem next_gate (c : Cond) (h1 : c.st.status.isRunning = false)
    (h2 : c.st.status ≠ .failed ∨ (c.st.readyStaged.filter (·.runOnFail)).isEmpty = true) :
    getNextTasks E c = (.ok [], c) := by
  unfold getNextTasks
  rw [nextTodo_gate c.st h1 h2]
  rfl

/-- **C09**: while pausing or paused no task or item is offered, and asking changes nothing -/
theorem C09_no_offer_while_pausing_or_paused (c : Cond)
    (h : c.st.status = .pausing ∨ c.st.status = .paused) : getNextTasks E c = (.ok [], c) := by
  apply next_gate
  · rcases h with h | h <;> rw [h] <;> rfl
  · left; rcases h with h | h <;> rw [h] <;> decide

/-- **C10**: after cancellation nothing is offered -/
theorem C10_no_offer_after_cancel (c : Cond)
    (h : c.st.status = .canceling ∨ c.st.status = .canceled) : getNextTasks E c = (.ok [], c) := by
  apply next_gate
  · rcases h with h | h <;> rw [h] <;> rfl
  · left; rcases h with h | h <;> rw [h] <;> decide

/-- **C04**: a succeeded or canceled workflow offers nothing -/
theorem C04_no_offer_when_succeeded_or_canceled (c : Cond)
    (h : c.st.status = .succeeded ∨ c.st.status = .canceled) : getNextTasks E c = (.ok [], c) := by
  apply next_gate
  · rcases h with h | h <;> rw [h] <;> rfl
  · left; rcases h with h | h <;> rw [h] <;> decide

/-- **C01/C19**: outside the running statuses (and without clean-up tasks of a failed workflow)
    asking for next tasks is a pure query returning nothing -/
theorem C01_no_offer_unless_running_or_remediation (c : Cond) (h1 : c.st.status.isRunning = false)
    (h2 : (c.st.readyStaged.filter (·.runOnFail)).isEmpty = true) :
    getNextTasks E c = (.ok [], c) := next_gate E c h1 (Or.inr h2)

theorem C19_next_no_status_change_when_not_running (c : Cond) (h1 : c.st.status.isRunning = false)
    (h2 : c.st.status ≠ .failed) : (getNextTasks E c).2 = c := by
  rw [next_gate E c h1 (Or.inl h2)]

/-! ### offers come from staging -/

theorem renderTask_key (ev : Expr → EvalCtx → Option Val) (ts : TaskSpec) (vars : Val.Dict) (k : TaskKey)
    (o : Offer) (h : renderTask ev ts vars k = .ok o) : o.id = k.1 ∧ o.route = k.2 := by
  unfold renderTask at h
  simp only [bind, Except.bind, pure, Except.pure] at h
  repeat' split at h
  all_goals (cases h <;> (try exact ⟨rfl, rfl⟩))

theorem Post.liftExcept {α} {Q : α → Prop} {x : Except Err α} (h : ∀ a, x = .ok a → Q a) :
    Post (M.liftExcept x) Q := by
  constructor
  intro s a s' heq
  cases x with
  | error e => cases heq
  | ok b =>
    have hb : (Except.ok b, s) = (Except.ok a, s') := heq
    have : b = a := by injection hb with h1 _; injection h1
    exact h a (by rw [this])

theorem getTask_key (k : TaskKey) : Post (getTask E k) (fun o => o.id = k.1 ∧ o.route = k.2) := by
  unfold getTask
  repeat' (first
    | exact Post.liftExcept (fun o h => renderTask_key _ _ _ _ o h)
    | exact Post.pure ⟨rfl, rfl⟩
    | exact Post.throw _
    | apply Post.bind
    | intro _
    | split
    | dsimp only)

theorem windowOf_key (o o' : Offer) (items : List Status) (h : windowOf o items = .ok o') :
    o'.id = o.id ∧ o'.route = o.route := by
  unfold windowOf at h
  repeat' split at h
  all_goals (cases h <;> (try exact ⟨rfl, rfl⟩))

theorem evaluateTaskActions_key (o : Offer) :
    Post (evaluateTaskActions o) (fun o' => o'.id = o.id ∧ o'.route = o.route) := by
  unfold evaluateTaskActions
  repeat' (first
    | exact Post.liftExcept (fun o' h => windowOf_key _ o' _ h)
    | exact Post.pure ⟨rfl, rfl⟩
    | exact Post.throw _
    | apply Post.bind
    | intro _
    | split
    | dsimp only)

theorem nextTaskFor_key (sx : Staged) :
    Post (nextTaskFor E sx) (fun r => ∀ o, r.1 = some o → o.id = sx.id ∧ o.route = sx.route) := by
  unfold nextTaskFor
  apply Post.tryCatch
  · apply Post.bindP (getTask_key E (sx.id, sx.route))
    intro o1 h1
    apply Post.bindP (evaluateTaskActions_key o1)
    intro o2 h2
    have hk : (withRetryDelay sx o2).id = sx.id ∧ (withRetryDelay sx o2).route = sx.route := by
      unfold withRetryDelay
      split
      · exact ⟨h2.1.trans h1.1, h2.2.trans h1.2⟩
      · exact ⟨h2.1.trans h1.1, h2.2.trans h1.2⟩
    dsimp only
    generalize withRetryDelay sx o2 = o3 at hk
    split
    · apply Post.pure; intro o ho; cases ho; exact hk
    · split
      · apply Post.pure; intro o ho; cases ho; exact hk
      · apply Post.pure; intro o ho; cases ho
  · intro e
    apply Post.bind
    intro _
    apply Post.pure
    intro o ho
    cases ho

theorem mem_insOffer (x : Offer) (l : List Offer) (o : Offer) : o ∈ insOffer x l ↔ o = x ∨ o ∈ l := by
  induction l with
  | nil => simp [insOffer]
  | cons y ys ih =>
    unfold insOffer
    split
    · simp
    · simp [ih]; constructor
      · rintro (h | h | h)
        · exact Or.inr (Or.inl h)
        · exact Or.inl h
        · exact Or.inr (Or.inr h)
      · rintro (h | h | h)
        · exact Or.inr (Or.inl h)
        · exact Or.inl h
        · exact Or.inr (Or.inr h)

theorem mem_sortOffers (l : List Offer) (o : Offer) : o ∈ sortOffers l ↔ o ∈ l := by
  unfold sortOffers
  suffices h : ∀ acc, o ∈ l.foldl (fun acc x => insOffer x acc) acc ↔ o ∈ acc ∨ o ∈ l by
    simpa using h []
  induction l with
  | nil => simp
  | cons x xs ih =>
    intro acc
    simp only [List.foldl_cons, ih, mem_insOffer, List.mem_cons]
    constructor
    · rintro ((h | h) | h)
      · exact Or.inr (Or.inl h)
      · exact Or.inl h
      · exact Or.inr (Or.inr h)
    · rintro (h | h | h)
      · exact Or.inl (Or.inr h)
      · exact Or.inl (Or.inl h)
      · exact Or.inr h

theorem nextTodo_sub (st : WState) :
    ∀ sx ∈ nextTodo st, sx ∈ st.readyStaged ∧ (st.status = .failed → sx.runOnFail = true) := by
  intro sx hsx
  unfold nextTodo at hsx
  by_cases hf : (st.status == Status.failed) = true
  · have hst : st.status = .failed := by
      cases hs : st.status <;> rw [hs] at hf <;> first | rfl | exact absurd hf (by decide)
    have hrun : st.status.isRunning = false := by rw [hst]; rfl
    simp only [hf, hrun, Bool.not_false, Bool.true_and, ↓reduceIte] at hsx
    by_cases he : (st.readyStaged.filter (·.runOnFail)).isEmpty = true
    · simp only [he, ↓reduceIte] at hsx
      cases hsx
    · simp only [he] at hsx
      have := List.mem_filter.mp hsx
      exact ⟨this.1, fun _ => this.2⟩
  · have hst : st.status ≠ .failed := by
      intro h; rw [h] at hf; exact hf rfl
    simp only [hf, List.isEmpty_nil, Bool.and_true, ↓reduceIte] at hsx
    by_cases hr : (!st.status.isRunning) = true
    · simp only [hr, ↓reduceIte] at hsx
      cases hsx
    · simp only [hr] at hsx
      exact ⟨hsx, fun h => absurd h hst⟩

theorem nextFrom_post (todo : List Staged) :
    Post (nextFrom E todo) (fun offers => ∀ o ∈ offers, ∃ sx ∈ todo, sx.id = o.id ∧ sx.route = o.route) := by
  unfold nextFrom
  apply Post.bindP (P := fun (r : List Offer × Bool) => ∀ o ∈ r.1, ∃ sx ∈ todo, sx.id = o.id ∧ sx.route = o.route)
  · apply Post.foldM' todo _ (fun (r : List Offer × Bool) => ∀ o ∈ r.1, ∃ sx ∈ todo, sx.id = o.id ∧ sx.route = o.route)
    · intro o ho; cases ho
    · intro acc sx hacc hsx
      apply Post.bindP (nextTaskFor_key E sx)
      intro r hr
      rcases r with ⟨oo, f⟩
      apply Post.pure
      intro o ho
      cases oo with
      | none => exact hacc o ho
      | some o1 =>
        simp only [List.mem_append, List.mem_singleton] at ho
        rcases ho with ho | ho
        · exact hacc o ho
        · subst ho
          have := hr o rfl
          exact ⟨sx, hsx, this.1.symm, this.2.symm⟩
  · intro r hr
    rcases r with ⟨offs, failed⟩
    dsimp only
    split
    · apply Post.bind
      intro _
      apply Post.pure
      intro o ho; cases ho
    · apply Post.pure
      intro o ho
      rw [mem_sortOffers] at ho
      exact hr o ho

/-- **C01/C07**: every task offered by `get_next_tasks` is a ready, not-completed staged entry of
    the state it was asked in; in a failed workflow it is moreover flagged run-on-fail. -/
theorem C01_offer_from_staged (c : Cond) (offers : List Offer) (c' : Cond)
    (h : getNextTasks E c = (.ok offers, c')) :
    ∀ o ∈ offers, ∃ sx ∈ c.st.readyStaged, sx.id = o.id ∧ sx.route = o.route ∧
      (c.st.status = .failed → sx.runOnFail = true) := by
  intro o ho
  unfold getNextTasks at h
  obtain ⟨sx, hsx, h1, h2⟩ := (nextFrom_post E (nextTodo c.st)).run c offers c' h o ho
  have := nextTodo_sub c.st sx hsx
  exact ⟨sx, this.1, h1, h2, this.2⟩

/-- **C04**: the only tasks a failed workflow offers are the clean-up tasks staged beside a fail
    command (flagged run-on-fail) -/
theorem C04_failed_offers_only_run_on_fail (c : Cond) (offers : List Offer) (c' : Cond)
    (hs : c.st.status = .failed) (h : getNextTasks E c = (.ok offers, c')) :
    ∀ o ∈ offers, ∃ sx ∈ c.st.readyStaged, sx.id = o.id ∧ sx.route = o.route ∧ sx.runOnFail = true := by
  intro o ho
  obtain ⟨sx, h1, h2, h3, h4⟩ := C01_offer_from_staged E c offers c' h o ho
  exact ⟨sx, h1, h2, h3, h4 hs⟩

/-! ### offers are sorted -/

/-- the order offers are returned in: by task id, then by route -/
def offerLe (a b : Offer) : Prop := a.id < b.id ∨ (a.id = b.id ∧ a.route ≤ b.route)

theorem offerLe_trans {a b c : Offer} (h1 : offerLe a b) (h2 : offerLe b c) : offerLe a c := by
  rcases h1 with h1 | ⟨h1, h1'⟩ <;> rcases h2 with h2 | ⟨h2, h2'⟩
  · exact Or.inl (String.lt_trans h1 h2)
  · exact Or.inl (h2 ▸ h1)
  · exact Or.inl (h1 ▸ h2)
  · exact Or.inr ⟨h1.trans h2, Nat.le_trans h1' h2'⟩

theorem offerLe_of_not_lt {x y : Offer}
    (h : ¬ ((decide (x.id < y.id) || (x.id == y.id && decide (x.route < y.route))) = true)) : offerLe y x := by
  simp only [Bool.or_eq_true, decide_eq_true_eq, Bool.and_eq_true, beq_iff_eq, not_or, not_and, Nat.not_lt] at h
  obtain ⟨h1, h2⟩ := h
  by_cases heq : x.id = y.id
  · exact Or.inr ⟨heq.symm, h2 heq⟩
  · left
    -- ¬ x.id < y.id and x.id ≠ y.id give y.id < x.id
    by_cases hlt : y.id < x.id
    · exact hlt
    · exact absurd (String.le_antisymm (String.not_lt.mp hlt) (String.not_lt.mp h1)) heq

theorem insOffer_sorted (x : Offer) (l : List Offer) (h : l.Pairwise offerLe) : (insOffer x l).Pairwise offerLe := by
  induction l with
  | nil => simp [insOffer]
  | cons y ys ih =>
    unfold insOffer
    have hy := List.pairwise_cons.mp h
    split
    · next hlt =>
      apply List.pairwise_cons.mpr
      refine ⟨?_, h⟩
      have hxy : offerLe x y := by
        simp only [Bool.or_eq_true, decide_eq_true_eq, Bool.and_eq_true, beq_iff_eq] at hlt
        rcases hlt with hlt | ⟨h1, h2⟩
        · exact Or.inl hlt
        · exact Or.inr ⟨h1, Nat.le_of_lt h2⟩
      intro z hz
      rcases List.mem_cons.mp hz with hz | hz
      · subst hz; exact hxy
      · exact offerLe_trans hxy (hy.1 z hz)
    · next hnlt =>
      apply List.pairwise_cons.mpr
      refine ⟨?_, ih hy.2⟩
      intro z hz
      rcases (mem_insOffer x ys z).mp hz with hz | hz
      · subst hz; exact offerLe_of_not_lt hnlt
      · exact hy.1 z hz

/-- **C08/C19**: whatever order the staged entries are in, the offers come back sorted by task id
    and route -/
theorem C08_offers_sorted (l : List Offer) : (sortOffers l).Pairwise offerLe := by
  unfold sortOffers
  suffices h : ∀ acc : List Offer, acc.Pairwise offerLe →
      (l.foldl (fun acc x => insOffer x acc) acc).Pairwise offerLe from h [] List.Pairwise.nil
  induction l with
  | nil => intro acc h; exact h
  | cons x xs ih => intro acc h; exact ih _ (insOffer_sorted x acc h)

/-! ### rejected requests -/

/-- **C04**: a status request the lifecycle forbids is rejected before anything is touched -/
theorem C04_rejected_request_no_effect (c : Cond) (req : Status)
    (h : wfTransitionValid c.st.status req = false) :
    requestStatus req c = (.error .invalidWorkflowStatusTransition, c) := by
  unfold requestStatus
  show M.bind' M.get _ c = _
  unfold M.bind' M.get
  simp only [h, Bool.not_false, ↓reduceIte]
  rfl

/-- the status requests a provider issues -/
def providerRequest : Status → Bool
  | .running | .pausing | .paused | .resuming | .canceling | .canceled => true
  | _ => false

/-- when the lifecycle allows a provider's request by value but the contextualised event has no
    entry (so the request is rejected only after the event was pushed to the tasks), the workflow
    has not started running yet, or is paused (no active task: C02), or has no active task — there
    is nothing the push could have changed.  (The two tolerated repeats, `paused` while pausing and
    `canceled` while canceling, are not rejected at all.) -/
theorem tbl_valid_request_applies : ∀ (s req : Status) (a st p : Bool),
    providerRequest req = true →
    wfTransitionValid s req = true → req ≠ s → wfOnWorkflowEvent s req a st p = .ok s →
      (s = .requested ∨ s = .scheduled ∨ s = .delayed ∨ s = .paused) ∨ (s = .pausing ∧ req = .paused) ∨
      (s = .canceling ∧ req = .canceled) ∨ a = false := by
  decide +kernel

end Orq
