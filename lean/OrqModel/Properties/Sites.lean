/-
Theorems over the inventories regenerated from the source by tools/gen_sites.py.
-/
import OrqModel.Generated.Sites

namespace Orq

/-- **C11** (source level): no conductor API method can let an expression-evaluation error out:
    every call that can raise one (the inventory `evalSites`), on every path from an API method,
    lies under a `try … except Exception` (or returns its errors as a list) -/
theorem evalSites_guarded : ∀ m ∈ apiMethods, m ∉ unsafeMethods := by decide

/-- the inventory is not empty (the analysis found the sites it is about) -/
theorem evalSites_nonempty : evalSites.length ≥ 8 := by decide

/-- **C19** (source level): every place a set is iterated or listed is used for membership only,
    is sorted by a total key, or is covered by a named order-independence theorem -/
theorem setSites_covered : ∀ s ∈ setSites, s.use ≠ .unknown := by decide

/-- **C15** (source level): every expression-bearing schema property of every spec class is
    inspected for context-variable references (it is in the class's evaluation sequence) -/
theorem specFacts_expr_positions_inspected :
    ∀ f ∈ specFacts, (f.exprBearing = true ∨ f.specTyped = true) → f.cls ≠ "WorkflowSpec" →
      f.inSequence = true := by decide

theorem specFacts_workflow_inspected :
    ∀ f ∈ specFacts, f.cls = "WorkflowSpec" → (f.prop = "input" ∨ f.prop = "vars" ∨ f.prop = "tasks" ∨ f.prop = "output") →
      f.inSequence = true := by decide

end Orq
