/-
C01 along every history: whatever the conductor offers comes from a staged entry all of whose
listed predecessors are completed task records with decided transitions.
-/
import OrqModel.Proofs.JustifiedUpdate
import OrqModel.Properties.Frozen
import OrqModel.Properties.Next

namespace Orq

variable (E : Evaluator)

theorem init_just (spec : WfSpec) (parentCtx inputs : Val.Dict) : Just (init E spec parentCtx inputs) := by
  unfold init
  dsimp only
  have h0 : Just ({ spec := spec, graph := compose spec, inputs := inputs, parentCtx := parentCtx } : Cond) :=
    ⟨fun x hx => (by cases hx), fun r hr => (by cases hr)⟩
  have hm1 : Rel decStep (do logError "ExpressionEvaluationException"; failOnError : M Unit) := by
    dec_walk [failOnError_dec]
  have hm2 : Rel prevPre (do logError "ExpressionEvaluationException"; failOnError : M Unit) := by
    prev_walk [failOnError_prev, logError_prev _ _ _ _]
  have h1 := Just.uniform hm1 hm2 _ h0
  -- staging the start tasks: entries without predecessors
  have hroots : ∀ (c : Cond) (ctx : Val.Dict) (roots : List String), Just c →
      Just { c with st := { c.st with
        contexts := c.st.contexts ++ [ctx],
        routes := c.st.routes ++ [[]],
        staged := c.st.staged ++ roots.map fun n =>
          ({ id := n, route := 0, ctxsIn := [0], ready := true } : Staged) } } := by
    intro c ctx roots hj
    refine ⟨?_, ?_⟩
    · intro x hx
      rcases List.mem_append.mp hx with h | h
      · exact hj.staged x h
      · obtain ⟨n, _, e⟩ := List.mem_map.mp h
        rw [← e]
        exact PrevOk.nil _
    · intro r hr
      exact hj.recs r hr
  repeat' split
  all_goals first
    | exact h1 | exact h0 | exact hroots _ _ _ h1 | exact hroots _ _ _ h0

theorem runOp_just (op : Op) (c : Cond) (hop : op.notRetryEvent) (hd : Dec c) (hj : Just c) :
    Just (runOp E op c) := by
  cases op with
  | req s => exact Just.uniform (requestStatus_dec s) (requestStatus_prev s) c hj
  | next => exact Just.uniform (getNextTasks_dec E) (getNextTasks_prev E) c hj
  | render => exact Just.uniform (renderOutput_dec E) (renderOutput_prev E) c hj
  | rerun reqs => exact (requestRerun_just E reqs).run c hj
  | report k ev =>
    apply updateTaskStateAux_just E 3 k ev c hd hj
    intro hev
    subst hev
    exact hop.elim

theorem runOps_just (ops : List Op) (c : Cond) (hops : ∀ op ∈ ops, op.notRetryEvent) (hd : Dec c) (hj : Just c) :
    Just (runOps E ops c) := by
  induction ops generalizing c with
  | nil => exact hj
  | cons op ops ih =>
    rw [runOps_cons]
    have hop := hops op List.mem_cons_self
    exact ih (runOp E op c) (fun o ho => hops o (List.mem_cons_of_mem _ ho))
      (Dec.stepW (runOp_decw E op c hop hd) hd) (runOp_just E op c hop hd hj)

/-- **C01**: along every history (any definition, inputs, evaluator, order and outcome of reports,
    control requests, reruns), every predecessor listed by a staged entry or by a task record is a
    completed record whose transitions have been decided -/
theorem C01_predecessors_completed_and_decided (spec : WfSpec) (parentCtx inputs : Val.Dict) (ops : List Op)
    (hops : ∀ op ∈ ops, op.notRetryEvent) :
    Just (runOps E ops (init E spec parentCtx inputs)) :=
  runOps_just E ops _ hops (init_dec E spec parentCtx inputs) (init_just E spec parentCtx inputs)

/-- **C01**: every task the conductor offers, at any point of any history, is a ready staged entry
    each of whose listed predecessors is a completed task record with decided transitions (a start
    task, a retried or a rerun task being the entries that list none or inherit theirs) -/
theorem C01_offers_have_completed_predecessors (spec : WfSpec) (parentCtx inputs : Val.Dict) (ops : List Op)
    (hops : ∀ op ∈ ops, op.notRetryEvent) (offers : List Offer) (c' : Cond)
    (h : getNextTasks E (runOps E ops (init E spec parentCtx inputs)) = (.ok offers, c')) :
    ∀ o ∈ offers, ∃ sx ∈ (runOps E ops (init E spec parentCtx inputs)).st.staged,
      sx.id = o.id ∧ sx.route = o.route ∧ sx.ready = true ∧
      ∀ p ∈ sx.prev, ∃ q, (runOps E ops (init E spec parentCtx inputs)).st.sequence[p.2]? = some q ∧
        (∃ s, q.status = some s ∧ s.isCompleted = true) ∧ q.next ≠ [] := by
  intro o ho
  obtain ⟨sx, hsx, h1, h2, _⟩ := C01_offer_from_staged E _ offers c' h o ho
  have hmem : sx ∈ (runOps E ops (init E spec parentCtx inputs)).st.staged := by
    unfold WState.readyStaged at hsx
    exact (List.mem_filter.mp hsx).1
  have hready : sx.ready = true := by
    unfold WState.readyStaged at hsx
    have := (List.mem_filter.mp hsx).2
    simp only [Bool.and_eq_true] at this
    exact this.1
  have hj := C01_predecessors_completed_and_decided E spec parentCtx inputs ops hops
  exact ⟨sx, hmem, h1, h2, hready, fun p hp => hj.staged sx hmem p hp⟩

end Orq
