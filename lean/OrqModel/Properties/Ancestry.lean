/-
C06 along every history: the context snapshots a task is rendered from are the initial context and
snapshots that reached the task along satisfied transitions.
-/
import OrqModel.Proofs.Ancestry
import OrqModel.Proofs.Inherit
import OrqModel.Proofs.OfferCtx
import OrqModel.Proofs.Published
import OrqModel.Properties.Truth
import OrqModel.Properties.History

namespace Orq

variable (E : Evaluator)

theorem init_ca (spec : WfSpec) (parentCtx inputs : Val.Dict) : CA (init E spec parentCtx inputs) := by
  unfold init
  dsimp only
  have h0 : CA ({ spec := spec, graph := compose spec, inputs := inputs, parentCtx := parentCtx } : Cond) :=
    ⟨fun x hx => (by cases hx), fun r hr => (by cases hr)⟩
  have h1 := CA.uniform (m := (do logError "ExpressionEvaluationException"; failOnError : M Unit))
    (by nxa_walk [failOnError_nxa, logError_nxa _ _ _ _]) (by ext_walk [failOnError_ext])
    (by prev_walk [failOnError_prev, logError_prev _ _ _ _]) _ h0
  have hroots : ∀ (c : Cond) (ctx : Val.Dict) (roots : List String), CA c →
      CA { c with st := { c.st with
        contexts := c.st.contexts ++ [ctx],
        routes := c.st.routes ++ [[]],
        staged := c.st.staged ++ roots.map fun n =>
          ({ id := n, route := 0, ctxsIn := [0], ready := true } : Staged) } } := by
    intro c ctx roots hj
    have hsame : ∀ id l, CtxOk c id l → CtxOk { c with st := { c.st with
        contexts := c.st.contexts ++ [ctx],
        routes := c.st.routes ++ [[]],
        staged := c.st.staged ++ roots.map fun n =>
          ({ id := n, route := 0, ctxsIn := [0], ready := true } : Staged) } } id l :=
      fun id l h => CtxOk.same (c := c) rfl rfl h
    refine ⟨?_, ?_⟩
    · intro x hx
      rcases List.mem_append.mp hx with h | h
      · exact hsame _ _ (hj.staged x h)
      · obtain ⟨n, _, e⟩ := List.mem_map.mp h
        rw [← e]
        exact CtxOk.zero _ _
    · intro r hr
      exact hsame _ _ (hj.recs r hr)
  repeat' split
  all_goals first
    | exact h1 | exact h0 | exact hroots _ _ _ h1 | exact hroots _ _ _ h0

theorem init_inv2 (spec : WfSpec) (parentCtx inputs : Val.Dict) : Inv2 (init E spec parentCtx inputs) :=
  ⟨init_inv E spec parentCtx inputs, init_ca E spec parentCtx inputs⟩

theorem runOp_inv2 (op : Op) (c : Cond) (hop : op.notRetryEvent) (hi : Inv2 c) : Inv2 (runOp E op c) := by
  cases op with
  | req s =>
    exact (JI2.of_rel (requestStatus_dec s) (requestStatus_tk s) (requestStatus_g s) (requestStatus_nxa s)
      (requestStatus_prev s)).run c hi
  | next =>
    exact (JI2.of_rel (getNextTasks_dec E) (getNextTasks_tk E) (getNextTasks_g E) (getNextTasks_nxa E)
      (getNextTasks_prev E)).run c hi
  | render =>
    exact (JI2.of_rel (renderOutput_dec E) (renderOutput_tk E) (renderOutput_g E) (renderOutput_nxa E)
      (renderOutput_prev E)).run c hi
  | rerun reqs => exact (requestRerun_ji2 E reqs).run c hi
  | report k ev =>
    apply updateTaskStateAux_inv2 E 3 k ev c hi
    intro hev
    subst hev
    exact hop.elim

theorem runOps_inv2 (ops : List Op) (c : Cond) (hops : ∀ op ∈ ops, op.notRetryEvent) (hi : Inv2 c) :
    Inv2 (runOps E ops c) := by
  induction ops generalizing c with
  | nil => exact hi
  | cons op ops ih =>
    rw [runOps_cons]
    exact ih (runOp E op c) (fun o ho => hops o (List.mem_cons_of_mem _ ho))
      (runOp_inv2 E op c (hops op List.mem_cons_self) hi)

/-- **C06**: along every history (any definition, inputs, evaluator; any order and outcome of
    reports, control requests, reruns), every context snapshot listed by a staged entry or a task
    record of task `t` is the initial context or reached `t` through a record that recorded `true`
    for a transition into `t` and either was rendered from that snapshot itself or published it on
    that transition.  By induction along such records: what a task sees was published on a chain
    of satisfied transitions ending in it — never on a transition that does not lead to it. -/
theorem C06_snapshots_reach_along_true_transitions (spec : WfSpec) (parentCtx inputs : Val.Dict) (ops : List Op)
    (hops : ∀ op ∈ ops, op.notRetryEvent) :
    CA (runOps E ops (init E spec parentCtx inputs)) :=
  (runOps_inv2 E ops _ hops (init_inv2 E spec parentCtx inputs)).ca

/-- **C06**, for what is offered: every task the conductor offers is rendered from the snapshots
    its staged entry lists, and each of them is the initial context or reached the offered task
    along a satisfied transition (see `Via`). -/
theorem C06_offer_snapshots_from_ancestors (spec : WfSpec) (parentCtx inputs : Val.Dict) (ops : List Op)
    (hops : ∀ op ∈ ops, op.notRetryEvent) (offers : List Offer) (c' : Cond)
    (h : getNextTasks E (runOps E ops (init E spec parentCtx inputs)) = (.ok offers, c')) :
    ∀ o ∈ offers, ∃ sx ∈ (runOps E ops (init E spec parentCtx inputs)).st.staged,
      sx.id = o.id ∧ sx.route = o.route ∧
      ∀ i ∈ sx.ctxsIn, i = 0 ∨ Via (runOps E ops (init E spec parentCtx inputs)) o.id i := by
  intro o ho
  obtain ⟨sx, hsx, h1, h2, _⟩ := C01_offer_from_staged E _ offers c' h o ho
  have hmem : sx ∈ (runOps E ops (init E spec parentCtx inputs)).st.staged := by
    unfold WState.readyStaged at hsx
    exact (List.mem_filter.mp hsx).1
  have hca := C06_snapshots_reach_along_true_transitions E spec parentCtx inputs ops hops
  refine ⟨sx, hmem, h1, h2, ?_⟩
  intro i hi
  rw [← h1]
  exact hca.staged sx hmem i hi

/-- the publication log only ever grows (it is a ghost: no model function reads it) -/
theorem C06_publications_append_only (ops : List Op) (c : Cond) :
    ∃ l, (runOps E ops c).st.pubLog = c.st.pubLog ++ l :=
  (C18_history_extends E ops c).2.2.2

/-! ### inheritance -/

theorem init_in (spec : WfSpec) (parentCtx inputs : Val.Dict) : IN (init E spec parentCtx inputs) := by
  unfold init
  dsimp only
  have h0 : IN ({ spec := spec, graph := compose spec, inputs := inputs, parentCtx := parentCtx } : Cond) :=
    ⟨fun x hx => (by cases hx), fun r hr => (by cases hr)⟩
  have h1 := (JN.of_rel (m := (do logError "ExpressionEvaluationException"; failOnError : M Unit))
    (by ext_walk [failOnError_ext]) (by prev_walk [failOnError_prev, logError_prev _ _ _ _])).run _ h0
  have hroots : ∀ (c : Cond) (ctx : Val.Dict) (roots : List String), IN c →
      IN { c with st := { c.st with
        contexts := c.st.contexts ++ [ctx],
        routes := c.st.routes ++ [[]],
        staged := c.st.staged ++ roots.map fun n =>
          ({ id := n, route := 0, ctxsIn := [0], ready := true } : Staged) } } := by
    intro c ctx roots hj
    refine ⟨?_, ?_⟩
    · intro x hx
      rcases List.mem_append.mp hx with h | h
      · exact Inh.same (c := c) rfl (hj.staged x h)
      · obtain ⟨n, _, e⟩ := List.mem_map.mp h
        rw [← e]
        exact ⟨List.mem_singleton.mpr rfl, fun p hp => by cases hp⟩
    · intro r hr
      exact Inh.same (c := c) rfl (hj.recs r hr)
  repeat' split
  all_goals first
    | exact h1 | exact h0 | exact hroots _ _ _ h1 | exact hroots _ _ _ h0

theorem runOp_in (op : Op) (c : Cond) (hj : IN c) : IN (runOp E op c) := by
  cases op with
  | req s => exact (JN.of_rel (requestStatus_ext s) (requestStatus_prev s)).run c hj
  | next => exact (JN.of_rel (getNextTasks_ext E) (getNextTasks_prev E)).run c hj
  | render => exact (JN.of_rel (renderOutput_ext E) (renderOutput_prev E)).run c hj
  | rerun reqs => exact (requestRerun_jn E reqs).run c hj
  | report k ev => exact (updateTaskStateAux_jn E 3 k ev).run c hj

theorem runOps_in (ops : List Op) (c : Cond) (hj : IN c) : IN (runOps E ops c) := by
  induction ops generalizing c with
  | nil => exact hj
  | cons op ops ih =>
    rw [runOps_cons]
    exact ih (runOp E op c) (runOp_in E op c hj)

/-- **C06**, inheritance: along every history (no restriction on the operations), every staged
    entry and every task record is rendered from the initial context (index 0 is listed) and from
    every snapshot each predecessor it lists was rendered from: what a task saw, its successors
    see. -/
theorem C06_predecessor_snapshots_inherited (spec : WfSpec) (parentCtx inputs : Val.Dict) (ops : List Op) :
    IN (runOps E ops (init E spec parentCtx inputs)) :=
  runOps_in E ops _ (init_in E spec parentCtx inputs)

/-- … for what is offered -/
theorem C06_offer_inherits_predecessor_snapshots (spec : WfSpec) (parentCtx inputs : Val.Dict) (ops : List Op)
    (offers : List Offer) (c' : Cond)
    (h : getNextTasks E (runOps E ops (init E spec parentCtx inputs)) = (.ok offers, c')) :
    ∀ o ∈ offers, ∃ sx ∈ (runOps E ops (init E spec parentCtx inputs)).st.staged,
      sx.id = o.id ∧ sx.route = o.route ∧ 0 ∈ sx.ctxsIn ∧
      ∀ p ∈ sx.prev, ∃ q, (runOps E ops (init E spec parentCtx inputs)).st.sequence[p.2]? = some q ∧
        ∀ i ∈ q.ctxsIn, i ∈ sx.ctxsIn := by
  intro o ho
  obtain ⟨sx, hsx, h1, h2, _⟩ := C01_offer_from_staged E _ offers c' h o ho
  have hmem : sx ∈ (runOps E ops (init E spec parentCtx inputs)).st.staged := by
    unfold WState.readyStaged at hsx
    exact (List.mem_filter.mp hsx).1
  have hin := (C06_predecessor_snapshots_inherited E spec parentCtx inputs ops).staged sx hmem
  exact ⟨sx, hmem, h1, h2, hin.1, hin.2⟩

/-! ### what an offer is rendered with -/

/-- **C06**, first link, for every state: the context of every offered task is the overlay (in
    list order, later snapshots overriding earlier ones) of exactly the context snapshots listed
    by the staged entry `get_task` looks up for the offered task and route -/
theorem C06_offer_context_is_overlay (c : Cond) (offers : List Offer) (c' : Cond)
    (h : getNextTasks E c = (.ok offers, c')) :
    ∀ o ∈ offers, ∃ sx ∈ c.st.staged, sx.id = o.id ∧ sx.route = o.route ∧
      c.st.getStaged? (o.id, o.route) = some sx ∧ c.st.taskContext sx.ctxsIn = .ok o.ctx := by
  intro o ho
  have hspec : CtxSpec c o := nextFrom_ctx E (nextTodo c.st) c c' offers h o ho
  obtain ⟨sx0, hsx0, h1, h2, _⟩ := C01_offer_from_staged E c offers c' h o ho
  have hmem0 : sx0 ∈ c.st.staged := by
    unfold WState.readyStaged at hsx0
    exact (List.mem_filter.mp hsx0).1
  cases hg : c.st.getStaged? (o.id, o.route) with
  | none =>
    exfalso
    unfold WState.getStaged? at hg
    rw [List.find?_eq_none] at hg
    have := hg sx0 hmem0
    simp only [h1, h2, beq_self_eq_true, Bool.and_self, not_true_eq_false] at this
  | some sx =>
    have hmem : sx ∈ c.st.staged := by
      unfold WState.getStaged? at hg
      exact List.mem_of_find?_eq_some hg
    have hkey := getStaged?_key _ _ _ hg
    have hid : sx.id = o.id := (Prod.mk.inj hkey).1
    have hroute : sx.route = o.route := (Prod.mk.inj hkey).2
    refine ⟨sx, hmem, hid, hroute, rfl, ?_⟩
    unfold CtxSpec taskCtxIdxs at hspec
    rw [hg] at hspec
    exact hspec

/-- **C06**, the chain for what is offered at any point of any history: the offered task's context
    is the overlay of the snapshots its staged entry lists; index 0 (input and vars) is among
    them; every listed snapshot is index 0 or reached the task along a satisfied transition; and
    everything each listed predecessor was rendered from is listed -/
theorem C06_offer_context_from_ancestors (spec : WfSpec) (parentCtx inputs : Val.Dict) (ops : List Op)
    (hops : ∀ op ∈ ops, op.notRetryEvent) (offers : List Offer) (c' : Cond)
    (h : getNextTasks E (runOps E ops (init E spec parentCtx inputs)) = (.ok offers, c')) :
    ∀ o ∈ offers, ∃ sx ∈ (runOps E ops (init E spec parentCtx inputs)).st.staged,
      sx.id = o.id ∧ sx.route = o.route ∧
      (runOps E ops (init E spec parentCtx inputs)).st.taskContext sx.ctxsIn = .ok o.ctx ∧
      0 ∈ sx.ctxsIn ∧
      (∀ i ∈ sx.ctxsIn, i = 0 ∨ Via (runOps E ops (init E spec parentCtx inputs)) o.id i) ∧
      (∀ p ∈ sx.prev, ∃ q, (runOps E ops (init E spec parentCtx inputs)).st.sequence[p.2]? = some q ∧
        ∀ i ∈ q.ctxsIn, i ∈ sx.ctxsIn) := by
  intro o ho
  obtain ⟨sx, hmem, hid, hroute, _, hctx⟩ := C06_offer_context_is_overlay E _ offers c' h o ho
  have hca := (C06_snapshots_reach_along_true_transitions E spec parentCtx inputs ops hops).staged sx hmem
  have hin := (C06_predecessor_snapshots_inherited E spec parentCtx inputs ops).staged sx hmem
  refine ⟨sx, hmem, hid, hroute, hctx, hin.1, ?_, hin.2⟩
  intro i hi
  rw [← hid]
  exact hca i hi

/-! ### what a predecessor published on the way is listed -/

theorem init_pl (spec : WfSpec) (parentCtx inputs : Val.Dict) : PL (init E spec parentCtx inputs) := by
  unfold init
  dsimp only
  have h0 : PL ({ spec := spec, graph := compose spec, inputs := inputs, parentCtx := parentCtx } : Cond) :=
    ⟨fun x hx => (by cases hx), fun r hr => (by cases hr), fun m hm => (by cases hm)⟩
  have h1 := PL.uniform (m := (do logError "ExpressionEvaluationException"; failOnError : M Unit))
    (by nxa_walk [failOnError_nxa, logError_nxa _ _ _ _]) (by ext_walk [failOnError_ext])
    (by prev_walk [failOnError_prev, logError_prev _ _ _ _]) (by log_walk [failOnError_log]) _ h0
  have hroots : ∀ (c : Cond) (ctx : Val.Dict) (roots : List String), PL c →
      PL { c with st := { c.st with
        contexts := c.st.contexts ++ [ctx],
        routes := c.st.routes ++ [[]],
        staged := c.st.staged ++ roots.map fun n =>
          ({ id := n, route := 0, ctxsIn := [0], ready := true } : Staged) } } := by
    intro c ctx roots hj
    refine ⟨?_, ?_, ?_⟩
    · intro x hx
      rcases List.mem_append.mp hx with h | h
      · exact PubOk.same (c := c) rfl (hj.staged x h)
      · obtain ⟨n, _, e⟩ := List.mem_map.mp h
        rw [← e]
        intro p hp
        cases hp
    · intro r hr
      exact PubOk.same (c := c) rfl (hj.recs r hr)
    · intro m hm
      obtain ⟨q, hq, hmem⟩ := hj.logged m hm
      exact ⟨q, hq, hmem⟩
  repeat' split
  all_goals first
    | exact h1 | exact h0 | exact hroots _ _ _ h1 | exact hroots _ _ _ h0

theorem init_inv3 (spec : WfSpec) (parentCtx inputs : Val.Dict) : Inv3 (init E spec parentCtx inputs) :=
  ⟨init_inv2 E spec parentCtx inputs, init_in E spec parentCtx inputs, init_pl E spec parentCtx inputs⟩

theorem runOp_inv3 (op : Op) (c : Cond) (hop : op.notRetryEvent) (hi : Inv3 c) : Inv3 (runOp E op c) := by
  cases op with
  | req s =>
    exact (JI3.of_rel (requestStatus_dec s) (requestStatus_tk s) (requestStatus_g s) (requestStatus_nxa s)
      (requestStatus_prev s) (requestStatus_log s)).run c hi
  | next =>
    exact (JI3.of_rel (getNextTasks_dec E) (getNextTasks_tk E) (getNextTasks_g E) (getNextTasks_nxa E)
      (getNextTasks_prev E) (getNextTasks_log E)).run c hi
  | render =>
    exact (JI3.of_rel (renderOutput_dec E) (renderOutput_tk E) (renderOutput_g E) (renderOutput_nxa E)
      (renderOutput_prev E) (renderOutput_log E)).run c hi
  | rerun reqs => exact (requestRerun_ji3 E reqs).run c hi
  | report k ev =>
    apply updateTaskStateAux_inv3 E 3 k ev c hi
    intro hev
    subst hev
    exact hop.elim

theorem runOps_inv3 (ops : List Op) (c : Cond) (hops : ∀ op ∈ ops, op.notRetryEvent) (hi : Inv3 c) :
    Inv3 (runOps E ops c) := by
  induction ops generalizing c with
  | nil => exact hi
  | cons op ops ih =>
    rw [runOps_cons]
    exact ih (runOp E op c) (fun o ho => hops o (List.mem_cons_of_mem _ ho))
      (runOp_inv3 E op c (hops op List.mem_cons_self) hi)

/-- **C06**, completeness for named predecessors: along every history, whatever a predecessor
    named by a staged entry or record of task `t` published on its transition into `t` is among
    the snapshots that entry lists; and the publication log only records transitions that were
    decided true -/
theorem C06_published_snapshots_listed (spec : WfSpec) (parentCtx inputs : Val.Dict) (ops : List Op)
    (hops : ∀ op ∈ ops, op.notRetryEvent) :
    PL (runOps E ops (init E spec parentCtx inputs)) :=
  (runOps_inv3 E ops _ hops (init_inv3 E spec parentCtx inputs)).pl

/-- **C06**, the whole chain for what is offered at any point of any history: the offered task is
    rendered from exactly the snapshots its staged entry lists; these contain the initial context,
    everything each named predecessor was rendered from and whatever it published on its
    transition into the task; and they contain nothing that did not reach the task along a
    satisfied transition -/
theorem C06_offer_context_exact (spec : WfSpec) (parentCtx inputs : Val.Dict) (ops : List Op)
    (hops : ∀ op ∈ ops, op.notRetryEvent) (offers : List Offer) (c' : Cond)
    (h : getNextTasks E (runOps E ops (init E spec parentCtx inputs)) = (.ok offers, c')) :
    ∀ o ∈ offers, ∃ sx ∈ (runOps E ops (init E spec parentCtx inputs)).st.staged,
      sx.id = o.id ∧ sx.route = o.route ∧
      (runOps E ops (init E spec parentCtx inputs)).st.taskContext sx.ctxsIn = .ok o.ctx ∧
      0 ∈ sx.ctxsIn ∧
      (∀ p ∈ sx.prev, ∃ q, (runOps E ops (init E spec parentCtx inputs)).st.sequence[p.2]? = some q ∧
        ∀ i ∈ q.ctxsIn, i ∈ sx.ctxsIn) ∧
      (∀ p ∈ sx.prev, ∀ i, (p.2, ((o.id, p.1.2) : TransId), i) ∈ (runOps E ops (init E spec parentCtx inputs)).st.pubLog →
        i ∈ sx.ctxsIn) ∧
      (∀ i ∈ sx.ctxsIn, i = 0 ∨ Via (runOps E ops (init E spec parentCtx inputs)) o.id i) := by
  intro o ho
  obtain ⟨sx, hmem, hid, hroute, hctx, h0, hvia, hinh⟩ :=
    C06_offer_context_from_ancestors E spec parentCtx inputs ops hops offers c' h o ho
  have hpl := (C06_published_snapshots_listed E spec parentCtx inputs ops hops).staged sx hmem
  refine ⟨sx, hmem, hid, hroute, hctx, h0, hinh, ?_, hvia⟩
  intro p hp i hi
  rw [← hid] at hi
  exact hpl p hp i hi

/-! ### C13: a re-offered task carries the retry delay -/

/-- **C13**, for every state: every offer comes from one of the ready staged entries the query
    looked at, and when that entry was re-staged for a retry the offer carries the retry policy's
    delay (the evaluated value; 0 when none is configured or it is not truthy) instead of the
    task's own delay -/
theorem C13_reoffer_carries_retry_delay (c : Cond) (offers : List Offer) (c' : Cond)
    (h : getNextTasks E c = (.ok offers, c')) :
    ∀ o ∈ offers, ∃ sx ∈ c.st.readyStaged, sx.id = o.id ∧ sx.route = o.route ∧
      ∀ r, sx.retry = some r → o.delay = some (retryDelayOf r) := by
  intro o ho
  obtain ⟨sx, hsx, h1, h2, h3⟩ := nextFrom_delay E (nextTodo c.st) c c' offers h o ho
  exact ⟨sx, (nextTodo_sub c.st sx hsx).1, h1, h2, h3⟩

/-- **C12/C13**: nothing is offered from a staged entry that is flagged completed (the entry a
    failed with-items task keeps for a manual rerun) or that is not ready -/
theorem C12_completed_entry_not_offered (c : Cond) (offers : List Offer) (c' : Cond)
    (h : getNextTasks E c = (.ok offers, c')) :
    ∀ o ∈ offers, ∃ sx ∈ c.st.staged, sx.id = o.id ∧ sx.route = o.route ∧ sx.ready = true ∧ sx.completed = false := by
  intro o ho
  obtain ⟨sx, hsx, h1, h2, _⟩ := C01_offer_from_staged E c offers c' h o ho
  unfold WState.readyStaged at hsx
  obtain ⟨hmem, hp⟩ := List.mem_filter.mp hsx
  simp only [Bool.and_eq_true, Bool.not_eq_eq_eq_not, Bool.not_true] at hp
  exact ⟨sx, hmem, h1, h2, hp.1, hp.2⟩

/-- non-vacuity: a state with a published snapshot reaching a staged task -/
def exampleStateCA : Cond where
  spec := ⟨[], [], [], []⟩
  graph := {}
  st := { contexts := [[], [("v", .int 1)]],
          sequence := [{ id := "a", route := 0, ctxsIn := [0], status := some .succeeded, next := [(("b", 0), true)] }],
          staged := [{ id := "b", route := 0, ctxsIn := [0, 1], prev := [(("a", 0), 0)], ready := true }],
          pubLog := [(0, ("b", 0), 1)] }

example : CA exampleStateCA := by
  refine ⟨?_, ?_⟩
  · intro x hx
    have hx' : x ∈ [({ id := "b", route := 0, ctxsIn := [0, 1], prev := [(("a", 0), 0)], ready := true } : Staged)] := hx
    simp only [List.mem_singleton] at hx'
    subst hx'
    intro i hi
    have hi' : i ∈ [0, 1] := hi
    simp only [List.mem_cons, List.mem_singleton, List.not_mem_nil, or_false] at hi'
    rcases hi' with h | h
    · exact Or.inl h
    · right
      subst h
      exact ⟨0, _, 0, rfl, List.mem_singleton.mpr rfl, Or.inr (List.mem_singleton.mpr rfl)⟩
  · intro r hr
    have hr' : r ∈ [({ id := "a", route := 0, ctxsIn := [0], status := some .succeeded, next := [(("b", 0), true)] } : Rec)] := hr
    simp only [List.mem_singleton] at hr'
    subst hr'
    exact CtxOk.zero _ _

end Orq
