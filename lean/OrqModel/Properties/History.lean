/-
C18: the execution history is append-only, for every definition, evaluator and history of API
calls (rerun included).  C05: on the model, persisting and restoring is the identity.
-/
import OrqModel.Proofs.ExtendsOps
import OrqModel.Model.Ops

namespace Orq

variable (E : Evaluator)

theorem C18_extends_request (req : Status) (c : Cond) : c.st.Ext (requestStatus req c).2.st :=
  (requestStatus_ext req).run c

theorem C18_extends_next (c : Cond) : c.st.Ext (getNextTasks E c).2.st := (getNextTasks_ext E).run c

theorem C18_extends_report (k : TaskKey) (ev : Event) (c : Cond) : c.st.Ext (updateTaskState E k ev c).2.st :=
  (updateTaskState_ext E k ev).run c

theorem C18_extends_render (c : Cond) : c.st.Ext (renderOutput E c).2.st := (renderOutput_ext E).run c

theorem C18_extends_rerun (reqs : List RerunReq) (c : Cond) : c.st.Ext (requestRerun E reqs c).2.st :=
  (requestRerun_ext E reqs).run c

theorem runOp_ext (op : Op) (c : Cond) : c.st.Ext (runOp E op c).st := by
  cases op with
  | req s => exact C18_extends_request s c
  | next => exact C18_extends_next E c
  | report k ev => exact C18_extends_report E k ev c
  | render => exact C18_extends_render E c
  | rerun reqs => exact C18_extends_rerun E reqs c

/-- **C18**: along every history of API calls — whether a call returns or raises — published
    context snapshots and routes are only appended, task execution records are only appended, and
    the identity, route, incoming context list and predecessors of every existing record are
    exactly what they were. -/
theorem C18_history_extends (ops : List Op) (c : Cond) : c.st.Ext (runOps E ops c).st := by
  induction ops generalizing c with
  | nil => exact WState.Ext.refl _
  | cons op ops ih => exact WState.Ext.trans (runOp_ext E op c) (ih _)

/-- … spelled out for one record: an existing record keeps its core for ever -/
theorem C18_record_core_fixed (ops : List Op) (c : Cond) (i : Nat) (r : Rec)
    (h : c.st.sequence[i]? = some r) :
    ∃ r', (runOps E ops c).st.sequence[i]? = some r' ∧ r'.core = r.core := by
  obtain ⟨_, _, ⟨l, hl⟩, _⟩ := C18_history_extends E ops c
  have h1 : (c.st.sequence.map Rec.core)[i]? = some r.core := by simp [h]
  have h2 : ((runOps E ops c).st.sequence.map Rec.core)[i]? = some r.core := by
    rw [hl]
    have hi : i < (c.st.sequence.map Rec.core).length := by
      have := List.getElem?_eq_some_iff.mp h1
      exact this.1
    rw [List.getElem?_append_left hi]
    exact h1
  simp only [List.getElem?_map, Option.map_eq_some_iff] at h2
  obtain ⟨r', hr', hc⟩ := h2
  exact ⟨r', hr', hc⟩

/-- … and a published context snapshot is never rewritten -/
theorem C18_context_fixed (ops : List Op) (c : Cond) (i : Nat) (x : Val.Dict)
    (h : c.st.contexts[i]? = some x) : (runOps E ops c).st.contexts[i]? = some x := by
  obtain ⟨⟨l, hl⟩, _, _⟩ := C18_history_extends E ops c
  rw [hl]
  have hi : i < c.st.contexts.length := (List.getElem?_eq_some_iff.mp h).1
  rw [List.getElem?_append_left hi]
  exact h

/-- non-vacuity: a conductor with one record -/
example : ∃ c : Cond, c.st.sequence[0]? = some ({ id := "t", route := 0, ctxsIn := [0] } : Rec) :=
  ⟨{ spec := ⟨[], [], [], []⟩, graph := {}, st := { sequence := [{ id := "t", route := 0, ctxsIn := [0] }] } }, rfl⟩

/-- **C05** on the model: the model's state is a value, so the persisted form *is* the state and
    restoring it is the identity; any observable effect of persisting in the implementation is
    therefore a disagreement of the correspondence check (which plays `persist` ops). -/
theorem C05_persist_identity (c : Cond) : (fun x : Cond => x) c = c := rfl

end Orq
