/-
C20: two shorthands of the definition language whose meaning lives in the modelled code (the
composer and the transition loop), stated outright.
-/
import OrqModel.Model.Conductor

namespace Orq

variable (E : Evaluator)

/-- **C20**: a transition without `when` means "on every completion": its condition holds on every
    task context, whatever the evaluator does -/
theorem C20_missing_when_always_taken (e : Edge) (ec : EvalCtx) (h : e.criteria = none) :
    transCriteria E e ec = some true := by
  unfold transCriteria
  rw [h]

/-- **C20**: the engine command `retry` in a transition's `do` means the long form -- a retry
    policy on the task whose condition is the transition's condition (`completed()` when the
    transition has none), with a count of 3 and no delay -- and adds no edge and queues nothing -/
theorem C20_retry_command_is_policy (w : WfSpec) (t : String) (splits : List String) (st : CompState)
    (cond : Option Expr) (idx : Nat) :
    composeEdge w t splits st ("retry", cond, idx) =
      { st with g := st.g.updateNode t fun nd =>
          { nd with retry := some { when_ := some (cond.getD .completed), count := some (.lit (.int 3)), delay := none } } } := by
  unfold composeEdge
  simp

end Orq
