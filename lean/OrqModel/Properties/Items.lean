/-
C12 (with-items window) and C13 (retry) theorems.  The window is the pure function
`selectItems`, so its properties hold for every item count, concurrency and status vector.
-/
import OrqModel.Model.Conductor
import OrqModel.Proofs.StepRes

namespace Orq

/-! ### C12: the window -/

/-- **C12**: with concurrency `k` (a limit below 1 counts as 1) at most `max(k,1) − #active`
    items are offered -/
theorem C12_window_bound {α} (actions : List α) (items : List Status) (k : Int) :
    (selectItems actions items (some k)).length ≤ (max k 1 - (activeCount items : Int)).toNat := by
  unfold selectItems
  simp only [List.length_take]
  have : (if k ≤ 0 then 1 else k) = max k 1 := by split <;> omega
  rw [this]
  exact Nat.min_le_left _ _

/-- … hence offered + active never exceeds the limit (when it was respected so far) -/
theorem C12_window_total {α} (actions : List α) (items : List Status) (k : Int)
    (h : (activeCount items : Int) ≤ max k 1) :
    ((selectItems actions items (some k)).length : Int) + activeCount items ≤ max k 1 := by
  have := C12_window_bound actions items k
  omega

theorem mem_notRun {α} (actions : List α) (items : List Status) (a : α) (h : a ∈ notRun actions items) :
    (a, Status.unset) ∈ actions.zip items := by
  unfold notRun at h
  obtain ⟨⟨a', s⟩, hp, rfl⟩ := List.mem_map.mp h
  have := List.mem_filter.mp hp
  have h2 : (s == Status.unset) = true := this.2
  have : s = .unset := by
    revert h2
    cases s <;> decide
  subst this
  exact (List.mem_filter.mp hp).1

/-- **C12**: only items whose status is still unset are offered -/
theorem C12_window_unset_only {α} (actions : List α) (items : List Status) (conc : Option Int) :
    ∀ a ∈ selectItems actions items conc, (a, Status.unset) ∈ actions.zip items := by
  intro a ha
  unfold selectItems at ha
  split at ha
  · exact mem_notRun _ _ _ (List.mem_of_mem_take ha)
  · exact mem_notRun _ _ _ ha

theorem notRun_sublist {α} (actions : List α) (items : List Status) :
    (notRun actions items).Sublist actions := by
  unfold notRun
  have h1 : (((actions.zip items).filter fun p => p.2 == Status.unset).map (·.1)).Sublist
      ((actions.zip items).map (·.1)) := List.filter_sublist.map _
  refine h1.trans ?_
  clear h1
  induction actions generalizing items with
  | nil => simp
  | cons a as ih =>
    cases items with
    | nil => simp
    | cons i is =>
      simp only [List.zip_cons_cons, List.map_cons]
      exact (ih is).cons_cons a

/-- **C12**: items are offered in index order: the offered actions are a sublist of the rendered
    action list (which is in item order) -/
theorem C12_window_in_order {α} (actions : List α) (items : List Status) (conc : Option Int) :
    (selectItems actions items conc).Sublist actions := by
  unfold selectItems
  split
  · exact (List.take_sublist _ _).trans (notRun_sublist _ _)
  · exact notRun_sublist _ _

/-- **C12**: without a concurrency limit every not-yet-run item is offered at once -/
theorem C12_no_concurrency_all_unset {α} (actions : List α) (items : List Status) :
    selectItems actions items none = notRun actions items := rfl

/-- **C12**: an empty item list renders an offer with no action and an item count of zero -- the
    form `get_next_tasks` hands out so that the provider completes the task at once -/
theorem C12_empty_items_offer (ev : Expr → EvalCtx → Option Val) (ts : TaskSpec) (vars : Val.Dict)
    (k : TaskKey) (its : ItemsSpec) (o : Offer) (h : ts.withItems = some its)
    (hl : ev its.items { vars := vars, curTask := some k } = some (.list []))
    (ho : renderTask ev ts vars k = .ok o) : o.actions = [] ∧ o.itemsCount = some 0 := by
  unfold renderTask at ho
  simp only [h, hl, optErr, bind, Except.bind, pure, Except.pure, List.zipIdx_nil, List.mapM_nil] at ho
  repeat' split at ho
  all_goals (first | (cases ho; done) | (cases ho; simp))

/-- **C12**: the window of an offer without actions has no action and keeps the item count -/
theorem C12_empty_window (o o' : Offer) (items : List Status) (ha : o.actions = [])
    (h : windowOf o items = .ok o') : o'.actions = [] ∧ o'.itemsCount = o.itemsCount := by
  unfold windowOf at h
  split at h <;> cases h <;> simp [selectItems, notRun, ha]

/-- **C12**: the only item event that makes a with-items task `succeeded` is a succeeded item
    while no other item is active, paused, canceled, failed or incomplete -/
theorem C12_item_success_unique : ∀ (tk ev : Status) (a p c f i : Bool),
    tkOnItemEvent tk ev a p c f i = .ok .succeeded → tk ≠ .succeeded →
      ev = .succeeded ∧ a = false ∧ p = false ∧ c = false ∧ f = false ∧ i = false := by
  decide +kernel

/-- **C12**: a with-items task never reaches a completed status through an item event while
    another item is still active -/
theorem C12_completed_needs_dormant_k : ∀ (tk ev : Status) (p c f i : Bool),
    (tkOnItemEvent tk ev true p c f i).all? (fun s' => !s'.isCompleted || tk.isCompleted) = true := by
  decide +kernel

theorem C12_completed_needs_dormant (tk ev : Status) (p c f i : Bool) (s' : Status)
    (h : tkOnItemEvent tk ev true p c f i = .ok s') (hc : s'.isCompleted = true) : tk.isCompleted = true := by
  have := StepRes.all?_ok (C12_completed_needs_dormant_k tk ev p c f i) h
  simpa [hc] using this

/-! ### C13: retry -/

/-- **C13**: a retry is decided only while attempts remain (`tally < count`) and the condition
    holds: by default the execution abended, otherwise the `when` expression is truthy -/
theorem C13_retry_iff (E : Evaluator) (r : Rec) (ec : EvalCtx) (h : evaluateTaskRetry E r ec = .ok true) :
    ∃ rs n, r.retry = some rs ∧ rs.count = .val (.int n) ∧ (rs.tally : Int) < n ∧
      ((r.status.any Status.isAbended = true ∧ rs.when_ = none) ∨
       ∃ w v, rs.when_ = some w ∧ E.eval w ec = some v ∧ v.truthy = true) := by
  unfold evaluateTaskRetry at h
  split at h
  · cases h
  · next rs hrs =>
    split at h
    · next n hn =>
      refine ⟨rs, n, hrs, hn, ?_⟩
      split at h
      · cases h
      · next hlt =>
        refine ⟨by omega, ?_⟩
        split at h
        · next hc =>
          left
          simp only [Bool.and_eq_true, Option.isNone_iff_eq_none] at hc
          exact hc
        · split at h
          · cases h
          · next w hw =>
            split at h
            · next v hv =>
              right
              refine ⟨w, v, hw, hv, ?_⟩
              injection h
            · cases h
    · cases h

theorem C13_retry_requires_tally_below_count (E : Evaluator) (r : Rec) (ec : EvalCtx)
    (h : evaluateTaskRetry E r ec = .ok true) :
    ∃ rs n, r.retry = some rs ∧ rs.count = .val (.int n) ∧ (rs.tally : Int) < n := by
  obtain ⟨rs, n, h1, h2, h3, _⟩ := C13_retry_iff E r ec h
  exact ⟨rs, n, h1, h2, h3⟩

/-- **C13/C18**: a completed task record is reopened only by a retry request: the `succeeded`,
    `failed` and `canceled` rows of the task machine answer no action report -/
theorem C13_completed_rows_k : ∀ (tk ev : Status),
    (tk == .succeeded || tk == .failed || tk == .canceled) = true →
      (tkOnActionEvent tk ev).all? (fun s' => s' == tk) = true := by
  decide +kernel

theorem C13_completed_rows (tk ev s' : Status)
    (ht : tk = .succeeded ∨ tk = .failed ∨ tk = .canceled) (h : tkOnActionEvent tk ev = .ok s') : s' = tk := by
  have hb : (tk == .succeeded || tk == .failed || tk == .canceled) = true := by
    rcases ht with ht | ht | ht <;> subst ht <;> rfl
  have := StepRes.all?_ok (C13_completed_rows_k tk ev hb) h
  revert this
  cases s' <;> cases tk <;> decide

theorem C13_retry_event_reopens : ∀ (tk : Status) (s' : Status),
    (tk = .succeeded ∨ tk = .failed) → tkOnEngineEvent tk .retry_ = .ok s' → s' = .retrying := by
  decide +kernel

/-- **C13/C02** (true since fix D32): the action of a retry that reports requested, scheduled or
    delayed -- what a retry with a delay does -- takes the retrying task to that status, which is an
    active one: the workflow does not mistake the task for finished while its retry is under way -/
theorem tbl_retry_dispatch_is_active :
    tkOnActionEvent .retrying .requested = .ok .requested ∧
    tkOnActionEvent .retrying .scheduled = .ok .scheduled ∧
    tkOnActionEvent .retrying .delayed = .ok .delayed ∧
    Status.isActive .requested = true ∧ Status.isActive .scheduled = true ∧ Status.isActive .delayed = true := by
  decide +kernel

end Orq
