/-
C13, along every history: the retry tally of every task record stays within the count of its
retry policy, so a record is re-staged for at most `count` further attempts.
-/
import OrqModel.Proofs.RetryBound
import OrqModel.Model.Ops

namespace Orq

variable (E : Evaluator)

theorem init_inv13 (spec : WfSpec) (parentCtx inputs : Val.Dict) : Inv13 (init E spec parentCtx inputs) := by
  unfold init
  dsimp only
  have h0 : Inv13 ({ spec := spec, graph := compose spec, inputs := inputs, parentCtx := parentCtx } : Cond) := by
    intro r hr
    cases hr
  have hm : Rel inv13Pre (do logError "ExpressionEvaluationException"; failOnError : M Unit) := by
    inv13_walk [requestStatus_inv13 _, failOnError_inv13]
  split
  · split
    · exact hm.run _ h0
    · exact h0
  · split
    · intro r hr
      exact hm.run _ h0 r hr
    · intro r hr
      exact h0 r hr

/-- a provider never reports the engine's own retry event -/
def Op.notRetryEvent : Op → Prop
  | .report _ (.engine .retry_) => False
  | _ => True

theorem runOp_inv13 (op : Op) (c : Cond) (hop : op.notRetryEvent) (h : Inv13 c) : Inv13 (runOp E op c) := by
  cases op with
  | req s => exact (requestStatus_inv13 s).run c h
  | next => exact (getNextTasks_inv13 E).run c h
  | render => exact (renderOutput_inv13 E).run c h
  | rerun reqs => exact (requestRerun_inv13 E reqs).run c h
  | report k ev =>
    apply updateTaskStateAux_inv13 E 3 k ev c h
    intro hev
    subst hev
    exact hop.elim

theorem runOps_inv13 (ops : List Op) (c : Cond) (hops : ∀ op ∈ ops, op.notRetryEvent) (h : Inv13 c) :
    Inv13 (runOps E ops c) := by
  induction ops generalizing c with
  | nil => exact h
  | cons op ops ih =>
    rw [runOps_cons]
    apply ih
    · intro o ho; exact hops o (List.mem_cons_of_mem _ ho)
    · exact runOp_inv13 E op c (hops op List.mem_cons_self) h

/-- **C13**: along every history of API calls (status requests, next-task queries, action and item
    reports in any order and with any outcomes, output rendering, reruns), for every definition,
    input and evaluator, the retry tally of every task record is at most the policy's count: the
    record is re-staged for at most `count` attempts after the first. -/
theorem C13_tally_bounded (spec : WfSpec) (parentCtx inputs : Val.Dict) (ops : List Op)
    (hops : ∀ op ∈ ops, op.notRetryEvent) :
    ∀ r ∈ (runOps E ops (init E spec parentCtx inputs)).st.sequence, ∀ rs n,
      r.retry = some rs → rs.count = .val (.int n) → (rs.tally : Int) ≤ max n 0 :=
  runOps_inv13 E ops _ hops (init_inv13 E spec parentCtx inputs)

/-- the step behind it: `update_task_state` keeps the bound provided the retry event it is entered
    with (only the engine itself does that) carries a record on which attempts remain -/
theorem C13_update_keeps_bound (k : TaskKey) (ev : Event) (c : Cond) (h : Inv13 c) (hpre : Pre13 k ev c) :
    Inv13 (updateTaskState E k ev c).2 :=
  updateTaskStateAux_inv13 E 3 k ev c h hpre

/-- **C13/C18**: whatever the event (action report, item report, engine command), the task machine
    moves a record into `retrying` only on the engine's retry event, and only from `succeeded` or
    `failed`: no provider report reopens an attempt -/
theorem C13_retrying_only_by_retry_event (c : Cond) (r : Rec) (ev : Event)
    (h : tkEventStep c r ev = .ok (.ok .retrying)) (hold : r.status.getD .unset ≠ .retrying) :
    ev = .engine .retry_ ∧ (r.status = some .succeeded ∨ r.status = some .failed) :=
  tkEventStep_enter c r ev h hold

/-- the retry event is issued by `update_task_state` only after `_evaluate_task_retry` said yes on
    the record it is about to reopen: the decision phase returning `true` leaves a record on which
    attempts remain -/
theorem C13_retry_event_licensed (k : TaskKey) (idx : Nat) (ts : TaskSpec) (os ns : Status) (ev : Event)
    (c c' : Cond) (h : completedRetryDecision E k idx ts os ns ev c = (.ok true, c')) : CanBump c' idx :=
  completedRetryDecision_true E k idx ts os ns ev c c' h

/-- **C13/C18**: a report that leaves the status of a completed record as it was — a late or duplicate
    completion report — never reopens it: the decision phase asks for a retry only when the event
    changed the record's status (so a record whose transitions have been decided is not retried) -/
theorem C13_no_retry_without_status_change (k : TaskKey) (idx : Nat) (ts : TaskSpec) (os ns : Status)
    (ev : Event) (c c' : Cond) (h : completedRetryDecision E k idx ts os ns ev c = (.ok true, c')) : ns ≠ os :=
  completedRetryDecision_changed E k idx ts os ns ev c c' h

/-- the hypothesis of `C13_tally_bounded` is what every provider history satisfies -/
example : ∀ op ∈ [Op.req .running, .next, .report ("t", 0) (.action .failed .null),
    .report ("t", 0) (.item 1 .succeeded .null none), .render, .rerun []], op.notRetryEvent := by
  intro op h
  simp only [List.mem_cons, List.not_mem_nil, or_false] at h
  rcases h with h | h | h | h | h | h <;> subst h <;> trivial

/-- a record on which attempts remain (count 2, one retry so far) -/
example : CanBumpRec ({ (default : Rec) with retry := some ⟨none, .val (.int 2), .none_, 1⟩ }) := by
  intro rs n h1 h2
  simp only [Option.some.injEq] at h1
  subst h1
  simp only [RV.val.injEq, Val.int.injEq] at h2
  subst h2
  decide

/-- **C13**: re-staging a record that has just become `retrying` bumps its tally by exactly one
    and stages exactly one ready entry for the task, carrying the record's context list and
    predecessors and the bumped retry state; a record that was already `retrying`, or is not
    `retrying`, is left alone and nothing is staged (one re-offer per bump of the tally) -/
theorem C13_restage_bumps_once (k : TaskKey) (idx : Nat) (old : Status) (c : Cond) (r : Rec) (rs : RetryState)
    (hr : c.st.sequence[idx]? = some r) (hrs : r.retry = some rs) :
    (r.status == some .retrying && old != .retrying) = true →
      (restageRetry k idx old c).2.st.sequence[idx]? = some { r with retry := some { rs with tally := rs.tally + 1 } } ∧
      ∃ l, (restageRetry k idx old c).2.st.staged = l ++
        [({ id := k.1, route := k.2, ctxsIn := if r.ctxsIn.isEmpty then [0] else r.ctxsIn, prev := r.prev, ready := true,
            retry := some { rs with tally := rs.tally + 1 } } : Staged)] := by
  intro hcond
  unfold restageRetry
  simp only [bind, M.bind', M.get, liftOpt, hr, pure, M.pure', hcond, if_true, hrs, M.modifySt, M.modify]
  constructor
  · show (WState.addStaged _ _).sequence[idx]? = _
    simp only [WState.addStaged_sequence, WState.removeStaged_sequence]
    show (c.st.sequence.modify idx _)[idx]? = _
    rw [getElem?_modify_same, hr]
    rfl
  · exact ⟨_, rfl⟩

theorem C13_no_restage_otherwise (k : TaskKey) (idx : Nat) (old : Status) (c : Cond) (r : Rec)
    (hr : c.st.sequence[idx]? = some r) (hcond : (r.status == some .retrying && old != .retrying) = false) :
    (restageRetry k idx old c).2 = c := by
  unfold restageRetry
  simp only [bind, M.bind', M.get, liftOpt, hr, pure, M.pure', hcond]
  rfl

end Orq
