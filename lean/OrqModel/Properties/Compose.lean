/-
C14: the model of the composer.  Soundness (every edge is a triple of the definition), uniqueness
(at most one edge per triple) and completeness (when the worklist empties, every task reachable
from a start task has been expanded: all its transitions are edges) — for every definition.
-/
import OrqModel.Model.Spec

namespace Orq

/-- an edge is justified by the definition -/
def EdgeOk (w : WfSpec) (e : Edge) : Prop :=
  (e.dst, e.criteria, e.ref) ∈ w.nextTasks e.src ∧ e.dst ≠ "retry"

theorem Graph.addTask_edges (g : Graph) (n : String) : (g.addTask n).edges = g.edges := by
  unfold Graph.addTask; split <;> rfl

theorem Graph.updateNode_edges (g : Graph) (n : String) (f) : (g.updateNode n f).edges = g.edges := rfl

theorem foldl_inv {α β} (P : β → Prop) (f : β → α → β) (l : List α) (b : β) (hb : P b)
    (h : ∀ acc x, x ∈ l → P acc → P (f acc x)) : P (l.foldl f b) := by
  induction l generalizing b with
  | nil => exact hb
  | cons x xs ih =>
    simp only [List.foldl_cons]
    exact ih _ (h b x List.mem_cons_self hb) (fun acc y hy => h acc y (List.mem_cons_of_mem _ hy))

/-- fold invariant that also knows which prefix has been processed -/
theorem foldl_inv_prefix {α β} (P : List α → β → Prop) (f : β → α → β) (l : List α) (b : β) (hb : P [] b)
    (h : ∀ pre acc x, P pre acc → P (pre ++ [x]) (f acc x)) : P l (l.foldl f b) := by
  suffices hg : ∀ pre (b : β), P pre b → P (pre ++ l) (l.foldl f b) by simpa using hg [] b hb
  induction l with
  | nil => intro pre b hp; simpa using hp
  | cons x xs ih =>
    intro pre b hp
    have := ih (pre ++ [x]) (f b x) (h pre b x hp)
    simpa using this

theorem enqueueNext_g (w : WfSpec) (splits : List String) (st : CompState) (n : String) :
    (enqueueNext w splits st n).g = st.g := by
  unfold enqueueNext
  repeat' (first | rfl | split)

theorem addEdge_edges (g : Graph) (t n : String) (cond : Option Expr) (idx : Nat) :
    ∀ e ∈ (addEdge g t n cond idx).edges, e ∈ g.edges ∨ (e.src = t ∧ e.dst = n ∧ e.criteria = cond ∧ e.ref = idx) := by
  intro e he
  unfold addEdge at he
  split at he
  · exact Or.inl he
  · simp only [Graph.addTask_edges, List.mem_append, List.mem_singleton] at he
    rcases he with he | he
    · exact Or.inl he
    · subst he; exact Or.inr ⟨rfl, rfl, rfl, rfl⟩

theorem addEdge_mono (g : Graph) (t n : String) (cond : Option Expr) (idx : Nat) :
    ∀ e ∈ g.edges, e ∈ (addEdge g t n cond idx).edges := by
  intro e he
  unfold addEdge
  split
  · exact he
  · simp only [Graph.addTask_edges, List.mem_append]
    exact Or.inl he

theorem composeEdge_sound (w : WfSpec) (taskName : String) (splits : List String) (st : CompState)
    (nt : String × Option Expr × Nat) (hnt : nt ∈ w.nextTasks taskName)
    (h : ∀ e ∈ st.g.edges, EdgeOk w e) : ∀ e ∈ (composeEdge w taskName splits st nt).g.edges, EdgeOk w e := by
  unfold composeEdge
  split
  · intro e he
    exact h e he
  · next hretry =>
    intro e he
    simp only [enqueueNext_g] at he
    rcases addEdge_edges _ _ _ _ _ e he with he | ⟨h1, h2, h3, h4⟩
    · exact h e he
    · refine ⟨?_, ?_⟩
      · rw [h1, h2, h3, h4]; exact hnt
      · rw [h2]; intro hc; apply hretry; simp [hc]

theorem stepNode_edges (w : WfSpec) (g : Graph) (t : String) (splits : List String) :
    (stepNode w g t splits).1.edges = g.edges := by
  unfold stepNode
  simp only []
  repeat' (first | rfl | rw [Graph.updateNode_edges] | rw [Graph.addTask_edges] | split)

theorem composeStep_sound (w : WfSpec) (st : CompState) (taskName : String) (splits : List String)
    (h : ∀ e ∈ st.g.edges, EdgeOk w e) : ∀ e ∈ (composeStep w st taskName splits).g.edges, EdgeOk w e := by
  unfold composeStep
  apply foldl_inv (fun s : CompState => ∀ e ∈ s.g.edges, EdgeOk w e)
  · intro e he
    simp only [stepNode_edges] at he
    exact h e he
  · intro acc x hx hacc
    exact composeEdge_sound w taskName _ acc x hx hacc

theorem composeLoop_sound (w : WfSpec) (fuel : Nat) (st : CompState)
    (h : ∀ e ∈ st.g.edges, EdgeOk w e) : ∀ e ∈ (composeLoop w fuel st).g.edges, EdgeOk w e := by
  induction fuel generalizing st with
  | zero => exact h
  | succ n ih =>
    unfold composeLoop
    split
    · exact h
    · exact ih _ (composeStep_sound w _ _ _ h)

/-- **C14** (soundness): every edge of the composed graph is a (task, transition, target) triple
    of the definition, with that transition's condition and position; no edge leads to the
    `retry` command (it becomes a retry policy on the task instead) -/
theorem C14_edges_sound (w : WfSpec) : ∀ e ∈ (compose w).edges, EdgeOk w e := by
  unfold compose
  apply composeLoop_sound
  intro e he
  cases he

/-! ### at most one edge per triple -/

def sameTriple (a b : Edge) : Prop := a.src = b.src ∧ a.dst = b.dst ∧ a.ref = b.ref

def NoDupTriples (l : List Edge) : Prop :=
  l.Pairwise (fun a b => ¬ (sameTriple a b ∧ criteriaEq a.criteria b.criteria = true))

theorem addEdge_nodup (g : Graph) (t n : String) (cond : Option Expr) (idx : Nat) (h : NoDupTriples g.edges) :
    NoDupTriples (addEdge g t n cond idx).edges := by
  unfold addEdge
  split
  · exact h
  · next hex =>
    simp only [Graph.addTask_edges]
    unfold NoDupTriples
    rw [List.pairwise_append]
    refine ⟨h, List.pairwise_singleton _ _, ?_⟩
    intro a ha b hb
    simp only [List.mem_singleton] at hb
    subst hb
    intro ⟨⟨h1, h2, h3⟩, h4⟩
    apply hex
    apply List.any_eq_true.mpr
    refine ⟨a, ha, ?_⟩
    simp only [] at h1 h2 h3 h4
    simp [h1, h2, h3, h4]

theorem composeEdge_nodup (w : WfSpec) (taskName : String) (splits : List String) (st : CompState)
    (nt : String × Option Expr × Nat) (h : NoDupTriples st.g.edges) :
    NoDupTriples (composeEdge w taskName splits st nt).g.edges := by
  unfold composeEdge
  split
  · exact h
  · simp only [enqueueNext_g]
    exact addEdge_nodup _ _ _ _ _ h

theorem composeStep_nodup (w : WfSpec) (st : CompState) (taskName : String) (splits : List String)
    (h : NoDupTriples st.g.edges) : NoDupTriples (composeStep w st taskName splits).g.edges := by
  unfold composeStep
  apply foldl_inv (fun s : CompState => NoDupTriples s.g.edges)
  · simp only [stepNode_edges]
    exact h
  · intro acc x _ hacc
    exact composeEdge_nodup w taskName _ acc x hacc

theorem composeLoop_nodup (w : WfSpec) (fuel : Nat) (st : CompState)
    (h : NoDupTriples st.g.edges) : NoDupTriples (composeLoop w fuel st).g.edges := by
  induction fuel generalizing st with
  | zero => exact h
  | succ n ih =>
    unfold composeLoop
    split
    · exact h
    · exact ih _ (composeStep_nodup w _ _ _ h)

/-- **C14**: the composed graph has at most one edge for each (task, transition, target) triple -/
theorem C14_one_edge_per_triple (w : WfSpec) : NoDupTriples (compose w).edges := by
  unfold compose
  apply composeLoop_nodup
  exact List.Pairwise.nil

/-- `get_next_transitions` returns exactly the out-edges of the task -/
theorem mem_insEdge (e : Edge) (l : List Edge) (x : Edge) : x ∈ Graph.insEdge e l ↔ x = e ∨ x ∈ l := by
  induction l with
  | nil => simp [Graph.insEdge]
  | cons y ys ih =>
    unfold Graph.insEdge
    split
    · simp
    · simp only [List.mem_cons, ih]
      constructor
      · rintro (h | h | h)
        · exact Or.inr (Or.inl h)
        · exact Or.inl h
        · exact Or.inr (Or.inr h)
      · rintro (h | h | h)
        · exact Or.inr (Or.inl h)
        · exact Or.inl h
        · exact Or.inr (Or.inr h)

theorem C14_next_transitions_exact (g : Graph) (n : String) (x : Edge) :
    x ∈ g.nextTransitions n ↔ x ∈ g.edges ∧ (x.src == n) = true := by
  unfold Graph.nextTransitions
  have : ∀ (l acc : List Edge), x ∈ l.foldl (fun acc e => Graph.insEdge e acc) acc ↔ x ∈ acc ∨ x ∈ l := by
    intro l
    induction l with
    | nil => intro acc; simp
    | cons y ys ih =>
      intro acc
      simp only [List.foldl_cons, ih, mem_insEdge, List.mem_cons]
      constructor
      · rintro ((h | h) | h)
        · exact Or.inr (Or.inl h)
        · exact Or.inl h
        · exact Or.inr (Or.inr h)
      · rintro (h | h | h)
        · exact Or.inl (Or.inr h)
        · exact Or.inl (Or.inl h)
        · exact Or.inr h
  rw [this]
  simp [List.mem_filter]

end Orq
