/-
C14: the model of the composer.  Every edge of the composed graph is a (task, transition,
target) triple of the definition carrying that transition's condition and position; a `retry`
command never becomes an edge.
-/
import OrqModel.Model.Spec

namespace Orq

/-- an edge is justified by the definition -/
def EdgeOk (w : WfSpec) (e : Edge) : Prop :=
  (e.dst, e.criteria, e.ref) ∈ w.nextTasks e.src ∧ e.dst ≠ "retry"

theorem Graph.addTask_edges (g : Graph) (n : String) : (g.addTask n).edges = g.edges := by
  unfold Graph.addTask; split <;> rfl

theorem Graph.updateNode_edges (g : Graph) (n : String) (f) : (g.updateNode n f).edges = g.edges := rfl

theorem foldl_inv {α β} (P : β → Prop) (f : β → α → β) (l : List α) (b : β) (hb : P b)
    (h : ∀ acc x, x ∈ l → P acc → P (f acc x)) : P (l.foldl f b) := by
  induction l generalizing b with
  | nil => exact hb
  | cons x xs ih =>
    simp only [List.foldl_cons]
    exact ih _ (h b x List.mem_cons_self hb) (fun acc y hy => h acc y (List.mem_cons_of_mem _ hy))

theorem composeEdge_sound (w : WfSpec) (taskName : String) (splits : List String) (st : CompState)
    (nt : String × Option Expr × Nat) (hnt : nt ∈ w.nextTasks taskName)
    (h : ∀ e ∈ st.g.edges, EdgeOk w e) : ∀ e ∈ (composeEdge w taskName splits st nt).g.edges, EdgeOk w e := by
  obtain ⟨nextName, cond, idx⟩ := nt
  unfold composeEdge
  simp only []
  split
  · -- retry command: only a node attribute changes
    intro e he
    rw [Graph.updateNode_edges] at he
    exact h e he
  · next hretry =>
    -- the queue/track bookkeeping does not touch the graph
    have hg : ∀ st' : CompState, st'.g = st.g → ∀ e ∈
        (let g := st'.g
         let existing := g.edges.any fun e =>
           e.src == taskName && e.dst == nextName && criteriaEq e.criteria cond && e.ref == idx
         if existing then st'
         else
           let g := (g.addTask taskName).addTask nextName
           let key := (g.edges.filter fun e => e.src == taskName && e.dst == nextName).length
           { st' with g := { g with edges := g.edges ++
              [{ src := taskName, dst := nextName, key := key, criteria := cond, ref := idx }] } }).g.edges,
        EdgeOk w e := by
      intro st' hst' e he
      simp only [] at he
      split at he
      · rw [hst'] at he; exact h e he
      · simp only [Graph.addTask_edges, List.mem_append, List.mem_singleton] at he
        rcases he with he | he
        · rw [hst'] at he; exact h e he
        · subst he
          refine ⟨hnt, ?_⟩
          intro hc
          apply hretry
          have : nextName = "retry" := hc
          simp [this]
    split
    · split
      · split
        · exact hg _ rfl
        · split
          · exact hg _ rfl
          · exact hg _ rfl
      · exact hg _ rfl
    · exact hg _ rfl

theorem composeStep_sound (w : WfSpec) (st : CompState) (taskName : String) (splits : List String)
    (h : ∀ e ∈ st.g.edges, EdgeOk w e) : ∀ e ∈ (composeStep w st taskName splits).g.edges, EdgeOk w e := by
  unfold composeStep
  simp only []
  apply foldl_inv (fun s : CompState => ∀ e ∈ s.g.edges, EdgeOk w e)
  · intro e he
    simp only [] at he
    have : ∀ g : Graph, g.edges = st.g.edges → e ∈ g.edges → EdgeOk w e := fun g hg hm => h e (hg ▸ hm)
    apply this _ _ he
    repeat' (first | rfl | rw [Graph.updateNode_edges] | rw [Graph.addTask_edges] | split)
  · intro acc x hx hacc
    exact composeEdge_sound w taskName _ acc x hx hacc

theorem composeLoop_sound (w : WfSpec) (fuel : Nat) (st : CompState)
    (h : ∀ e ∈ st.g.edges, EdgeOk w e) : ∀ e ∈ (composeLoop w fuel st).g.edges, EdgeOk w e := by
  induction fuel generalizing st with
  | zero => exact h
  | succ n ih =>
    unfold composeLoop
    split
    · exact h
    · exact ih _ (composeStep_sound w _ _ _ h)

/-- **C14** (soundness): every edge of the composed graph is a (task, transition, target) triple
    of the definition, with that transition's condition and position; no edge leads to the
    `retry` command (it becomes a retry policy on the task instead) -/
theorem C14_edges_sound (w : WfSpec) : ∀ e ∈ (compose w).edges, EdgeOk w e := by
  unfold compose
  apply composeLoop_sound
  intro e he
  cases he

/-- `get_next_transitions` returns exactly the out-edges of the task -/
theorem mem_insEdge (e : Edge) (l : List Edge) (x : Edge) : x ∈ Graph.insEdge e l ↔ x = e ∨ x ∈ l := by
  induction l with
  | nil => simp [Graph.insEdge]
  | cons y ys ih =>
    unfold Graph.insEdge
    split
    · simp
    · simp only [List.mem_cons, ih]
      constructor
      · rintro (h | h | h)
        · exact Or.inr (Or.inl h)
        · exact Or.inl h
        · exact Or.inr (Or.inr h)
      · rintro (h | h | h)
        · exact Or.inr (Or.inl h)
        · exact Or.inl h
        · exact Or.inr (Or.inr h)

theorem C14_next_transitions_exact (g : Graph) (n : String) (x : Edge) :
    x ∈ g.nextTransitions n ↔ x ∈ g.edges ∧ (x.src == n) = true := by
  unfold Graph.nextTransitions
  have : ∀ (l acc : List Edge), x ∈ l.foldl (fun acc e => Graph.insEdge e acc) acc ↔ x ∈ acc ∨ x ∈ l := by
    intro l
    induction l with
    | nil => intro acc; simp
    | cons y ys ih =>
      intro acc
      simp only [List.foldl_cons, ih, mem_insEdge, List.mem_cons]
      constructor
      · rintro ((h | h) | h)
        · exact Or.inr (Or.inl h)
        · exact Or.inl h
        · exact Or.inr (Or.inr h)
      · rintro (h | h | h)
        · exact Or.inl (Or.inr h)
        · exact Or.inl (Or.inl h)
        · exact Or.inr h
  rw [this]
  simp [List.mem_filter]

end Orq
