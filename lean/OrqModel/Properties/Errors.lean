/-
C11: for *every* evaluator — in particular one that fails wherever it likes — no conductor API
operation lets an expression-evaluation exception out.  (Whether the failure is then recorded and
fails the workflow is visible in the model code: every handler is `logError …; requestStatus
.failed`; `tbl_failed_request_total` shows that request is honoured in every non-terminal status.)
-/
import OrqModel.Proofs.Raises

namespace Orq

variable (E : Evaluator)

def notExpr : Err → Prop := fun e => e ≠ .expr

theorem foldlM_ctx_err (st : WState) (idxs : List Nat) (acc : Val.Dict) (e : Err)
    (h : List.foldlM (fun acc i =>
      match st.contexts[i]? with
      | some c => (Except.ok (Val.mergeDicts acc c) : Except Err Val.Dict)
      | none => Except.error Err.indexError) acc idxs = .error e) : e = .indexError := by
  induction idxs generalizing acc with
  | nil => cases h
  | cons i is ih =>
    rw [List.foldlM_cons] at h
    cases hc : st.contexts[i]? with
    | none =>
      rw [hc] at h
      injection h with h1
      exact h1.symm
    | some cx =>
      rw [hc] at h
      exact ih _ h

theorem taskContext_notExpr (st : WState) (idxs : List Nat) :
    ∀ e, st.taskContext idxs = .error e → notExpr e := by
  intro e h
  have := foldlM_ctx_err st idxs [] e h
  rw [this]; intro hc; cases hc

theorem taskSequence_notExpr (s : WState) (k : TaskKey) : ∀ e, taskSequence s k = .error e → notExpr e := by
  intro e h
  unfold taskSequence at h
  split at h
  · injection h with h1; rw [← h1]; intro hc; cases hc
  · cases h

theorem wfProcessTaskEvent_raises (k ev) : Raises (wfProcessTaskEvent k ev) notExpr := by
  constructor
  intro c e s' h
  unfold wfProcessTaskEvent at h
  dsimp only at h
  split at h
  · cases h; intro hc; cases hc
  · split at h
    · split at h
      · cases h
      · have hk : ∀ xs : List Staged, Raises (M.forEach xs
            fun x => logError "UnreachableJoinError" (some x.id) (some x.route)) notExpr :=
          fun xs => Raises.forEach _ (fun x => Raises.modify _)
        exact (hk _).run _ e s' h
    · cases h

theorem wfProcessWorkflowEvent_raises (req) : Raises (wfProcessWorkflowEvent req) notExpr := by
  constructor
  intro c e s' h
  unfold wfProcessWorkflowEvent at h
  dsimp only at h
  split at h
  · cases h; intro hc; cases hc
  · split at h
    · split at h
      · cases h
      · have hk : ∀ xs : List Staged, Raises (M.forEach xs
            fun x => logError "UnreachableJoinError" (some x.id) (some x.route)) notExpr :=
          fun xs => Raises.forEach _ (fun x => Raises.modify _)
        exact (hk _).run _ e s' h
    · cases h

theorem tkProcessWorkflowEvent_raises (i req) : Raises (tkProcessWorkflowEvent i req) notExpr := by
  constructor
  intro c e s' h
  unfold tkProcessWorkflowEvent at h
  repeat' split at h
  all_goals (cases h <;> (intro hc; cases hc))

theorem tkEventStep_err (c r ev) : ∀ e, tkEventStep c r ev = .error e → notExpr e := by
  intro e h
  unfold tkEventStep at h
  dsimp only at h
  repeat' split at h
  all_goals (cases h <;> (intro hc; cases hc))

theorem tkProcessEvent_raises (i ev) : Raises (tkProcessEvent i ev) notExpr := by
  constructor
  intro c e s' h
  unfold tkProcessEvent at h
  split at h
  · cases h; intro hc; cases hc
  · split at h
    · next e1 he1 => cases h; exact tkEventStep_err _ _ _ _ he1
    · cases h; intro hc; cases hc
    · split at h <;> cases h

syntax "raises_walk" "[" term,* "]" : tactic
macro_rules
  | `(tactic| raises_walk [$ts,*]) => do
    let alts ← ts.getElems.mapM fun t => `(tactic| exact $t)
    `(tactic| repeat' (first
      | exact Raises.pure _ | exact Raises.pure' _ | exact Raises.get | exact Raises.modify _
      | exact Raises.modifySt _
      | exact Raises.throw (by intro hc; cases hc)
      | exact Raises.liftOpt _ (by intro hc; cases hc)
      | exact Raises.liftExcept _ (taskContext_notExpr _ _)
      | exact Raises.liftExcept _ (taskSequence_notExpr _ _)
      | exact wfProcessWorkflowEvent_raises _ | exact wfProcessTaskEvent_raises _ _
      | exact tkProcessWorkflowEvent_raises _ _ | exact tkProcessEvent_raises _ _
      $[| $alts:tactic]*
      | (apply Raises.tryCatch)
      | apply Raises.bind | apply Raises.bind' | apply Raises.forEach | apply Raises.foldM' | apply Raises.mapM'
      | intro _ | split | dsimp only ))

theorem logEntry_raises (e) : Raises (logEntry e) notExpr := Raises.modify _
theorem logError_raises (k a b c) : Raises (logError k a b c) notExpr := Raises.modify _

/-- **C11**: a status request never raises an expression error -/
theorem C11_request_never_raises_expr (req) : Raises (requestStatus req) notExpr := by
  unfold requestStatus
  raises_walk []

theorem nextTaskFor_raises (sx) : Raises (nextTaskFor E sx) notExpr := by
  unfold nextTaskFor
  raises_walk [logError_raises _ _ _ _]

theorem nextFrom_raises (todo) : Raises (nextFrom E todo) notExpr := by
  unfold nextFrom
  raises_walk [nextTaskFor_raises E _, C11_request_never_raises_expr _]

/-- **C11**: whatever the evaluator does — action, input, with-items list, concurrency and delay
    expressions may all fail — `get_next_tasks` never raises an expression error -/
theorem C11_next_never_raises_expr : Raises (getNextTasks E) notExpr :=
  ⟨fun c e s' h => (nextFrom_raises E (nextTodo c.st)).run c e s' h⟩

theorem addTaskState_raises (k a b) : Raises (addTaskState E k a b) notExpr := by
  unfold addTaskState
  raises_walk [logError_raises _ _ _ _, C11_request_never_raises_expr _]

theorem evaluateRoute_raises (e r) : Raises (evaluateRoute e r) notExpr := by
  unfold evaluateRoute
  raises_walk []

theorem stageNext_raises (k idx e o acc) : Raises (stageNext k idx e o acc) notExpr := by
  unfold stageNext stageTarget
  raises_walk [evaluateRoute_raises _ _]

theorem fireTransition_raises (k idx ec acc e) : Raises (fireTransition E k idx ec acc e) notExpr := by
  unfold fireTransition
  raises_walk [logError_raises _ _ _ _, C11_request_never_raises_expr _, stageNext_raises _ _ _ _ _]

theorem processTransition_raises (k idx ec acc e) : Raises (processTransition E k idx ec acc e) notExpr := by
  unfold processTransition
  raises_walk [logError_raises _ _ _ _, C11_request_never_raises_expr _, fireTransition_raises E _ _ _ _ _]

theorem makeTaskContext_raises (k idx r) : Raises (makeTaskContext k idx r) notExpr := by
  unfold makeTaskContext
  raises_walk []

theorem ensureRecord_raises (k s r ev) : Raises (ensureRecord E k s r ev) notExpr := by
  unfold ensureRecord firstRecord recordFromStaged
  raises_walk [addTaskState_raises E _ _ _]

theorem noteEvent_raises (k s ev) : Raises (noteEvent k s ev) notExpr := by
  unfold noteEvent
  raises_walk [logEntry_raises _]

theorem restageRetry_raises (k idx o) : Raises (restageRetry k idx o) notExpr := by
  unfold restageRetry
  raises_walk []

theorem completedRetryDecision_raises (k idx ts os ns ev) :
    Raises (completedRetryDecision E k idx ts os ns ev) notExpr := by
  unfold completedRetryDecision
  raises_walk [makeTaskContext_raises _ _ _, logError_raises _ _ _ _, C11_request_never_raises_expr _]

theorem evalTransitions_raises (k idx ts ev) : Raises (evalTransitions E k idx ts ev) notExpr := by
  unfold evalTransitions
  raises_walk [makeTaskContext_raises _ _ _, processTransition_raises E _ _ _ _ _]

theorem markTermIfCompleted_raises (idx) : Raises (markTermIfCompleted idx) notExpr := by
  unfold markTermIfCompleted
  raises_walk []

theorem machineStep_raises (k idx ev) : Raises (machineStep k idx ev) notExpr := by
  unfold machineStep
  raises_walk [restageRetry_raises _ _ _]

theorem updateHead_raises (k ev) : Raises (updateHead E k ev) notExpr := by
  unfold updateHead
  raises_walk [ensureRecord_raises E _ _ _ _, noteEvent_raises _ _ _, machineStep_raises _ _ _]

theorem updateTail_raises (recur : TaskKey → Event → M Unit) (hrec : ∀ k ev, Raises (recur k ev) notExpr)
    (k ev h) : Raises (updateTail E recur k ev h) notExpr := by
  unfold updateTail updateRest
  raises_walk [hrec _ _, completedRetryDecision_raises E _ _ _ _ _ _, evalTransitions_raises E _ _ _ _, markTermIfCompleted_raises _]

theorem updateTaskStateAux_raises (fuel k ev) : Raises (updateTaskStateAux E fuel k ev) notExpr := by
  induction fuel generalizing k ev with
  | zero => unfold updateTaskStateAux; exact Raises.throw (by intro hc; cases hc)
  | succ n ih =>
    unfold updateTaskStateAux
    raises_walk [updateHead_raises E _ _, updateTail_raises E _ (fun k ev => ih k ev) _ _ _]

/-- **C11**: whatever the evaluator does — retry condition/count/delay, transition conditions and
    publishes may all fail — `update_task_state` never raises an expression error -/
theorem C11_update_never_raises_expr (k ev) : Raises (updateTaskState E k ev) notExpr :=
  updateTaskStateAux_raises E 3 k ev

/-- **C11**: output rendering never raises an expression error -/
theorem terminalContext_raises : Raises terminalContext notExpr := by
  unfold terminalContext
  raises_walk []

theorem C11_render_never_raises_expr : Raises (renderOutput E) notExpr := by
  unfold renderOutput
  raises_walk [terminalContext_raises, logError_raises _ _ _ _, C11_request_never_raises_expr _]

/-- non-vacuity: an evaluator that always fails is an `Evaluator` -/
example : Raises (getNextTasks ⟨fun _ _ => none⟩) notExpr := C11_next_never_raises_expr _

end Orq
