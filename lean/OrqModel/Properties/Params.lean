/-
C20: the comma-separated `do` shorthand.  Model of `[x.strip() for x in s.split(",")]` on
character lists, and the theorem that it inverts joining task names with a comma and any
amount of surrounding blanks.  (The inline `name=value` scanner is a regular expression of the
`re` library: not modelled, see DESIGN; the correspondence check compares shorthand twins.)
-/
namespace Orq

/-- `s.split(",")` -/
def splitComma : List Char → List (List Char)
  | [] => [[]]
  | c :: cs =>
    if c = ',' then [] :: splitComma cs
    else match splitComma cs with
      | [] => [[c]]
      | w :: ws => (c :: w) :: ws

def dropBlanks : List Char → List Char
  | [] => []
  | c :: cs => if c = ' ' then dropBlanks cs else c :: cs

/-- `x.strip()` for blanks -/
def strip (w : List Char) : List Char := (dropBlanks (dropBlanks w).reverse).reverse

/-- a task name as the schema allows it: no comma, no blank, not empty -/
def NameOk (w : List Char) : Prop := w ≠ [] ∧ ∀ c ∈ w, c ≠ ',' ∧ c ≠ ' '

def blanks (n : Nat) : List Char := List.replicate n ' '

/-- names joined by commas, each padded with `pre i` blanks before and `post i` after -/
def joinPadded : List (List Char × Nat × Nat) → List Char
  | [] => []
  | [(w, a, b)] => blanks a ++ w ++ blanks b
  | (w, a, b) :: rest => blanks a ++ w ++ blanks b ++ [','] ++ joinPadded rest

theorem splitComma_ne_nil (l : List Char) : splitComma l ≠ [] := by
  induction l with
  | nil => simp [splitComma]
  | cons c cs ih =>
    unfold splitComma
    split
    · simp
    · split <;> simp

theorem splitComma_nocomma (w : List Char) (h : ∀ c ∈ w, c ≠ ',') : splitComma w = [w] := by
  induction w with
  | nil => rfl
  | cons c cs ih =>
    have hc : c ≠ ',' := h c List.mem_cons_self
    have := ih (fun x hx => h x (List.mem_cons_of_mem _ hx))
    simp [splitComma, hc, this]

theorem splitComma_append_comma (w rest : List Char) (h : ∀ c ∈ w, c ≠ ',') :
    splitComma (w ++ ',' :: rest) = w :: splitComma rest := by
  induction w with
  | nil => simp [splitComma]
  | cons c cs ih =>
    have hc : c ≠ ',' := h c List.mem_cons_self
    have := ih (fun x hx => h x (List.mem_cons_of_mem _ hx))
    simp [splitComma, hc, this]

theorem dropBlanks_blanks_append (n : Nat) (w : List Char) : dropBlanks (blanks n ++ w) = dropBlanks w := by
  induction n with
  | zero => rfl
  | succ k ih => simp [blanks, List.replicate_succ, dropBlanks] at ih ⊢; exact ih

theorem dropBlanks_name (w : List Char) (h : NameOk w) (rest : List Char) : dropBlanks (w ++ rest) = w ++ rest := by
  obtain ⟨hne, hc⟩ := h
  cases w with
  | nil => exact absurd rfl hne
  | cons c cs =>
    have : c ≠ ' ' := (hc c List.mem_cons_self).2
    simp [dropBlanks, this]

theorem reverse_nameOk (w : List Char) (h : NameOk w) : NameOk w.reverse :=
  ⟨by simpa using h.1, fun c hc => h.2 c (by simpa using hc)⟩

theorem strip_padded (w : List Char) (a b : Nat) (h : NameOk w) : strip (blanks a ++ w ++ blanks b) = w := by
  unfold strip
  rw [List.append_assoc, dropBlanks_blanks_append, dropBlanks_name w h]
  have hrev : (w ++ blanks b).reverse = blanks b ++ w.reverse := by
    simp [blanks]
  rw [hrev, dropBlanks_blanks_append]
  have := dropBlanks_name w.reverse (reverse_nameOk w h) []
  simp only [List.append_nil] at this
  rw [this]
  simp

theorem padded_nocomma (w : List Char) (a b : Nat) (h : NameOk w) : ∀ c ∈ blanks a ++ w ++ blanks b, c ≠ ',' := by
  intro c hc
  simp only [List.mem_append, blanks, List.mem_replicate] at hc
  rcases hc with (hc | hc) | hc
  · rw [hc.2]; decide
  · exact (h.2 c hc).1
  · rw [hc.2]; decide

/-- **C20**: splitting a comma-separated `do` string — with any number of blanks around each
    name — yields exactly the list of names, so `do: a, b` means `do: [a, b]` -/
theorem C20_do_split (names : List (List Char × Nat × Nat)) (hne : names ≠ [])
    (hok : ∀ p ∈ names, NameOk p.1) :
    (splitComma (joinPadded names)).map strip = names.map (·.1) := by
  induction names with
  | nil => exact absurd rfl hne
  | cons p ps ih =>
    obtain ⟨w, a, b⟩ := p
    have hw : NameOk w := hok (w, a, b) List.mem_cons_self
    cases ps with
    | nil =>
      simp only [joinPadded, List.map_cons, List.map_nil]
      rw [splitComma_nocomma _ (padded_nocomma w a b hw)]
      simp only [List.map_cons, List.map_nil, strip_padded w a b hw]
    | cons q qs =>
      have ih' := ih (by simp) (fun x hx => hok x (List.mem_cons_of_mem _ hx))
      simp only [joinPadded, List.map_cons]
      rw [List.append_assoc (blanks a ++ w ++ blanks b) [','] _, List.singleton_append,
        splitComma_append_comma _ _ (padded_nocomma w a b hw)]
      simp only [List.map_cons, strip_padded w a b hw]
      rw [ih']
      rfl

/-- non-vacuity -/
example : NameOk "task1".toList := by
  refine ⟨by decide, ?_⟩
  decide

end Orq
