/-
C11: what `get_next_tasks` does when rendering a staged task fails: the failure is recorded
against the task, and nothing is offered by that call -- wherever the failing entry stands.
-/
import OrqModel.Proofs.OfferCtx
import OrqModel.Proofs.Post

namespace Orq

variable (E : Evaluator)

theorem logEntry_mem (e : ErrEntry) (c c' : Cond) (u : Unit) (h : logEntry e c = (.ok u, c')) :
    ∃ e' ∈ c'.errors, e'.kind = e.kind ∧ e'.taskId = e.taskId ∧ e'.route = e.route := by
  unfold logEntry M.modify at h
  simp only [Prod.mk.injEq, true_and] at h
  subst h
  split
  · next ha =>
    obtain ⟨x, hx, hs⟩ := List.any_eq_true.mp ha
    refine ⟨x, hx, ?_⟩
    unfold ErrEntry.same at hs
    simp only [Bool.and_eq_true, beq_iff_eq] at hs
    exact ⟨hs.1.1.1.1, hs.1.1.1.2, hs.1.1.2⟩
  · exact ⟨e, List.mem_append_right _ (List.mem_singleton.mpr rfl), rfl, rfl, rfl⟩

/-- **C11**: when rendering a staged task fails, nothing is offered for it and an error entry
    naming the task and its route is in the log -/
theorem C11_render_failure_recorded (sx : Staged) (c c' : Cond) (o : Option Offer)
    (h : nextTaskFor E sx c = (.ok (o, true), c')) :
    o = none ∧ ∃ e ∈ c'.errors, e.taskId = some sx.id ∧ e.route = some sx.route := by
  unfold nextTaskFor at h
  rcases tryCatch_ok h with h1 | ⟨err, c1, _, h2⟩
  · exfalso
    obtain ⟨o1, c2, _, g1⟩ := M.bind_ok h1
    obtain ⟨o2, c3, _, g2⟩ := M.bind_ok g1
    dsimp only at g2
    split at g2
    · cases (pure_ok g2).1
    · split at g2
      · cases (pure_ok g2).1
      · cases (pure_ok g2).1
  · obtain ⟨u, c2, g1, g2⟩ := M.bind_ok h2
    obtain ⟨ho, hc⟩ := pure_ok g2
    subst hc
    refine ⟨by cases ho; rfl, ?_⟩
    obtain ⟨e, he, _, h3, h4⟩ := logEntry_mem _ _ _ _ g1
    exact ⟨e, he, h3, h4⟩

theorem foldM'_append_ok {α β} (f : β → α → M β) : ∀ (pre post : List α) (b b' : β) (c c' : Cond),
    M.foldM' (pre ++ post) b f c = (.ok b', c') →
    ∃ b1 c1, M.foldM' pre b f c = (.ok b1, c1) ∧ M.foldM' post b1 f c1 = (.ok b', c') := by
  intro pre
  induction pre with
  | nil => intro post b b' c c' h; exact ⟨b, c, rfl, h⟩
  | cons x xs ih =>
    intro post b b' c c' h
    change (f b x >>= fun b1 => M.foldM' (xs ++ post) b1 f) c = _ at h
    obtain ⟨b1, c1, h1, h2⟩ := M.bind_ok h
    obtain ⟨b2, c2, h3, h4⟩ := ih post b1 b' c1 c' h2
    refine ⟨b2, c2, ?_, h4⟩
    change (f b x >>= fun b1 => M.foldM' xs b1 f) c = _
    rw [M.bind_run, h1]
    exact h3

/-- the body of the loop of `get_next_tasks` -/
def nextBody (acc : List Offer × Bool) (sx : Staged) : M (List Offer × Bool) := do
  let (o, f) ← nextTaskFor E sx
  pure (match o with | some o => acc.1 ++ [o] | none => acc.1, acc.2 || f)

theorem nextBody_sticky (rest : List Staged) (acc : List Offer × Bool) (h : acc.2 = true) :
    Post (M.foldM' rest acc (nextBody E)) (fun r => r.2 = true) := by
  refine Post.foldM' rest acc _ h ?_
  intro b a hb _
  unfold nextBody
  refine Post.bind fun p => ?_
  obtain ⟨o, f⟩ := p
  exact Post.pure (by simp [hb])

/-- **C11**: if rendering any of the staged tasks fails, `get_next_tasks` offers nothing at all:
    wherever the failing entry stands in the list and whatever the others rendered to -/
theorem C11_render_failure_offers_nothing (pre rest : List Staged) (sx : Staged) (c c1 c2 c' : Cond)
    (acc1 : List Offer × Bool) (o : Option Offer) (offers : List Offer)
    (hpre : M.foldM' pre (([] : List Offer), false) (nextBody E) c = (.ok acc1, c1))
    (hsx : nextTaskFor E sx c1 = (.ok (o, true), c2))
    (h : nextFrom E (pre ++ sx :: rest) c = (.ok offers, c')) : offers = [] := by
  unfold nextFrom at h
  obtain ⟨r, c3, h1, h2⟩ := M.bind_ok h
  change M.foldM' (pre ++ sx :: rest) (([] : List Offer), false) (nextBody E) c = _ at h1
  obtain ⟨b1, c4, h3, h4⟩ := foldM'_append_ok (nextBody E) pre (sx :: rest) _ _ _ _ h1
  rw [hpre] at h3
  cases h3
  change (nextBody E acc1 sx >>= fun b1 => M.foldM' rest b1 (nextBody E)) c1 = _ at h4
  obtain ⟨b2, c5, h5, h6⟩ := M.bind_ok h4
  have hb2 : b2.2 = true := by
    unfold nextBody at h5
    rw [M.bind_run, hsx] at h5
    have := (pure_ok h5).1
    rw [← this]
    simp
  have hr : r.2 = true := (nextBody_sticky E rest b2 hb2).run _ _ _ h6
  obtain ⟨os, fl⟩ := r
  dsimp only at hr h2
  subst hr
  simp only [if_true] at h2
  obtain ⟨_, c6, _, h7⟩ := M.bind_ok h2
  exact ((pure_ok h7).1).symm
theorem renderTask_plain (ev : Expr → EvalCtx → Option Val) (ts : TaskSpec) (vars : Val.Dict) (k : TaskKey)
    (o : Offer) (hw : ts.withItems = none) (h : renderTask ev ts vars k = .ok o) :
    o.actions.isEmpty = false ∧ o.itemsCount = none := by
  unfold renderTask at h
  simp only [hw, bind, Except.bind, pure, Except.pure] at h
  repeat' split at h
  all_goals first
    | (cases h; done)
    | (cases h
       rename_i _ _ h1 _ _ _
       refine ⟨?_, rfl⟩
       split at h1
       · cases h1
       · cases h1; rfl)

theorem getTask_plain (k : TaskKey) (c c' : Cond) (o : Offer) (ts : TaskSpec)
    (hts : c.spec.getTask? k.1 = some ts) (hw : ts.withItems = none)
    (h : getTask E k c = (.ok o, c')) : o.actions.isEmpty = false ∧ o.itemsCount = none := by
  unfold getTask at h
  obtain ⟨c0, c1, hget, h1⟩ := M.bind_ok h
  obtain ⟨e1, e2⟩ := get_ok hget
  subst e1 e2
  obtain ⟨vars, c2, hv, h2⟩ := M.bind_ok h1
  obtain ⟨_, e⟩ := liftExcept_ok hv
  subst e
  obtain ⟨ts', c3, ht, h3⟩ := M.bind_ok h2
  obtain ⟨ht', e⟩ := liftOpt_ok ht
  subst e
  rw [hts] at ht'
  cases ht'
  obtain ⟨hr, _⟩ := liftExcept_ok h3
  exact renderTask_plain _ ts vars k o hw hr

/-- **C11/C03**: a staged task that does not iterate over items is either offered or its rendering
    failed (and then the call offers nothing and fails the workflow): `get_next_tasks` never
    silently passes over it -/
theorem C11_plain_task_offered_or_failed (sx : Staged) (c c' : Cond) (ts : TaskSpec) (o : Option Offer) (f : Bool)
    (hts : c.spec.getTask? sx.id = some ts) (hw : ts.withItems = none)
    (h : nextTaskFor E sx c = (.ok (o, f), c')) : f = true ∨ o.isSome = true := by
  unfold nextTaskFor at h
  rcases tryCatch_ok h with h1 | ⟨err, c1, _, h2⟩
  · right
    obtain ⟨o1, c2, hg, g1⟩ := M.bind_ok h1
    obtain ⟨hp1, hp2⟩ := getTask_plain E (sx.id, sx.route) c c2 o1 ts hts hw hg
    obtain ⟨o2, c3, he, g2⟩ := M.bind_ok g1
    have ho2 : o2 = o1 := by
      unfold evaluateTaskActions at he
      simp only [hp2] at he
      exact ((pure_ok he).1).symm
    subst ho2
    have hne : (withRetryDelay sx o2).actions.isEmpty = false := by
      unfold withRetryDelay
      split <;> exact hp1
    dsimp only at g2
    simp only [hne, Bool.not_false, if_true] at g2
    have := (pure_ok g2).1
    injection this with h3 _
    rw [← h3]
    rfl
  · left
    obtain ⟨u, c2, _, g2⟩ := M.bind_ok h2
    have := (pure_ok g2).1
    injection this with _ h4
    exact h4.symm
end Orq
